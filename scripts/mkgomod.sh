#!/bin/bash
# Regenerate /verif/engine/go.mod + go.sum from /repo's current go.mod/go.sum.
set -e
E=/verif/engine
{
  echo "module verif"
  echo
  sed -n '/^go /p' /repo/go.mod
  echo
  echo "require github.com/uber/kraken v0.0.0"
  echo "require github.com/anishathalye/porcupine v1.3.0"
  echo
  # copy every require / replace block verbatim
  awk '/^require \(/,/^\)/ {print; next} /^require /{print; next} /^replace /{print; next}' /repo/go.mod
  echo
  echo "replace github.com/uber/kraken => /repo"
} > $E/go.mod.new
cp /repo/go.sum $E/go.sum.new
# porcupine sums
grep -h porcupine /root/go/pkg/mod/cache/download/github.com/anishathalye/porcupine/@v/*.ziphash >/dev/null 2>&1 || true
mv $E/go.mod.new $E/go.mod
if [ -f $E/go.sum ]; then cat $E/go.sum $E/go.sum.new | sort -u > $E/go.sum.m; mv $E/go.sum.m $E/go.sum; rm $E/go.sum.new; else mv $E/go.sum.new $E/go.sum; fi
