#!/bin/bash
# setup_cmd: build the framework offline and warm the build cache.
set -e
export GOFLAGS=-mod=mod GOPROXY=off
mkdir -p /verif/bin /verif/evidence /verif/replays
/verif/scripts/mkgomod.sh
cd /verif/engine
go build -o /verif/bin/overlaygen ./cmd/overlaygen
# warm caches: build every check once (overlay builds share most of the cache)
for d in checks/*/; do
  id=$(basename $d)
  if [ -f $d/GO126 ]; then continue; fi
  go build -tags verif -o /dev/null ./$d 2>/dev/null || true
done
for d in checks/*/; do
  if [ -f $d/GO126 ]; then GOTOOLCHAIN=local go1.26.8 build -tags verif -o /dev/null ./$d 2>/dev/null || true; fi
done
echo setup ok
