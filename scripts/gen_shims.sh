#!/bin/bash
# vsyncq: a second copy of vsync with its own Points switch, for packages whose
# lock operations should be scheduling points only in selected phases.
set -e
S=/verif/engine/shim
mkdir -p $S/vsyncq
sed -e 's/^package vsync$/package vsyncq/' -e 's/^\/\/ Package vsync /\/\/ Package vsyncq (GENERATED from vsync by scripts\/gen_shims.sh) /' $S/vsync/vsync.go > $S/vsyncq/vsyncq.go
