#!/usr/bin/env python3
"""mkmut.py <worktree> <PID> <name> <file> : reads OLD and NEW blocks from stdin separated by a line '=====' and writes /verif/mutants/PID/name.diff"""
import sys, subprocess, os
wt, pid, name, f = sys.argv[1:5]
old, new = sys.stdin.read().split('\n=====\n')
p = os.path.join(wt, f)
s = open(p).read()
if old not in s:
    sys.exit('OLD block not found in ' + f)
open(p, 'w').write(s.replace(old, new.rstrip('\n') + ('\n' if old.endswith('\n') else ''), 1))
d = subprocess.run(['git', '-C', wt, 'diff'], capture_output=True, text=True).stdout
os.makedirs(f'/verif/mutants/{pid}', exist_ok=True)
open(f'/verif/mutants/{pid}/{name}.diff', 'w').write(d)
subprocess.run(['git', '-C', wt, 'checkout', '--', '.'])
print('wrote', f'/verif/mutants/{pid}/{name}.diff')
