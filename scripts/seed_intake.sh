#!/bin/bash
# usage: seed_intake.sh <ID> [name]  -- verify a sub-agent's seeded change (/tmp/seed-ID, /tmp/seed-ID-out)
# and store it under /verif/seeded/<ID>-<name>/ with meta.json.
ID=$1; NAME=${2:-1}
R=${SEED_ROUND:-}; WT=/tmp/seed$R-$ID; OUT=/tmp/seed$R-$ID-out
export GOFLAGS=-mod=mod GOPROXY=off
[ -f $OUT/patch.diff ] || { echo "no patch.diff"; exit 2; }
DST=/verif/seeded/$ID-$NAME; mkdir -p $DST
cp $OUT/patch.diff $DST/patch.diff; cp $OUT/notes.md $DST/notes.md 2>/dev/null
for f in $OUT/*; do case "$f" in *patch.diff|*notes.md) ;; *) cp -r "$f" $DST/ ;; esac; done
applies=no; git -C /repo apply --check $DST/patch.diff 2>/dev/null && applies=yes
PKGS=$(git -C /repo apply --numstat $DST/patch.diff | awk '{print $3}' | grep '\.go$' | xargs -n1 dirname | sort -u | sed 's#^#./#; s#$#/...#' | tr '\n' ' ')
# scratch worktree with the patch
V=/tmp/seedverify-$ID; git -C /repo worktree remove --force $V 2>/dev/null; git -C /repo worktree add -q --detach $V HEAD
git -C $V apply $DST/patch.diff || { echo "PATCH DOES NOT APPLY"; }
build=fail; (cd $V && go build ./... >/dev/null 2>&1) && build=ok
tests=fail; TL=$(cd $V && go test -vet=off -count=1 $PKGS 2>&1 | grep -E "^(FAIL|---)" | head -5); [ -z "$TL" ] && tests=ok
echo "applies=$applies build=$build existing_tests($PKGS)=$tests $TL"
# detection by my checks
Q=$(/verif/scripts/mutant.sh $DST/patch.diff $ID quick 2>&1 | tail -3); echo "$Q" | tail -2
dq=false; echo "$Q" | grep -q "^DETECTED" && dq=true
dt=false
if [ $dq = false ] && [ "${SKIP_THOROUGH:-}" = "" ]; then T=$(timeout 1500 /verif/scripts/mutant.sh $DST/patch.diff $ID thorough 2>&1 | tail -3); echo "$T" | tail -2; echo "$T" | grep -q "^DETECTED" && dt=true; fi
FP=$(echo "$Q" | grep "fingerprint:" | head -2 | sed 's/^ *fingerprint: //' | tr '\n' ';')
python3 - "$ID" "$NAME" "$applies" "$build" "$tests" "$dq" "$dt" "$FP" <<'PY'
import json,sys,os
ID,NAME,applies,build,tests,dq,dt,fp=sys.argv[1:9]
d={"property":ID,"dir":f"{ID}-{NAME}","applies_to_repo_head":applies=="yes","build":build,"existing_tests_of_touched_packages":tests,
   "detected_by_quick":dq=="true","detected_by_thorough":dt=="true","fingerprints":fp,
   "needs":"","demo":"", "ran":[f"git -C /repo apply --check patch.diff", "go build ./... ; go test of touched packages in a scratch worktree with the patch", f"scripts/mutant.sh seeded/{ID}-{NAME}/patch.diff {ID} quick|thorough"]}
p=f"/verif/seeded/{ID}-{NAME}/meta.json"
if os.path.exists(p):
    old=json.load(open(p)); d["needs"]=old.get("needs",""); d["demo"]=old.get("demo",""); d["demo_verified"]=old.get("demo_verified","")
json.dump(d,open(p,"w"),indent=1)
PY
git -C /repo worktree remove --force $V
