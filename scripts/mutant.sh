#!/bin/bash
# usage: mutant.sh <patch.diff> <ID> [tier]
# Applies a property-breaking patch to /repo, runs the check, ALWAYS reverts.
# Exit 0 when the check reported a VIOLATION (mutant detected), 1 otherwise.
P=$(readlink -f "$1"); ID=$2; TIER=${3:-quick}
if ! git -C /repo diff --quiet; then echo "refusing: /repo has uncommitted changes" >&2; exit 2; fi
git -C /repo apply "$P" || { echo "patch does not apply" >&2; exit 2; }
trap 'git -C /repo checkout -- . ; git -C /repo clean -fdq' EXIT
OUT=$(VERIF_ROOT=/verif /verif/run.sh $ID $TIER 2>&1); rc=$?
echo "$OUT" | grep -E "VIOLATION|KNOWN-FINDING|HARNESS-ERROR|fingerprint|^$ID " | head -12
# restore evidence written by the mutant run
git -C /verif checkout -- evidence/$ID.json 2>/dev/null
if [ $rc -eq 1 ] && echo "$OUT" | grep -q "^VIOLATION property=$ID"; then echo "MUTANT DETECTED ($1)"; exit 0; fi
echo "MUTANT MISSED ($1) rc=$rc"; exit 1
