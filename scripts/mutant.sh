#!/bin/bash
# usage: mutant.sh <patch.diff> <ID> [tier]
# Runs check <ID> against /repo + patch (through the build overlay; /repo and
# /verif/evidence are untouched). Exit 0 when the check reported a VIOLATION
# (change detected), 1 when missed, 2 on harness error.
P=$(readlink -f "$1"); ID=$2; TIER=${3:-quick}
OUT=$(VERIF_PATCH="$P" /verif/run.sh $ID $TIER 2>&1); rc=$?
echo "$OUT" | grep -E "VIOLATION|KNOWN-FINDING|HARNESS-ERROR|fingerprint:|^$ID " | head -12
if [ $rc -eq 1 ] && echo "$OUT" | grep -q "^VIOLATION property=$ID"; then echo "DETECTED $ID $P"; exit 0; fi
if [ $rc -eq 2 ]; then echo "$OUT" | tail -5; echo "HARNESS-ERROR $ID $P"; exit 2; fi
echo "MISSED $ID $P (rc=$rc)"; exit 1
