#!/bin/bash
# usage: verify_check.sh <ID> : quick run on the unchanged tree + every mutant
ID=$1
S=$(date +%s)
OUT=$(/verif/run.sh $ID quick 2>&1); rc=$?
E=$(date +%s)
echo "== $ID quick rc=$rc wall=$((E-S))s :: $(echo "$OUT" | grep "^$ID " | tail -1)"
echo "$OUT" | grep -E "^VIOLATION|KNOWN-FINDING|HARNESS" | head -5
for m in /verif/mutants/$ID/*.diff; do
  [ -f "$m" ] || continue
  /verif/scripts/mutant.sh $m $ID quick 2>&1 | tail -1
done
