#!/usr/bin/env python3
"""Regenerate /verif/MANIFEST.json from engine/checks/*/check.json.
Properties without a check directory are listed under not_applicable with the
reason recorded in scripts/not_claimed.json (default: not built yet)."""
import json, os, glob
R = '/verif'
props = [json.loads(l)['id'] for l in open(f'{R}/properties.jsonl')]
checks = []
have = set()
for d in sorted(glob.glob(f'{R}/engine/checks/c*/')):
    mf = os.path.join(d, 'check.json')
    if not os.path.exists(mf) or not os.path.exists(os.path.join(d, 'READY')):
        continue  # READY is created by the coordinator after review
    m = json.load(open(mf))
    pid = m['property_id']
    have.add(pid)
    checks.append({
        'property_id': pid,
        'quick_cmd': f'./run.sh {pid} quick',
        'thorough_cmd': f'./run.sh {pid} thorough',
        'evidence_file': f'/verif/evidence/{pid}.json',
        'replay_cmd_template': f'./run.sh {pid} quick --replay {{path}}',
        'engine': m.get('engine', ''),
        'level_claimed': {'category': m['category'], 'text': m['text'], 'design_ref': m.get('design_ref', '')},
        'level_note': m['level_note'],
        'technique': m['technique'],
    })
nc = {}
p = f'{R}/scripts/not_claimed.json'
if os.path.exists(p):
    nc = json.load(open(p))
na = [{'property_id': i, 'reason': nc.get(i, 'check not built yet in this round; see DESIGN.md for the planned exploration')} for i in props if i not in have]
man = {
    'version': 1,
    'setup_cmd': './scripts/setup.sh',
    'hooks': {
        'guard': 'verif',
        'enable': 'no source hooks are committed to /repo: checks instrument selected packages at build time with `go build -overlay` (import rewrites sync->verif/shim/vsync etc. and added export files, generated from /repo\'s current working tree by bin/overlaygen) and build with -tags verif',
        'baseline_off_cmd': 'cd /repo && go test -mod=mod -json -vet=off -count=1 -timeout 25m ./...',
        'source_commits': [],
        'add_only': True,
    },
    'engines': [
        {'name': 'E1 vrt', 'path': 'engine/vrt', 'kind_free_text': 'cooperative scheduler + deviation-bounded DFS over thread interleavings and environment answers of the real code (stateless model checking), sharded over worker processes', 'serves_properties': []},
        {'name': 'E3 bfs', 'path': 'engine/bfs', 'kind_free_text': 'explicit-state breadth-first search over operation histories of real objects, every transition executed on the implementation and compared with a reference model', 'serves_properties': []},
        {'name': 'E2 crash', 'path': 'engine/shim/vos', 'kind_free_text': 'crash-point enumeration: every prefix of the mutating file-system primitives of a history, then real recovery', 'serves_properties': []},
        {'name': 'E4 enum', 'path': 'engine/checks', 'kind_free_text': 'small-scope exhaustive input enumeration against an independent reference', 'serves_properties': []},
    ],
    'checks': checks,
    'not_applicable': na,
    'notes': 'All checks: ./run.sh <ID> quick|thorough [--replay file]; exit 0 held / 1 VIOLATION / 2 harness error. Known findings: /verif/known_findings.json.',
}
for e in man['engines']:
    tag = e['name'].split()[0]
    e['serves_properties'] = [c['property_id'] for c in checks if tag in c['engine']]
json.dump(man, open(f'{R}/MANIFEST.json', 'w'), indent=1)
print('checks:', len(checks), 'not_applicable:', len(na))
