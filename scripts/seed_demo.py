#!/usr/bin/env python3
"""Verify a seeded change's demonstration: it must FAIL with patch.diff applied
and PASS on the unmodified tree. Destination path and command come from notes.md."""
import re, sys, os, subprocess, json, shutil, glob
sd=os.path.abspath(sys.argv[1].rstrip('/'))
notes=open(sd+'/notes.md').read() if os.path.exists(sd+'/notes.md') else ''
demos=sorted(glob.glob(sd+'/demo*_test.go')+glob.glob(sd+'/*_test.go'))
demos=list(dict.fromkeys(demos))
env=dict(os.environ, GOFLAGS='-mod=mod', GOPROXY='off')
def wt(name, patch):
    p='/tmp/seeddemo-'+name
    subprocess.run(['git','-C','/repo','worktree','remove','--force',p],capture_output=True)
    subprocess.run(['git','-C','/repo','worktree','add','-q','--detach',p,'HEAD'],check=True)
    if patch: subprocess.run(['git','-C',p,'apply',sd+'/patch.diff'],check=True)
    return p
res={}
pairs=[]
for d in demos:
    pk=re.search(r'^package (\w+)',open(d).read(),re.M).group(1)
    base=os.path.basename(d)
    # destination dirs mentioned in notes near this file name, else any dir mentioned with _test.go
    cands=re.findall(r'((?:[\w.-]+/)+)[\w.-]*_test\.go',notes)
    cands=[c.strip('`/ ') for c in cands]+[c.strip('`/ .,;:)(') for c in re.findall(r'((?:[\w.-]+/)+[\w.-]*)',notes)]
    cands=[c.split('seed-')[-1].split('/',1)[-1] if 'seed-' in c else c for c in cands]
    dest=None
    for c in cands:
        c=c.lstrip('/')
        if os.path.isdir('/repo/'+c):
            pkgname=pk[:-5] if pk.endswith('_test') else pk
            gf=glob.glob('/repo/'+c+'/*.go')
            if any(re.search(r'^package '+pkgname+r'\b',open(g).read(),re.M) for g in gf[:5]):
                dest=c; break
    pairs.append((d,dest))
out=[]
for patched in (True,False):
    p=wt('p' if patched else 'u', patched)
    for d,dest in pairs:
        if not dest: out.append((d,patched,'NODEST')); continue
        shutil.copy(d, f'{p}/{dest}/zz_seed_{os.path.basename(d)}')
    for dest in sorted(set(x for _,x in pairs if x)):
        r=subprocess.run(['go','test','-vet=off','-count=1','-run','.*(?i)(demo|seed|C[0-9][0-9]).*','./'+dest+'/'],cwd=p,env=env,capture_output=True,text=True,timeout=900)
        ok = r.returncode==0
        out.append((dest,patched,'PASS' if ok else 'FAIL'))
    subprocess.run(['git','-C','/repo','worktree','remove','--force',p],capture_output=True)
with_patch=[x for x in out if x[1]]; without=[x for x in out if not x[1]]
verdict = bool(with_patch) and all(x[2]=='FAIL' for x in with_patch) and all(x[2]=='PASS' for x in without)
print(sd, 'with patch:',[(x[0],x[2]) for x in with_patch],'without:',[(x[0],x[2]) for x in without],'=>','OK' if verdict else 'CHECK')
mp=sd+'/meta.json'
if os.path.exists(mp):
    m=json.load(open(mp)); m['demo_verified']='fails with patch, passes without (scripts/seed_demo.py, scratch worktrees of /repo HEAD)' if verdict else 'NOT confirmed automatically: '+str(out)
    m.setdefault('ran',[])
    if 'scripts/seed_demo.py' not in ' '.join(m['ran']): m['ran'].append('scripts/seed_demo.py seeded/<dir>: demo test copied into its package in two scratch worktrees (with / without patch.diff)')
    json.dump(m,open(mp,'w'),indent=1)
