#!/bin/bash
# usage: run.sh <ID> [quick|thorough] [--replay file]
# Rebuilds the check for property <ID> from /repo's current working tree
# (instrumentation by `go build -overlay`, /repo is never edited) and runs it.
set -u
ID="$1"; shift
id=$(echo "$ID" | tr 'A-Z' 'a-z')
export GOFLAGS=-mod=mod GOPROXY=off
export VERIF_ROOT=/verif
E=/verif/engine
D=$E/checks/$id
if [ ! -d "$D" ]; then echo "HARNESS-ERROR unknown check $ID" >&2; exit 2; fi
SCR=$(mktemp -d /dev/shm/verif-$id-XXXXXX)
export VERIF_SCRATCH=$SCR TMPDIR=$SCR
trap 'rm -rf "$SCR"' EXIT
GO=go
if [ -f "$D/GO126" ]; then GO=go1.26.8; export GOTOOLCHAIN=local; fi
/verif/scripts/mkgomod.sh || { echo "HARNESS-ERROR go.mod generation failed" >&2; exit 2; }
cd $E
OV=""
if [ -f "$D/overlay.spec.json" ]; then
  SPEC="$D/overlay.spec.json"
  if [ -n "${VERIF_MUTANT_SPEC:-}" ]; then SPEC="$VERIF_MUTANT_SPEC"; fi
  /verif/bin/overlaygen -repo /repo -spec "$SPEC" -out $SCR/ov || { echo "HARNESS-ERROR overlaygen failed" >&2; exit 2; }
  OV="-overlay $SCR/ov/overlay.json"
fi
BIN=$SCR/check-$id
if ! $GO build $OV -tags verif -o $BIN ./checks/$id 2>$SCR/build.log; then
  cat $SCR/build.log >&2
  echo "HARNESS-ERROR build failed for $ID" >&2; exit 2
fi
cd /verif
$BIN "$@"
rc=$?
exit $rc
