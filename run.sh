#!/bin/bash
# usage: run.sh <ID> [quick|thorough] [--replay file]
# Rebuilds the check for property <ID> from /repo's current working tree
# (instrumentation by `go build -overlay`; /repo is never edited) and runs it.
# VERIF_PATCH=<diff>: additionally overlay the files changed by a patch against
# /repo (detection experiments / candidate fixes) -- /repo stays untouched and
# evidence/replays go to the scratch dir instead of /verif.
set -u
ID="$1"; shift
id=$(echo "$ID" | tr 'A-Z' 'a-z')
export GOFLAGS=-mod=mod GOPROXY=off
export VERIF_ROOT=/verif
E=/verif/engine
D=$E/checks/$id
if [ ! -d "$D" ]; then echo "HARNESS-ERROR unknown check $ID" >&2; exit 2; fi
[ -n "${VERIF_PATCH:-}" ] && VERIF_PATCH=$(readlink -f "$VERIF_PATCH")
SCR=$(mktemp -d /dev/shm/verif-$id-XXXXXX)
export VERIF_SCRATCH=$SCR TMPDIR=$SCR
trap 'rm -rf "$SCR"' EXIT
GO=go
if [ -f "$D/GO126" ]; then GO=go1.26.8; export GOTOOLCHAIN=local; fi
if [ ! -f $E/go.mod ] || [ /repo/go.mod -nt $E/go.mod ] || [ /repo/go.sum -nt $E/go.sum ]; then
  /verif/scripts/mkgomod.sh || { echo "HARNESS-ERROR go.mod generation failed" >&2; exit 2; }
fi
if [ ! -x /verif/bin/overlaygen ]; then (cd $E && go build -o /verif/bin/overlaygen ./cmd/overlaygen) || exit 2; fi
cd $E
SPEC=""
[ -f "$D/overlay.spec.json" ] && SPEC="$D/overlay.spec.json"
if [ -n "${VERIF_PATCH:-}" ]; then
  P=$(readlink -f "$VERIF_PATCH")
  mkdir -p $SCR/patched $SCR/evidence $SCR/replays
  export VERIF_EVIDENCE_DIR=$SCR/evidence VERIF_REPLAY_DIR=$SCR/replays
  FILES=$(git -C /repo apply --numstat "$P" | awk '{print $3}')
  for f in $FILES; do mkdir -p $SCR/patched/$(dirname $f); [ -f /repo/$f ] && cp /repo/$f $SCR/patched/$f; done
  patch -s -p1 -d $SCR/patched < "$P" || { echo "HARNESS-ERROR patch does not apply" >&2; exit 2; }
  python3 - "$SPEC" "$SCR" $FILES > $SCR/spec.json <<'PY'
import json, os, sys
spec, scr, files = sys.argv[1], sys.argv[2], sys.argv[3:]
sp = json.load(open(spec)) if spec else {}
base = os.path.dirname(spec) if spec else ''
for k in ('add', 'replace', 'abs'):
    for a in sp.get(k, []):
        if not os.path.isabs(a['from']):
            a['from'] = os.path.join(base, a['from'])
for f in files:
    tgt = 'replace' if os.path.exists('/repo/' + f) else 'add'
    sp.setdefault(tgt, []).append({'to': f, 'from': os.path.join(scr, 'patched', f)})
print(json.dumps(sp))
PY
  SPEC=$SCR/spec.json
fi
OV=""
if [ -n "$SPEC" ]; then
  /verif/bin/overlaygen -repo /repo -spec "$SPEC" -out $SCR/ov || { echo "HARNESS-ERROR overlaygen failed" >&2; exit 2; }
  OV="-overlay $SCR/ov/overlay.json"
fi
BIN=$SCR/check-$id
if ! $GO build $OV -tags verif -o $BIN ./checks/$id 2>$SCR/build.log; then
  cat $SCR/build.log >&2
  echo "HARNESS-ERROR build failed for $ID" >&2; exit 2
fi
cd /verif
# Race pass (thorough tier, checks with a RACE marker): the same harness bodies run
# free under the race detector; a race whose two accesses are both in kraken code
# fails the check (the cooperative scheduler's hand-offs would hide it otherwise).
TIER=${VERIF_TIER:-quick}
for a in "$@"; do case "$a" in quick|thorough) TIER=$a;; esac; done
if [ -f "$D/RACE" ] && [ "$TIER" = thorough ] && [ -z "${VRT_WORKER:-}" ]; then
  if (cd $E && $GO build -race $OV -tags verif -o $BIN.race ./checks/$id 2>$SCR/build-race.log); then
    VRT_FREE=${VERIF_RACE_RUNS:-40} GORACE="halt_on_error=0 log_path=$SCR/race" timeout 900 $BIN.race >/dev/null 2>$SCR/race.stderr
    python3 - "$SCR" "$ID" <<'PY'
import glob, re, sys, os, shutil
scr, pid = sys.argv[1], sys.argv[2]
bad = []
for f in glob.glob(scr + '/race.*'):
    if f.endswith('.stderr'): continue
    txt = open(f, errors='replace').read()
    for rep in txt.split('WARNING: DATA RACE')[1:]:
        rep = rep.split('==================')[0]
        # first frame (function line + file line) of each of the two access stacks
        tops = re.findall(r'(?:Read|Write|Previous read|Previous write) at .*?\n\s+(\S+)\n\s+(\S+?):\d+', rep)
        if len(tops) >= 2 and all(('uber/kraken' in fn and 'Verif' not in fn) for fn, _ in tops[:2]):
            bad.append(rep)
if bad:
    os.makedirs('/verif/replays', exist_ok=True)
    out = f'/verif/replays/{pid}-datarace.txt'
    open(out, 'w').write('WARNING: DATA RACE' + '\n==================\nWARNING: DATA RACE'.join(bad[:5]))
    print(f'VIOLATION property={pid} replay={out}')
    print('  fingerprint: data race between two kraken accesses in a harness body run free under -race')
    sys.exit(1)
print(f'{pid} race pass: no race between kraken accesses')
PY
    [ $? -eq 1 ] && exit 1
  else
    echo "race pass skipped: -race build failed" >&2
  fi
fi
$BIN "$@"
exit $?
