// overlaygen produces a `go build -overlay` file that instruments selected
// packages of /repo WITHOUT editing /repo: import rewrites (sync -> vsync, ...),
// `go` statement rewrites (-> vrt.Go), added export files and (for detection
// demos) replaced files. It always reads /repo's current working tree.
package main

import (
	"bytes"
	"encoding/json"
	"flag"
	"fmt"
	"go/ast"
	"go/parser"
	"go/printer"
	"go/token"
	"os"
	"path/filepath"
	"strconv"
	"strings"
)

type pkgSpec struct {
	Dir     string            `json:"dir"`
	Imports map[string]string `json:"imports"`
	GoStmt  bool              `json:"gostmt"`
	Files   []string          `json:"files"` // optional: restrict to these base names
}

type addSpec struct {
	To   string `json:"to"`   // path relative to repo
	From string `json:"from"` // path relative to the spec file
}

type spec struct {
	Packages []pkgSpec `json:"packages"`
	Add      []addSpec `json:"add"`
	Replace  []addSpec `json:"replace"`
	Abs      []addSpec `json:"abs"` // absolute target paths (third-party files)
}

func main() {
	repo := flag.String("repo", "/repo", "repository root")
	specPath := flag.String("spec", "", "spec json")
	out := flag.String("out", "", "output dir (overlay.json + rewritten files)")
	flag.Parse()
	b, err := os.ReadFile(*specPath)
	check(err)
	var sp spec
	check(json.Unmarshal(b, &sp))
	check(os.MkdirAll(*out, 0o755))
	repl := map[string]string{}
	base := filepath.Dir(*specPath)
	replaced := map[string]string{}
	rel := func(p string) string {
		if filepath.IsAbs(p) {
			return p
		}
		return filepath.Join(base, p)
	}
	for _, r := range sp.Replace {
		replaced[filepath.Join(*repo, r.To)] = rel(r.From)
	}
	for _, p := range sp.Packages {
		dir := filepath.Join(*repo, p.Dir)
		ents, err := os.ReadDir(dir)
		check(err)
		for _, e := range ents {
			n := e.Name()
			if e.IsDir() || !strings.HasSuffix(n, ".go") || strings.HasSuffix(n, "_test.go") {
				continue
			}
			if len(p.Files) > 0 && !contains(p.Files, n) {
				continue
			}
			src := filepath.Join(dir, n)
			in := src
			if r, ok := replaced[src]; ok {
				in = r
			}
			outFile := filepath.Join(*out, strings.ReplaceAll(p.Dir, "/", "__")+"__"+n)
			changed, err := rewrite(in, outFile, p)
			check(err)
			if changed {
				repl[src] = outFile
			} else if in != src {
				repl[src] = in
			}
		}
	}
	for src, r := range replaced {
		if _, ok := repl[src]; !ok {
			repl[src] = r
		}
	}
	for _, a := range sp.Add {
		from := rel(a.From)
		if _, err := os.Stat(from); err != nil {
			check(err)
		}
		repl[filepath.Join(*repo, a.To)] = from
	}
	for _, a := range sp.Abs {
		repl[a.To] = rel(a.From)
	}
	ob, _ := json.MarshalIndent(map[string]interface{}{"Replace": repl}, "", " ")
	check(os.WriteFile(filepath.Join(*out, "overlay.json"), ob, 0o644))
}

func contains(xs []string, x string) bool {
	for _, y := range xs {
		if x == y {
			return true
		}
	}
	return false
}

func check(err error) {
	if err != nil {
		fmt.Fprintln(os.Stderr, "overlaygen:", err)
		os.Exit(2)
	}
}

func rewrite(in, out string, p pkgSpec) (bool, error) {
	fset := token.NewFileSet()
	f, err := parser.ParseFile(fset, in, nil, parser.ParseComments)
	if err != nil {
		return false, err
	}
	changed := false
	for _, im := range f.Imports {
		path, _ := strconv.Unquote(im.Path.Value)
		if to, ok := p.Imports[path]; ok {
			if im.Name == nil {
				im.Name = ast.NewIdent(filepath.Base(path))
			}
			im.Path.Value = strconv.Quote(to)
			changed = true
		}
	}
	if p.GoStmt {
		n := 0
		ast.Inspect(f, func(node ast.Node) bool {
			blk, ok := node.(*ast.BlockStmt)
			var list *[]ast.Stmt
			if ok {
				list = &blk.List
			} else if cc, ok := node.(*ast.CaseClause); ok {
				list = &cc.Body
			} else if cc, ok := node.(*ast.CommClause); ok {
				list = &cc.Body
			}
			if list == nil {
				return true
			}
			for i, st := range *list {
				gs, ok := st.(*ast.GoStmt)
				if !ok {
					continue
				}
				(*list)[i] = rewriteGo(gs, &n)
				changed = true
			}
			return true
		})
		if n > 0 {
			addImport(f, "verifvrt", "verif/vrt")
		}
	}
	if !changed {
		return false, nil
	}
	var buf bytes.Buffer
	if err := (&printer.Config{Mode: printer.UseSpaces | printer.TabIndent, Tabwidth: 8}).Fprint(&buf, fset, f); err != nil {
		return false, err
	}
	return true, os.WriteFile(out, buf.Bytes(), 0o644)
}

func addImport(f *ast.File, name, path string) {
	spec := &ast.ImportSpec{Name: ast.NewIdent(name), Path: &ast.BasicLit{Kind: token.STRING, Value: strconv.Quote(path)}}
	decl := &ast.GenDecl{Tok: token.IMPORT, Specs: []ast.Spec{spec}}
	f.Decls = append([]ast.Decl{decl}, f.Decls...)
	f.Imports = append(f.Imports, spec)
}

// rewriteGo turns `go f(a, b)` into
//
//	{ _vg0 := a; _vg1 := b; verifvrt.Go(func() { f(_vg0, _vg1) }) }
//
// (arguments are evaluated at the go statement, as Go specifies).
func rewriteGo(gs *ast.GoStmt, n *int) ast.Stmt {
	call := gs.Call
	var pre []ast.Stmt
	args := make([]ast.Expr, len(call.Args))
	for i, a := range call.Args {
		switch a.(type) {
		case *ast.BasicLit:
			args[i] = a
			continue
		}
		id := ast.NewIdent(fmt.Sprintf("_vg%d", *n))
		*n++
		pre = append(pre, &ast.AssignStmt{Lhs: []ast.Expr{id}, Tok: token.DEFINE, Rhs: []ast.Expr{a}})
		args[i] = id
	}
	*n++
	fun := call.Fun
	if _, isLit := fun.(*ast.FuncLit); isLit {
		fun = &ast.ParenExpr{X: fun}
	}
	inner := &ast.CallExpr{Fun: fun, Args: args, Ellipsis: call.Ellipsis}
	if call.Ellipsis != token.NoPos {
		inner.Ellipsis = 1
	}
	lit := &ast.FuncLit{Type: &ast.FuncType{Params: &ast.FieldList{}}, Body: &ast.BlockStmt{List: []ast.Stmt{&ast.ExprStmt{X: inner}}}}
	goCall := &ast.ExprStmt{X: &ast.CallExpr{Fun: &ast.SelectorExpr{X: ast.NewIdent("verifvrt"), Sel: ast.NewIdent("Go")}, Args: []ast.Expr{lit}}}
	return &ast.BlockStmt{List: append(pre, goCall)}
}
