// Package crash is the crash-point enumerator of engine E2 on top of
// verif/shim/vos: it runs a history on a fresh directory once per mutating
// file-system primitive, "crashing" before that primitive, then hands the
// directory to the caller's recovery check. Optionally a second crash is
// enumerated inside the recovery procedure itself.
package crash

import (
	"fmt"
	"os"
	"regexp"
	"sync"

	"verif/evid"
	"verif/shim/vos"
)

// Case is one history with its recovery oracle.
type Case struct {
	Name string
	// Run executes the history on directory dir (fresh, empty). It may stop
	// early through a vos crash panic. Errors other than the crash are harness
	// errors when no crash point is armed.
	Run func(dir string) error
	// Check restarts on dir and evaluates the property; fp=="" means it holds.
	Check func(dir string) (fp, msg string)
	// Recover is the restart procedure alone (no assertions); used to
	// enumerate a second crash inside recovery. Optional.
	Recover func(dir string)
	// RemoveDesc: model RemoveAll in descending name order.
	RemoveDesc bool
}

// Stats of one enumeration.
type Stats struct {
	Primitives   int
	CrashPoints  int
	DoubleCases  int
	Log          []string
	ViolationFPs []string
}

var tmpName = regexp.MustCompile(`[0-9]{6,}`)

// Enumerate runs the case. double: also crash inside Recover. It reports
// violations to run (fingerprint = Check's fp; detail has the crash point).
func Enumerate(run *evid.Run, c Case, double bool, workers int) (Stats, error) {
	var st Stats
	// 1. reference run without crash
	dir, err := os.MkdirTemp("", "crash-")
	if err != nil {
		return st, err
	}
	ctl := vos.Register(dir, 0)
	ctl.RemoveDesc = c.RemoveDesc
	err = c.Run(dir)
	ctl.Unregister()
	if err != nil {
		os.RemoveAll(dir)
		return st, fmt.Errorf("%s: history fails without any crash: %v", c.Name, err)
	}
	st.Primitives = ctl.N()
	st.Log = ctl.Log()
	if fp, msg := c.Check(dir); fp != "" {
		os.RemoveAll(dir)
		return st, fmt.Errorf("%s: oracle fails after the complete history without crash (%s: %s)", c.Name, fp, msg)
	}
	os.RemoveAll(dir)
	// 2. every crash point
	type job struct{ k int }
	jobs := make(chan int, st.Primitives)
	for k := 1; k <= st.Primitives; k++ {
		jobs <- k
	}
	close(jobs)
	var mu sync.Mutex
	var firstErr error
	var wg sync.WaitGroup
	if workers < 1 {
		workers = 1
	}
	crashTo := func(k int) (string, error) {
		d, err := os.MkdirTemp("", "crash-")
		if err != nil {
			return "", err
		}
		ctl := vos.Register(d, k)
		ctl.RemoveDesc = c.RemoveDesc
		crashed := ctl.RunToCrash(func() { c.Run(d) })
		ctl.Unregister()
		if !crashed {
			return d, fmt.Errorf("%s: crash point %d/%d not reached (non-deterministic primitive sequence)", c.Name, k, st.Primitives)
		}
		return d, nil
	}
	for w := 0; w < workers; w++ {
		wg.Add(1)
		go func() {
			defer wg.Done()
			for k := range jobs {
				d, err := crashTo(k)
				if err != nil {
					mu.Lock()
					if firstErr == nil {
						firstErr = err
					}
					mu.Unlock()
					os.RemoveAll(d)
					continue
				}
				fp, msg := c.Check(d)
				os.RemoveAll(d)
				mu.Lock()
				st.CrashPoints++
				mu.Unlock()
				run.Eval(1)
				if fp != "" {
					run.Violation(fp, map[string]interface{}{"history": c.Name, "crash_before_primitive": fmt.Sprintf("#%d/%d: %s", k, st.Primitives, st.Log[k-1]), "primitives_before": st.Log[:k-1], "msg": msg})
					mu.Lock()
					st.ViolationFPs = append(st.ViolationFPs, fp)
					mu.Unlock()
				}
				if double && c.Recover != nil {
					// count recovery primitives after crash k
					d, err := crashTo(k)
					if err != nil {
						os.RemoveAll(d)
						continue
					}
					c2 := vos.Register(d, 0)
					c2.RemoveDesc = c.RemoveDesc
					c2.RunToCrash(func() { c.Recover(d) })
					c2.Unregister()
					m := c2.N()
					rlog := c2.Log()
					os.RemoveAll(d)
					for j := 1; j <= m; j++ {
						d, err := crashTo(k)
						if err != nil {
							os.RemoveAll(d)
							break
						}
						c2 := vos.Register(d, j)
						c2.RemoveDesc = c.RemoveDesc
						c2.RunToCrash(func() { c.Recover(d) })
						c2.Unregister()
						fp, msg := c.Check(d)
						os.RemoveAll(d)
						mu.Lock()
						st.DoubleCases++
						mu.Unlock()
						run.Eval(1)
						if fp != "" {
							run.Violation(fp+" (second crash during recovery)", map[string]interface{}{"history": c.Name, "crash_before_primitive": fmt.Sprintf("#%d/%d: %s", k, st.Primitives, st.Log[k-1]), "second_crash_before_recovery_primitive": fmt.Sprintf("#%d/%d: %s", j, m, rlog[j-1]), "msg": msg})
						}
					}
				}
			}
		}()
	}
	wg.Wait()
	for i := range st.Log {
		st.Log[i] = tmpName.ReplaceAllString(st.Log[i], "N")
	}
	return st, firstErr
}
