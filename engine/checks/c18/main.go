//go:build go1.25

// C18: idle timeouts follow real activity and never delete completed blobs.
// Timeline enumeration on the real scheduler (same harness as C17: real state,
// event handlers, dispatcher, agent storage; virtual time): every sequence up
// to depth d over {serve a piece to a leecher | receive a piece from a seeder,
// advance the clock, preemption tick, manual removal}, for a seeding and for a
// leeching torrent, against a reference timeline model.
// conc.go adds the concurrent part: 2-3 peers whose piece writes / piece reads
// on one torrent overlap (suspension points at the storage and conn boundary).
package main

import (
	"bytes"
	"fmt"
	"io"
	"os"
	"strings"
	"sync"
	"testing"
	"time"

	"github.com/andres-erbsen/clock"
	"github.com/uber-go/tally"
	"github.com/willf/bitset"

	"github.com/uber/kraken/core"
	"github.com/uber/kraken/lib/store"
	"github.com/uber/kraken/lib/torrent/scheduler"
	"github.com/uber/kraken/lib/torrent/scheduler/conn"
	"github.com/uber/kraken/lib/torrent/storage/agentstorage"
	"github.com/uber/kraken/lib/torrent/storage/piecereader"
	"github.com/uber/kraken/tracker/metainfoclient"
	klog "github.com/uber/kraken/utils/log"

	"verif/e1q"
	"verif/evid"
	_ "verif/quiet"
	"verif/rep"
	"verif/vrt"
)

var blob = []byte("abcde") // 3 pieces of length 2,2,1

const (
	pieceLen = 2
	tti      = 10 * time.Minute
	advance  = 6 * time.Minute
	// a closed connection is replaced by a new one at most this often per timeline
	maxReconnects = 1
)

// fakeMessages behaves like a conn towards the dispatcher: Send consumes and
// closes piece payloads (as the real conn's write loop does).
type fakeMessages struct {
	mu       sync.Mutex
	recv     chan *conn.Message
	closed   bool
	payloads int
	bad      []string
}

func (f *fakeMessages) Send(m *conn.Message) error {
	f.mu.Lock()
	defer f.mu.Unlock()
	if f.closed {
		return fmt.Errorf("closed")
	}
	if m.Payload != nil {
		b, err := io.ReadAll(m.Payload)
		m.Payload.Close()
		i := int(m.Message.PiecePayload.Index)
		s, e := i*pieceLen, min((i+1)*pieceLen, len(blob))
		if err != nil || !bytes.Equal(b, blob[s:e]) {
			f.bad = append(f.bad, fmt.Sprintf("piece %d payload %q err %v", i, b, err))
		}
		f.payloads++
	}
	return nil
}
func (f *fakeMessages) Receiver() <-chan *conn.Message { return f.recv }
func (f *fakeMessages) Close() {
	f.mu.Lock()
	defer f.mu.Unlock()
	if !f.closed {
		f.closed = true
		close(f.recv)
	}
}
func (f *fakeMessages) isClosed() bool { f.mu.Lock(); defer f.mu.Unlock(); return f.closed }
func (f *fakeMessages) nPayloads() int { f.mu.Lock(); defer f.mu.Unlock(); return f.payloads }

type role struct {
	name    string
	seeding bool
	depth   int
}

func harness(r role) *vrt.Harness {
	return e1q.HarnessOpt(fmt.Sprintf("%s depth=%d", r.name, r.depth), 400, false, func(c *e1q.Ctl) (string, string) {
		dir, err := os.MkdirTemp("", "c18-")
		if err != nil {
			return "", "HARNESS: " + err.Error()
		}
		defer os.RemoveAll(dir)
		cads, err := store.NewCADownloadStore(store.CADownloadStoreConfig{
			DownloadDir: dir + "/download", CacheDir: dir + "/cache",
			DownloadCleanup: store.CleanupConfig{Disabled: true}, CacheCleanup: store.CleanupConfig{Disabled: true},
		}, tally.NoopScope)
		if err != nil {
			return "", "HARNESS: " + err.Error()
		}
		defer cads.Close()
		dg, _ := core.NewDigester().FromBytes(blob)
		mi, _ := core.NewMetaInfo(dg, bytes.NewReader(blob), pieceLen)
		tc := metainfoclient.NewTestClient()
		tc.Upload(mi)
		ta := agentstorage.NewTorrentArchive(tally.NoopScope, cads, tc)
		nPieces := mi.NumPieces()
		if r.seeding {
			t, err := ta.CreateTorrent("ns", dg)
			if err != nil {
				return "", "HARNESS: " + err.Error()
			}
			for k := 0; k < nPieces; k++ {
				s, e := k*pieceLen, min((k+1)*pieceLen, len(blob))
				if err := t.WritePiece(piecereader.NewBuffer(blob[s:e]), k); err != nil {
					return "", "HARNESS: " + err.Error()
				}
			}
		}
		cfg := scheduler.Config{
			SeederTTI: tti, LeecherTTI: tti, DisablePreemption: true, ConnTTI: 1000 * time.Hour, ConnTTL: 1000 * time.Hour,
			Conn: conn.ConfigFixture(), TorrentLog: klog.Config{Disable: true}, Log: klog.Config{Disable: true},
		}
		pctx := core.PeerContext{PeerID: core.PeerIDFixture(), Zone: "z", IP: "localhost", Port: 1}
		v, err := scheduler.VerifNew(cfg, ta, pctx, clock.New(), c.Park)
		if err != nil {
			return "", "HARNESS: " + err.Error()
		}
		var racePark func()
		v.VerifSetLogHook(func(msg string) {
			if racePark != nil && strings.HasPrefix(msg, "Removing idle torrent") {
				racePark()
			}
		})
		var mu sync.Mutex
		var dlErr error
		dlReturned := false
		go func() {
			err := v.Download("ns", dg)
			mu.Lock()
			dlErr, dlReturned = err, true
			mu.Unlock()
		}()
		c.Drain()
		disp := v.Dispatcher(dg)
		if disp == nil {
			return "", "HARNESS: no dispatcher after Download"
		}
		// model
		lastActivity := time.Now() // creation of the torrent control counts as the start of the idle period
		complete := r.seeding
		present := true // torrent controlled by the scheduler
		received := 0
		var vio []string
		// the remote peer's link; a closed link is replaced by a new one when a
		// peer connects again (all links are kept for the payload check at the end)
		var fm *fakeMessages
		var links []*fakeMessages
		remoteID := core.PeerIDFixture()
		connect := func() error {
			fm = &fakeMessages{recv: make(chan *conn.Message)}
			links = append(links, fm)
			b := bitset.New(uint(nPieces))
			if !r.seeding {
				b = b.Complement()
			}
			return v.VerifAddPeer(dg, remoteID, b, fm)
		}
		if err := connect(); err != nil {
			return "", "HARNESS: AddPeer: " + err.Error()
		}
		c.Drain()
		reconnects := 0
		steps := 0
		removedManually := false
		check := func(after string) {
			gone := v.Dispatcher(dg) == nil
			now := time.Now()
			idle := now.Sub(lastActivity)
			if present && gone && !removedManually {
				present = false
				// what removal must (not) do to the files comes first: it is the
				// more severe clause and gets its own fingerprint
				if complete {
					r, err := cads.Cache().GetFileReader(dg.Hex())
					if err != nil {
						vio = append(vio, "dropping a completed torrent deleted the cached blob")
					} else {
						x, _ := io.ReadAll(r)
						r.Close()
						if !bytes.Equal(x, blob) {
							vio = append(vio, "cached blob differs after dropping a completed torrent")
						}
					}
				} else if _, err := ta.Stat("ns", dg); err == nil {
					vio = append(vio, "dropping an in-progress download left its partial file behind")
				}
				what := "completed torrent dropped as idle although it served a piece less than the seeder idle limit ago"
				if !complete {
					what = "in-progress torrent dropped as idle although it received a piece less than the leecher idle limit ago"
				}
				if after == "tick-race" {
					what = "torrent dropped by an idle tick although its last piece arrived while the tick was deciding [tick racing with the last piece]"
				}
				if idle < tti {
					vio = append(vio, fmt.Sprintf("%s (idle %s, limit %s, after %s)", what, idle, tti, after))
				}
			}
			if present && !gone && (after == "tick" || after == "tick-race") && idle > 2*tti {
				vio = append(vio, fmt.Sprintf("torrent with no activity for more than twice the idle limit survived a tick (idle %s)", idle))
			}
			if present && !gone {
				d := v.Dispatcher(dg)
				got := d.LastWriteTime()
				name := "LastWriteTime"
				if complete {
					got, name = d.LastReadTime(), "LastReadTime"
				}
				// the recorded activity time must not be older than the real last activity
				// (older = an active torrent looks idle); it may only be newer if ... never.
				if complete == r.seeding || name == "LastWriteTime" {
					if got.Before(lastActivity) {
						vio = append(vio, fmt.Sprintf("%s is older than the last real activity (by %s, after %s)", name, lastActivity.Sub(got), after))
					}
				}
			}
		}
		actions := func() []e1q.Action {
			if steps >= r.depth || !present {
				return nil
			}
			var a []e1q.Action
			if complete && !fm.isClosed() {
				a = append(a, e1q.Action{Label: "leecher requests a piece (served)", Run: func() {
					before := fm.nPayloads()
					go func() {
						defer func() { recover() }()
						fm.recv <- conn.NewPieceRequestMessage(0, pieceLen)
					}()
					c.Drain()
					if fm.nPayloads() == before+1 {
						lastActivity = time.Now()
					}
					check("serve")
				}})
			}
			if !complete && !fm.isClosed() && received < nPieces-1 {
				a = append(a, e1q.Action{Label: "seeder delivers a piece (received)", Run: func() {
					k := received
					received++
					s, e := k*pieceLen, min((k+1)*pieceLen, len(blob))
					msg := conn.NewPiecePayloadMessage(k, piecereader.NewBuffer(blob[s:e]))
					go func() {
						defer func() { recover() }()
						fm.recv <- msg
					}()
					c.Drain()
					if disp.Stat().Bitfield().Test(uint(k)) {
						lastActivity = time.Now()
					}
					check("receive")
				}})
			}
			if !fm.isClosed() {
				// The real path of a closed connection as the dispatcher sees it: the
				// conn's receiver channel is closed, the peer's feed goroutine ends,
				// removePeer deletes the peer entry and peerRemovedEvent is applied.
				a = append(a, e1q.Action{Label: "the peer's connection closes (peer removed from the dispatcher)", Run: func() {
					fm.Close()
					c.Drain()
					if n := len(disp.RemoteBitfields()); n != 0 {
						vio = append(vio, fmt.Sprintf("HARNESS: %d peers left in the dispatcher after the only connection closed", n))
					}
					check("conn close")
				}})
			} else if reconnects < maxReconnects {
				a = append(a, e1q.Action{Label: "the peer connects again", Run: func() {
					reconnects++
					if err := connect(); err != nil {
						vio = append(vio, "HARNESS: AddPeer after a closed connection: "+err.Error())
					}
					c.Drain()
					check("connect")
				}})
			}
			a = append(a, e1q.Action{Label: "advance 6min", Run: func() { e1q.Sleep(advance); c.Drain(); check("advance") }})
			a = append(a, e1q.Action{Label: "tick", Run: func() {
				go v.SendPreemptionTick()
				c.Drain()
				check("tick")
			}})
			if !complete && !fm.isClosed() && received == nPieces-1 {
				// The last missing piece arrives while the event loop is INSIDE the
				// preemption tick, between its idle decision and the removal (the
				// loop is parked at its own "Removing idle torrent" log line).
				a = append(a, e1q.Action{Label: "tick racing with the arrival of the last piece", Run: func() {
					raced := false
					racePark = func() {
						if raced {
							return
						}
						raced = true
						c.Park("loop inside tick: removing idle torrent")
					}
					go v.SendPreemptionTick()
					for i := 0; i < 50; i++ {
						c.Wait()
						parked := false
						for _, l := range c.Pending() {
							if strings.HasPrefix(l, "loop inside tick") {
								parked = true
							}
						}
						if parked {
							k := received
							received++
							s, e := k*pieceLen, min((k+1)*pieceLen, len(blob))
							msg := conn.NewPiecePayloadMessage(k, piecereader.NewBuffer(blob[s:e]))
							go func() {
								defer func() { recover() }()
								fm.recv <- msg
							}()
							c.Wait()
							if disp.Complete() {
								complete = true
								lastActivity = time.Now()
							}
							break
						}
						if len(c.Pending()) == 0 {
							break
						}
						c.DrainOne()
					}
					racePark = nil
					c.Drain()
					check("tick-race")
				}})
			}
			if !complete && !removedManually {
				a = append(a, e1q.Action{Label: "RemoveTorrent", Run: func() {
					removedManually = true
					go v.RemoveTorrent(dg)
					c.Drain()
					present = false
					if _, err := ta.Stat("ns", dg); err == nil {
						vio = append(vio, "cancelling an in-progress download left its partial file behind")
					}
				}})
			}
			return a
		}
		for c.Step(actions) {
			steps++
		}
		// teardown
		go v.SendShutdown()
		c.Drain()
		fm.Close()
		c.Drain()
		mu.Lock()
		defer mu.Unlock()
		for _, l := range links {
			if len(l.bad) > 0 {
				vio = append(vio, "served piece payload differs from the blob: "+l.bad[0])
				break
			}
		}
		obs := fmt.Sprintf("%s present=%v dl=%v/%v", strings.Join(c.Trace, ","), present, dlReturned, dlErr)
		if len(obs) > 300 {
			obs = obs[len(obs)-300:]
		}
		return obs, strings.Join(dedup(vio), "; ")
	})
}

func dedup(s []string) []string {
	seen := map[string]bool{}
	var o []string
	for _, x := range s {
		if !seen[x] {
			seen[x] = true
			o = append(o, x)
		}
	}
	return o
}

func roles(thorough bool) []role {
	d := 5
	if thorough {
		d = 7
	}
	return []role{{"seeding torrent", true, d}, {"leeching torrent", false, d}}
}

func main() {
	e1q.Main(func(t *testing.T) {
		var hs []*vrt.Harness
		for _, th := range []bool{false, true} {
			for _, r := range roles(th) {
				hs = append(hs, harness(r))
			}
			for _, r := range concRoles(th) {
				hs = append(hs, concHarness(r))
			}
		}
		vrt.WorkerMain(hs)
		run := evid.New("C18", "model_checking")
		run.Rule = "sequential part: every timeline up to depth d over {leecher requests a piece and is served | a piece is received from a seeder, the remote peer's connection closes (receiver channel closed -> feed goroutine ends -> dispatcher.removePeer -> peerRemovedEvent), the peer connects again (at most once), advance the clock by 6 min, preemption tick, manual removal of an in-progress download} with idle limits of 10 min, executed on the real scheduler/dispatcher/agent storage in virtual time (testing/synctest; pending events are applied in canonical order after every action) and compared with a reference timeline model (last real activity, completion, presence). " +
			"concurrent part: P remote peers on one torrent, every timeline up to depth d over {peer p (none in flight) delivers a good | corrupt payload of piece k whose storage write runs to completion | is suspended before entering the agent storage | is suspended inside the storage write with the piece marked dirty; a suspended write continues; the connection of peer p closes, with or without a write of p in flight (the peer is removed from the dispatcher once its current message is dispatched); advance 6 min; tick} for a leeching torrent, and over {peer p requests piece k: the payload is queued in its conn; the conn's write loop consumes and closes a queued payload; the connection of peer p closes (a payload still queued in it is dropped unsent and is not a served piece; the peer is removed from the dispatcher); advance 6 min; tick} for a seeding torrent, each from two start states (torrent control just created | already without activity for 12 min, i.e. older than the idle limit); the real storage decides which writes are accepted (first complete write of a piece) and which rejected (duplicate of a complete piece, conflict with a write in progress, bad piece sum). After every step (also after a peer was removed, so the record of the last activity must outlive the peer that caused it): last write/read time >= time of the last accepted write / last consumed payload, a tick drops the torrent only if that time is an idle limit ago and must drop it after twice the limit, a drop deletes the partial file / keeps the cached blob. state = timeline prefix; transitions = actions executed."
		run.Assume("remote peers through fake message links (one in the sequential part, 2-3 in the concurrent part); announce client disabled; the order of pending events is not varied here (C17 does that)")
		run.Assume("concurrent part: one operation in flight per peer (the dispatcher's feed goroutine of a peer is sequential); operations are atomic between the suspension points at the storage / conn boundary; peers and pieces are interchangeable (peer i+1 / piece k+1 is used, and peer i+1's connection closed, only after peer i was used or closed / piece k was used); a closed connection is not reopened in the concurrent part (the sequential part reconnects once); the last piece is never delivered, so the leeching torrent stays in progress; piece-request resend timer configured out of the horizon")
		run.Assume("liveness is only required with margin: no activity for more than twice the idle limit => dropped by the next tick")
		for _, r := range roles(run.Thorough()) {
			h := harness(r)
			res := rep.VRT(run, h, 99, evid.Workers(), 600, func(v vrt.Violation) string {
				m := strings.SplitN(v.Msg, ";", 2)[0]
				if i := strings.Index(m, " ("); i > 0 {
					m = m[:i]
				}
				return r.name + ": " + m
			})
			run.States += int64(res.Executions)
			run.Transitions += int64(res.Executions * r.depth)
			run.Traces += int64(res.Executions)
		}
		// concurrent part: overlapping piece writes / reads of several peers on one torrent
		fpConc := func(name string) func(v vrt.Violation) string {
			return func(v vrt.Violation) string {
				m := strings.SplitN(v.Msg, ";", 2)[0]
				if i := strings.Index(m, " ("); i > 0 {
					m = m[:i]
				}
				return name + ": " + m
			}
		}
		// wall budget of the concurrent part as a whole (a harness that hits it is
		// reported as not exhaustive): quick 4 min, thorough 12 min
		deadline := time.Now().Add(4 * time.Minute)
		if run.Thorough() {
			deadline = time.Now().Add(12 * time.Minute)
		}
		for _, r := range concRoles(run.Thorough()) {
			h := concHarness(r)
			res := rep.VRT(run, h, 99, evid.Workers(), max(20, int(time.Until(deadline).Seconds())), fpConc(r.name))
			run.States += int64(res.Executions)
			run.Traces += int64(res.Executions)
			overl, rejAfter, dropped := 0, 0, 0
			closed, closedBusy := 0, 0
			for k, n := range res.Outcomes {
				var st int
				if i := strings.Index(k, " steps="); i >= 0 {
					fmt.Sscanf(k[i:], " steps=%d", &st)
				}
				run.Transitions += int64(n * st)
				if !strings.Contains(k, " ovl=0 ") {
					overl += n
				}
				if i := strings.Index(k, " closes="); i >= 0 {
					var nc, nb int
					fmt.Sscanf(k[i:], " closes=%d/%d", &nc, &nb)
					if nc > 0 {
						closed += n
					}
					if nb > 0 {
						closedBusy += n
					}
				}
				if !strings.HasSuffix(k, "rejafter=0") {
					rejAfter += n
				}
				if strings.Contains(k, " present=false ") {
					dropped += n
				}
			}
			run.Set("vacuity:"+h.Name, map[string]interface{}{
				"timelines_with_overlapping_operations":                   overl,
				"timelines_where_a_rejected_write_spans_an_accepted_one":  rejAfter,
				"timelines_in_which_a_tick_dropped_the_torrent":           dropped,
				"timelines_with_a_closed_connection":                      closed,
				"timelines_with_a_connection_closed_during_its_operation": closedBusy,
			})
			if closed == 0 || closedBusy == 0 {
				run.Fatal(fmt.Errorf("%s: vacuous exploration: no timeline closed a connection (%d) / closed one with an operation in flight (%d)", r.name, closed, closedBusy))
			}
			// only the harness-driven counter is a hard vacuity condition: whether a
			// write is rejected or a tick drops the torrent is the implementation's answer
			if overl == 0 {
				run.Fatal(fmt.Errorf("%s: vacuous exploration: no timeline had two operations of different peers in flight together", r.name))
			}
		}
		run.Finish()
	})
}
