//go:build go1.25

// C18, concurrent part: several remote peers use ONE torrent at the same time.
//
// The dispatcher runs one feed goroutine per peer, so piece writes (leeching)
// and piece reads (seeding) of one torrent overlap in time. The sequential
// timelines of main.go cannot see what an overlap does to the recorded last
// write / last read time. Here every write can be suspended at the boundary of
// the storage layer (before it enters the real agent storage, or inside it
// while the piece is marked dirty) and every served payload can be suspended
// in the conn's send path before the payload is consumed and closed; the
// explorer decides when each suspended operation continues, when the clock
// advances and when the preemption tick runs. All orders up to depth d are
// executed on the real scheduler / dispatcher / agent storage.
package main

import (
	"bytes"
	"fmt"
	"io"
	"os"
	"strings"
	"sync"
	"time"

	"github.com/andres-erbsen/clock"
	"github.com/uber-go/tally"
	"github.com/willf/bitset"

	"github.com/uber/kraken/core"
	"github.com/uber/kraken/lib/store"
	"github.com/uber/kraken/lib/torrent/scheduler"
	"github.com/uber/kraken/lib/torrent/scheduler/conn"
	"github.com/uber/kraken/lib/torrent/scheduler/dispatch"
	"github.com/uber/kraken/lib/torrent/storage"
	"github.com/uber/kraken/lib/torrent/storage/agentstorage"
	"github.com/uber/kraken/lib/torrent/storage/piecereader"
	"github.com/uber/kraken/tracker/metainfoclient"
	klog "github.com/uber/kraken/utils/log"

	"verif/e1q"
	"verif/vrt"
)

// ---- suspension points (the harness's own; the scheduler's events keep using c.Park) ----

type held struct {
	label string
	peer  int
	ch    chan struct{}
}

// gate keeps the operations that are currently suspended and what the real
// storage / conn answered.
type gate struct {
	mu       sync.Mutex
	held     []*held     // arrival order
	inFlight map[int]int // peer -> id of its operation in flight
	nextOp   int
	sawOK    map[int]bool // op id -> another operation was accepted while this one was in flight
	// observed real activity
	lastOK   time.Time // time of the last successful storage write / served payload
	accepted int
	rejected int
	overlap  int // operations that finished while another one was in flight
	rejAfter int // rejected operations during whose flight another one was accepted
	outcomes []string
}

func (g *gate) hold(peer int, label string) {
	h := &held{label: label, peer: peer, ch: make(chan struct{})}
	g.mu.Lock()
	g.held = append(g.held, h)
	g.mu.Unlock()
	<-h.ch
}

func (g *gate) snapshot() []*held {
	g.mu.Lock()
	defer g.mu.Unlock()
	return append([]*held(nil), g.held...)
}

func (g *gate) release(h *held) {
	g.mu.Lock()
	for i, x := range g.held {
		if x == h {
			g.held = append(g.held[:i:i], g.held[i+1:]...)
			break
		}
	}
	g.mu.Unlock()
	close(h.ch)
}

func (g *gate) releaseAll(c *e1q.Ctl) {
	for {
		hs := g.snapshot()
		if len(hs) == 0 {
			return
		}
		for _, h := range hs {
			g.release(h)
		}
		c.Wait()
	}
}

func (g *gate) busy(peer int) bool {
	g.mu.Lock()
	defer g.mu.Unlock()
	_, ok := g.inFlight[peer]
	return ok
}

func (g *gate) enter(peer int) {
	g.mu.Lock()
	g.nextOp++
	g.inFlight[peer] = g.nextOp
	g.mu.Unlock()
}

// done records the real answer to one operation of peer.
func (g *gate) done(peer int, what string, err error) {
	g.mu.Lock()
	defer g.mu.Unlock()
	id := g.inFlight[peer]
	delete(g.inFlight, peer)
	if err == nil {
		g.accepted++
		g.lastOK = time.Now()
		g.outcomes = append(g.outcomes, what+"=ok")
		for _, o := range g.inFlight {
			g.sawOK[o] = true
		}
	} else {
		g.rejected++
		g.outcomes = append(g.outcomes, what+"=rejected")
		if g.sawOK[id] {
			g.rejAfter++
		}
	}
	if len(g.inFlight) > 0 {
		g.overlap++
	}
}

// payload is a piece payload as the conn hands it to the dispatcher, with the
// suspension points this delivery will take.
type payload struct {
	*piecereader.Buffer
	g          *gate
	peer       int
	piece      int
	kind       string // good | corrupt
	holdEntry  bool   // suspended before the write enters the agent storage
	holdInside bool   // suspended inside the storage write (first read of the payload: the piece is marked dirty)
	read       bool
}

func (p *payload) name() string {
	return fmt.Sprintf("peer %c: %s payload of piece %d", 'A'+p.peer, p.kind, p.piece)
}

func (p *payload) Read(b []byte) (int, error) {
	if !p.read {
		p.read = true
		if p.holdInside {
			p.g.hold(p.peer, p.name()+" continues inside the storage write (piece marked dirty)")
		}
	}
	return p.Buffer.Read(b)
}

// seamTorrent is the real agent torrent; WritePiece of a harness payload is
// bracketed by the suspension point and the outcome record.
type seamTorrent struct {
	storage.Torrent
	g *gate
}

func (t *seamTorrent) WritePiece(src storage.PieceReader, pi int) error {
	p, ok := src.(*payload)
	if !ok {
		return t.Torrent.WritePiece(src, pi)
	}
	t.g.enter(p.peer)
	if p.holdEntry {
		t.g.hold(p.peer, p.name()+" enters the storage write")
	}
	err := t.Torrent.WritePiece(src, pi)
	t.g.done(p.peer, p.name(), err)
	return err
}

type seamArchive struct {
	storage.TorrentArchive
	g *gate
}

func (a *seamArchive) CreateTorrent(ns string, d core.Digest) (storage.Torrent, error) {
	t, err := a.TorrentArchive.CreateTorrent(ns, d)
	if err != nil {
		return nil, err
	}
	return &seamTorrent{t, a.g}, nil
}

func (a *seamArchive) GetTorrent(ns string, d core.Digest) (storage.Torrent, error) {
	t, err := a.TorrentArchive.GetTorrent(ns, d)
	if err != nil {
		return nil, err
	}
	return &seamTorrent{t, a.g}, nil
}

// cMessages is the conn of one remote peer. Like the real conn, Send only
// queues a piece payload: its write loop consumes and closes it later — the
// moment is an explorer decision.
type cMessages struct {
	g      *gate
	peer   int
	mu     sync.Mutex
	recv   chan *conn.Message
	closed bool
	bad    []string
}

func (f *cMessages) Send(m *conn.Message) error {
	if f.isClosed() {
		return fmt.Errorf("closed")
	}
	if m.Payload == nil {
		return nil
	}
	i := int(m.Message.PiecePayload.Index)
	what := fmt.Sprintf("peer %c: conn write loop sends the payload of piece %d", 'A'+f.peer, i)
	f.g.enter(f.peer)
	f.g.hold(f.peer, what)
	if f.isClosed() {
		// the conn was closed while the payload was queued: it is dropped unsent
		f.g.done(f.peer, what, fmt.Errorf("closed"))
		return fmt.Errorf("closed")
	}
	b, err := io.ReadAll(m.Payload)
	cerr := m.Payload.Close()
	s, e := i*pieceLen, min((i+1)*pieceLen, len(blob))
	if err != nil || cerr != nil || !bytes.Equal(b, blob[s:e]) {
		f.mu.Lock()
		f.bad = append(f.bad, fmt.Sprintf("piece %d payload %q err %v close %v", i, b, err, cerr))
		f.mu.Unlock()
	}
	if err == nil {
		err = cerr
	}
	f.g.done(f.peer, what, err) // served = consumed and closed without error
	return nil
}
func (f *cMessages) Receiver() <-chan *conn.Message { return f.recv }
func (f *cMessages) Close() {
	f.mu.Lock()
	defer f.mu.Unlock()
	if !f.closed {
		f.closed = true
		close(f.recv)
	}
}
func (f *cMessages) isClosed() bool { f.mu.Lock(); defer f.mu.Unlock(); return f.closed }

// ---- the harness ----

type concRole struct {
	name    string
	seeding bool
	peers   int
	pieces  int // pieces 0..pieces-1 are delivered / requested (the last piece of the blob never: the torrent stays in progress)
	depth   int
	// where a delivered payload may be suspended: "none" (the write runs to
	// completion in one step), "entry" (before the agent storage is entered),
	// "inside" (inside the storage write, the piece marked dirty)
	goodAt, corruptAt []string
	// start states: how long the torrent has already been without activity when
	// the timeline starts (an explorer decision before the first step)
	startIdle []time.Duration
}

func concHarness(r concRole) *vrt.Harness {
	return e1q.HarnessOpt(fmt.Sprintf("%s peers=%d pieces=%d depth=%d", r.name, r.peers, r.pieces, r.depth), 400, false, func(c *e1q.Ctl) (string, string) {
		dir, err := os.MkdirTemp("", "c18c-")
		if err != nil {
			return "", "HARNESS: " + err.Error()
		}
		defer os.RemoveAll(dir)
		cads, err := store.NewCADownloadStore(store.CADownloadStoreConfig{
			DownloadDir: dir + "/download", CacheDir: dir + "/cache",
			DownloadCleanup: store.CleanupConfig{Disabled: true}, CacheCleanup: store.CleanupConfig{Disabled: true},
		}, tally.NoopScope)
		if err != nil {
			return "", "HARNESS: " + err.Error()
		}
		defer cads.Close()
		dg, _ := core.NewDigester().FromBytes(blob)
		mi, _ := core.NewMetaInfo(dg, bytes.NewReader(blob), pieceLen)
		tc := metainfoclient.NewTestClient()
		tc.Upload(mi)
		real := agentstorage.NewTorrentArchive(tally.NoopScope, cads, tc)
		nPieces := mi.NumPieces()
		if r.seeding {
			t, err := real.CreateTorrent("ns", dg)
			if err != nil {
				return "", "HARNESS: " + err.Error()
			}
			for k := 0; k < nPieces; k++ {
				s, e := k*pieceLen, min((k+1)*pieceLen, len(blob))
				if err := t.WritePiece(piecereader.NewBuffer(blob[s:e]), k); err != nil {
					return "", "HARNESS: " + err.Error()
				}
			}
		}
		g := &gate{inFlight: map[int]int{}, sawOK: map[int]bool{}}
		ta := &seamArchive{real, g}
		cfg := scheduler.Config{
			SeederTTI: tti, LeecherTTI: tti, DisablePreemption: true, ConnTTI: 1000 * time.Hour, ConnTTL: 1000 * time.Hour,
			Conn: conn.ConfigFixture(), TorrentLog: klog.Config{Disable: true}, Log: klog.Config{Disable: true},
			// piece requests never expire inside the explored horizon: the dispatcher's
			// resend timer (every 2 s otherwise) is no subject of this property
			Dispatch: dispatch.Config{PieceRequestMinTimeout: 10000 * time.Hour},
		}
		pctx := core.PeerContext{PeerID: core.PeerIDFixture(), Zone: "z", IP: "localhost", Port: 1}
		v, err := scheduler.VerifNew(cfg, ta, pctx, clock.New(), c.Park)
		if err != nil {
			return "", "HARNESS: " + err.Error()
		}
		var mu sync.Mutex
		var dlErr error
		dlReturned := false
		go func() {
			err := v.Download("ns", dg)
			mu.Lock()
			dlErr, dlReturned = err, true
			mu.Unlock()
		}()
		c.Drain()
		disp := v.Dispatcher(dg)
		if disp == nil {
			return "", "HARNESS: no dispatcher after Download"
		}
		// model: the torrent control was created now; nothing received / served yet
		lastActivity := time.Now()
		present := true
		var vio []string
		fms := make([]*cMessages, r.peers)
		for i := range fms {
			fms[i] = &cMessages{g: g, peer: i, recv: make(chan *conn.Message)}
			b := bitset.New(uint(nPieces))
			if !r.seeding {
				b = b.Complement()
			}
			id, err := core.HashedPeerID(fmt.Sprintf("remote-%d", i))
			if err != nil {
				return "", "HARNESS: " + err.Error()
			}
			if err := v.VerifAddPeer(dg, id, b, fms[i]); err != nil {
				return "", "HARNESS: AddPeer: " + err.Error()
			}
			c.Drain()
		}
		if si := c.Choose(len(r.startIdle), "start state"); si > 0 {
			e1q.Sleep(r.startIdle[si])
			c.Drain()
			c.Trace = append(c.Trace, fmt.Sprintf("idle for %s at the start", r.startIdle[si]))
		}
		steps := 0
		used := make([]bool, r.peers) // peer i has been used before (symmetry breaking)
		pieceUsed := map[int]bool{}
		closes, closesBusy := 0, 0 // connections closed / closed with an operation of that peer in flight
		check := func(after string) {
			g.mu.Lock()
			if g.lastOK.After(lastActivity) {
				lastActivity = g.lastOK
			}
			nHeld := len(g.held)
			g.mu.Unlock()
			gone := v.Dispatcher(dg) == nil
			now := time.Now()
			idle := now.Sub(lastActivity)
			conc := ""
			if nHeld > 0 {
				conc = fmt.Sprintf(" while %d other operation(s) on the torrent were in flight", nHeld)
			}
			if present && gone {
				present = false
				if r.seeding {
					rd, err := cads.Cache().GetFileReader(dg.Hex())
					if err != nil {
						vio = append(vio, "dropping a completed torrent deleted the cached blob")
					} else {
						x, _ := io.ReadAll(rd)
						rd.Close()
						if !bytes.Equal(x, blob) {
							vio = append(vio, "cached blob differs after dropping a completed torrent")
						}
					}
				} else if _, err := real.Stat("ns", dg); err == nil {
					vio = append(vio, "dropping an in-progress download left its partial file behind")
				}
				what := "completed torrent dropped as idle although it served a piece less than the seeder idle limit ago"
				if !r.seeding {
					what = "in-progress torrent dropped as idle although it received a piece less than the leecher idle limit ago"
				}
				if idle < tti {
					vio = append(vio, fmt.Sprintf("%s (idle %s, limit %s, after %s%s)", what, idle, tti, after, conc))
				}
			}
			if present && !gone && after == "tick" && idle > 2*tti {
				vio = append(vio, fmt.Sprintf("torrent with no activity for more than twice the idle limit survived a tick (idle %s%s)", idle, conc))
			}
			if present && !gone {
				d := v.Dispatcher(dg)
				got, name, act := d.LastWriteTime(), "LastWriteTime", "successful piece write"
				if r.seeding {
					got, name, act = d.LastReadTime(), "LastReadTime", "served piece"
				}
				if got.Before(lastActivity) {
					vio = append(vio, fmt.Sprintf("%s is older than the last %s (by %s, after %s%s)", name, act, lastActivity.Sub(got), after, conc))
				}
			}
		}
		actions := func() []e1q.Action {
			if steps >= r.depth || !present {
				return nil
			}
			var a []e1q.Action
			// suspended operations that may continue
			for _, h := range g.snapshot() {
				h := h
				a = append(a, e1q.Action{Label: h.label, Run: func() {
					g.release(h)
					c.Drain()
					check("an operation continued")
				}})
			}
			// a new operation by a peer that has none in flight. Symmetry: peers and
			// pieces are interchangeable, so peer i+1 / piece k+1 is only used once
			// peer i / piece k has been.
			for p := 0; p < r.peers; p++ {
				if g.busy(p) || fms[p].isClosed() || (p > 0 && !used[p-1]) {
					continue
				}
				p := p
				for k := 0; k < r.pieces && k < nPieces-1; k++ { // the last piece is never delivered: the torrent stays in progress
					if k > 0 && !pieceUsed[k-1] {
						continue
					}
					k := k
					if r.seeding {
						a = append(a, e1q.Action{Label: fmt.Sprintf("peer %c requests piece %d", 'A'+p, k), Run: func() {
							used[p], pieceUsed[k] = true, true
							msg := conn.NewPieceRequestMessage(k, int64(min((k+1)*pieceLen, len(blob))-k*pieceLen))
							go func() {
								defer func() { recover() }()
								fms[p].recv <- msg
							}()
							c.Drain()
							check("request")
						}})
						continue
					}
					for _, kind := range []string{"good", "corrupt"} {
						at := r.goodAt
						if kind == "corrupt" {
							at = r.corruptAt
						}
						for _, where := range at {
							kind, where := kind, where
							a = append(a, e1q.Action{Label: fmt.Sprintf("peer %c delivers a %s payload of piece %d (suspension: %s)", 'A'+p, kind, k, where), Run: func() {
								used[p], pieceUsed[k] = true, true
								s, e := k*pieceLen, min((k+1)*pieceLen, len(blob))
								data := append([]byte(nil), blob[s:e]...)
								if kind == "corrupt" {
									data[0] ^= 0xff
								}
								pl := &payload{Buffer: piecereader.NewBuffer(data), g: g, peer: p, piece: k, kind: kind,
									holdEntry: where == "entry", holdInside: where == "inside"}
								msg := conn.NewPiecePayloadMessage(k, pl)
								go func() {
									defer func() { recover() }()
									fms[p].recv <- msg
								}()
								c.Drain()
								check("delivery")
							}})
						}
					}
				}
			}
			// the connection of a peer closes, whether or not an operation of that
			// peer is in flight: the conn's receiver channel is closed, the peer's feed
			// goroutine ends once its current message is dispatched, removePeer deletes
			// the peer entry, peerRemovedEvent is applied. A payload still queued in
			// the closed conn is dropped unsent (not a served piece); a storage write
			// in flight still completes. Same symmetry rule as for operations.
			for p := 0; p < r.peers; p++ {
				if fms[p].isClosed() || (p > 0 && !used[p-1]) {
					continue
				}
				p := p
				a = append(a, e1q.Action{Label: fmt.Sprintf("peer %c's connection closes (peer removed from the dispatcher)", 'A'+p), Run: func() {
					used[p] = true
					closes++
					if g.busy(p) {
						closesBusy++
					}
					fms[p].Close()
					c.Drain()
					check("conn close")
				}})
			}
			a = append(a, e1q.Action{Label: "advance 6min", Run: func() { e1q.Sleep(advance); c.Drain(); check("advance") }})
			a = append(a, e1q.Action{Label: "tick", Run: func() {
				go v.SendPreemptionTick()
				c.Drain()
				check("tick")
			}})
			return a
		}
		for c.Step(actions) {
			steps++
		}
		// teardown: let every suspended operation finish, then stop
		g.releaseAll(c)
		c.Drain()
		peersLeft := -1
		if present {
			peersLeft = len(disp.RemoteBitfields())
			if want := r.peers - closes; peersLeft != want {
				vio = append(vio, fmt.Sprintf("HARNESS: %d peers in the dispatcher, %d connections open", peersLeft, want))
			}
		}
		go v.SendShutdown()
		c.Drain()
		for _, fm := range fms {
			fm.Close()
		}
		g.releaseAll(c)
		c.Drain()
		mu.Lock()
		defer mu.Unlock()
		for _, fm := range fms {
			if len(fm.bad) > 0 {
				vio = append(vio, "served piece payload differs from the blob: "+fm.bad[0])
			}
		}
		g.mu.Lock()
		obs := fmt.Sprintf("%s present=%v dl=%v/%v steps=%d acc=%d rej=%d ovl=%d closes=%d/%d peersleft=%d rejafter=%d", strings.Join(c.Trace, ","), present, dlReturned, dlErr, steps, g.accepted, g.rejected, g.overlap, closes, closesBusy, peersLeft, g.rejAfter)
		g.mu.Unlock()
		if len(obs) > 900 {
			obs = obs[len(obs)-900:]
		}
		return obs, strings.Join(dedup(vio), "; ")
	})
}

func concRoles(thorough bool) []concRole {
	all := []string{"none", "entry", "inside"}
	starts := []time.Duration{0, 2 * advance} // fresh | already idle for longer than the limit
	if thorough {
		return []concRole{
			{"concurrent piece writers", false, 2, 2, 5, all, all[1:], starts},
			{"concurrent piece writers", false, 3, 2, 4, all, all[1:], starts},
			{"concurrent piece readers", true, 3, 2, 7, nil, nil, starts},
		}
	}
	return []concRole{
		{"concurrent piece writers", false, 2, 2, 4, all, all[1:], starts},
		{"concurrent piece readers", true, 2, 2, 6, nil, nil, starts},
	}
}
