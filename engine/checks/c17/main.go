//go:build go1.25

// C17: every blob download request returns exactly once. The harness lives in
// verif/schedh (shared with C20's scheduler-level part).
package main

import (
	"fmt"
	"os"
	"strings"
	"testing"

	"verif/e1q"
	"verif/evid"
	_ "verif/quiet"
	"verif/rep"
	"verif/schedh"
	"verif/vrt"
)

// only keeps the C17 clauses of the shared harness's verdict.
func only(h *vrt.Harness) *vrt.Harness {
	inner := h.RunOnce
	h.RunOnce = func(prefix []int) (*vrt.Exec, string, string) {
		x, obs, vio := inner(prefix)
		return x, obs, schedh.Filter(vio, "C17")
	}
	return h
}

func scenarios(thorough bool) []schedh.Scenario {
	return append(schedh.Scenarios(thorough), schedh.StartStateScenarios(thorough)...)
}

func main() {
	e1q.Main(func(t *testing.T) {
		var hs []*vrt.Harness
		for _, sc := range scenarios(true) {
			hs = append(hs, only(schedh.Harness(sc)))
		}
		vrt.WorkerMain(hs)
		if pat := os.Getenv("C17_DEBUG_TRACE"); pat != "" {
			// debugging aid: print the default schedule of the scenarios whose name contains pat
			for _, h := range hs {
				if strings.Contains(h.Name, pat) {
					x, obs, vio := vrt.Replay(h, nil)
					fmt.Printf("%s\n  %s\n  obs=%q vio=%q\n", h.Name, labels(x), obs, vio)
				}
			}
			return
		}
		if os.Getenv("C17_DEBUG_DET") != "" {
			debugDet(hs)
			return
		}
		run := evid.New("C17", "exploration")
		run.Rule = "E1q: the real scheduler state/events/dispatcher/conn/agent storage with the event loop's serialization order chosen by the explorer. Every event sent by any goroutine (newTorrent, dispatcherComplete from the dispatcher's own goroutine, removeTorrent, preemptionTick after a 2-minute idle period, incomingHandshake / incomingConn / connClosed of a connection opened by a remote peer, peerRemoved, shutdown) and every harness action (Download calls, a seeder attached to the dispatcher or a remote seeder OPENING a connection through kraken's accept path at any point of the history - also before the first Download, which revives a torrent that is only on disk with localRequest=false -, piece deliveries, RemoveTorrent, idle tick, shutdown) is a choice point found by quiescence detection (testing/synctest). Start states: 0, 1 or 2 of the blob's 2 pieces already on disk (partial download left by a stopped scheduler / the blob in cache), scheduler memory empty. DFS over all orders (scenarios with bound 99) or all orders within k deviations from the default order. Oracle after stop + drain: every started Download returned exactly once (none blocked, event loop neither blocked by a second result nor panicked), success only with the exact blob bytes in the cache, otherwise one of the four documented errors. distinct = distinct outcome vectors per scenario."
		run.Assume("one seeding peer: either attached to the dispatcher through a fake Messages link, or (start-state scenarios) a protocol-speaking peer on a net.Pipe that goes through Handshaker.Accept, incomingHandshakeEvent, establishIncomingHandshake (torrentArchive.Stat) and incomingConnEvent; no TCP, no tracker (announce client disabled)")
		run.Assume("virtual time (synctest bubble); idle timeouts fire only through the explicit 'idle 2min + tick' action")
		run.Assume("start states are produced through the real archive (CreateTorrent + WritePiece of the first k pieces) before the scheduler is built: the disk image a stopped or reloaded scheduler leaves at a quiescent point; blob of 2 pieces; pieces are delivered in index order")
		maxDur := 50
		if run.Thorough() {
			maxDur = 300
		}
		for _, sc := range scenarios(run.Thorough()) {
			h := only(schedh.Harness(sc))
			_, o1, _ := vrt.Replay(h, nil)
			_, o2, _ := vrt.Replay(h, nil)
			if o1 != o2 {
				run.Fatal(fmt.Errorf("non-deterministic replay in %q: %q vs %q", sc.Name, o1, o2))
			}
			rep.VRT(run, h, sc.Bound, evid.Workers(), maxDur, func(v vrt.Violation) string {
				m := strings.SplitN(v.Msg, "\n", 2)[0]
				if len(m) > 140 {
					m = m[:140]
				}
				return m
			})
		}
		run.Finish()
	})
}

// debugDet explores a scenario and replays every execution a second time,
// printing the first pair whose decision records differ.
func debugDet(hs []*vrt.Harness) {
	h := hs[len(hs)-1]
	var rec func(prefix []int, depth int) bool
	n := 0
	rec = func(prefix []int, depth int) bool {
		x1, o1, _ := vrt.Replay(h, prefix)
		x2, o2, _ := vrt.Replay(h, prefix)
		n++
		l1, l2 := labels(x1), labels(x2)
		if l1 != l2 || o1 != o2 {
			fmt.Printf("DIVERGENCE after %d executions, prefix %v\n A: %s (%s)\n B: %s (%s)\n", n, prefix, l1, o1, l2, o2)
			return false
		}
		if depth >= 3 {
			return true
		}
		for i := len(prefix); i < len(x1.Points); i++ {
			for alt := 1; alt < x1.Points[i].NEnabled; alt++ {
				np := append(append([]int{}, x1.Choices()[:i]...), alt)
				if !rec(np, depth+1) {
					return false
				}
			}
		}
		return true
	}
	fmt.Println("deterministic:", rec(nil, 0), "executions:", n)
}

func labels(x *vrt.Exec) string {
	var l []string
	for _, p := range x.Points {
		l = append(l, fmt.Sprintf("%s/%d", p.Label, p.NEnabled))
	}
	return strings.Join(l, " -> ")
}
