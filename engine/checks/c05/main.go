// C05: an origin or proxy crash at any point leaves its blob cache consistent.
// E2: histories on the REAL store.CAStore driven through the REAL origin
// blobserver handlers (upload start/patch/commit, write-back persist flag,
// metainfo generation, metainfo overwrite, backend refresh through the real
// blobrefresh.Refresher from a fake backend, memory write-through + drain) and
// through the CAStore API the proxy uses; a crash before EVERY mutating
// file-system primitive (numbered by the os shim compiled into lib/store and
// lib/store/base), then a restart on the same directories with the real code
// and the clauses of the statement.
package main

import (
	"bytes"
	"errors"
	"fmt"
	"hash/crc32"
	"io"
	"net/http"
	"net/http/httptest"
	"os"
	"path/filepath"
	"regexp"
	"sort"
	"strings"
	"sync/atomic"
	"time"

	"github.com/andres-erbsen/clock"
	"github.com/c2h5oh/datasize"
	"github.com/uber-go/tally"

	"github.com/uber/kraken/core"
	"github.com/uber/kraken/lib/backend"
	"github.com/uber/kraken/lib/backend/backenderrors"
	"github.com/uber/kraken/lib/blobrefresh"
	"github.com/uber/kraken/lib/hashring"
	"github.com/uber/kraken/lib/healthcheck"
	"github.com/uber/kraken/lib/hostlist"
	"github.com/uber/kraken/lib/metainfogen"
	"github.com/uber/kraken/lib/persistedretry"
	"github.com/uber/kraken/lib/store"
	"github.com/uber/kraken/lib/store/metadata"
	"github.com/uber/kraken/origin/blobclient"
	"github.com/uber/kraken/origin/blobserver"

	"verif/crash"
	"verif/evid"
	_ "verif/quiet"
)

// ---------------------------------------------------------------------------
// blobs

type blob struct {
	content []byte
	d       core.Digest
}

func mk(s string) *blob {
	d, err := core.NewDigester().FromBytes([]byte(s))
	if err != nil {
		panic(err)
	}
	return &blob{[]byte(s), d}
}

var (
	blobA = mk("abc")   // 3 bytes: piece length 2 -> 2 pieces
	blobB = mk("abcde") // 5 bytes: piece length 3 -> 2 pieces
	blobE = mk("")      // empty blob: 0 pieces
	// two blobs whose names share the first shard directory (found by search)
	blobS1, blobS2 = shardPair()
	known          = map[string]*blob{}
)

func shardPair() (*blob, *blob) {
	seen := map[string]*blob{}
	for i := 0; ; i++ {
		b := mk(fmt.Sprintf("shard-%d", i))
		k := b.d.Hex()[:2]
		if o, ok := seen[k]; ok && o.d.Hex()[2:4] != b.d.Hex()[2:4] {
			return o, b
		}
		if _, ok := seen[k]; !ok {
			seen[k] = b
		}
	}
}

func init() {
	for _, b := range []*blob{blobA, blobB, blobE, blobS1, blobS2} {
		known[b.d.Hex()] = b
	}
}

// piece length table of the origin under test: size < 4 -> 2, size >= 4 -> 3
var pieceLengths = map[datasize.ByteSize]datasize.ByteSize{0: 2, 4: 3}

// validMetaInfo is the statement's "valid for that blob": independent of
// core.NewMetaInfo (lengths and CRC32 of each slice for the RECORDED piece length).
func validMetaInfo(mi *core.MetaInfo, name string, content []byte) string {
	if mi == nil {
		return "nil metainfo"
	}
	if mi.Digest().Hex() != name {
		return fmt.Sprintf("names %s", mi.Digest().Hex())
	}
	if mi.Length() != int64(len(content)) {
		return fmt.Sprintf("length %d, blob has %d bytes", mi.Length(), len(content))
	}
	pl := mi.PieceLength()
	if pl <= 0 {
		return fmt.Sprintf("piece length %d", pl)
	}
	n := (int64(len(content)) + pl - 1) / pl
	if int64(mi.NumPieces()) != n {
		return fmt.Sprintf("%d pieces, want %d for piece length %d", mi.NumPieces(), n, pl)
	}
	for i := int64(0); i < n; i++ {
		s, e := i*pl, min((i+1)*pl, int64(len(content)))
		if mi.GetPieceLength(int(i)) != e-s {
			return fmt.Sprintf("piece %d has length %d, want %d", i, mi.GetPieceLength(int(i)), e-s)
		}
		if mi.GetPieceSum(int(i)) != crc32.ChecksumIEEE(content[s:e]) {
			return fmt.Sprintf("checksum of piece %d does not match the blob", i)
		}
	}
	return ""
}

// ---------------------------------------------------------------------------
// fakes for everything that is not the store (remote services)

// fakeBackend is remote storage that can (re-)serve every blob of the check.
type fakeBackend struct{ downloads atomic.Int64 }

func (f *fakeBackend) Stat(ns, name string) (*core.BlobInfo, error) {
	b, ok := known[name]
	if !ok {
		return nil, backenderrors.ErrBlobNotFound
	}
	return core.NewBlobInfo(int64(len(b.content))), nil
}
func (f *fakeBackend) Upload(ns, name string, src io.Reader) error {
	_, err := io.Copy(io.Discard, src)
	return err
}
func (f *fakeBackend) Download(ns, name string, dst io.Writer) error {
	b, ok := known[name]
	if !ok {
		return backenderrors.ErrBlobNotFound
	}
	f.downloads.Add(1)
	// two chunks: two write primitives on the staging file
	h := len(b.content) / 2
	for _, c := range [][]byte{b.content[:h], b.content[h:]} {
		if len(c) == 0 {
			continue
		}
		if _, err := dst.Write(c); err != nil {
			return err
		}
	}
	return nil
}
func (f *fakeBackend) List(prefix string, opts ...backend.ListOption) (*backend.ListResult, error) {
	return &backend.ListResult{}, nil
}
func (f *fakeBackend) Close() error { return nil }

type fakeRetry struct{}

func (fakeRetry) Add(persistedretry.Task) error                   { return nil }
func (fakeRetry) SyncExec(persistedretry.Task) error              { return nil }
func (fakeRetry) Close()                                          {}
func (fakeRetry) Find(interface{}) ([]persistedretry.Task, error) { return nil, nil }

type fakeBlobProvider struct{}

func (fakeBlobProvider) Provide(string) blobclient.Client { return nil }

type fakeClusterProvider struct{}

func (fakeClusterProvider) Provide(string) (blobclient.ClusterClient, error) {
	return nil, errors.New("c05: no remote cluster")
}

// ---------------------------------------------------------------------------
// one process lifetime of an origin (or proxy) on dir

type env struct {
	dir       string
	mem       bool
	clk       *clock.Mock
	cas       *store.CAStore
	gen       *metainfogen.Generator
	refresher *blobrefresh.Refresher
	be        *fakeBackend
	h         http.Handler
}

func casConfig(dir string, mem bool) store.CAStoreConfig {
	return store.CAStoreConfig{
		UploadDir:     filepath.Join(dir, "upload"),
		CacheDir:      filepath.Join(dir, "cache"),
		Capacity:      64,
		UploadCleanup: store.CleanupConfig{Disabled: true},
		CacheCleanup:  store.CleanupConfig{Disabled: true},
		MemoryCache: store.MemoryCacheConfig{
			Enabled: mem, MaxSize: 1 << 20, DrainWorkers: 1, DrainMaxRetries: 1,
			TTL: time.Hour, TTLInterval: time.Hour,
		},
	}
}

// open starts a process on dir. production=true goes through the exported
// store.NewCAStore (possible when no memory-cache workers would be started).
func open(dir string, mem, production bool, now time.Time) (*env, error) {
	e := &env{dir: dir, mem: mem, clk: clock.NewMock(), be: &fakeBackend{}}
	e.clk.Set(now)
	var err error
	if production && !mem {
		e.cas, err = store.NewCAStore(casConfig(dir, false), tally.NoopScope)
	} else {
		e.cas, err = store.VerifNewCAStore(casConfig(dir, mem), tally.NoopScope, e.clk)
	}
	if err != nil {
		return nil, err
	}
	e.gen, err = metainfogen.New(metainfogen.Config{PieceLengths: pieceLengths}, e.cas)
	if err != nil {
		return nil, err
	}
	backends, err := backend.NewManager(backend.ManagerConfig{}, nil, backend.AuthConfig{}, tally.NoopScope)
	if err != nil {
		return nil, err
	}
	if err := backends.Register(".*", e.be, false); err != nil {
		return nil, err
	}
	const addr = "origin1:80"
	ring := hashring.New(hashring.Config{MaxReplica: 1}, hostlist.Fixture(addr), healthcheck.IdentityFilter{}, tally.NoopScope)
	e.refresher = blobrefresh.New(blobrefresh.Config{}, tally.NoopScope, e.cas, backends, e.gen)
	srv, err := blobserver.New(blobserver.Config{}, tally.NoopScope, e.clk, addr, ring, e.cas,
		fakeBlobProvider{}, fakeClusterProvider{}, core.PeerContext{}, backends, e.refresher, e.gen, fakeRetry{})
	if err != nil {
		return nil, err
	}
	e.h = srv.Handler()
	return e, nil
}

func (e *env) close() {
	e.waitIdle()
	e.cas.Close()
}

var harnessDeadline = 20 * time.Second

// waitIdle waits for the refresher's background download goroutine without
// issuing requests (so that the number of file-system primitives is fixed).
func (e *env) waitIdle() {
	t0 := time.Now()
	for !e.refresher.VerifIdle() {
		if time.Since(t0) > harnessDeadline {
			fmt.Fprintln(os.Stderr, "HARNESS-ERROR property=C05: refresher does not become idle")
			os.Exit(2)
		}
		time.Sleep(20 * time.Microsecond)
	}
}

func (e *env) do(method, target string, body []byte, hdr map[string]string) (int, []byte, http.Header) {
	req := httptest.NewRequest(method, target, bytes.NewReader(body))
	req.ContentLength = int64(len(body))
	for k, v := range hdr {
		req.Header.Set(k, v)
	}
	w := httptest.NewRecorder()
	e.h.ServeHTTP(w, req)
	return w.Code, w.Body.Bytes(), w.Header()
}

// metainfo performs the metainfo request the way a tracker / agent does: a 202
// means "refresh started, come back"; it comes back after the refresh ended.
func (e *env) metainfo(d core.Digest) (status int, body []byte, accepted int) {
	for accepted = 0; accepted < 3; accepted++ {
		st, b, _ := e.do("GET", "/internal/namespace/ns/blobs/"+d.String()+"/metainfo", nil, nil)
		if st != http.StatusAccepted {
			return st, b, accepted
		}
		e.waitIdle()
	}
	return http.StatusAccepted, nil, accepted
}

func (e *env) drainAll() {
	for i := 0; e.mem && e.cas.VerifDrainQueueLen() > 0 && i < 8; i++ {
		e.cas.VerifDrainNext()
	}
}

// ---------------------------------------------------------------------------
// histories

type step struct {
	kind string
	b    *blob
	arg  int64
}

func (s step) String() string {
	if s.b == nil {
		return s.kind
	}
	return fmt.Sprintf("%s(%q,%d)", s.kind, s.b.content, s.arg)
}

type variant struct {
	name  string
	mem   bool
	steps []step
}

var t0 = time.Date(2024, 1, 1, 0, 0, 0, 0, time.UTC)

func (e *env) upload(prefix string, b *blob) error {
	base := prefix + "/blobs/" + b.d.String() + "/uploads"
	st, body, hdr := e.do("POST", base, nil, nil)
	if st == http.StatusConflict {
		return nil // already cached: clients stop here (cluster upload has ensured write-back)
	}
	if st != 200 {
		return fmt.Errorf("start upload: %d %s", st, body)
	}
	uid := hdr.Get("Location")
	h := len(b.content) / 2
	for _, r := range [][2]int{{0, h}, {h, len(b.content)}} {
		if r[0] == r[1] {
			continue
		}
		st, body, _ := e.do("PATCH", base+"/"+uid, b.content[r[0]:r[1]], map[string]string{"Content-Range": fmt.Sprintf("%d-%d", r[0], r[1])})
		if st != 200 {
			return fmt.Errorf("patch upload: %d %s", st, body)
		}
	}
	st, body, _ = e.do("PUT", base+"/"+uid, nil, nil)
	if st != 200 {
		return fmt.Errorf("commit upload: %d %s", st, body)
	}
	return nil
}

func (e *env) apply(s step) error {
	name := ""
	if s.b != nil {
		name = s.b.d.Hex()
	}
	switch s.kind {
	case "transfer-upload": // origin-to-origin transfer: commit + Generate
		return e.upload("/internal", s.b)
	case "cluster-upload": // proxy -> origin: commit + persist flag + write-back task + Generate
		return e.upload("/namespace/ns", s.b)
	case "get-metainfo": // absent blob / metainfo: backend refresh through blobrefresh.Refresher
		st, body, _ := e.metainfo(s.b.d)
		if st != 200 {
			return fmt.Errorf("get metainfo: %d %s", st, body)
		}
		mi, err := core.DeserializeMetaInfo(body)
		if err != nil {
			return fmt.Errorf("get metainfo: %v", err)
		}
		if m := validMetaInfo(mi, name, s.b.content); m != "" {
			return fmt.Errorf("get metainfo: %s", m)
		}
		return nil
	case "overwrite-metainfo":
		st, body, _ := e.do("POST", fmt.Sprintf("/internal/blobs/%s/metainfo?piece_length=%d", s.b.d.String(), s.arg), nil, nil)
		if st != 200 {
			return fmt.Errorf("overwrite metainfo: %d %s", st, body)
		}
		return nil
	case "read": // last-access-time sidecar update through GetCacheFileReader
		e.clk.Add(6 * time.Minute)
		r, err := e.cas.GetCacheFileReader(name)
		if err != nil {
			return err
		}
		defer r.Close()
		got, err := io.ReadAll(r)
		if err != nil || !bytes.Equal(got, s.b.content) {
			return fmt.Errorf("read: %q %v", got, err)
		}
		return nil
	case "drain":
		e.drainAll()
		if e.cas.VerifDrainQueueLen() != 0 {
			return errors.New("drain queue not empty")
		}
		if _, err := os.Stat(filepath.Join(e.dir, "cache", name[:2], name[2:4], name, "data")); s.b != nil && err != nil {
			return fmt.Errorf("drain did not write the blob: %v", err)
		}
		return nil
	case "proxy-upload": // the CAStore upload API as the proxy's registry driver uses it
		uid := fmt.Sprintf("upload-%s-%d", name[:6], s.arg)
		if err := e.cas.CreateUploadFile(uid, 0); err != nil {
			return err
		}
		w, err := e.cas.GetUploadFileReadWriter(uid)
		if err != nil {
			return err
		}
		h := len(s.b.content) / 2
		for _, c := range [][]byte{s.b.content[:h], s.b.content[h:]} {
			if _, err := w.Write(c); err != nil {
				w.Close()
				return err
			}
		}
		if err := w.Close(); err != nil {
			return err
		}
		if err := e.cas.MoveUploadFileToCache(uid, name); err != nil && !os.IsExist(err) {
			return err
		}
		return nil
	case "create-cache-file":
		return e.cas.CreateCacheFile(name, bytes.NewReader(s.b.content))
	case "write-with-metainfo": // what Refresher.download calls
		return e.cas.WriteBlobToCacheWithMetaInfo(name, uint64(len(s.b.content)), func(w store.FileReadWriter) error {
			return e.be.Download("ns", name, w)
		}, e.gen.GetPieceLength(int64(len(s.b.content))))
	case "persist":
		_, err := e.cas.SetCacheFileMetadata(name, metadata.NewPersist(s.arg != 0))
		return err
	case "generate":
		return e.gen.Generate(s.b.d)
	}
	return fmt.Errorf("unknown step %q", s.kind)
}

func variants(thorough bool) []variant {
	st := func(kind string, b *blob, arg ...int64) step {
		s := step{kind: kind, b: b}
		if len(arg) > 0 {
			s.arg = arg[0]
		}
		return s
	}
	vs := []variant{
		{"cluster upload (start, patches, commit, persist flag, metainfo), metainfo request", false,
			[]step{st("cluster-upload", blobB), st("get-metainfo", blobB)}},
		{"transfer upload, metainfo overwritten with piece length 1 then 4", false,
			[]step{st("transfer-upload", blobB), st("overwrite-metainfo", blobB, 1), st("overwrite-metainfo", blobB, 4)}},
		{"backend refresh on metainfo request, read after 6 min (last access time)", false,
			[]step{st("get-metainfo", blobA), st("read", blobA)}},
		{"backend refresh through the memory cache, drain to disk", true,
			[]step{st("get-metainfo", blobA), st("drain", blobA)}},
		{"proxy upload, CreateCacheFile, Generate for both", false,
			[]step{st("proxy-upload", blobA), st("create-cache-file", blobB), st("generate", blobA), st("generate", blobB)}},
	}
	if thorough {
		vs = append(vs,
			variant{"empty blob: cluster upload, metainfo request", false,
				[]step{st("cluster-upload", blobE), st("get-metainfo", blobE)}},
			variant{"two blobs sharing a shard directory: transfer upload, cluster upload", false,
				[]step{st("transfer-upload", blobS1), st("cluster-upload", blobS2)}},
			variant{"cluster upload repeated (conflict ensures write-back)", false,
				[]step{st("cluster-upload", blobA), st("cluster-upload", blobA)}},
			variant{"blob cached without metainfo, metainfo request refreshes it", false,
				[]step{st("proxy-upload", blobB), st("get-metainfo", blobB), st("read", blobB)}},
			variant{"persist flag true, false, true", false,
				[]step{st("cluster-upload", blobA), st("persist", blobA, 0), st("persist", blobA, 1)}},
			variant{"memory cache: two write-throughs, drain, overwrite metainfo", true,
				[]step{st("write-with-metainfo", blobA), st("write-with-metainfo", blobB), st("drain", blobB), st("overwrite-metainfo", blobA, 1)}},
			variant{"memory cache: transfer upload, refresh of another blob, drain, read", true,
				[]step{st("transfer-upload", blobB), st("get-metainfo", blobA), st("drain", blobA), st("read", blobA), st("read", blobB)}},
			variant{"WriteBlobToCacheWithMetaInfo twice for the same blob, overwrite piece length 5", false,
				[]step{st("write-with-metainfo", blobB), st("write-with-metainfo", blobB), st("overwrite-metainfo", blobB, 5)}},
		)
	}
	return vs
}

func runHistory(dir string, v variant) error {
	e, err := open(dir, v.mem, false, t0)
	if err != nil {
		return err
	}
	defer e.close()
	for _, s := range v.steps {
		if err := e.apply(s); err != nil {
			return fmt.Errorf("%s: %v", s, err)
		}
	}
	return nil
}

// ---------------------------------------------------------------------------
// restart + the statement's clauses

func errClass(err error) string {
	m := err.Error()
	if strings.Contains(m, "json:") {
		return "undecodable JSON"
	}
	for _, k := range []string{"parse name", "no such file", "file exists", "is a directory", "not a directory", "EOF"} {
		if strings.Contains(m, k) {
			return k
		}
	}
	m = hexName.ReplaceAllString(m, "<name>")
	if len(m) > 60 {
		m = m[:60]
	}
	return m
}

var hexName = regexp.MustCompile(`[0-9a-f]{64}`)

type counters struct {
	images, listedBlobs, absentMeta, validMeta, emptyCache, accepted, regenerated, persistUnreadable atomic.Int64
}

var cnt counters

type failure struct{ fp, msg string }

// storeClauses: every listed blob hashes to its name; TorrentMeta is absent
// (IsNotExist) or valid for the blob. Returns the listed names that have bytes.
func storeClauses(e *env, when string, count bool) (readable []string, fails []failure) {
	names, err := e.cas.ListCacheFiles()
	if err != nil {
		return nil, []failure{{"ListCacheFiles fails after restart" + when, err.Error()}}
	}
	sort.Strings(names)
	if count && len(names) == 0 {
		cnt.emptyCache.Add(1)
	}
	for _, name := range names {
		r, err := e.cas.GetCacheFileReader(name)
		if err != nil {
			fails = append(fails, failure{"store lists a blob it cannot read" + when + ": " + errClass(err), fmt.Sprintf("%s: %v", name, err)})
			continue
		}
		content, err := io.ReadAll(r)
		r.Close()
		if err != nil {
			fails = append(fails, failure{"store lists a blob it cannot read" + when + ": " + errClass(err), fmt.Sprintf("%s: %v", name, err)})
			continue
		}
		d, _ := core.NewDigester().FromBytes(content)
		if d.Hex() != name {
			fails = append(fails, failure{"listed blob does not hash to its name" + when, fmt.Sprintf("%s holds %q (sha256 %s)", name, content, d.Hex())})
			continue
		}
		readable = append(readable, name)
		if count {
			cnt.listedBlobs.Add(1)
		}
		var tm metadata.TorrentMeta
		err = e.cas.GetCacheFileMetadata(name, &tm)
		switch {
		case err == nil:
			if m := validMetaInfo(tm.MetaInfo, name, content); m != "" {
				fails = append(fails, failure{"torrent metainfo of a listed blob is not valid for the blob" + when, fmt.Sprintf("%s (%q): %s", name, content, m)})
			} else if count {
				cnt.validMeta.Add(1)
			}
		case os.IsNotExist(err):
			if count {
				cnt.absentMeta.Add(1)
			}
		default:
			raw, _ := os.ReadFile(filepath.Join(e.dir, "cache", name[:2], name[2:4], name, "_torrentmeta"))
			fails = append(fails, failure{"torrent metainfo of a listed blob is neither absent nor valid" + when + ": " + errClass(err), fmt.Sprintf("%s: %v; _torrentmeta holds %q", name, err, raw)})
		}
		// observation only (not a clause of the statement): is the persist flag readable?
		var p metadata.Persist
		if err := e.cas.GetCacheFileMetadata(name, &p); err != nil && !os.IsNotExist(err) && count {
			cnt.persistUnreadable.Add(1)
		}
	}
	return readable, fails
}

var tRestart = t0.Add(24 * time.Hour)

// restartRequests is process lifetime 1 after the crash: open, list, read, then
// a metainfo request for every cached blob (and, without assertion, for every
// other blob of the history: a refresh after the restart).
func restartRequests(dir string, v variant, assert bool) []failure {
	e, err := open(dir, v.mem, true, tRestart)
	if err != nil {
		return []failure{{"store does not open after restart: " + errClass(err), err.Error()}}
	}
	defer e.close()
	if assert {
		cnt.images.Add(1)
	}
	readable, fails := storeClauses(e, "", assert)
	listed := map[string]bool{}
	for _, name := range readable {
		listed[name] = true
		b := known[name]
		st, body, accepted := e.metainfo(b.d)
		if assert && accepted > 0 {
			cnt.accepted.Add(1)
		}
		if st != 200 {
			what := fmt.Sprintf("status %d", st)
			if st == http.StatusAccepted {
				what = "still 202 after 3 completed refreshes"
			} else if len(body) > 0 {
				what += ": " + errClass(errors.New(string(body)))
			}
			fails = append(fails, failure{"metainfo request for a cached blob fails permanently after restart (" + what + ")", fmt.Sprintf("%s: %d %s (backend downloads: %d)", name, st, body, e.be.downloads.Load())})
			continue
		}
		mi, err := core.DeserializeMetaInfo(body)
		if err != nil {
			fails = append(fails, failure{"metainfo request for a cached blob returns undecodable metainfo", fmt.Sprintf("%s: %v", name, err)})
			continue
		}
		if m := validMetaInfo(mi, name, b.content); m != "" {
			fails = append(fails, failure{"metainfo request for a cached blob returns metainfo that is not valid for the blob", fmt.Sprintf("%s: %s", name, m)})
		}
	}
	// refresh after the restart for the blobs of the history that are not cached
	for _, s := range v.steps {
		if s.b != nil && !listed[s.b.d.Hex()] {
			listed[s.b.d.Hex()] = true
			e.metainfo(s.b.d)
		}
	}
	e.drainAll()
	_, f2 := storeClauses(e, " (after the restarted process served metainfo requests)", false)
	return append(fails, f2...)
}

// restartGenerate is an alternative lifetime 1 on a copy of the crash image:
// open, then metainfogen.Generator.Generate for every cached blob (what upload
// commit / write-back do on demand).
func restartGenerate(dir string, v variant) []failure {
	e, err := open(dir, v.mem, true, tRestart)
	if err != nil {
		return []failure{{"store does not open after restart: " + errClass(err), err.Error()}}
	}
	defer e.close()
	readable, _ := storeClauses(e, "", false)
	var fails []failure
	for _, name := range readable {
		b := known[name]
		if err := e.gen.Generate(b.d); err != nil {
			fails = append(fails, failure{"metainfo cannot be generated for a cached blob after restart: " + errClass(err), fmt.Sprintf("%s: %v", name, err)})
			continue
		}
		cnt.regenerated.Add(1)
		var tm metadata.TorrentMeta
		if err := e.cas.GetCacheFileMetadata(name, &tm); err != nil {
			fails = append(fails, failure{"metainfo unreadable right after Generate on the restarted store: " + errClass(err), fmt.Sprintf("%s: %v", name, err)})
		} else if m := validMetaInfo(tm.MetaInfo, name, b.content); m != "" {
			fails = append(fails, failure{"Generate on the restarted store wrote metainfo that is not valid for the blob", fmt.Sprintf("%s: %s", name, m)})
		}
	}
	_, f2 := storeClauses(e, " (after Generate on the restarted store)", false)
	return append(fails, f2...)
}

func copyTree(src, dst string) error {
	return filepath.Walk(src, func(p string, fi os.FileInfo, err error) error {
		if err != nil {
			return err
		}
		rel, _ := filepath.Rel(src, p)
		q := filepath.Join(dst, rel)
		if fi.IsDir() {
			return os.MkdirAll(q, 0o775)
		}
		b, err := os.ReadFile(p)
		if err != nil {
			return err
		}
		return os.WriteFile(q, b, fi.Mode().Perm())
	})
}

func check(dir string, v variant) (string, string) {
	cp, err := os.MkdirTemp("", "c05-copy-")
	if err != nil {
		fmt.Fprintln(os.Stderr, "HARNESS-ERROR property=C05:", err)
		os.Exit(2)
	}
	defer os.RemoveAll(cp)
	if err := copyTree(dir, cp); err != nil {
		fmt.Fprintln(os.Stderr, "HARNESS-ERROR property=C05:", err)
		os.Exit(2)
	}
	fails := restartRequests(dir, v, true)
	fails = append(fails, restartGenerate(cp, v)...)
	if len(fails) == 0 {
		return "", ""
	}
	// one violation per crash image: the first failing clause; the others go into the detail
	var all []string
	for _, f := range fails {
		all = append(all, f.fp+" -- "+f.msg)
	}
	return fails[0].fp, strings.Join(all, " || ")
}

var uuidRe = regexp.MustCompile(`[0-9a-f]{8}-[0-9a-f]{4}-[0-9a-f]{4}-[0-9a-f]{4}-[0-9a-f]{12}`)

func main() {
	run := evid.New("C05", "fault_enumeration")
	run.Rule = "histories on the real CAStore through the real origin handlers (transfer / cluster upload: start, patches, commit, persist flag, Generate; metainfo request -> blobrefresh.Refresher -> WriteBlobToCacheWithMetaInfo from a fake backend, memory cache off and on + drain step; metainfo overwrite; last-access-time update by a read) and through the CAStore upload API the proxy uses; one case per mutating FS primitive of the history (crash before it; os shim numbers mkdir/create/write/pwrite/truncate/rename/unlink/rmdir/chmod), then restart with the real code (NewCAStore wipes the upload dir): ListCacheFiles, read + sha256 of every listed name, TorrentMeta absent-or-valid, metainfo request for every cached blob (202 -> wait for the refresh -> again), and on a copy of the image Generator.Generate for every cached blob. thorough adds more histories, RemoveAll in descending order and a second crash before every primitive of the restarted process. distinct = distinct (history, crash point[, second crash point]) cases."
	run.Assume("process-crash model: completed syscalls persist, nothing after the crash point happens, no torn writes")
	run.Assume("os shim performs the same primitives as package os; RemoveAll child order ascending (quick) and also descending (thorough)")
	run.Assume("the storage backend can re-serve every blob of the history (fake backend.Client); write-back task store, hash ring (single origin) and replicas are fakes")
	run.Assume("memory-cache histories: drain / TTL goroutines are not started (store built by an in-package wrapper around newCAStore), the drain step is called by the check; restart without memory cache goes through the exported store.NewCAStore")
	total := 0
	var sampled int
	for _, desc := range []bool{false, true} {
		if desc && !run.Thorough() {
			continue
		}
		for _, v := range variants(run.Thorough()) {
			v := v
			var stepNames []string
			for _, s := range v.steps {
				stepNames = append(stepNames, s.String())
			}
			c := crash.Case{
				Name:       fmt.Sprintf("%s [%s; memcache=%v rmdesc=%v]", v.name, strings.Join(stepNames, ", "), v.mem, desc),
				Run:        func(dir string) error { return runHistory(dir, v) },
				Check:      func(dir string) (string, string) { return check(dir, v) },
				Recover:    func(dir string) { restartRequests(dir, v, false) },
				RemoveDesc: desc,
			}
			st, err := crash.Enumerate(run, c, run.Thorough(), evid.Workers())
			if err != nil {
				run.Fatal(err)
			}
			for k := 0; k < st.CrashPoints+st.DoubleCases; k++ {
				run.Distinct(fmt.Sprintf("%s#%d", c.Name, k))
			}
			total += st.CrashPoints
			for i := range st.Log {
				st.Log[i] = uuidRe.ReplaceAllString(st.Log[i], "UUID")
			}
			run.Set("history:"+c.Name, map[string]interface{}{"primitives": st.Primitives, "crash_points": st.CrashPoints, "double_crash_cases": st.DoubleCases})
			if sampled < 3 {
				sampled++
				run.Sample(map[string]interface{}{"history": c.Name, "primitives": st.Log})
			}
		}
	}
	run.Set("crash_points", total)
	run.Set("restart_images_checked", cnt.images.Load())
	run.Set("images_with_empty_cache", cnt.emptyCache.Load())
	run.Set("listed_blobs_checked", cnt.listedBlobs.Load())
	run.Set("listed_blobs_with_absent_metainfo", cnt.absentMeta.Load())
	run.Set("listed_blobs_with_valid_metainfo", cnt.validMeta.Load())
	run.Set("metainfo_requests_answered_202_then_refreshed", cnt.accepted.Load())
	run.Set("generate_calls_after_restart", cnt.regenerated.Load())
	run.Set("observation_persist_sidecar_unreadable_after_crash", cnt.persistUnreadable.Load())
	if run.NViolations() == 0 && (cnt.absentMeta.Load() == 0 || cnt.validMeta.Load() == 0 || cnt.accepted.Load() == 0) {
		run.Fatal(fmt.Errorf("vacuous: absent=%d valid=%d accepted=%d", cnt.absentMeta.Load(), cnt.validMeta.Load(), cnt.accepted.Load()))
	}
	run.Finish()
}
