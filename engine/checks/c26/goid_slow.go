//go:build !amd64 || race

package main

func goid() uint64 { return slowGoid() }
