// C26, E1 part: announces racing with the peer store's periodic cleanup.
//
// The tracker's default peer store (peerstore.LocalStore) runs two periodic
// cleanup passes on its own goroutine while announces arrive. Each scenario
// below puts the REAL store under the controlled scheduler (sync ->
// verif/shim/vsync through the build overlay: every Lock/RLock/Unlock/RUnlock
// of tracker/peerstore is a scheduling point), serves announces through the
// REAL tracker HTTP handler on announcer threads while a cleaner thread runs
// the passes, enumerates every interleaving up to a preemption bound, and then
// keeps using the same store: closing announces of every agent, a clock
// advance, a second cleanup, more announces. Every 200 response of every phase
// is checked with handoutViolation (the clauses of the statement).
//
// The scenarios are generated, not hand-picked: every start state (each stored
// agent expired or fresh, in every list order up to agent symmetry) x every
// announcer program up to a length over the alphabet {agent} x {complete,
// incomplete}.
package main

import (
	"encoding/json"
	"errors"
	"fmt"
	"net/http"
	"os"
	"os/exec"
	"sort"
	"strconv"
	"strings"
	"sync"
	"syscall"
	"time"

	"github.com/uber-go/tally"
	"github.com/uber/kraken/core"
	"github.com/uber/kraken/tracker/peerhandoutpolicy"
	"github.com/uber/kraken/tracker/peerstore"
	"github.com/uber/kraken/tracker/trackerserver"

	"verif/evid"
	"verif/shim/vrand"
	"verif/shim/vsync"
	"verif/vrt"
)

// ---------------------------------------------------------------- scenarios

type annStep struct {
	agent    int // index into agentNames
	complete bool
}

func (a annStep) String() string {
	c := 0
	if a.complete {
		c = 1
	}
	return fmt.Sprintf("%s%d", agentNames[a.agent], c)
}

type e1scen struct {
	family    string
	name      string
	policy    string
	limit     int
	origins   int
	start     string      // position i = agent i: 'E' stored and expired, 'F' stored and fresh
	cleaner   []string    // passes of the single cleanup thread, in order ("ce" entries, "cg" groups)
	progs     [][]annStep // announcer threads a0, a1, ...
	tick      bool        // a thread advances the clock by one unit ('E' entries expire at that tick); clock reads are points
	unlockPts bool        // Unlock/RUnlock are scheduling points too
	bound     int         // preemption bound
}

const e1Agents = 3

// startStates: every sequence over {E,F} of length 1..maxLen with at least one
// E (otherwise the entry cleanup has nothing to decide). Agents are
// interchangeable, so position i is always agent i.
func startStates(maxLen int) []string {
	var out []string
	for n := 1; n <= maxLen; n++ {
		for bits := 0; bits < 1<<n; bits++ {
			b := make([]byte, n)
			hasE := false
			for i := range b {
				if bits&(1<<i) == 0 {
					b[i] = 'E'
					hasE = true
				} else {
					b[i] = 'F'
				}
			}
			if hasE {
				out = append(out, string(b))
			}
		}
	}
	return out
}

// alphabet of announcer steps for a start state: every stored agent and one
// agent the store has not seen (more unseen agents are symmetric), with either
// completion flag.
func stepAlphabet(start string) []annStep {
	n := len(start)
	if n < e1Agents {
		n++
	}
	var out []annStep
	for a := 0; a < n; a++ {
		out = append(out, annStep{a, false}, annStep{a, true})
	}
	return out
}

// programs: every sequence of exactly length l over alpha.
func programs(alpha []annStep, l int) [][]annStep {
	out := [][]annStep{{}}
	for i := 0; i < l; i++ {
		var next [][]annStep
		for _, p := range out {
			for _, s := range alpha {
				next = append(next, append(append([]annStep{}, p...), s))
			}
		}
		out = next
	}
	return out
}

func progString(p []annStep) string {
	var s []string
	for _, x := range p {
		s = append(s, x.String())
	}
	return strings.Join(s, ",")
}

func (sc *e1scen) setName() {
	var pr []string
	for _, p := range sc.progs {
		pr = append(pr, progString(p))
	}
	pts := "all-lock-points"
	if !sc.unlockPts {
		pts = "acquire-points"
	}
	t := ""
	if sc.tick {
		t = " tick"
	}
	sc.name = fmt.Sprintf("e1 %s limit=%d origins=%d start=%s cleaner=%s announcers=%s%s %s bound=%d",
		sc.policy, sc.limit, sc.origins, sc.start, strings.Join(sc.cleaner, ","), strings.Join(pr, "|"), t, pts, sc.bound)
}

// e1Scenarios is the (deterministic) scenario list of a tier.
func e1Scenarios(thorough bool) []*e1scen {
	var out []*e1scen
	add := func(sc e1scen) {
		sc.setName()
		out = append(out, &sc)
	}
	both := []string{"ce", "cg"}
	if !thorough {
		// one announcer thread, programs of length 1 and 2, 1-2 stored agents
		for _, st := range startStates(2) {
			for l := 1; l <= 2; l++ {
				for _, p := range programs(stepAlphabet(st), l) {
					add(e1scen{family: "one announcer", policy: "completeness", limit: 5, origins: 1, start: st, cleaner: both,
						progs: [][]annStep{p}, unlockPts: true, bound: 2})
				}
			}
		}
		// binding handout limit (closing announces enumerate every permutation draw)
		for _, st := range startStates(2) {
			for _, p := range programs(stepAlphabet(st), 1) {
				add(e1scen{family: "one announcer, binding limit", policy: "completeness", limit: 2, origins: 1, start: st, cleaner: both,
					progs: [][]annStep{p}, unlockPts: true, bound: 2})
			}
		}
		return out
	}
	for _, st := range startStates(3) {
		// 3 preemptions with 1-2 stored agents, 2 with 3 stored agents
		bound := 3
		if len(st) == 3 {
			bound = 2
		}
		for l := 1; l <= 2; l++ {
			for _, p := range programs(stepAlphabet(st), l) {
				add(e1scen{family: "one announcer", policy: "completeness", limit: 5, origins: 1, start: st, cleaner: both,
					progs: [][]annStep{p}, unlockPts: true, bound: bound})
			}
		}
	}
	for _, st := range startStates(2) {
		for _, p := range programs(stepAlphabet(st), 2) {
			add(e1scen{family: "one announcer, groups pass first", policy: "completeness", limit: 5, origins: 1, start: st, cleaner: []string{"cg", "ce"},
				progs: [][]annStep{p}, unlockPts: true, bound: 3})
			add(e1scen{family: "one announcer, default policy, no origin", policy: "default", limit: 5, origins: 0, start: st, cleaner: both,
				progs: [][]annStep{p}, unlockPts: true, bound: 2})
		}
	}
	for _, st := range startStates(3) {
		for _, p := range programs(stepAlphabet(st), 1) {
			add(e1scen{family: "one announcer, binding limit", policy: "completeness", limit: 2, origins: 1, start: st, cleaner: both,
				progs: [][]annStep{p}, unlockPts: true, bound: 3})
		}
	}
	// two announcer threads, one announce each (unordered pairs)
	for _, st := range startStates(2) {
		al := stepAlphabet(st)
		for i := range al {
			for j := i; j < len(al); j++ {
				add(e1scen{family: "two announcers", policy: "completeness", limit: 5, origins: 1, start: st, cleaner: both,
					progs: [][]annStep{{al[i]}, {al[j]}}, unlockPts: true, bound: 2})
			}
		}
	}
	// entries reach their expiry while the passes run
	for _, st := range startStates(2) {
		for _, p := range programs(stepAlphabet(st), 1) {
			add(e1scen{family: "clock tick", policy: "completeness", limit: 5, origins: 1, start: st, cleaner: both,
				progs: [][]annStep{p}, tick: true, unlockPts: false, bound: 2})
		}
	}
	return out
}

// ---------------------------------------------------------------- execution

// swapStore lets one tracker server (router, middleware, policy) be reused by
// all executions of a process: each execution plugs in its fresh LocalStore.
// The scheduler runs one execution at a time per process.
type swapStore struct{ cur peerstore.Store }

func (s *swapStore) Close() {}
func (s *swapStore) GetPeers(h core.InfoHash, n int) ([]*core.PeerInfo, error) {
	return s.cur.GetPeers(h, n)
}
func (s *swapStore) UpdatePeer(h core.InfoHash, p *core.PeerInfo) error {
	return s.cur.UpdatePeer(h, p)
}

type e1srv struct {
	store *swapStore
	srv   *trackerserver.Server
}

var e1servers = map[string]*e1srv{}

func e1server(policy string, limit, origins int) *e1srv {
	key := fmt.Sprintf("%s/%d/%d", policy, limit, origins)
	if s, ok := e1servers[key]; ok {
		return s
	}
	pol, err := peerhandoutpolicy.NewPriorityPolicy(tally.NoopScope, policy)
	if err != nil {
		panic(err)
	}
	st := &swapStore{}
	srv := trackerserver.New(trackerserver.Config{PeerHandoutLimit: limit}, tally.NoopScope, pol, st, fakeOrigins{origins}, nil)
	s := &e1srv{store: st, srv: srv}
	e1servers[key] = s
	return s
}

type e1call struct {
	th         string
	kind       string // "a" announce, "ce", "cg"
	agent      int
	start, end int
}

type e1exec struct {
	sc      *e1scen
	clk     *vclock
	ps      *peerstore.LocalStore
	srv     *trackerserver.Server
	ev      int
	calls   []*e1call
	vio     []string
	harness string // harness error, if any
	conc    []string
	binding bool
	shapes  map[string]bool
}

func (x *e1exec) begin(th, kind string, agent int) *e1call {
	x.ev++
	c := &e1call{th: th, kind: kind, agent: agent, start: x.ev}
	x.calls = append(x.calls, c)
	return c
}

func (x *e1exec) finish(c *e1call) { x.ev++; c.end = x.ev }

func (x *e1exec) cleanup(th, pass string) {
	c := x.begin(th, pass, -1)
	if pass == "ce" {
		x.ps.VerifCleanupExpiredPeerEntries()
	} else {
		x.ps.VerifCleanupExpiredPeerGroups()
	}
	x.finish(c)
}

func renderHandout(ps []*core.PeerInfo) string {
	var l []string
	for _, p := range ps {
		f := "-"
		if p.Complete {
			f = "+"
		}
		l = append(l, nameOf(p.PeerID)+f)
	}
	return "[" + strings.Join(l, " ") + "]"
}

// e1perm is the pending answer for the rand.Perm draw of the (single-threaded)
// closing phase; nil = identity permutation. One execution at a time per
// process, and E1 worker processes run no BFS.
var e1perm *permCtx

func e1Decider(n int, label string) int {
	c := e1perm
	if c == nil {
		return 0
	}
	c.draws++
	d := c.k % n
	c.k /= n
	return d
}

// announce performs one announce of agent on the calling thread; k is the index
// of the permutation GetPeers is to draw. E1 announces enter at Server.announce
// -- the function both HTTP endpoints call once the request is decoded:
// UpdatePeer, then getPeerHandout (store sample + origins + policy) -- whose
// result is what the endpoints encode as the response. (Request decoding and
// response encoding are exercised by the BFS searches; the shallow stack keeps
// the scheduler's per-point cost low, and the per-request tally scopes of the
// HTTP middleware would dominate the run time.)
func (x *e1exec) announce(th, phase string, agent int, complete bool, k int) {
	id := agentIDs[agentNames[agent]]
	announcer := core.NewPeerInfo(id, "10.0.0."+fmt.Sprint(id[0]), 6000+int(id[0]), false, complete)
	status := http.StatusOK
	c := x.begin(th, "a", agent)
	if phase != "concurrent" {
		e1perm = &permCtx{k: k}
	}
	peers, err := x.srv.VerifAnnounce(blobDigest, blobHash, announcer)
	if phase != "concurrent" {
		e1perm = nil
	}
	x.finish(c)
	if err != nil {
		status = http.StatusInternalServerError
	}
	if status != http.StatusOK {
		// no handout at all (blob without origins on an empty store): nothing
		// the statement constrains
		if phase == "concurrent" {
			x.conc = append(x.conc, fmt.Sprintf("%s:%s=%d", th, annStep{agent, complete}, status))
		}
		return
	}
	if phase == "concurrent" {
		x.conc = append(x.conc, fmt.Sprintf("%s:%s=%s", th, annStep{agent, complete}, renderHandout(peers)))
	}
	if !complete {
		shape := make([]byte, 0, len(peers))
		for _, p := range peers {
			shape = append(shape, "SOI"[entryClass(p)])
		}
		x.shapes[string(shape)] = true
	}
	if fp, extra := handoutViolation(x.sc.policy, x.sc.limit, x.sc.origins, id, complete, peers); fp != "" {
		x.vio = append(x.vio, fmt.Sprintf("%s (%s) | %sannounce by %s complete=%v perm#%d on thread %s -> handout %s",
			fp, phase, extra, agentNames[agent], complete, k, th, renderHandout(peers)))
	}
}

func (x *e1exec) listing() []*core.PeerInfo {
	peers, err := x.ps.GetPeers(blobHash, 1<<20)
	if err != nil {
		x.harness = "GetPeers: " + err.Error()
	}
	return peers
}

// closing announce of one agent (incomplete, so that it gets a handout): when
// the handout limit is binding for the stored list, the announce is repeated
// once per permutation GetPeers can draw (a repeated announce of the same agent
// with the same fields at the same instant leaves the store as it is).
func (x *e1exec) closing(phase string, agent int) {
	m := len(x.listing())
	present := false
	for _, p := range x.listing() {
		if p.PeerID == agentIDs[agentNames[agent]] {
			present = true
		}
	}
	if !present {
		m++
	}
	n := 1
	if x.sc.limit < m && m <= maxPermM {
		n = factorial(m)
		x.binding = true
	}
	for k := 0; k < n; k++ {
		x.announce("main", phase, agent, false, k)
	}
}

func (x *e1exec) round(phase string, plusFirst bool) {
	for a := 0; a < e1Agents; a++ {
		x.closing(phase, a)
	}
	if plusFirst {
		// the duplicate of an agent appears with its own next announce and is
		// seen by the next announce of anybody else
		x.closing(phase, 0)
	}
}

func (sc *e1scen) body() (string, string) {
	vrand.Decider = e1Decider
	vsync.UnlockPoints = sc.unlockPts
	// the start state and the closing phase run on the main thread alone: lock
	// operations need not hand the baton to the scheduler there
	vsync.Points = false
	clk := newVClock()
	ps := peerstore.NewLocalStoreNoCleanup(peerstore.LocalConfig{TTL: ttl}, clk)
	srv := e1server(sc.policy, sc.limit, sc.origins)
	srv.store.cur = ps
	x := &e1exec{sc: sc, clk: clk, ps: ps, srv: srv.srv, shapes: map[string]bool{}}

	// start state: every stored agent announced at t0 (agent 0 as a seeder);
	// the clock passes their expiry; the fresh ones announce again
	for i := range sc.start {
		x.announce("pre", "start state", i, i == 0, 0)
	}
	if sc.tick {
		clk.Add(ttl) // not yet expired: the tick thread adds the last unit
	} else {
		clk.Add(ttl + unit)
	}
	for i, c := range sc.start {
		if c == 'F' {
			x.announce("pre", "start state", i, i == 0, 0)
		}
	}

	// concurrent phase
	clk.points = sc.tick
	vsync.Points = true
	vrt.GoNamed("cleaner", func() {
		for _, p := range sc.cleaner {
			x.cleanup("cleaner", p)
		}
	})
	for i, prog := range sc.progs {
		name, prog := fmt.Sprintf("a%d", i), prog
		vrt.GoNamed(name, func() {
			for _, st := range prog {
				x.announce(name, "concurrent", st.agent, st.complete, 0)
			}
		})
	}
	if sc.tick {
		vrt.GoNamed("tick", func() {
			vrt.Point("tick")
			clk.Add(unit)
		})
	}
	vrt.Join()
	clk.points = false
	vsync.Points = false
	afterRace := renderHandout(x.listing())

	// closing phase on the same store
	const after = "after the cleanup passes"
	x.round(after, true)
	clk.Add((ttlUnits/2 + 1) * unit)
	x.round(after, false) // everybody refreshes
	clk.Add((ttlUnits/2 + 1) * unit)
	x.cleanup("main", "ce") // whatever was not refreshed since the race is now expired
	x.cleanup("main", "cg")
	x.round(after+", a TTL and a second cleanup later", true)
	final := renderHandout(x.listing())

	if x.harness != "" {
		return "", "HARNESS: " + x.harness
	}
	overlap, refreshRace := false, false
	for _, a := range x.calls {
		if a.kind != "a" || a.th == "pre" || a.th == "main" {
			continue
		}
		for _, c := range x.calls {
			if c.th == "cleaner" && a.start < c.end && c.start < a.end {
				overlap = true
				if c.kind == "ce" && a.agent < len(sc.start) && sc.start[a.agent] == 'E' {
					refreshRace = true
				}
			}
		}
	}
	var shapes []string
	for s := range x.shapes {
		shapes = append(shapes, s)
	}
	sort.Strings(shapes)
	obs := fmt.Sprintf("ovl=%v refresh-vs-entry-pass=%v binding=%v %s raced=%s final=%s shapes=%s",
		overlap, refreshRace, x.binding, strings.Join(x.conc, " "), afterRace, final, strings.Join(shapes, ","))
	if len(x.vio) > 0 {
		return obs, strings.Join(dedupStrings(x.vio), "\n")
	}
	return obs, ""
}

func dedupStrings(xs []string) []string {
	seen := map[string]bool{}
	var out []string
	for _, x := range xs {
		if !seen[x] {
			seen[x] = true
			out = append(out, x)
		}
	}
	return out
}

func (sc *e1scen) harness() *vrt.Harness {
	return &vrt.Harness{Name: sc.name, Horizon: 50000, Body: sc.body}
}

// ---------------------------------------------------------------- sharding
//
// The scenarios are many and small, so they are distributed whole over worker
// processes (the scheduler is global to a process): the binary re-executes
// itself with C26_E1_CHILD set; a child reads scenario indexes from stdin,
// explores each scenario in-process and writes one JSON result per index.

type e1result struct {
	Idx int
	Res *vrt.Result
	Err string
}

func e1ChildMain() {
	if os.Getenv("C26_E1_CHILD") == "" {
		return
	}
	scs := e1Scenarios(os.Getenv("C26_E1_TIER") == "thorough")
	dl, _ := strconv.ParseInt(os.Getenv("C26_E1_DEADLINE"), 10, 64)
	deadline := time.Unix(dl, 0)
	fd, err := syscall.Dup(1)
	if err != nil {
		os.Exit(2)
	}
	enc := json.NewEncoder(os.NewFile(uintptr(fd), "results"))
	os.Stdout = os.Stderr
	dec := json.NewDecoder(os.Stdin)
	for {
		var idx int
		if err := dec.Decode(&idx); err != nil {
			os.Exit(0)
		}
		out := e1result{Idx: idx}
		if idx < 0 || idx >= len(scs) {
			out.Err = "unknown scenario index"
			enc.Encode(out)
			continue
		}
		h := scs[idx].harness()
		left := time.Until(deadline)
		if left <= 0 {
			out.Res = &vrt.Result{Bound: scs[idx].bound, Outcomes: map[string]int{}}
			enc.Encode(out)
			continue
		}
		// determinism: the same schedule twice gives the same observation
		_, o1, v1 := vrt.Replay(h, nil)
		_, o2, v2 := vrt.Replay(h, nil)
		if o1 != o2 || v1 != v2 {
			out.Err = "non-deterministic replay: " + o1 + " vs " + o2
			enc.Encode(out)
			continue
		}
		out.Res = vrt.Explore(h, scs[idx].bound, left)
		enc.Encode(out)
	}
}

func e1Fingerprint(v vrt.Violation) string {
	m := strings.SplitN(v.Msg, "\n", 2)[0]
	m = strings.TrimSpace(strings.SplitN(m, " | ", 2)[0])
	if len(m) > 160 {
		m = m[:160]
	}
	return "E1 " + m
}

// runE1 explores every scenario of the tier and reports into run.
func runE1(run *evid.Run, budget time.Duration) {
	scs := e1Scenarios(run.Thorough())
	workers := evid.Workers()
	if workers > len(scs) {
		workers = len(scs)
	}
	deadline := time.Now().Add(budget)
	exe, err := os.Executable()
	if err != nil {
		run.Fatal(err)
	}
	// job order: round-robin over the families, so that a time cap thins every
	// family instead of dropping the last ones
	jobs := make(chan int, len(scs))
	var famOrder []string
	queues := map[string][]int{}
	for i, sc := range scs {
		if _, ok := queues[sc.family]; !ok {
			famOrder = append(famOrder, sc.family)
		}
		queues[sc.family] = append(queues[sc.family], i)
	}
	for left := len(scs); left > 0; {
		for _, f := range famOrder {
			if q := queues[f]; len(q) > 0 {
				jobs <- q[0]
				queues[f] = q[1:]
				left--
			}
		}
	}
	close(jobs)
	results := make([]*e1result, len(scs))
	var mu sync.Mutex
	var firstErr error
	var wg sync.WaitGroup
	for w := 0; w < workers; w++ {
		wg.Add(1)
		go func() {
			defer wg.Done()
			cmd := exec.Command(exe)
			cmd.Env = append(os.Environ(), "C26_E1_CHILD=1", "C26_E1_TIER="+run.Tier(), "C26_E1_DEADLINE="+strconv.FormatInt(deadline.Unix(), 10), "GOMAXPROCS=1")
			cmd.Stderr = os.Stderr
			in, _ := cmd.StdinPipe()
			outp, _ := cmd.StdoutPipe()
			fail := func(e error) {
				mu.Lock()
				if firstErr == nil {
					firstErr = e
				}
				mu.Unlock()
			}
			if err := cmd.Start(); err != nil {
				fail(err)
				return
			}
			enc, dec := json.NewEncoder(in), json.NewDecoder(outp)
			for j := range jobs {
				if err := enc.Encode(j); err != nil {
					fail(fmt.Errorf("e1 worker write: %v", err))
					break
				}
				var r e1result
				if err := dec.Decode(&r); err != nil {
					fail(fmt.Errorf("e1 worker died on scenario %q: %v", scs[j].name, err))
					break
				}
				mu.Lock()
				results[r.Idx] = &r
				mu.Unlock()
			}
			in.Close()
			cmd.Wait()
		}()
	}
	wg.Wait()
	if firstErr != nil {
		run.Fatal(firstErr)
	}

	type famStat struct {
		Scenarios, Executions, WithPreemption, Outcomes, Deadlocks, MaxPoints int
		Overlap, RefreshVsEntryPass, BindingLimit                            int
		Bound                                                                 []int
		Completed                                                             bool
	}
	fams := map[string]*famStat{}
	var samples []interface{}
	total, overlap, refreshRace, binding := 0, 0, 0, 0
	for i, sc := range scs {
		r := results[i]
		if r == nil {
			run.Fatal(fmt.Errorf("e1: no result for scenario %q", sc.name))
		}
		if r.Err != "" {
			run.Fatal(fmt.Errorf("e1 %q: %s", sc.name, r.Err))
		}
		res := r.Res
		if res.Err != "" {
			run.Fatal(fmt.Errorf("e1 %q: %s", sc.name, res.Err))
		}
		f := fams[sc.family]
		if f == nil {
			f = &famStat{Completed: true}
			fams[sc.family] = f
		}
		f.Scenarios++
		f.Executions += res.Executions
		f.WithPreemption += res.Preempted
		f.Outcomes += len(res.Outcomes)
		f.Deadlocks += res.Deadlocks
		if res.MaxPoints > f.MaxPoints {
			f.MaxPoints = res.MaxPoints
		}
		hasBound := false
		for _, b := range f.Bound {
			if b == sc.bound {
				hasBound = true
			}
		}
		if !hasBound {
			f.Bound = append(f.Bound, sc.bound)
		}
		run.Eval(res.Executions)
		total += res.Executions
		ov := 0
		for k, n := range res.Outcomes {
			run.Distinct(sc.name + "|" + k)
			if strings.HasPrefix(k, "ovl=true") {
				ov += n
			}
			if strings.Contains(k, "refresh-vs-entry-pass=true") {
				refreshRace += n
				f.RefreshVsEntryPass += n
			}
			if strings.Contains(k, "binding=true") {
				binding += n
				f.BindingLimit += n
			}
		}
		overlap += ov
		f.Overlap += ov
		if !res.Completed {
			f.Completed = false
			run.NotExhaustive(fmt.Sprintf("%s: time cap hit (bound %d)", sc.name, sc.bound))
		} else if ov == 0 && len(res.Violations) == 0 {
			run.Fatal(errors.New("vacuous E1 scenario " + sc.name + ": no execution had an announce overlapping a cleanup pass"))
		}
		if res.Capped > 0 {
			run.NotExhaustive(fmt.Sprintf("%s: %d executions hit the step horizon", sc.name, res.Capped))
		}
		if len(samples) < 3 && len(res.Samples) > 0 {
			samples = append(samples, map[string]interface{}{"harness": sc.name, "schedule": res.Samples[len(res.Samples)-1]})
		}
		for _, v := range res.Violations {
			if strings.HasPrefix(v.Msg, "HARNESS: ") {
				run.Fatal(fmt.Errorf("e1 %q: %s", sc.name, v.Msg))
			}
			run.Violation(e1Fingerprint(v), v)
		}
	}
	for name, f := range fams {
		run.Set("e1 family: "+name, f)
	}
	run.Set("e1_scenarios", len(scs))
	run.Set("e1_executions", total)
	run.Set("e1_executions_with_announce_overlapping_cleanup", overlap)
	run.Set("e1_executions_refresh_of_expired_entry_overlapping_entry_pass", refreshRace)
	run.Set("e1_executions_with_binding_limit_in_closing_phase", binding)
	run.Set("e1_samples", samples)
}

// replayE1 re-executes one schedule of a scenario (replay file of an E1
// violation) and prints the thread chosen at every decision, the observation
// and the oracle's verdict.
func replayE1(run *evid.Run, name string, choices []int) {
	for _, thorough := range []bool{false, true} {
		for _, sc := range e1Scenarios(thorough) {
			if sc.name != name {
				continue
			}
			x, obs, vio := vrt.Replay(sc.harness(), choices)
			fmt.Printf("replaying schedule %v of %q\n", choices, name)
			for i, p := range x.Points {
				if p.Chosen != 0 {
					fmt.Printf("  decision %d: alternative %d of %d -> %s\n", i, p.Chosen, p.NEnabled, p.Label)
				}
			}
			fmt.Printf("  observation: %s\n", obs)
			if x.Deadlock {
				vio = "deadlock: " + strings.Join(x.Blocked, ",") + "\n" + vio
			}
			if x.Panic != "" {
				vio = "panic: " + x.Panic + "\n" + vio
			}
			if vio != "" {
				fmt.Printf("  => %s\n", vio)
				os.Exit(1)
			}
			os.Exit(0)
		}
	}
	run.Fatal(fmt.Errorf("replay: unknown E1 scenario %q", name))
}
