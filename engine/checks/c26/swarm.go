// C26, swarm part: handouts drawn from swarms just above the handout limit,
// under EVERY sequence of answers the random source can give.
//
// The BFS searches of main.go enumerate the permutation GetPeers draws, but
// only over stores of at most 3 (thorough 4) agents with limits 1, 2 and 5: the
// limit is either >= the swarm size or <= 2, so a sampler that picks n of
// length entries is never exercised with 3 <= n < length. This part closes
// that dimension. It does not assume HOW LocalStore.GetPeers turns random
// numbers into a sample (rand.Perm, a partial shuffle, a reservoir, ...): the
// check owns math/rand of tracker/peerstore (vrand shim) and walks the whole
// tree of draw answers -- every draw's range is discovered when the code asks
// for it, and every answer of every draw is taken (odometer over the answer
// vector, depth first) -- so every sample the code can produce for the given
// store is produced, through the real tracker HTTP handler (router ->
// announceHandlerV2 -> Server.announce -> UpdatePeer, getPeerHandout ->
// LocalStore.GetPeers + origins + SortPeers; the 7-agent units of the thorough
// tier enter at Server.announce after the first answer sequence of every
// enumeration), and every response is checked against the clauses of the
// statement.
//
// One unit = (policy, limit, origins, swarm size L, walk, announcer): ONE
// long-lived store is built by L announces; it then walks through completion
// flag vectors of the L agents by single real announces (Gray code = all 2^L
// vectors, or the staircase "first s agents are seeders"); at every vector the
// unit's announcer re-announces with its stored flag (which leaves the store
// as it is) once per draw-answer sequence.
package main

import (
	"bytes"
	"encoding/json"
	"errors"
	"fmt"
	"net/http"
	"net/http/httptest"
	"os"
	"strings"
	"sync"
	"sync/atomic"
	"time"

	"github.com/uber/kraken/core"
	"github.com/uber/kraken/tracker/announceclient"

	"verif/evid"
)

// maxDrawsPerAnnounce bounds the number of draws one announce may ask for (a
// rejection sampler answered with zeros would never end); beyond it the
// answers cycle and the run is marked not exhaustive.
const maxDrawsPerAnnounce = 64

// directFromAgents: units with at least this many agents (thorough tier only:
// 5040 draw sequences per announce) send only the first draw sequence of every
// enumeration through the HTTP router and the others through Server.announce;
// smaller units send every announce through the HTTP router.
const directFromAgents = 7

// maxSeqPerAnnounce bounds the draw-answer sequences of one (store, announcer).
const maxSeqPerAnnounce = 200000

// drawSeq is the odometer state of the draw tree of one announce.
type drawSeq struct {
	prefix   []int // answers to give to the first draws; later draws get 0
	radix    []int // range of every draw the code asked for in this execution
	taken    []int // answer given to it
	diverged bool  // a prefixed answer was out of the range asked for
	overflow bool  // more than maxDrawsPerAnnounce draws
}

func (d *drawSeq) answer(n int) int {
	i := len(d.radix)
	if i >= maxDrawsPerAnnounce {
		d.overflow = true
		return i % n
	}
	a := 0
	if i < len(d.prefix) {
		a = d.prefix[i]
		if a >= n {
			d.diverged = true
			a = 0
		}
	}
	d.radix = append(d.radix, n)
	d.taken = append(d.taken, a)
	return a
}

// next returns the prefix of the next leaf of the draw tree in depth-first
// order (nil, false when the tree is exhausted).
func (d *drawSeq) next() ([]int, bool) {
	for i := len(d.taken) - 1; i >= 0; i-- {
		if d.taken[i]+1 < d.radix[i] {
			p := append([]int{}, d.taken[:i]...)
			return append(p, d.taken[i]+1), true
		}
	}
	return nil, false
}

type swarmUnit struct {
	cfg       config
	agents    int    // L
	walk      string // "gray" | "stairs"
	announcer int
}

func (u swarmUnit) name() string {
	return fmt.Sprintf("swarm policy=%s limit=%d origins=%d agents=%d walk=%s announcer=%s",
		u.cfg.policy, u.cfg.limit, u.cfg.origins, u.agents, u.walk, agentNames[u.announcer])
}

// flagWalk: the completion flag vectors a unit visits, each differing from its
// predecessor in one agent (bit i = agent i is a seeder); the first is all
// incomplete.
func flagWalk(kind string, n int) []uint {
	var out []uint
	switch kind {
	case "gray":
		for g := uint(0); g < 1<<uint(n); g++ {
			out = append(out, g^(g>>1))
		}
	case "stairs":
		for s := 0; s <= n; s++ {
			out = append(out, (1<<uint(s))-1)
		}
	}
	return out
}

func flagString(f uint, n int) string {
	b := make([]byte, n)
	for i := range b {
		if f&(1<<uint(i)) != 0 {
			b[i] = '+'
		} else {
			b[i] = '-'
		}
	}
	return string(b)
}

// swarmUnits is the (deterministic) unit list of a tier.
func swarmUnits(thorough bool) []swarmUnit {
	var out []swarmUnit
	add := func(policy string, origins, limit, agents int, walk string) {
		for a := 0; a < agents; a++ {
			out = append(out, swarmUnit{cfg: config{policy: policy, limit: limit, origins: origins, peers: agents}, agents: agents, walk: walk, announcer: a})
		}
	}
	// swarms just above the limit: limit 3..4, size limit+1..6, all flag vectors
	for _, lim := range []int{3, 4} {
		for l := lim + 1; l <= 6; l++ {
			add("completeness", 1, lim, l, "gray")
		}
	}
	if thorough {
		add("completeness", 1, 5, 6, "gray")
		// the other policy / origin sets
		for _, lim := range []int{3, 4, 5} {
			for l := lim + 1; l <= 6; l++ {
				add("default", 0, lim, l, "gray")
				add("completeness", 2, lim, l, "gray")
			}
		}
		// 7 agents (5040 permutations per announce): limit 3 and 6 with all flag
		// vectors, limit 4 and 5 with the staircase vectors
		add("completeness", 1, 3, 7, "gray")
		add("completeness", 1, 6, 7, "gray")
		add("completeness", 1, 4, 7, "stairs")
		add("completeness", 1, 5, 7, "stairs")
	}
	return out
}

type swarmStats struct {
	announces, direct, sequences, handouts int64
	announcerDrawn, announcerNotDrawn      int64
	maxDraws, maxSeq                       int64
	cases, completeCases, overflow, caps   int64
}

var swStats swarmStats

func atomicMax(p *int64, v int64) {
	for {
		o := atomic.LoadInt64(p)
		if v <= o || atomic.CompareAndSwapInt64(p, o, v) {
			return
		}
	}
}

// swarmAnnounce performs one announce with the draw answers of ds (nil = every
// draw answers 0). direct=false: through the real HTTP handler (router,
// middleware, request decoding, response encoding); direct=true: through
// Server.announce -- the function both HTTP endpoints delegate to once the
// request is decoded (UpdatePeer, then getPeerHandout = store sample + origins
// + policy), whose result the endpoints encode as the response (the HTTP layers
// cost ~5x the handout path itself; see directFromAgents).
func (s *sys) swarmAnnounce(agent int, complete bool, ds *drawSeq, direct bool) (int, []*core.PeerInfo, error) {
	id := agentIDs[agentNames[agent]]
	announcer := core.NewPeerInfo(id, "10.0.0."+fmt.Sprint(id[0]), 6000+int(id[0]), false, complete)
	g := goid()
	if ds != nil {
		permByGoroutine.Store(g, &permCtx{seq: ds})
		defer permByGoroutine.Delete(g)
	}
	if direct {
		atomic.AddInt64(&swStats.direct, 1)
		peers, err := s.srv.VerifAnnounce(blobDigest, blobHash, announcer)
		if err != nil {
			// the endpoints answer a handler error with its status (no handout)
			return http.StatusInternalServerError, nil, nil
		}
		return http.StatusOK, peers, nil
	}
	d := blobDigest
	body, err := json.Marshal(&announceclient.Request{Name: d.Hex(), Digest: &d, InfoHash: blobHash, Peer: announcer})
	if err != nil {
		return 0, nil, err
	}
	req := httptest.NewRequest("POST", "/announce/"+blobHash.Hex(), bytes.NewReader(body))
	rec := httptest.NewRecorder()
	s.handler.ServeHTTP(rec, req)
	atomic.AddInt64(&swStats.announces, 1)
	if rec.Code != http.StatusOK {
		return rec.Code, nil, nil
	}
	var resp announceclient.Response
	if err := json.Unmarshal(rec.Body.Bytes(), &resp); err != nil {
		return rec.Code, nil, fmt.Errorf("undecodable response %q: %v", rec.Body.String(), err)
	}
	return rec.Code, resp.Peers, nil
}

type swarmFail struct {
	fp     string
	detail map[string]interface{}
}

// check applies the statement's clauses to one response of the unit's store.
func (u swarmUnit) check(step int, flags uint, agent int, complete bool, draws []int, code int, peers []*core.PeerInfo) *swarmFail {
	if code != http.StatusOK {
		// no handout at all: nothing the statement constrains
		classes.Store(classKey{policy: u.cfg.policy, status: code}, true)
		return nil
	}
	fp, extra := handoutViolation(u.cfg.policy, u.cfg.limit, u.cfg.origins, agentIDs[agentNames[agent]], complete, peers)
	if fp == "" {
		return nil
	}
	return &swarmFail{fp: fp, detail: map[string]interface{}{
		"swarm": u.name(), "walk_step": step, "flags": flagString(flags, u.agents), "announcer": agentNames[agent],
		"complete": complete, "draws": draws,
		"msg": fmt.Sprintf("%sstore order %s flags %s: announce by %s complete=%v with draw answers %v -> handout %s",
			extra, strings.Join(agentNames[:u.agents], ""), flagString(flags, u.agents), agentNames[agent], complete, draws, renderHandout(peers)),
	}}
}

// build brings a fresh store to walk step `upto`: L announces (all incomplete),
// then one announce per flag flip. Every response is checked.
func (u swarmUnit) build(upto int) (*sys, []uint, *swarmFail, error) {
	s, err := newSys(u.cfg)
	if err != nil {
		return nil, nil, nil, err
	}
	for a := 0; a < u.agents; a++ {
		code, peers, err := s.swarmAnnounce(a, false, nil, false)
		if err != nil {
			return nil, nil, nil, err
		}
		if f := u.check(-1, 0, a, false, nil, code, peers); f != nil {
			return s, nil, f, nil
		}
	}
	walk := flagWalk(u.walk, u.agents)
	for i := 1; i <= upto && i < len(walk); i++ {
		if f, err := u.flip(s, walk, i); f != nil || err != nil {
			return s, walk, f, err
		}
	}
	return s, walk, nil, nil
}

// flip performs the announce that takes the store from walk[i-1] to walk[i].
func (u swarmUnit) flip(s *sys, walk []uint, i int) (*swarmFail, error) {
	diff := walk[i] ^ walk[i-1]
	for a := 0; a < u.agents; a++ {
		if diff == 1<<uint(a) {
			complete := walk[i]&diff != 0
			code, peers, err := s.swarmAnnounce(a, complete, nil, false)
			if err != nil {
				return nil, err
			}
			return u.check(i, walk[i], a, complete, nil, code, peers), nil
		}
	}
	return nil, fmt.Errorf("%s: walk step %d flips more than one flag", u.name(), i)
}

// enumerate: the unit's announcer re-announces once per draw-answer sequence.
// It returns the rendered handouts in enumeration order (determinism check).
func (u swarmUnit) enumerate(run *evid.Run, s *sys, step int, flags uint, keep bool) ([]string, *swarmFail, error) {
	complete := flags&(1<<uint(u.announcer)) != 0
	var rendered []string
	handouts := map[string]bool{}
	var prefix []int
	nseq := 0
	for {
		ds := &drawSeq{prefix: prefix}
		code, peers, err := s.swarmAnnounce(u.announcer, complete, ds, nseq > 0 && u.agents >= directFromAgents)
		if err != nil {
			return nil, nil, fmt.Errorf("%s step %d draws %v: %v", u.name(), step, ds.taken, err)
		}
		if ds.diverged {
			return nil, nil, fmt.Errorf("%s step %d: the draws of an announce are not a function of the earlier answers (prefix %v, ranges %v)", u.name(), step, prefix, ds.radix)
		}
		if ds.overflow {
			atomic.AddInt64(&swStats.overflow, 1)
		}
		nseq++
		atomicMax(&swStats.maxDraws, int64(len(ds.taken)))
		if !complete && len(ds.taken) == 0 {
			return nil, nil, fmt.Errorf("%s step %d: no rand draw observed for an incomplete announcer on a store of %d agents (overlay inactive or GetPeers path changed)", u.name(), step, u.agents)
		}
		if f := u.check(step, flags, u.announcer, complete, append([]int{}, ds.taken...), code, peers); f != nil {
			return nil, f, nil
		}
		if code == http.StatusOK {
			r := renderHandout(peers)
			if keep {
				rendered = append(rendered, r)
			}
			if !complete && !handouts[r] {
				handouts[r] = true
				agents := 0
				shape := make([]byte, 0, len(peers))
				for _, p := range peers {
					if !p.Origin {
						agents++
					}
					shape = append(shape, "SOI"[entryClass(p)])
				}
				if agents == u.cfg.limit {
					atomic.AddInt64(&swStats.announcerNotDrawn, 1)
				} else {
					// the store's sample is limit entries (the swarm is larger);
					// only the announcer is filtered from it
					atomic.AddInt64(&swStats.announcerDrawn, 1)
				}
				classes.Store(classKey{policy: u.cfg.policy, limit: u.cfg.limit, shape: string(shape), selfDrawn: agents < u.cfg.limit, binding: true, swarm: true}, true)
			}
		}
		next, ok := ds.next()
		if !ok {
			break
		}
		if nseq >= maxSeqPerAnnounce {
			atomic.AddInt64(&swStats.caps, 1)
			break
		}
		prefix = next
	}
	atomic.AddInt64(&swStats.sequences, int64(nseq))
	atomic.AddInt64(&swStats.handouts, int64(len(handouts)))
	atomicMax(&swStats.maxSeq, int64(nseq))
	atomic.AddInt64(&swStats.cases, 1)
	if complete {
		atomic.AddInt64(&swStats.completeCases, 1)
	}
	run.Eval(nseq)
	return rendered, nil, nil
}

// runUnit walks one unit; false when the deadline cut it short.
func (u swarmUnit) runUnit(run *evid.Run, deadline time.Time) (bool, *swarmFail, error) {
	s, walk, f, err := u.build(0)
	if s != nil {
		defer s.Close()
	}
	if f != nil || err != nil {
		return true, f, err
	}
	for i := range walk {
		if time.Now().After(deadline) {
			return false, nil, nil
		}
		if i > 0 {
			if f, err := u.flip(s, walk, i); f != nil || err != nil {
				return true, f, err
			}
		}
		// first step: twice, the enumeration must be deterministic
		r1, f, err := u.enumerate(run, s, i, walk[i], i == 0)
		if f != nil || err != nil {
			return true, f, err
		}
		if i == 0 {
			r2, f, err := u.enumerate(run, s, i, walk[i], true)
			if f != nil || err != nil {
				return true, f, err
			}
			if strings.Join(r1, ";") != strings.Join(r2, ";") {
				return true, nil, fmt.Errorf("%s: non-deterministic enumeration (same store, same draw answers, different handouts)", u.name())
			}
		}
		run.Distinct(fmt.Sprintf("%s#%d", u.name(), i))
	}
	return true, nil, nil
}

// runSwarm executes every unit of the tier on evid.Workers() goroutines.
func runSwarm(run *evid.Run, budget time.Duration) {
	units := swarmUnits(run.Thorough())
	deadline := time.Now().Add(budget)
	// smallest units first: a time cap then cuts the largest swarms, not the
	// core space just above the limit
	jobs := make(chan swarmUnit, len(units))
	for l := 1; l <= 9; l++ {
		for _, u := range units {
			if u.agents == l {
				jobs <- u
			}
		}
	}
	close(jobs)
	var mu sync.Mutex
	var firstErr error
	var fails []*swarmFail
	cut := 0
	var wg sync.WaitGroup
	for w := 0; w < evid.Workers(); w++ {
		wg.Add(1)
		go func() {
			defer wg.Done()
			for u := range jobs {
				done, f, err := u.runUnit(run, deadline)
				mu.Lock()
				if err != nil && firstErr == nil {
					firstErr = err
				}
				if f != nil {
					fails = append(fails, f)
				}
				if !done {
					cut++
				}
				mu.Unlock()
			}
		}()
	}
	wg.Wait()
	if firstErr != nil {
		run.Fatal(firstErr)
	}
	// report in unit order (deterministic choice of the representative case)
	for _, u := range units {
		for _, f := range fails {
			if f.detail["swarm"] == u.name() {
				run.Violation(f.fp, f.detail)
			}
		}
	}
	if cut > 0 {
		run.NotExhaustive(fmt.Sprintf("swarm part: time budget hit, %d of %d units cut short", cut, len(units)))
	}
	if swStats.overflow > 0 || swStats.caps > 0 {
		run.NotExhaustive(fmt.Sprintf("swarm part: %d announces asked for more than %d draws, %d draw trees were cut at %d sequences", swStats.overflow, maxDrawsPerAnnounce, swStats.caps, maxSeqPerAnnounce))
	}
	run.Set("swarm_units", len(units))
	run.Set("swarm_store_states_with_every_draw_sequence_enumerated", swStats.cases)
	run.Set("swarm_store_states_whose_announcer_reports_completion", swStats.completeCases)
	run.Set("swarm_announces_through_the_http_handler", swStats.announces)
	run.Set("swarm_announces_through_server_announce", swStats.direct)
	run.Set("swarm_draw_sequences", swStats.sequences)
	run.Set("swarm_max_draw_sequences_per_announce", swStats.maxSeq)
	run.Set("swarm_max_draws_per_announce", swStats.maxDraws)
	run.Set("swarm_distinct_handouts_summed_over_store_states", swStats.handouts)
	run.Set("swarm_distinct_handouts_store_sample_held_the_announcer", swStats.announcerDrawn)
	run.Set("swarm_distinct_handouts_store_sample_without_the_announcer", swStats.announcerNotDrawn)
	if cut == 0 && len(fails) == 0 && (swStats.announcerDrawn == 0 || swStats.announcerNotDrawn == 0 || swStats.completeCases == 0 || swStats.maxSeq < 2) {
		run.Fatal(errors.New("vacuous swarm part: the draw enumeration never produced both a sample with and one without the announcer"))
	}
}

// replaySwarm re-executes one case of the swarm part (replay file of a
// violation): builds the store, walks to the step and announces with the
// recorded draw answers.
func replaySwarm(run *evid.Run, name string, step int, draws []int) {
	for _, thorough := range []bool{false, true} {
		for _, u := range swarmUnits(thorough) {
			if u.name() != name {
				continue
			}
			fmt.Printf("replaying %q walk step %d draw answers %v\n", name, step, draws)
			s, walk, f, err := u.build(step)
			if err != nil {
				run.Fatal(err)
			}
			if f != nil {
				fmt.Printf("  => %s: %v\n", f.fp, f.detail["msg"])
				os.Exit(1)
			}
			if step < 0 || step >= len(walk) {
				os.Exit(0)
			}
			complete := walk[step]&(1<<uint(u.announcer)) != 0
			ds := &drawSeq{prefix: draws}
			code, peers, err := s.swarmAnnounce(u.announcer, complete, ds, false)
			if err != nil {
				run.Fatal(err)
			}
			fmt.Printf("  flags %s: announce by %s complete=%v draws asked (ranges) %v answered %v -> %d %s\n",
				flagString(walk[step], u.agents), agentNames[u.announcer], complete, ds.radix, ds.taken, code, renderHandout(peers))
			if f := u.check(step, walk[step], u.announcer, complete, ds.taken, code, peers); f != nil {
				fmt.Printf("  => %s\n", f.fp)
				os.Exit(1)
			}
			os.Exit(0)
		}
	}
	run.Fatal(fmt.Errorf("replay: unknown swarm unit %q", name))
}
