//go:build amd64 && !race

package main

import (
	"sync"
	"unsafe"
)

// Fast goroutine id (local copy of the technique of verif/vrt, whose goid is
// not exported): the rand decider looks up the draw context of the calling
// goroutine on every draw, and runtime.Stack costs a symbolised traceback
// under the runtime's global print lock per call (75% of the CPU time of the
// swarm part, and it serialises the workers). The id is read from the
// runtime's g structure instead; the field offset is not assumed but found at
// start-up by comparing with the id runtime.Stack prints, on several
// goroutines; the slow path stays in use when that is ambiguous.

func getg() uintptr

var goidOff uintptr

func init() {
	type sample struct {
		g  uintptr
		id uint64
	}
	const n = 8
	samples := make([]sample, n)
	var wg sync.WaitGroup
	for i := 0; i < n; i++ {
		wg.Add(1)
		go func(i int) {
			defer wg.Done()
			samples[i] = sample{getg(), slowGoid()}
		}(i)
	}
	wg.Wait()
	var found []uintptr
	for off := uintptr(8); off < 512; off += 8 {
		ok := true
		for _, s := range samples {
			if s.g == 0 || s.id == 0 || *(*uint64)(unsafe.Pointer(s.g + off)) != s.id {
				ok = false
				break
			}
		}
		if ok {
			found = append(found, off)
		}
	}
	if len(found) == 1 {
		goidOff = found[0]
	}
}

func goid() uint64 {
	if goidOff != 0 {
		return *(*uint64)(unsafe.Pointer(getg() + goidOff))
	}
	return slowGoid()
}
