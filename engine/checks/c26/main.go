// C26: tracker handouts never include the announcer and respect priority and
// limits.
//
// E3: BFS over announce sequences through the real tracker HTTP handler
// (chi router -> announceHandlerV2/V1 -> Server.announce -> getPeerHandout ->
// PriorityPolicy.SortPeers) with the real peerstore.LocalStore on a mock clock,
// a fake origin store and both handout policies. math/rand inside
// tracker/peerstore is rewritten to verif/shim/vrand by the overlay; the
// permutation LocalStore.GetPeers draws is part of the BFS operation, so Apply
// is deterministic and every draw is enumerated.
//
// E3 with expiry (second family of searches): the alphabet additionally holds a
// clock advance past the TTL and the two periodic cleanup passes of the store
// (cleanupExpiredPeerEntries / cleanupExpiredPeerGroups, called directly), so
// handouts are also checked on stores whose entries expired, were removed
// (swap-removal reorders the list) and were re-announced.
//
// Swarm draws (swarm.go): long-lived stores holding MORE agents than the
// handout limit (limit 3..4, 4..6 agents; thorough up to 7 agents / limit 6)
// walk through every completion flag vector; at every vector every agent
// announces once per sequence of answers the random source can give to
// GetPeers (the whole draw tree, no sampling algorithm assumed).
//
// E1 (e1.go): the same announce handler on threads of the controlled scheduler
// (sync in tracker/peerstore -> verif/shim/vsync): every interleaving, up to a
// preemption bound, of the cleanup passes with announcing agents at every lock
// operation of the store, followed by closing announces of every agent on the
// same long-lived store; every response is checked against the same clauses.
package main

import (
	"bytes"
	"encoding/json"
	"errors"
	"fmt"
	"net/http"
	"net/http/httptest"
	"os"
	"runtime"
	"strconv"
	"strings"
	"sync"
	"sync/atomic"
	"time"

	"github.com/andres-erbsen/clock"
	"github.com/uber-go/tally"
	"github.com/uber/kraken/core"
	"github.com/uber/kraken/tracker/announceclient"
	"github.com/uber/kraken/tracker/peerhandoutpolicy"
	"github.com/uber/kraken/tracker/peerstore"
	"github.com/uber/kraken/tracker/trackerserver"

	"verif/bfs"
	"verif/evid"
	_ "verif/quiet"
	"verif/rep"
	"verif/shim/vrand"
	"verif/vrt"
)

// ---------------------------------------------------------------- rand control

// permCtx is the pending answer for the rand.Perm draw of the goroutine that
// is executing Apply (the handler runs synchronously on that goroutine).
type permCtx struct {
	k     int // remaining mixed-radix permutation index
	draws int
	seq   *drawSeq // swarm part: explicit answer vector (see swarm.go)
}

var permByGoroutine sync.Map // goid -> *permCtx

// slowGoid reads the goroutine id from the header runtime.Stack prints (a full
// symbolised traceback under the runtime's global print lock per call); goid()
// (goid_fast.go) reads it from the g structure when that is unambiguous.
func slowGoid() uint64 {
	var buf [64]byte
	n := runtime.Stack(buf[:], false)
	b := buf[10:n] // after "goroutine "
	i := bytes.IndexByte(b, ' ')
	if i < 0 {
		return 0
	}
	id, _ := strconv.ParseUint(string(b[:i]), 10, 64)
	return id
}

// decider answers every vrand draw: digits of the permutation index carried by
// the BFS operation (least significant digit first, radix = n of the draw).
func decider(n int, label string) int {
	v, ok := permByGoroutine.Load(goid())
	if !ok {
		return 0
	}
	c := v.(*permCtx)
	c.draws++
	if c.seq != nil {
		return c.seq.answer(n)
	}
	d := c.k % n
	c.k /= n
	return d
}

// permOf replays vrand.Perm's Lehmer decoding for index k (model side; used
// for vacuity counters only).
func permOf(m, k int) []int {
	p := make([]int, m)
	for i := range p {
		p[i] = i
	}
	for i := 0; i < m-1; i++ {
		n := m - i
		j := i + k%n
		k /= n
		p[i], p[j] = p[j], p[i]
	}
	return p
}

func factorial(n int) int {
	f := 1
	for i := 2; i <= n; i++ {
		f *= i
	}
	return f
}

// ---------------------------------------------------------------- clock

const ttlUnits = 10

var (
	unit = time.Second
	ttl  = ttlUnits * unit
	t0   = time.Unix(1_000_000, 0)
)

// vclock is an explicit-time clock.Clock: LocalStore only uses Now; the
// embedded mock provides the remaining (unused) methods. clock.Mock.Add is not
// used because it sleeps 1 ms of wall time per call.
type vclock struct {
	clock.Clock
	mu     sync.Mutex
	now    time.Time
	points bool // E1: every read of the clock is a scheduling point
}

func newVClock() *vclock { return &vclock{Clock: clock.NewMock(), now: t0} }
func (c *vclock) Now() time.Time {
	if c.points {
		vrt.Point("clock.Now")
	}
	c.mu.Lock()
	defer c.mu.Unlock()
	return c.now
}
func (c *vclock) Add(d time.Duration) {
	c.mu.Lock()
	c.now = c.now.Add(d)
	c.mu.Unlock()
}

// vacuity counters of the expiry searches (all Apply calls, replays included)
var cntCleanupRemoved, cntRefreshExpired int64

// ---------------------------------------------------------------- fixtures

func mustPeerID(b byte) core.PeerID {
	id, err := core.NewPeerID(strings.Repeat(fmt.Sprintf("%02x", b), 20))
	if err != nil {
		panic(err)
	}
	return id
}

var (
	// the BFS searches use the first 3-4 agents, E1 the first 3, the swarm part up to 7
	agentNames = []string{"p", "q", "r", "s", "t", "u", "v"}
	agentIDs   = map[string]core.PeerID{"p": mustPeerID(0x11), "q": mustPeerID(0x22), "r": mustPeerID(0x33), "s": mustPeerID(0x44),
		"t": mustPeerID(0x55), "u": mustPeerID(0x66), "v": mustPeerID(0x77)}
	originIDs  = []core.PeerID{mustPeerID(0xa1), mustPeerID(0xa2)}
	blobDigest = func() core.Digest {
		d, err := core.NewSHA256DigestFromHex(strings.Repeat("cd", 32))
		if err != nil {
			panic(err)
		}
		return d
	}()
	blobHash = core.NewInfoHashFromBytes([]byte("c26 blob"))
)

func nameOf(id core.PeerID) string {
	for n, x := range agentIDs {
		if x == id {
			return n
		}
	}
	for i, x := range originIDs {
		if x == id {
			return fmt.Sprintf("o%d", i+1)
		}
	}
	return "?" + id.String()[:6]
}

// fakeOrigins is the originstore.Store: the blob's origins as fresh PeerInfo
// objects on every call (like the real store); an error when the blob has no
// available origin (like the real store).
type fakeOrigins struct{ n int }

func (f fakeOrigins) GetOrigins(d core.Digest) ([]*core.PeerInfo, error) {
	if d != blobDigest {
		return nil, errors.New("c26: unknown digest")
	}
	if f.n == 0 {
		return nil, errors.New("all origins unavailable")
	}
	var out []*core.PeerInfo
	for i := 0; i < f.n; i++ {
		out = append(out, core.NewPeerInfo(originIDs[i], fmt.Sprintf("10.0.9.%d", i+1), 7000+i, true, true))
	}
	return out, nil
}

type config struct {
	policy  string
	limit   int
	origins int
	v1      bool
	peers   int // how many of agentNames take part
	expiry  bool // alphabet also holds clock advance + the two cleanup passes
}

func (c config) String() string {
	ep := "v2"
	if c.v1 {
		ep = "v1"
	}
	if c.expiry {
		ep += "+expiry"
	}
	return fmt.Sprintf("policy=%s limit=%d origins=%d peers=%d %s", c.policy, c.limit, c.origins, c.peers, ep)
}

// ---------------------------------------------------------------- system

type sys struct {
	cfg      config
	ps       *peerstore.LocalStore
	handler  http.Handler
	srv      *trackerserver.Server
	order    []string        // model: agents in first-announce order (== peerList order while nothing is removed)
	complete map[string]bool // model: latest completion flag
	clk      *vclock
	at       map[string]time.Time // model (expiry searches): time of the latest announce
}

// outcome classes / vacuity flags seen anywhere in the run (set semantics, so
// BFS replays do not inflate them).
var classes sync.Map // classKey -> true

type classKey struct {
	policy    string
	limit     int
	shape     string // entry classes of the handout in order: S(eeder) O(rigin) I(ncomplete)
	selfDrawn bool   // the store's draw contained the announcer
	binding   bool   // more other agents stored than the limit
	status    int    // non-200 answers
	expiry    bool   // seen in a search whose alphabet holds clock advance + cleanup passes
	swarm     bool   // seen in the swarm part (every draw sequence on a swarm larger than the limit)
}

func newSys(cfg config) (*sys, error) {
	pol, err := peerhandoutpolicy.NewPriorityPolicy(tally.NoopScope, cfg.policy)
	if err != nil {
		return nil, err
	}
	var clk *vclock
	var ps *peerstore.LocalStore
	if cfg.expiry {
		clk = newVClock()
		ps = peerstore.NewLocalStoreNoCleanup(peerstore.LocalConfig{TTL: ttl}, clk)
	} else {
		ps = peerstore.NewLocalStoreNoCleanup(peerstore.LocalConfig{}, clock.NewMock())
	}
	srv := trackerserver.New(trackerserver.Config{PeerHandoutLimit: cfg.limit}, tally.NoopScope, pol, ps, fakeOrigins{cfg.origins}, nil)
	return &sys{cfg: cfg, ps: ps, handler: srv.Handler(), srv: srv, complete: map[string]bool{}, clk: clk, at: map[string]time.Time{}}, nil
}

// listing is what the store's public API shows for the blob: GetPeers with an
// unbounded n and no permutation context (the shim then answers the identity
// permutation = store order).
func (s *sys) listing() ([]*core.PeerInfo, error) { return s.ps.GetPeers(blobHash, 1<<20) }

// storeOrder (expiry searches): names of the stored entries in list order, as
// they will be once `name` has been stored by UpdatePeer (appended when absent).
// The cleanup's swap-removal reorders the list, so the order is read from the
// store's listing instead of being modelled; it only sizes the permutation
// alphabet and feeds the vacuity counters, never an oracle.
func (s *sys) storeOrder(name string) ([]string, error) {
	peers, err := s.listing()
	if err != nil {
		return nil, err
	}
	var out []string
	found := false
	for _, p := range peers {
		n := nameOf(p.PeerID)
		if n == name {
			found = true
		}
		out = append(out, n)
	}
	if !found {
		out = append(out, name)
	}
	return out, nil
}

// maxPermM bounds the list length for which every permutation is an operation
// of its own (only a corrupted store holds more entries than agents).
const maxPermM = 5


func (s *sys) Close() { s.ps.Close() }

func (s *sys) known(p string) bool {
	_, ok := s.complete[p]
	return ok
}

func (s *sys) Ops() []string {
	var ops []string
	for _, p := range agentNames[:s.cfg.peers] {
		ops = append(ops, fmt.Sprintf("a %s 1 0", p))
	}
	for _, p := range agentNames[:s.cfg.peers] {
		m := len(s.order)
		if !s.known(p) {
			m++
		}
		if s.cfg.expiry {
			if o, err := s.storeOrder(p); err == nil {
				m = len(o)
			}
			if m > maxPermM {
				m = maxPermM
			}
		}
		for k := 0; k < factorial(m); k++ {
			ops = append(ops, fmt.Sprintf("a %s 0 %d", p, k))
		}
	}
	if s.cfg.expiry {
		ops = append(ops, "adv", "ce", "cg")
	}
	return ops
}

// modelKey: agents in store order with their latest completion flag.
func (s *sys) modelKey() string {
	var b strings.Builder
	for _, p := range s.order {
		b.WriteString(p)
		if s.complete[p] {
			b.WriteByte('+')
		} else {
			b.WriteByte('-')
		}
	}
	return b.String()
}

// Key = model state + what the real store's public API shows (GetPeers with an
// unbounded n; no permutation context is registered here, so the shim answers
// the identity permutation = store order). On correct code the second part is
// a function of the first; it keeps the state abstraction sound when the store
// holds something the model does not know about.
func (s *sys) Key() string {
	var b strings.Builder
	b.WriteString(s.modelKey())
	if s.cfg.expiry {
		// every advance exceeds the TTL, so an announcement is either from the
		// current instant (fresh) or expired; time stamps are only ever
		// compared with the clock
		now := s.clk.Now()
		b.WriteString(" age:")
		for _, p := range s.order {
			if now.Before(s.at[p].Add(ttl)) {
				b.WriteByte('f')
			} else {
				b.WriteByte('x')
			}
		}
	}
	b.WriteString(" | store:")
	peers, err := s.listing()
	if err != nil {
		return b.String() + " error " + err.Error()
	}
	for _, p := range peers {
		b.WriteString(nameOf(p.PeerID))
		if p.Complete {
			b.WriteByte('+')
		} else {
			b.WriteByte('-')
		}
	}
	return b.String()
}

// class of a handout entry under the completeness policy of the statement:
// seeders (0), then origins (1), then incomplete peers (2).
func entryClass(p *core.PeerInfo) int {
	switch {
	case p.Origin:
		return 1
	case p.Complete:
		return 0
	}
	return 2
}

// handoutViolation is the oracle on one 200 announce response: the clauses of
// the statement, one by one. It returns the fingerprint of the first violated
// clause ("" when the handout satisfies all of them). Shared by the BFS
// searches and the E1 interleaving harnesses.
func handoutViolation(policy string, limit, norigins int, id core.PeerID, complete bool, peers []*core.PeerInfo) (fp, extra string) {
	// clause: empty for an announcer that reports completion
	if complete && len(peers) > 0 {
		return "non-empty handout for an announcer that reports completion", ""
	}
	// clause: no peer twice
	seen := map[core.PeerID]bool{}
	for _, p := range peers {
		if seen[p.PeerID] {
			return "handout lists a peer twice", ""
		}
		seen[p.PeerID] = true
	}
	// clause: at most the configured number of agents plus the blob's origins
	isOrigin := map[core.PeerID]bool{}
	for i := 0; i < norigins; i++ {
		isOrigin[originIDs[i]] = true
	}
	agents := 0
	for _, p := range peers {
		if !isOrigin[p.PeerID] {
			agents++
		}
	}
	if agents > limit {
		return "handout holds more agents than the configured limit", fmt.Sprintf("%d agents > limit %d: ", agents, limit)
	}
	// clause: ordered by the configured priority
	if policy == "completeness" {
		for i := 1; i < len(peers); i++ {
			if entryClass(peers[i-1]) > entryClass(peers[i]) {
				return "handout not ordered seeders, origins, incomplete peers (completeness policy)", ""
			}
		}
	}
	// clause: never lists the announcing peer (checked last so that a second
	// failing clause of the same response is not hidden behind this one)
	if seen[id] {
		return "handout lists the announcing peer", ""
	}
	return "", ""
}

func (s *sys) Apply(op string) error {
	if s.cfg.expiry {
		switch op {
		case "adv":
			s.clk.Add(ttl + unit)
			return nil
		case "ce", "cg":
			before, err := s.listing()
			if err != nil {
				return err
			}
			if op == "ce" {
				s.ps.VerifCleanupExpiredPeerEntries()
			} else {
				s.ps.VerifCleanupExpiredPeerGroups()
			}
			after, err := s.listing()
			if err != nil {
				return err
			}
			if len(after) < len(before) {
				atomic.AddInt64(&cntCleanupRemoved, 1)
			}
			return nil
		}
	}
	var name string
	var cflag, k int
	if _, err := fmt.Sscanf(op, "a %s %d %d", &name, &cflag, &k); err != nil {
		return err
	}
	id, ok := agentIDs[name]
	if !ok {
		return fmt.Errorf("unknown peer %q", name)
	}
	complete := cflag == 1
	announcer := core.NewPeerInfo(id, "10.0.0."+fmt.Sprint(id[0]), 6000+int(id[0]), false, complete)
	d := blobDigest
	body, err := json.Marshal(&announceclient.Request{Name: d.Hex(), Digest: &d, InfoHash: blobHash, Peer: announcer})
	if err != nil {
		return err
	}
	var req *http.Request
	if s.cfg.v1 {
		req = httptest.NewRequest("GET", "/announce", bytes.NewReader(body))
	} else {
		req = httptest.NewRequest("POST", "/announce/"+blobHash.Hex(), bytes.NewReader(body))
	}
	rec := httptest.NewRecorder()

	// store order the draw will index (expiry searches: read from the store,
	// see storeOrder; otherwise the model's first-announce order)
	var drawOrder []string
	listedBefore := 0
	if s.cfg.expiry {
		o, err := s.storeOrder(name)
		if err != nil {
			return err
		}
		drawOrder = o
		if l, err := s.listing(); err == nil {
			listedBefore = len(l)
		}
		if a, ok := s.at[name]; ok && !s.clk.Now().Before(a.Add(ttl)) {
			for _, n := range o[:len(o)-1] {
				if n == name {
					atomic.AddInt64(&cntRefreshExpired, 1)
					break
				}
			}
		}
	}

	g := goid()
	ctx := &permCtx{k: k}
	permByGoroutine.Store(g, ctx)
	s.handler.ServeHTTP(rec, req)
	permByGoroutine.Delete(g)

	// model update (UpdatePeer precedes the handout in the handler)
	before := s.modelKey()
	if !s.known(name) {
		s.order = append(s.order, name)
	}
	s.complete[name] = complete
	if s.cfg.expiry {
		s.at[name] = s.clk.Now()
	} else {
		drawOrder = s.order
	}
	m := len(drawOrder)

	// harness sanity: GetPeers' draw must have gone through the shim (an
	// incomplete announcer with >= 2 stored agents needs at least one draw).
	// The exact number of draws is not asserted: it depends on the store's
	// internal list length, which is C27's subject; surplus digits are zero.
	// Expiry searches: a store corrupted by a cleanup pass may list fewer entries
	// than storeOrder predicts, so only a listing that already held two entries
	// before the announce obliges a draw.
	sure := m >= 2
	if s.cfg.expiry {
		sure = listedBefore >= 2
	}
	if !complete && sure && ctx.draws == 0 {
		return fmt.Errorf("op %q: no rand draw observed (overlay inactive or GetPeers path changed)", op)
	}

	if rec.Code != http.StatusOK {
		// no handout at all: nothing the statement constrains
		classes.Store(classKey{policy: s.cfg.policy, status: rec.Code}, true)
		return nil
	}
	var resp announceclient.Response
	if err := json.Unmarshal(rec.Body.Bytes(), &resp); err != nil {
		return fmt.Errorf("op %q: undecodable response %q: %v", op, rec.Body.String(), err)
	}

	detail := func() string {
		var listed []string
		for _, p := range resp.Peers {
			listed = append(listed, fmt.Sprintf("%s(o=%v,c=%v)", nameOf(p.PeerID), p.Origin, p.Complete))
		}
		return fmt.Sprintf("config {%s} state before [%s]: announce by %s complete=%v perm#%d -> handout %v", s.cfg, before, name, complete, k, listed)
	}
	if verbose {
		fmt.Printf("  %s -> %s\n", op, detail())
	}

	// outcome class / vacuity bookkeeping
	if !complete {
		shape := make([]byte, 0, len(resp.Peers))
		for _, p := range resp.Peers {
			shape = append(shape, "SOI"[entryClass(p)])
		}
		perm := permOf(m, k)
		n := s.cfg.limit
		if n > m {
			n = m
		}
		selfDrawn := false
		for _, i := range perm[:n] {
			if drawOrder[i] == name {
				selfDrawn = true
			}
		}
		ck := classKey{policy: s.cfg.policy, limit: s.cfg.limit, shape: string(shape), selfDrawn: selfDrawn, binding: m-1 > s.cfg.limit, expiry: s.cfg.expiry}
		if _, ok := classes.Load(ck); !ok {
			classes.Store(ck, true)
		}
	}

	if fp, extra := handoutViolation(s.cfg.policy, s.cfg.limit, s.cfg.origins, id, complete, resp.Peers); fp != "" {
		return bfs.Failf(fp, "%s%s", extra, detail())
	}

	return nil
}

// ---------------------------------------------------------------- replay

var verbose bool

// replay re-executes the history of a replay file (written by evid for a
// violation) on a fresh system and prints every handout.
func replay(run *evid.Run, path string) {
	b, err := os.ReadFile(path)
	if err != nil {
		run.Fatal(err)
	}
	var f struct {
		Case struct {
			Search  string   `json:"search"`
			History []string `json:"history"`
			Harness string   // E1 violation: scenario name + schedule
			Choices []int
			Swarm   string `json:"swarm"` // swarm part: unit name, walk step, draw answers
			Step    int    `json:"walk_step"`
			Draws   []int  `json:"draws"`
		} `json:"case"`
	}
	if err := json.Unmarshal(b, &f); err != nil {
		run.Fatal(err)
	}
	if f.Case.Harness != "" {
		replayE1(run, f.Case.Harness, f.Case.Choices)
	}
	if f.Case.Swarm != "" {
		vrand.Decider = decider
		replaySwarm(run, f.Case.Swarm, f.Case.Step, f.Case.Draws)
	}
	var cfg config
	var ep string
	var depth int
	if _, err := fmt.Sscanf(f.Case.Search, "policy=%s limit=%d origins=%d peers=%d %s depth=%d", &cfg.policy, &cfg.limit, &cfg.origins, &cfg.peers, &ep, &depth); err != nil {
		run.Fatal(fmt.Errorf("replay: cannot parse search %q: %v", f.Case.Search, err))
	}
	cfg.v1 = strings.HasPrefix(ep, "v1")
	cfg.expiry = strings.HasSuffix(ep, "+expiry")
	sy, err := newSys(cfg)
	if err != nil {
		run.Fatal(err)
	}
	verbose = true
	fmt.Printf("replaying %v on {%s}\n", f.Case.History, cfg)
	rc := 0
	for _, op := range f.Case.History {
		if err := sy.Apply(op); err != nil {
			fmt.Printf("  => %v\n", err)
			rc = 1
		}
	}
	os.Exit(rc)
}

// ---------------------------------------------------------------- main

func main() {
	e1ChildMain() // E1 shard worker: never returns
	vrand.Decider = decider

	run := evid.New("C26", "model_checking")
	if rp := run.ReplayPath(); rp != "" {
		replay(run, rp)
	}
	run.Rule = "E3: BFS over announce sequences: op = (announcing agent, completion flag, index of the permutation LocalStore.GetPeers draws) through the real tracker HTTP handler on a real LocalStore; one search per (policy in {default, completeness}) x (PeerHandoutLimit in {1,2,5}) x (number of blob origins in {0,1,2}) [thorough: plus the v1 endpoint on a 4-search sub-grid]; state = agents in store order with their latest completion flag. E3 with expiry: the same operations plus {advance the clock past the TTL, cleanupExpiredPeerEntries, cleanupExpiredPeerGroups} (explicit clock, passes called directly), permutation alphabet sized by the store's own listing, state additionally holds fresh/expired per agent. Swarm draws: for PeerHandoutLimit in {3,4} and every swarm size from limit+1 to 6 (completeness policy, 1 origin) [thorough: also limit 5, the default policy without origin and 2 origins, and 7 agents with limits 3..6], one long-lived store of that many agents walks through all 2^size completion flag vectors by single announces (Gray code) [thorough, 7 agents with limit 4/5: the staircase vectors]; at every vector every stored agent in turn re-announces with its stored flag once per sequence of answers math/rand can give to the draws LocalStore.GetPeers asks for (the tree of draw answers is walked depth first, each draw's range is discovered when the code asks for it, so no sampling algorithm is assumed), through the real HTTP handler (thorough, 7 agents: first sequence of every enumeration and every store-changing announce through the HTTP handler, the other sequences through Server.announce). E1: generated scenarios = every start state (1-2 [thorough 1-3] stored agents, each expired or fresh, every list order up to agent symmetry, at least one expired) x every announcer program of length 1-2 over {stored agents + one new agent} x {complete, incomplete} [thorough: also two announcer threads, groups pass first, default policy without origin, a clock-tick thread]; one cleaner thread runs the entry pass then the group pass while the announcer threads announce through the real handler; every interleaving at every Lock/RLock/Unlock/RUnlock of tracker/peerstore with at most 2 [thorough 3] preemptions is executed, then the same store serves closing announces of every agent, a clock advance, refreshes, a second cleanup and more announces (with a binding limit every permutation of a closing announce is drawn). Every 200 response of every phase is checked against all five clauses. distinct = (search, state) pairs + handout outcome classes + (swarm unit, flag vector) pairs + (E1 scenario, outcome) pairs, outcome = overlap flags + handouts of the concurrent announces + store listing after the race and at the end."
	run.Assume("announcers are agents (Origin=false): origins run with announcing disabled (lib/torrent/scheduler/constructors.go)")
	run.Assume("E3 without expiry: the mock clock does not advance; E3 with expiry: every advance exceeds the TTL (an entry is fresh or expired, never at the boundary; which expired entries a store still lists is C27's subject -- the C26 clauses do not depend on it); one blob per search; swarm part: the clock does not advance, a re-announce with unchanged fields leaves the store as it is (so all draw sequences of one store state are taken on the same store)")
	run.Assume("math/rand in tracker/peerstore is rewritten to verif/shim/vrand by the build overlay; every permutation GetPeers can draw is enumerated as part of the operation (BFS, closing announces under a binding limit); in the swarm part every draw of every announce is answered by the check and every answer vector is enumerated, whatever draws the code asks for (at most 64 draws and 200000 vectors per announce, else the run is marked not exhaustive); announces of the concurrent E1 phase draw the identity permutation")
	run.Assume("LocalStore is built without its wall-clock tickers and cleanup goroutine (export file in the overlay); the cleanup passes are called directly, by a single cleaner thread in E1 (LocalStore runs both passes from the single cleanupTask goroutine)")
	run.Assume("E1: sync in tracker/peerstore is rewritten to verif/shim/vsync; code between two lock operations of tracker/peerstore is data-race free; schedules are sequentially consistent interleavings at lock operations with a preemption bound; the vsync RWMutex has no writer preference")

	// every part has its own time budget, so that a slow machine cannot starve
	// a later part: expiry searches, then the announce-only grid, then E1
	depth, npeers := 4, 3
	xbudget, budget, e1budget, swbudget := 30*time.Second, 45*time.Second, 75*time.Second, 40*time.Second
	if run.Thorough() {
		depth, npeers = 5, 4
		xbudget, budget, e1budget, swbudget = 150*time.Second, 300*time.Second, 330*time.Second, 120*time.Second
	}
	search := func(cfg config, depth int, deadline time.Time) *bfs.Result {
		name := fmt.Sprintf("%s depth=%d", cfg, depth)
		res := rep.BFS(run, name, bfs.Config{MaxDepth: depth, ExpandFailed: true, Deadline: deadline, New: func() (bfs.System, error) { return newSys(cfg) }})
		for i := 0; i < res.States; i++ {
			run.Distinct(fmt.Sprintf("%s#%d", name, i))
		}
		return res
	}

	// expiry searches: 3 agents; deep enough for announce, expire, partial
	// refresh, cleanup (swap-removal), re-announce, observe
	xdepth := 6
	xcfgs := []config{
		{policy: "completeness", limit: 5, origins: 1, peers: 3, expiry: true},
		{policy: "completeness", limit: 2, origins: 1, peers: 3, expiry: true},
	}
	if run.Thorough() {
		xdepth = 8
		xcfgs = append(xcfgs,
			config{policy: "completeness", limit: 1, origins: 2, peers: 3, expiry: true},
			config{policy: "default", limit: 2, origins: 0, peers: 3, expiry: true})
	}
	deadline := time.Now().Add(xbudget)
	xdone := true
	for _, cfg := range xcfgs {
		if res := search(cfg, xdepth, deadline); !res.Completed {
			xdone = false
		}
	}
	run.Set("expiry_bfs_apply_calls_cleanup_removed_entries", atomic.LoadInt64(&cntCleanupRemoved))
	run.Set("expiry_bfs_apply_calls_refreshing_expired_listed_entry", atomic.LoadInt64(&cntRefreshExpired))
	if xdone && (cntCleanupRemoved == 0 || cntRefreshExpired == 0) {
		run.Fatal(errors.New("vacuous expiry searches: no cleanup pass removed an entry / no expired listed entry was re-announced"))
	}

	var cfgs []config
	for _, pol := range []string{"default", "completeness"} {
		for _, lim := range []int{1, 2, 5} {
			for _, no := range []int{0, 1, 2} {
				cfgs = append(cfgs, config{policy: pol, limit: lim, origins: no, peers: npeers})
			}
		}
	}
	if run.Thorough() {
		// the deprecated v1 endpoint shares Server.announce; a sub-grid suffices
		for _, pol := range []string{"default", "completeness"} {
			for _, lim := range []int{1, 5} {
				cfgs = append(cfgs, config{policy: pol, limit: lim, origins: 2, v1: true, peers: npeers})
			}
		}
	}
	deadline = time.Now().Add(budget)
	for _, cfg := range cfgs {
		search(cfg, depth, deadline)
	}
	tSwarm := time.Now()
	runSwarm(run, swbudget)
	run.Set("swarm_wall_s", time.Since(tSwarm).Seconds())
	nclasses, threeClass, selfDrawn, binding := 0, 0, 0, 0
	classes.Range(func(k, _ interface{}) bool {
		ck := k.(classKey)
		nclasses++
		run.Distinct(fmt.Sprintf("class %+v", ck))
		if strings.Contains(ck.shape, "S") && strings.Contains(ck.shape, "O") && strings.Contains(ck.shape, "I") {
			threeClass++
		}
		if ck.selfDrawn {
			selfDrawn++
		}
		if ck.binding {
			binding++
		}
		return true
	})
	run.Set("outcome_classes", nclasses)
	run.Set("classes_with_seeder_origin_and_incomplete", threeClass)
	run.Set("classes_where_store_drew_the_announcer", selfDrawn)
	run.Set("classes_where_limit_is_binding", binding)

	runE1(run, e1budget)
	run.Finish()
}
