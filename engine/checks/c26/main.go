// C26: tracker handouts never include the announcer and respect priority and
// limits.
//
// E3: BFS over announce sequences through the real tracker HTTP handler
// (chi router -> announceHandlerV2/V1 -> Server.announce -> getPeerHandout ->
// PriorityPolicy.SortPeers) with the real peerstore.LocalStore on a mock clock,
// a fake origin store and both handout policies. math/rand inside
// tracker/peerstore is rewritten to verif/shim/vrand by the overlay; the
// permutation LocalStore.GetPeers draws is part of the BFS operation, so Apply
// is deterministic and every draw is enumerated.
package main

import (
	"bytes"
	"encoding/json"
	"errors"
	"fmt"
	"net/http"
	"net/http/httptest"
	"os"
	"runtime"
	"strconv"
	"strings"
	"sync"
	"time"

	"github.com/andres-erbsen/clock"
	"github.com/uber-go/tally"
	"github.com/uber/kraken/core"
	"github.com/uber/kraken/tracker/announceclient"
	"github.com/uber/kraken/tracker/peerhandoutpolicy"
	"github.com/uber/kraken/tracker/peerstore"
	"github.com/uber/kraken/tracker/trackerserver"

	"verif/bfs"
	"verif/evid"
	_ "verif/quiet"
	"verif/rep"
	"verif/shim/vrand"
)

// ---------------------------------------------------------------- rand control

// permCtx is the pending answer for the rand.Perm draw of the goroutine that
// is executing Apply (the handler runs synchronously on that goroutine).
type permCtx struct {
	k     int // remaining mixed-radix permutation index
	draws int
}

var permByGoroutine sync.Map // goid -> *permCtx

func goid() uint64 {
	var buf [64]byte
	n := runtime.Stack(buf[:], false)
	b := buf[10:n] // after "goroutine "
	i := bytes.IndexByte(b, ' ')
	if i < 0 {
		return 0
	}
	id, _ := strconv.ParseUint(string(b[:i]), 10, 64)
	return id
}

// decider answers every vrand draw: digits of the permutation index carried by
// the BFS operation (least significant digit first, radix = n of the draw).
func decider(n int, label string) int {
	v, ok := permByGoroutine.Load(goid())
	if !ok {
		return 0
	}
	c := v.(*permCtx)
	c.draws++
	d := c.k % n
	c.k /= n
	return d
}

// permOf replays vrand.Perm's Lehmer decoding for index k (model side; used
// for vacuity counters only).
func permOf(m, k int) []int {
	p := make([]int, m)
	for i := range p {
		p[i] = i
	}
	for i := 0; i < m-1; i++ {
		n := m - i
		j := i + k%n
		k /= n
		p[i], p[j] = p[j], p[i]
	}
	return p
}

func factorial(n int) int {
	f := 1
	for i := 2; i <= n; i++ {
		f *= i
	}
	return f
}

// ---------------------------------------------------------------- fixtures

func mustPeerID(b byte) core.PeerID {
	id, err := core.NewPeerID(strings.Repeat(fmt.Sprintf("%02x", b), 20))
	if err != nil {
		panic(err)
	}
	return id
}

var (
	agentNames = []string{"p", "q", "r", "s"}
	agentIDs   = map[string]core.PeerID{"p": mustPeerID(0x11), "q": mustPeerID(0x22), "r": mustPeerID(0x33), "s": mustPeerID(0x44)}
	originIDs  = []core.PeerID{mustPeerID(0xa1), mustPeerID(0xa2)}
	blobDigest = func() core.Digest {
		d, err := core.NewSHA256DigestFromHex(strings.Repeat("cd", 32))
		if err != nil {
			panic(err)
		}
		return d
	}()
	blobHash = core.NewInfoHashFromBytes([]byte("c26 blob"))
)

func nameOf(id core.PeerID) string {
	for n, x := range agentIDs {
		if x == id {
			return n
		}
	}
	for i, x := range originIDs {
		if x == id {
			return fmt.Sprintf("o%d", i+1)
		}
	}
	return "?" + id.String()[:6]
}

// fakeOrigins is the originstore.Store: the blob's origins as fresh PeerInfo
// objects on every call (like the real store); an error when the blob has no
// available origin (like the real store).
type fakeOrigins struct{ n int }

func (f fakeOrigins) GetOrigins(d core.Digest) ([]*core.PeerInfo, error) {
	if d != blobDigest {
		return nil, errors.New("c26: unknown digest")
	}
	if f.n == 0 {
		return nil, errors.New("all origins unavailable")
	}
	var out []*core.PeerInfo
	for i := 0; i < f.n; i++ {
		out = append(out, core.NewPeerInfo(originIDs[i], fmt.Sprintf("10.0.9.%d", i+1), 7000+i, true, true))
	}
	return out, nil
}

type config struct {
	policy  string
	limit   int
	origins int
	v1      bool
	peers   int // how many of agentNames take part
}

func (c config) String() string {
	ep := "v2"
	if c.v1 {
		ep = "v1"
	}
	return fmt.Sprintf("policy=%s limit=%d origins=%d peers=%d %s", c.policy, c.limit, c.origins, c.peers, ep)
}

// ---------------------------------------------------------------- system

type sys struct {
	cfg      config
	ps       *peerstore.LocalStore
	handler  http.Handler
	order    []string        // model: agents in first-announce order (== peerList order)
	complete map[string]bool // model: latest completion flag
}

// outcome classes / vacuity flags seen anywhere in the run (set semantics, so
// BFS replays do not inflate them).
var classes sync.Map // classKey -> true

type classKey struct {
	policy    string
	limit     int
	shape     string // entry classes of the handout in order: S(eeder) O(rigin) I(ncomplete)
	selfDrawn bool   // the store's draw contained the announcer
	binding   bool   // more other agents stored than the limit
	status    int    // non-200 answers
}

func newSys(cfg config) (*sys, error) {
	pol, err := peerhandoutpolicy.NewPriorityPolicy(tally.NoopScope, cfg.policy)
	if err != nil {
		return nil, err
	}
	ps := peerstore.NewLocalStoreNoCleanup(peerstore.LocalConfig{}, clock.NewMock())
	srv := trackerserver.New(trackerserver.Config{PeerHandoutLimit: cfg.limit}, tally.NoopScope, pol, ps, fakeOrigins{cfg.origins}, nil)
	return &sys{cfg: cfg, ps: ps, handler: srv.Handler(), complete: map[string]bool{}}, nil
}

func (s *sys) Close() { s.ps.Close() }

func (s *sys) known(p string) bool {
	_, ok := s.complete[p]
	return ok
}

func (s *sys) Ops() []string {
	var ops []string
	for _, p := range agentNames[:s.cfg.peers] {
		ops = append(ops, fmt.Sprintf("a %s 1 0", p))
	}
	for _, p := range agentNames[:s.cfg.peers] {
		m := len(s.order)
		if !s.known(p) {
			m++
		}
		for k := 0; k < factorial(m); k++ {
			ops = append(ops, fmt.Sprintf("a %s 0 %d", p, k))
		}
	}
	return ops
}

// modelKey: agents in store order with their latest completion flag.
func (s *sys) modelKey() string {
	var b strings.Builder
	for _, p := range s.order {
		b.WriteString(p)
		if s.complete[p] {
			b.WriteByte('+')
		} else {
			b.WriteByte('-')
		}
	}
	return b.String()
}

// Key = model state + what the real store's public API shows (GetPeers with an
// unbounded n; no permutation context is registered here, so the shim answers
// the identity permutation = store order). On correct code the second part is
// a function of the first; it keeps the state abstraction sound when the store
// holds something the model does not know about.
func (s *sys) Key() string {
	var b strings.Builder
	b.WriteString(s.modelKey())
	b.WriteString(" | store:")
	peers, err := s.ps.GetPeers(blobHash, 1<<20)
	if err != nil {
		return b.String() + " error " + err.Error()
	}
	for _, p := range peers {
		b.WriteString(nameOf(p.PeerID))
		if p.Complete {
			b.WriteByte('+')
		} else {
			b.WriteByte('-')
		}
	}
	return b.String()
}

// class of a handout entry under the completeness policy of the statement:
// seeders (0), then origins (1), then incomplete peers (2).
func entryClass(p *core.PeerInfo) int {
	switch {
	case p.Origin:
		return 1
	case p.Complete:
		return 0
	}
	return 2
}

func (s *sys) Apply(op string) error {
	var name string
	var cflag, k int
	if _, err := fmt.Sscanf(op, "a %s %d %d", &name, &cflag, &k); err != nil {
		return err
	}
	id, ok := agentIDs[name]
	if !ok {
		return fmt.Errorf("unknown peer %q", name)
	}
	complete := cflag == 1
	announcer := core.NewPeerInfo(id, "10.0.0."+fmt.Sprint(id[0]), 6000+int(id[0]), false, complete)
	d := blobDigest
	body, err := json.Marshal(&announceclient.Request{Name: d.Hex(), Digest: &d, InfoHash: blobHash, Peer: announcer})
	if err != nil {
		return err
	}
	var req *http.Request
	if s.cfg.v1 {
		req = httptest.NewRequest("GET", "/announce", bytes.NewReader(body))
	} else {
		req = httptest.NewRequest("POST", "/announce/"+blobHash.Hex(), bytes.NewReader(body))
	}
	rec := httptest.NewRecorder()

	g := goid()
	ctx := &permCtx{k: k}
	permByGoroutine.Store(g, ctx)
	s.handler.ServeHTTP(rec, req)
	permByGoroutine.Delete(g)

	// model update (UpdatePeer precedes the handout in the handler)
	before := s.modelKey()
	if !s.known(name) {
		s.order = append(s.order, name)
	}
	s.complete[name] = complete
	m := len(s.order)

	// harness sanity: GetPeers' draw must have gone through the shim (an
	// incomplete announcer with >= 2 stored agents needs at least one draw).
	// The exact number of draws is not asserted: it depends on the store's
	// internal list length, which is C27's subject; surplus digits are zero.
	if !complete && m >= 2 && ctx.draws == 0 {
		return fmt.Errorf("op %q: no rand draw observed (overlay inactive or GetPeers path changed)", op)
	}

	if rec.Code != http.StatusOK {
		// no handout at all: nothing the statement constrains
		classes.Store(classKey{policy: s.cfg.policy, status: rec.Code}, true)
		return nil
	}
	var resp announceclient.Response
	if err := json.Unmarshal(rec.Body.Bytes(), &resp); err != nil {
		return fmt.Errorf("op %q: undecodable response %q: %v", op, rec.Body.String(), err)
	}

	detail := func() string {
		var listed []string
		for _, p := range resp.Peers {
			listed = append(listed, fmt.Sprintf("%s(o=%v,c=%v)", nameOf(p.PeerID), p.Origin, p.Complete))
		}
		return fmt.Sprintf("config {%s} state before [%s]: announce by %s complete=%v perm#%d -> handout %v", s.cfg, before, name, complete, k, listed)
	}
	if verbose {
		fmt.Printf("  %s -> %s\n", op, detail())
	}

	// outcome class / vacuity bookkeeping
	if !complete {
		shape := make([]byte, 0, len(resp.Peers))
		for _, p := range resp.Peers {
			shape = append(shape, "SOI"[entryClass(p)])
		}
		perm := permOf(m, k)
		n := s.cfg.limit
		if n > m {
			n = m
		}
		selfDrawn := false
		for _, i := range perm[:n] {
			if s.order[i] == name {
				selfDrawn = true
			}
		}
		ck := classKey{policy: s.cfg.policy, limit: s.cfg.limit, shape: string(shape), selfDrawn: selfDrawn, binding: m-1 > s.cfg.limit}
		if _, ok := classes.Load(ck); !ok {
			classes.Store(ck, true)
		}
	}

	// clause: empty for an announcer that reports completion
	if complete && len(resp.Peers) > 0 {
		return bfs.Failf("non-empty handout for an announcer that reports completion", "%s", detail())
	}
	// clause: no peer twice
	seen := map[core.PeerID]bool{}
	for _, p := range resp.Peers {
		if seen[p.PeerID] {
			return bfs.Failf("handout lists a peer twice", "%s", detail())
		}
		seen[p.PeerID] = true
	}
	// clause: at most the configured number of agents plus the blob's origins
	isOrigin := map[core.PeerID]bool{}
	for i := 0; i < s.cfg.origins; i++ {
		isOrigin[originIDs[i]] = true
	}
	agents := 0
	for _, p := range resp.Peers {
		if !isOrigin[p.PeerID] {
			agents++
		}
	}
	if agents > s.cfg.limit {
		return bfs.Failf("handout holds more agents than the configured limit", "%d agents > limit %d: %s", agents, s.cfg.limit, detail())
	}
	// clause: ordered by the configured priority
	if s.cfg.policy == "completeness" {
		for i := 1; i < len(resp.Peers); i++ {
			if entryClass(resp.Peers[i-1]) > entryClass(resp.Peers[i]) {
				return bfs.Failf("handout not ordered seeders, origins, incomplete peers (completeness policy)", "%s", detail())
			}
		}
	}
	// clause: never lists the announcing peer (checked last so that a second
	// failing clause of the same transition is not hidden behind this one)
	if seen[id] {
		return bfs.Failf("handout lists the announcing peer", "%s", detail())
	}

	return nil
}

// ---------------------------------------------------------------- replay

var verbose bool

// replay re-executes the history of a replay file (written by evid for a
// violation) on a fresh system and prints every handout.
func replay(run *evid.Run, path string) {
	b, err := os.ReadFile(path)
	if err != nil {
		run.Fatal(err)
	}
	var f struct {
		Case struct {
			Search  string   `json:"search"`
			History []string `json:"history"`
		} `json:"case"`
	}
	if err := json.Unmarshal(b, &f); err != nil {
		run.Fatal(err)
	}
	var cfg config
	var ep string
	var depth int
	if _, err := fmt.Sscanf(f.Case.Search, "policy=%s limit=%d origins=%d peers=%d %s depth=%d", &cfg.policy, &cfg.limit, &cfg.origins, &cfg.peers, &ep, &depth); err != nil {
		run.Fatal(fmt.Errorf("replay: cannot parse search %q: %v", f.Case.Search, err))
	}
	cfg.v1 = ep == "v1"
	sy, err := newSys(cfg)
	if err != nil {
		run.Fatal(err)
	}
	verbose = true
	fmt.Printf("replaying %v on {%s}\n", f.Case.History, cfg)
	rc := 0
	for _, op := range f.Case.History {
		if err := sy.Apply(op); err != nil {
			fmt.Printf("  => %v\n", err)
			rc = 1
		}
	}
	os.Exit(rc)
}

// ---------------------------------------------------------------- main

func main() {
	vrand.Decider = decider

	run := evid.New("C26", "model_checking")
	if rp := run.ReplayPath(); rp != "" {
		replay(run, rp)
	}
	run.Rule = "BFS over announce sequences: op = (announcing agent, completion flag, index of the permutation LocalStore.GetPeers draws) through the real tracker HTTP handler on a real LocalStore; one search per (policy in {default, completeness}) x (PeerHandoutLimit in {1,2,5}) x (number of blob origins in {0,1,2}) [thorough: plus the v1 endpoint on a 4-search sub-grid]; state = agents in store order with their latest completion flag; every response is checked against all five clauses. distinct = (search, state) pairs + handout outcome classes."
	run.Assume("announcers are agents (Origin=false): origins run with announcing disabled (lib/torrent/scheduler/constructors.go)")
	run.Assume("the mock clock does not advance (entry expiry is C27's subject); one blob per search")
	run.Assume("math/rand in tracker/peerstore is rewritten to verif/shim/vrand by the build overlay; every permutation GetPeers can draw is enumerated as part of the operation")
	run.Assume("LocalStore is built without its wall-clock cleanup goroutine (export file in the overlay)")

	depth, npeers := 4, 3
	budget := 50 * time.Second
	if run.Thorough() {
		depth, npeers = 5, 4
		budget = 780 * time.Second
	}
	deadline := time.Now().Add(budget)
	var cfgs []config
	for _, pol := range []string{"default", "completeness"} {
		for _, lim := range []int{1, 2, 5} {
			for _, no := range []int{0, 1, 2} {
				cfgs = append(cfgs, config{policy: pol, limit: lim, origins: no, peers: npeers})
			}
		}
	}
	if run.Thorough() {
		// the deprecated v1 endpoint shares Server.announce; a sub-grid suffices
		for _, pol := range []string{"default", "completeness"} {
			for _, lim := range []int{1, 5} {
				cfgs = append(cfgs, config{policy: pol, limit: lim, origins: 2, v1: true, peers: npeers})
			}
		}
	}
	for _, cfg := range cfgs {
		cfg := cfg
		name := fmt.Sprintf("%s depth=%d", cfg, depth)
		res := rep.BFS(run, name, bfs.Config{MaxDepth: depth, ExpandFailed: true, Deadline: deadline, New: func() (bfs.System, error) { return newSys(cfg) }})
		for i := 0; i < res.States; i++ {
			run.Distinct(fmt.Sprintf("%s#%d", name, i))
		}
	}
	nclasses, threeClass, selfDrawn, binding := 0, 0, 0, 0
	classes.Range(func(k, _ interface{}) bool {
		ck := k.(classKey)
		nclasses++
		run.Distinct(fmt.Sprintf("class %+v", ck))
		if strings.Contains(ck.shape, "S") && strings.Contains(ck.shape, "O") && strings.Contains(ck.shape, "I") {
			threeClass++
		}
		if ck.selfDrawn {
			selfDrawn++
		}
		if ck.binding {
			binding++
		}
		return true
	})
	run.Set("outcome_classes", nclasses)
	run.Set("classes_with_seeder_origin_and_incomplete", threeClass)
	run.Set("classes_where_store_drew_the_announcer", selfDrawn)
	run.Set("classes_where_limit_is_binding", binding)
	run.Finish()
}
