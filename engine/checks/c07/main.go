// C07: the disk blob store behaves like its capacity-bounded LRU model.
//
// E3: breadth-first search over all operation histories (small key space,
// small sizes / capacities) of a REAL disk.Store on a tmpfs directory. Every
// transition is executed on the store and on the reference model (model.go),
// the results are compared, and after every transition the complete state of
// the store (accounting, eviction queue, blob table, List per scope, metadata
// and bytes of every blob) is compared with the model. One extra operation per
// state ("observe") issues every call that must NOT change the state -- all
// reads through the three scoped views, every mutator on absent and on
// out-of-scope blobs, idempotent repeats, invalid Clean targets -- and checks
// results and that the state is unchanged.
package main

import (
	"crypto/sha1"
	"encoding/json"
	"errors"
	"fmt"
	"hash"
	"io"
	"io/fs"
	"os"
	"regexp"
	"runtime/pprof"
	"sort"
	"strconv"
	"strings"
	"sync"
	"syscall"
	"time"

	"github.com/uber-go/tally"
	storelib "github.com/uber/kraken/lib/store"
	"github.com/uber/kraken/lib/store/disk"
	"github.com/uber/kraken/lib/store/metadata"

	"verif/bfs"
	"verif/evid"
	_ "verif/quiet"
	"verif/rep"
)

// ---- metadata types registered by the harness -------------------------------

const (
	sfxMov = "_vmov" // movable: survives MarkComplete
	sfxImm = "_vimm" // non-movable: must disappear on MarkComplete
)

var movable = map[string]bool{sfxMov: true, sfxImm: false}

type vmd struct {
	suffix string
	val    []byte
}

func (m *vmd) GetSuffix() string          { return m.suffix }
func (m *vmd) Movable() bool              { return movable[m.suffix] }
func (m *vmd) Serialize() ([]byte, error) { return m.val, nil }
func (m *vmd) Deserialize(b []byte) error { m.val = append([]byte{}, b...); return nil }

type vmdFactory struct{ suffix string }

func (f vmdFactory) Create(string) metadata.Metadata { return &vmd{suffix: f.suffix} }

func init() {
	// anchored, and not matched by any of kraken's own (unanchored) suffix regexps
	metadata.Register(regexp.MustCompile("^"+sfxMov+"$"), vmdFactory{sfxMov})
	metadata.Register(regexp.MustCompile("^"+sfxImm+"$"), vmdFactory{sfxImm})
}

// ---- configuration of one search ---------------------------------------------

const huge = ^uint64(0)

type cfg struct {
	name   string
	keys   []string
	sizes  []uint64
	cap    uint64
	shard  int
	reboot bool // RebootIncompleteBlobs (adds the _size sidecar to every blob dir)
	open   bool // alphabet: Open
	ban    bool // alphabet: BanEviction / UnbanEviction
	md     bool // alphabet: metadata mutators
	clean  bool // alphabet: Clean
	scoped bool // scoped mutators go through the matching scoped view instead of the Any view
	depth  int
}

var allScopes = []Scope{ScopeAny, ScopeComplete, ScopeIncomplete}

// ---- vacuity counters (exact: flushed once per BFS transition, from Key) -------

var (
	cntMu sync.Mutex
	cnt   = map[string]int64{}
)

// ---- the system: real store + model ----------------------------------------------

type sys struct {
	c      *cfg
	dir    string
	st     *disk.Store
	views  [3]*disk.Store // indexed by Scope
	m      *Model
	impl   string    // rendering of the implementation state at the last comparison
	events []string  // what the last Apply exercised
	hist   hash.Hash // running hash of the history applied so far
}

// validated holds the hashes of the histories whose end state has already been
// compared in full with the model. BFS re-executes the (deterministic) prefix of
// every history it extends; the full comparison, which reads every sidecar and
// blob file, is not repeated for those replayed prefixes.
var validated sync.Map

func (s *sys) histKey() [20]byte {
	var k [20]byte
	copy(k[:], s.hist.Sum(nil))
	return k
}

// checkState runs the full comparison unless this exact history was compared before.
func (s *sys) checkState(ctx string) error {
	k := s.histKey()
	if _, ok := validated.Load(k); ok {
		return nil
	}
	if err := s.compare(ctx); err != nil {
		return err
	}
	validated.Store(k, struct{}{})
	return nil
}

func newSys(c *cfg) (bfs.System, error) {
	dir, err := os.MkdirTemp("", "c07-")
	if err != nil {
		return nil, err
	}
	st, err := disk.NewStore(&disk.Config{CapacityBytes: c.cap, RootDir: dir, RebootIncompleteBlobs: c.reboot, ShardLength: c.shard}, tally.NoopScope)
	if err != nil {
		os.RemoveAll(dir)
		return nil, err
	}
	s := &sys{c: c, dir: dir, st: st, m: NewModel(c.cap, movable), hist: sha1.New()}
	s.hist.Write([]byte(c.name + "\n"))
	// all three constructors of scoped views are used
	s.views = [3]*disk.Store{st, st.ScopeComplete(), st.Scoped(storelib.BlobScopeIncomplete)}
	if c.scoped {
		s.views = [3]*disk.Store{st.Scoped(storelib.BlobScopeAny), st.Scoped(storelib.BlobScopeComplete), st.ScopeIncomplete()}
	}
	if err := s.checkState("initial state"); err != nil {
		s.Close()
		return nil, err
	}
	return s, nil
}

func (s *sys) Close() { os.RemoveAll(s.dir) }

func (s *sys) Key() string {
	cntMu.Lock()
	for _, e := range s.events {
		cnt[e]++
	}
	cntMu.Unlock()
	s.events = nil
	return s.m.Key() + " ## " + s.impl
}

func (s *sys) ev(e string) {
	for _, x := range s.events {
		if x == e {
			return
		}
	}
	s.events = append(s.events, e)
}

func dataFor(key string, size uint64) string {
	if size > 16 {
		return "H"
	}
	return strings.Repeat(key[len(key)-1:], int(size))
}

var cleanTargets = []int{0, 50, 99}

func (s *sys) Ops() []string {
	ops := []string{"observe"}
	for _, k := range s.c.keys {
		b, ok := s.m.Blobs[k]
		if !ok {
			for _, z := range s.c.sizes {
				ops = append(ops, fmt.Sprintf("create %s %d", k, z))
			}
			continue
		}
		if !b.Complete {
			ops = append(ops, "complete "+k)
		}
		if s.c.open && s.m.Evictable(k) {
			ops = append(ops, "open "+k)
		}
		ops = append(ops, "delete "+k)
		if s.c.ban {
			if b.Banned {
				ops = append(ops, "unban "+k)
			} else {
				ops = append(ops, "ban "+k)
			}
		}
		if s.c.md {
			ops = append(ops, "setmd "+k+" "+sfxMov+" A", "setmd "+k+" "+sfxMov+" B", "setmd "+k+" "+sfxImm+" A")
			if _, ok := b.MD[sfxMov]; ok {
				ops = append(ops, "delmd "+k+" "+sfxMov, "wrmd "+k+" "+sfxMov)
			}
			if _, ok := b.MD[sfxImm]; ok {
				ops = append(ops, "delmd "+k+" "+sfxImm)
			}
		}
	}
	if s.c.clean {
		for _, t := range cleanTargets {
			for _, r := range []bool{true, false} {
				if cleanDeterministic(s.m, t, r) {
					ops = append(ops, fmt.Sprintf("clean %d %v", t, r))
				}
			}
		}
	}
	return ops
}

// cleanDeterministic: Clean walks Go maps when it deletes incomplete / banned
// blobs. BFS replays histories, so Clean is only offered in states where every
// iteration order removes the same set of blobs.
func cleanDeterministic(m *Model, target int, respect bool) bool {
	tsize, ok := m.CleanTarget(target)
	if !ok {
		return true
	}
	c := m.Clone()
	for c.Used() > tsize && len(c.LRU) > 0 {
		c.EvictPrefix(1)
	}
	if c.Used() <= tsize {
		return true
	}
	phase := func(c *Model, pick func(b *MBlob) bool) (bool, *Model) {
		var cand []string
		for k, b := range c.Blobs {
			if pick(b) {
				cand = append(cand, k)
			}
		}
		sort.Strings(cand)
		var first string
		var firstM *Model
		same := true
		permute(cand, func(p []string) {
			d := c.Clone()
			for _, k := range p {
				if d.Used() <= tsize {
					break
				}
				d.drop(k)
			}
			if firstM == nil {
				first, firstM = d.Key(), d
			} else if d.Key() != first {
				same = false
			}
		})
		return same, firstM
	}
	same, c2 := phase(c, func(b *MBlob) bool { return !b.Banned })
	if !same {
		return false
	}
	if respect || c2.Used() <= tsize {
		return true
	}
	same, _ = phase(c2, func(b *MBlob) bool { return true })
	return same
}

func permute(xs []string, f func([]string)) {
	var rec func(i int)
	p := append([]string{}, xs...)
	rec = func(i int) {
		if i >= len(p) {
			f(p)
			return
		}
		for j := i; j < len(p); j++ {
			p[i], p[j] = p[j], p[i]
			rec(i + 1)
			p[i], p[j] = p[j], p[i]
		}
	}
	rec(0)
}

// classify maps an error of the store to a result class. An unexpected
// operating-system error (not a consequence of the store's own bookkeeping) is
// a harness error.
func classify(err error) (Class, error) {
	switch {
	case err == nil:
		return OK, nil
	case err == os.ErrNotExist:
		return NotExist, nil
	case err == os.ErrExist:
		return Exist, nil
	case err == storelib.ErrOutOfScope:
		return OutOfScope, nil
	case disk.VerifIsNoSpace(err):
		return NoSpace, nil
	}
	var en syscall.Errno
	if errors.As(err, &en) {
		switch en {
		case syscall.ENOENT, syscall.EEXIST, syscall.ENOTDIR, syscall.ENOTEMPTY, syscall.EISDIR:
			// the store lost track of its own files: a result the model never predicts
			return Other, nil
		}
		return Other, fmt.Errorf("unexpected I/O error: %v", err)
	}
	return Other, nil
}

func same(model, impl Class) bool {
	return model == impl || (model == Invalid && impl == Other)
}

func diff(before, after []string) []string {
	in := map[string]bool{}
	for _, k := range after {
		in[k] = true
	}
	var gone []string
	for _, k := range before {
		if !in[k] {
			gone = append(gone, k)
		}
	}
	return gone
}

func sorted(xs []string) []string {
	r := append([]string{}, xs...)
	sort.Strings(r)
	return r
}

func eq(a, b []string) bool {
	if len(a) != len(b) {
		return false
	}
	for i := range a {
		if a[i] != b[i] {
			return false
		}
	}
	return true
}

// view returns the view a scoped mutator on key goes through.
func (s *sys) view(key string) (*disk.Store, Scope) {
	if !s.c.scoped {
		return s.views[ScopeAny], ScopeAny
	}
	if b, ok := s.m.Blobs[key]; ok && b.Complete {
		return s.views[ScopeComplete], ScopeComplete
	} else if ok {
		return s.views[ScopeIncomplete], ScopeIncomplete
	}
	return s.views[ScopeAny], ScopeAny
}

func (s *sys) Apply(op string) (err error) {
	s.events = s.events[:0]
	f := strings.Fields(op)
	kind := f[0]
	s.hist.Write([]byte(op + "\n"))
	defer func() {
		if r := recover(); r != nil {
			err = bfs.Failf("panic in the store during "+kind, "%s: %v", op, r)
		}
	}()
	if kind == "observe" {
		return s.observe()
	}
	if kind == "clean" {
		t, _ := strconv.Atoi(f[1])
		return s.clean(op, t, f[2] == "true")
	}
	key := f[1]
	v, sc := s.view(key)
	var got, want Class
	var herr error
	switch kind {
	case "create":
		size, _ := strconv.ParseUint(f[2], 10, 64)
		return s.create(op, key, size)
	case "open":
		var content string
		fh, err := v.Open(key)
		if got, herr = classify(err); herr != nil {
			return herr
		}
		if err == nil {
			b, rerr := io.ReadAll(fh)
			fh.Close()
			if rerr != nil {
				return rerr
			}
			content = string(b)
		}
		var wantData string
		want, wantData = s.m.Open(key, sc)
		if same(want, got) && got == OK && content != wantData {
			return bfs.Failf("Open returns bytes that differ from the blob written", "%s: got %q want %q", op, content, wantData)
		}
		s.ev("open of an evictable blob")
	case "complete":
		b := s.m.Blobs[key]
		if b != nil && !b.Complete {
			if _, ok := b.MD[sfxImm]; ok {
				s.ev("completion with non-movable metadata present")
			}
			if _, ok := b.MD[sfxMov]; ok {
				s.ev("completion with movable metadata present")
			}
			if b.Banned {
				s.ev("completion of a banned blob")
			}
		}
		// MarkComplete is documented as not scoped: any view must do
		got, herr = classify(v.MarkComplete(key))
		want = s.m.MarkComplete(key)
	case "delete":
		got, herr = classify(v.Delete(key))
		want = s.m.Delete(key, sc)
	case "ban":
		got, herr = classify(v.BanEviction(key))
		want = s.m.Ban(key, sc)
	case "unban":
		got, herr = classify(v.UnbanEviction(key))
		want = s.m.Unban(key, sc)
	case "setmd":
		got, herr = classify(v.SetMetadata(key, &vmd{suffix: f[2], val: []byte(f[3])}))
		want = s.m.SetMD(key, f[2], f[3], sc)
	case "delmd":
		got, herr = classify(v.DeleteMetadata(key, f[2]))
		want = s.m.DelMD(key, f[2], sc)
	case "wrmd":
		got, herr = classify(v.WriteAtMetadata(key, &vmd{suffix: f[2]}, []byte("z"), 1))
		want = s.m.WriteAtMD(key, f[2], "z", 1, sc)
	default:
		return fmt.Errorf("unknown op %q", op)
	}
	if herr != nil {
		return fmt.Errorf("%s: %v", op, herr)
	}
	if !same(want, got) {
		return bfs.Failf(fmt.Sprintf("%s result differs from model (got %v, want %v)", kind, got, want), "%s through view %v", op, sc)
	}
	return s.checkState("after " + kind)
}

func (s *sys) create(op, key string, size uint64) error {
	pre := s.m.Clone()
	before := pre.List(ScopeAny)
	// Create is documented as not scoped: go through the view that would hide the new (incomplete) blob
	v := s.views[ScopeAny]
	if s.c.scoped {
		v = s.views[ScopeComplete]
	}
	data := dataFor(key, size)
	fh, err := v.Create(key, size)
	got, herr := classify(err)
	if herr != nil {
		return fmt.Errorf("%s: %v", op, herr)
	}
	if err == nil {
		if _, werr := fh.Write([]byte(data)); werr != nil {
			return werr
		}
		if cerr := fh.Close(); cerr != nil {
			return cerr
		}
	}
	gone := diff(before, s.st.List())
	want, evicted := s.m.Create(key, size, data)
	cls := "small"
	if size > 16 {
		cls = "huge"
	}
	if got == OK && want == NoSpace {
		return bfs.Failf("Create admits a blob that does not fit within capacity ("+cls+" size)", "%s: capacity %d, reserved before %d, unevictable blobs leave no room; model state before: %s", op, s.c.cap, pre.Used(), pre.Key())
	}
	if !same(want, got) {
		return bfs.Failf(fmt.Sprintf("create result differs from model (got %v, want %v)", got, want), "%s; model state before: %s", op, pre.Key())
	}
	for _, k := range gone {
		if !pre.Evictable(k) {
			return bfs.Failf("Create evicted a blob that is incomplete or banned from eviction", "%s evicted %s; model state before: %s", op, k, pre.Key())
		}
	}
	if !pre.IsLRUPrefix(gone) {
		return bfs.Failf("Create did not evict least-recently-used first", "%s evicted %v, LRU order was %v", op, gone, pre.LRU)
	}
	switch got {
	case OK:
		if len(gone) > len(evicted) {
			return bfs.Failf("Create evicted more blobs than needed to fit", "%s evicted %v, needed %v (LRU %v)", op, gone, evicted, pre.LRU)
		}
		if len(evicted) > 0 {
			s.ev("create that evicts")
		}
		if len(evicted) > 1 {
			s.ev("create that evicts two or more")
		}
	case NoSpace:
		s.m.EvictPrefix(len(gone))
		s.ev("create refused for lack of space")
		if len(gone) > 0 {
			s.ev("refused create that evicted")
		}
	case Exist:
		if len(gone) > 0 {
			return bfs.Failf("Create of a live key removed blobs", "%s removed %v", op, gone)
		}
	}
	return s.checkState("after create")
}

func (s *sys) clean(op string, target int, respect bool) error {
	before := s.m.List(ScopeAny)
	v := s.views[ScopeAny]
	newUtil, err := v.Clean(target, respect)
	got, herr := classify(err)
	if herr != nil {
		return fmt.Errorf("%s: %v", op, herr)
	}
	if got != OK {
		got = Other
	}
	removed := diff(before, s.st.List())
	if msg := s.m.CleanCheck(target, respect, removed, newUtil, got); msg != "" {
		return bfs.Failf(msg, "%s removed %v, returned (%d, %v)", op, removed, newUtil, err)
	}
	if len(removed) > 0 {
		s.ev("clean that removes blobs")
	}
	return s.checkState("after clean")
}

// compare checks the whole state of the store against the model and renders
// it (for the state key).
func (s *sys) compare(ctx string) error {
	m := s.m
	var sb strings.Builder
	size := s.st.VerifSize()
	lru := s.st.VerifEvictionOrder()
	fmt.Fprintf(&sb, "size=%d lru=%s", size, strings.Join(lru, ","))
	if size != m.Used() {
		return bfs.Failf("reserved space differs from the sum of live blob sizes ("+ctx+")", "store.size=%d, model sum=%d; model: %s", size, m.Used(), m.Key())
	}
	if size > s.c.cap {
		return bfs.Failf("reserved space exceeds capacity ("+ctx+")", "store.size=%d capacity=%d", size, s.c.cap)
	}
	if !eq(lru, m.LRU) {
		return bfs.Failf("eviction order differs from LRU model ("+ctx+")", "store %v, model %v", lru, m.LRU)
	}
	for _, sc := range allScopes {
		got := sorted(s.views[sc].List())
		if want := m.List(sc); !eq(got, want) {
			return bfs.Failf(fmt.Sprintf("List through view %v differs from model (%s)", sc, ctx), "got %v want %v", got, want)
		}
	}
	keys := m.List(ScopeAny)
	var tbl []string
	for _, k := range keys {
		b := m.Blobs[k]
		tbl = append(tbl, fmt.Sprintf("%s %d %v %v %v", k, b.Size, b.Complete, b.Banned, b.Complete && !b.Banned))
	}
	if got, want := s.st.VerifBlobs(), strings.Join(tbl, "\n"); got != want {
		return bfs.Failf("blob table (size, complete, banned, queued) differs from model ("+ctx+")", "store:\n%s\nmodel:\n%s", got, want)
	}
	for _, k := range keys {
		b := m.Blobs[k]
		var mds []string
		for _, sfx := range []string{sfxImm, sfxMov} {
			md := &vmd{suffix: sfx}
			ok, err := s.st.GetMetadata(k, md)
			if err != nil {
				return bfs.Failf("GetMetadata fails on a live blob ("+ctx+")", "GetMetadata(%s,%s): %v", k, sfx, err)
			}
			want, wok := b.MD[sfx]
			if ok {
				mds = append(mds, fmt.Sprintf("%s=%q", sfx, md.val))
			}
			switch {
			case ok && !wok && sfx == sfxImm && b.Complete:
				return bfs.Failf("non-movable metadata present on a complete blob that never had it set since completion ("+ctx+")", "%s %s=%q", k, sfx, md.val)
			case ok != wok || (ok && string(md.val) != want):
				return bfs.Failf("metadata read differs from the last value set ("+ctx+")", "%s %s: got (%v,%q) want (%v,%q)", k, sfx, ok, md.val, wok, want)
			}
		}
		lst, err := s.st.ListMetadata(k)
		if err != nil {
			return bfs.Failf("ListMetadata fails on a live blob ("+ctx+")", "ListMetadata(%s): %v", k, err)
		}
		var sfxs []string
		for _, md := range lst {
			sfxs = append(sfxs, md.GetSuffix())
		}
		sort.Strings(sfxs)
		if _, want := m.ListMD(k, ScopeAny); !eq(sfxs, want) {
			return bfs.Failf("ListMetadata differs from the metadata set ("+ctx+")", "%s: got %v want %v", k, sfxs, want)
		}
		data, err := os.ReadFile(s.st.VerifBlobPath(k, b.Complete))
		if err != nil {
			if errors.Is(err, fs.ErrNotExist) {
				return bfs.Failf("blob file of a live blob is missing ("+ctx+")", "%s: %v", k, err)
			}
			return err
		}
		if string(data) != b.Data {
			return bfs.Failf("blob bytes differ from what its creator wrote ("+ctx+")", "%s: got %q want %q", k, data, b.Data)
		}
		fmt.Fprintf(&sb, " | %s data=%q md[%s]", k, data, strings.Join(mds, " "))
	}
	sb.WriteString(" || ")
	sb.WriteString(strings.ReplaceAll(s.st.VerifBlobs(), "\n", ";"))
	s.impl = sb.String()
	return nil
}

// observe issues every call that must leave the state unchanged and compares
// each result with the model; then the whole state is compared again.
func (s *sys) observe() error {
	m := s.m
	keyBefore := m.Key()
	if err := s.compare("before observe"); err != nil {
		return err
	}
	implBefore := s.impl
	fail := func(what string, sc Scope, got, want interface{}, k string) error {
		return bfs.Failf(fmt.Sprintf("%s through view %v differs from model (got %v, want %v)", what, sc, got, want), "key %s; model: %s", k, m.Key())
	}
	// phase A: calls that must fail or be no-ops
	for _, sc := range allScopes {
		v := s.views[sc]
		for _, k := range s.c.keys {
			b, cls := m.Lookup(k, sc)
			_, live := m.Blobs[k]
			if cls != OK {
				if cls == OutOfScope {
					s.ev("calls on a blob hidden by the view")
				}
				type call struct {
					name string
					f    func() error
				}
				calls := []call{
					{"Open", func() error {
						fh, err := v.Open(k)
						if err == nil {
							fh.Close()
						}
						return err
					}},
					{"Delete", func() error { return v.Delete(k) }},
					{"BanEviction", func() error { return v.BanEviction(k) }},
					{"UnbanEviction", func() error { return v.UnbanEviction(k) }},
					{"SetMetadata", func() error { return v.SetMetadata(k, &vmd{suffix: sfxMov, val: []byte("Q")}) }},
					{"DeleteMetadata", func() error { return v.DeleteMetadata(k, sfxMov) }},
					{"WriteAtMetadata", func() error { return v.WriteAtMetadata(k, &vmd{suffix: sfxMov}, []byte("q"), 0) }},
				}
				if cls == NotExist {
					calls = append(calls, call{"MarkComplete", func() error { return v.MarkComplete(k) }})
				}
				for _, c := range calls {
					got, herr := classify(c.f())
					if herr != nil {
						return herr
					}
					if got != cls {
						return fail(c.name+" on a blob that is absent or hidden by the view", sc, got, cls, k)
					}
				}
			}
			if live {
				fh, err := v.Create(k, 1)
				if err == nil {
					fh.Close()
				}
				got, herr := classify(err)
				if herr != nil {
					return herr
				}
				if got != Exist {
					return fail("Create of a live key", sc, got, Exist, k)
				}
			}
			if cls != OK {
				continue
			}
			if b.Complete {
				if got, _ := classify(v.MarkComplete(k)); got != OK {
					return fail("MarkComplete of a complete blob", sc, got, OK, k)
				}
			}
			var err error
			if b.Banned {
				err = v.BanEviction(k)
			} else {
				err = v.UnbanEviction(k)
			}
			if got, _ := classify(err); got != OK {
				return fail("idempotent repeat of BanEviction/UnbanEviction", sc, got, OK, k)
			}
			for _, sfx := range []string{sfxMov, sfxImm} {
				if _, ok := b.MD[sfx]; ok {
					continue
				}
				if got, _ := classify(v.DeleteMetadata(k, sfx)); got != OK {
					return fail("DeleteMetadata of absent metadata", sc, got, OK, k)
				}
				if got, _ := classify(v.WriteAtMetadata(k, &vmd{suffix: sfx}, []byte("q"), 0)); got == OK {
					return fail("WriteAtMetadata of absent metadata", sc, got, Invalid, k)
				}
			}
			if !m.Evictable(k) {
				fh, err := v.Open(k)
				if err != nil {
					got, _ := classify(err)
					return fail("Open of a visible blob", sc, got, OK, k)
				}
				data, rerr := io.ReadAll(fh)
				fh.Close()
				if rerr != nil {
					return rerr
				}
				if string(data) != b.Data {
					return bfs.Failf("Open returns bytes that differ from the blob written", "observe %s through %v: got %q want %q", k, sc, data, b.Data)
				}
			}
		}
		for _, t := range []int{-1, 100} {
			u, err := v.Clean(t, t == -1)
			got := OK
			if err != nil {
				got = Other
			}
			if msg := m.CleanCheck(t, t == -1, nil, u, got); msg != "" {
				return bfs.Failf(msg, "Clean(%d) through view %v returned (%d, %v)", t, sc, u, err)
			}
		}
	}
	// phase B: reads
	for _, sc := range allScopes {
		v := s.views[sc]
		for _, k := range s.c.keys {
			inStore, inScope := v.Has(k)
			if wa, wb := m.Has(k, sc); inStore != wa || inScope != wb {
				return fail("Has", sc, fmt.Sprint(inStore, inScope), fmt.Sprint(wa, wb), k)
			}
			fi, err := v.Stat(k)
			got, herr := classify(err)
			if herr != nil {
				return herr
			}
			want, wsize := m.Stat(k, sc)
			if got != want {
				return fail("Stat", sc, got, want, k)
			}
			if got == OK && fi.Size() != wsize {
				return fail("Stat size", sc, fi.Size(), wsize, k)
			}
			for _, sfx := range []string{sfxMov, sfxImm} {
				md := &vmd{suffix: sfx}
				ok, err := v.GetMetadata(k, md)
				got, herr := classify(err)
				if herr != nil {
					return herr
				}
				want, wok, wval := m.GetMD(k, sfx, sc)
				if got != want {
					return fail("GetMetadata", sc, got, want, k)
				}
				if ok != wok || (ok && string(md.val) != wval) {
					return bfs.Failf("metadata read differs from the last value set (observe)", "%s %s through %v: got (%v,%q) want (%v,%q)", k, sfx, sc, ok, md.val, wok, wval)
				}
			}
			lst, err := v.ListMetadata(k)
			got, herr = classify(err)
			if herr != nil {
				return herr
			}
			want, wsfx := m.ListMD(k, sc)
			if got != want {
				return fail("ListMetadata", sc, got, want, k)
			}
			var sfxs []string
			for _, md := range lst {
				sfxs = append(sfxs, md.GetSuffix())
			}
			sort.Strings(sfxs)
			if got == OK && !eq(sfxs, wsfx) {
				return fail("ListMetadata", sc, sfxs, wsfx, k)
			}
		}
	}
	if err := s.compare("after calls that must not change the state"); err != nil {
		return err
	}
	if s.impl != implBefore || m.Key() != keyBefore {
		return bfs.Failf("state changed by calls that must not change it", "before: %s\nafter: %s", implBefore, s.impl)
	}
	s.ev("observe")
	return nil
}

// ---- searches ----------------------------------------------------------------------

var (
	k2 = []string{"aabb01", "aabb02"}           // same shard directory
	k3 = []string{"aabb01", "aabb02", "aacc03"} // third key shares only the first shard level
)

func searches(thorough bool) []*cfg {
	small := []uint64{0, 1, 2, 3}
	// depth 12 is beyond the fixpoint of the 2-key searches and of the 3-key `lru` searches: those
	// enumerate every reachable state of their alphabet (reported as fixpoint:true in the evidence)
	if !thorough {
		return []*cfg{
			{name: "lru", keys: k2, sizes: small, cap: 3, shard: 2, reboot: true, open: true, ban: true, clean: true, depth: 12},
			{name: "lru-scoped", keys: k2, sizes: small, cap: 2, shard: 0, open: true, ban: true, clean: true, scoped: true, depth: 12},
			{name: "lru3", keys: k3, sizes: []uint64{1, 2}, cap: 3, shard: 2, open: true, ban: true, depth: 12},
			{name: "meta", keys: k2, sizes: []uint64{1}, cap: 1, shard: 2, reboot: true, ban: true, md: true, depth: 12},
			{name: "full-scoped", keys: k2, sizes: []uint64{1, 2}, cap: 2, shard: 0, open: true, ban: true, md: true, clean: true, scoped: true, depth: 5},
			{name: "huge", keys: k2, sizes: []uint64{1, huge}, cap: 3, shard: 2, reboot: true, open: true, ban: true, depth: 3},
		}
	}
	var cs []*cfg
	for _, c := range []uint64{2, 3, 4} {
		cs = append(cs, &cfg{name: fmt.Sprintf("lru cap=%d", c), keys: k3, sizes: small, cap: c, shard: 2, reboot: c == 3, open: true, ban: true, clean: true, depth: 12})
	}
	cs = append(cs,
		&cfg{name: "lru-scoped", keys: k2, sizes: small, cap: 3, shard: 0, open: true, ban: true, clean: true, scoped: true, depth: 12},
		&cfg{name: "meta", keys: k2, sizes: []uint64{1}, cap: 1, shard: 2, reboot: true, ban: true, md: true, depth: 12},
		&cfg{name: "meta noshard", keys: k2, sizes: []uint64{1, 2}, cap: 2, shard: 0, ban: true, md: true, depth: 9},
		&cfg{name: "full-scoped", keys: k3, sizes: []uint64{1, 2}, cap: 3, shard: 0, open: true, ban: true, md: true, clean: true, scoped: true, depth: 6},
		&cfg{name: "full", keys: k2, sizes: small, cap: 3, shard: 2, reboot: true, open: true, ban: true, md: true, clean: true, depth: 8},
		&cfg{name: "huge", keys: k3, sizes: []uint64{1, 2, huge}, cap: 3, shard: 2, reboot: true, open: true, ban: true, clean: true, depth: 4},
	)
	return cs
}

func main() {
	if p := os.Getenv("VERIF_PPROF"); p != "" {
		f, _ := os.Create(p)
		pprof.StartCPUProfile(f)
	}
	run := evid.New("C07", "model_checking")
	run.Rule = "BFS over all histories up to depth d of {Create(k,size), MarkComplete, Open, Delete, BanEviction, UnbanEviction, Set/Delete/WriteAt metadata (one movable, one non-movable type), Clean(0|50|99, respect ban y/n), observe} on a real disk.Store (tmpfs) vs the LRU reference model; state = model state + full dump of the store (accounting, eviction queue, blob table, metadata and bytes per blob), deduplicated; after every transition the whole store state is compared with the model; `observe` = all reads through the 3 scoped views plus every call that must fail / be a no-op. distinct = distinct states per search configuration (alphabet subset x capacity x shard length x reboot flag)."
	run.Assume("small-scope: 2-3 keys of equal length, sizes 0..3 (plus 2^64-1 in the `huge` search), capacities 1..4, depth as listed per search")
	run.Assume("Clean deletes incomplete/banned blobs in Go map order: Clean is only offered in states where every order removes the same set; its oracle is the relation of model.go CleanCheck")
	run.Assume("Has/Stat/List/metadata calls and idempotent repeats are not uses: they are required to leave the eviction order unchanged (as implemented; the statement does not name them as uses)")
	run.Assume("Create, MarkComplete and Clean are not scoped (documented in scoped_store.go); they are called through scoped views and must behave as through the unscoped one")
	run.Assume("sequential histories only (no concurrent calls); no restart of the store (C06 covers recovery)")

	if p := run.ReplayPath(); p != "" {
		replay(run, p)
		return
	}

	deadline := time.Now().Add(45 * time.Second)
	if run.Thorough() {
		deadline = time.Now().Add(13 * time.Minute)
	}
	for _, c := range searches(run.Thorough()) {
		c := c
		// development aids: restrict to one search / override its depth (the run is then marked not exhaustive)
		if only := os.Getenv("VERIF_C07_ONLY"); only != "" {
			if c.name != only {
				continue
			}
			if d, err := strconv.Atoi(os.Getenv("VERIF_C07_DEPTH")); err == nil {
				c.depth = d
			}
			run.NotExhaustive("VERIF_C07_ONLY set: only search " + only)
		}
		name := searchName(c)
		res := rep.BFS(run, name, bfs.Config{MaxDepth: c.depth, Deadline: deadline, New: func() (bfs.System, error) { return newSys(c) }})
		for i := 0; i < res.States; i++ {
			run.Distinct(fmt.Sprintf("%s#%d", c.name, i))
		}
	}
	cntMu.Lock()
	for k, v := range cnt {
		run.Set("transitions with: "+k, v)
	}
	need := []string{"create that evicts", "create refused for lack of space", "refused create that evicted", "open of an evictable blob", "calls on a blob hidden by the view", "completion with non-movable metadata present", "clean that removes blobs", "observe"}
	for _, k := range need {
		if cnt[k] == 0 && run.NViolations() == 0 && os.Getenv("VERIF_C07_ONLY") == "" {
			cntMu.Unlock()
			run.Fatal(fmt.Errorf("vacuous: no transition with %q", k))
		}
	}
	cntMu.Unlock()
	pprof.StopCPUProfile()
	run.Finish()
}

func searchName(c *cfg) string {
	return fmt.Sprintf("%s keys=%d sizes=%v cap=%d shard=%d reboot=%v scoped=%v depth=%d", c.name, len(c.keys), sizesStr(c.sizes), c.cap, c.shard, c.reboot, c.scoped, c.depth)
}

// replay re-executes the history of a replay artefact on a fresh store + model.
func replay(run *evid.Run, path string) {
	b, err := os.ReadFile(path)
	if err != nil {
		run.Fatal(err)
	}
	var rp struct {
		Fingerprint string `json:"fingerprint"`
		Case        struct {
			Search  string   `json:"search"`
			History []string `json:"history"`
		} `json:"case"`
	}
	if err := json.Unmarshal(b, &rp); err != nil {
		run.Fatal(err)
	}
	var c *cfg
	for _, x := range append(searches(false), searches(true)...) {
		if searchName(x) == rp.Case.Search {
			c = x
		}
	}
	if c == nil {
		run.Fatal(fmt.Errorf("replay: unknown search %q", rp.Case.Search))
	}
	err = bfs.Replay(bfs.Config{New: func() (bfs.System, error) { return newSys(c) }}, rp.Case.History)
	run.Eval(len(rp.Case.History))
	run.Distinct("replay")
	run.Distinct("replay:" + rp.Fingerprint)
	if f, ok := err.(*bfs.Fail); ok {
		run.Violation(f.Fingerprint, map[string]interface{}{"search": rp.Case.Search, "history": rp.Case.History, "msg": f.Msg})
	} else if err != nil {
		run.Fatal(err)
	} else {
		fmt.Printf("replay of %v: no violation\n", rp.Case.History)
	}
	run.Finish()
}

func sizesStr(z []uint64) string {
	var p []string
	for _, x := range z {
		if x == huge {
			p = append(p, "2^64-1")
		} else {
			p = append(p, strconv.FormatUint(x, 10))
		}
	}
	return strings.Join(p, ",")
}
