// Reference model of a capacity-bounded LRU blob store with completeness,
// eviction bans, scoped views and per-blob metadata (property C07; written to
// be copied by the C06 crash check and the C08 memory-store check: plain Go,
// no dependency on kraken types -- results are error *classes*).
//
// What the model fixes (all literally in the C07 statement):
//   - reserved space == sum of the sizes given to Create for the live blobs,
//     and a Create is admitted iff that sum stays <= capacity after evicting;
//   - only complete, not-banned blobs are evicted, least-recently-used first,
//     and (for an admitted Create) no more of them than needed;
//   - a scoped view hides exactly the blobs of the other completeness;
//   - metadata reads return the last value set (WriteAt patches it);
//   - non-movable metadata disappears when the blob is completed.
//
// Where the statement leaves a choice the model is a relation and the caller
// follows the implementation (EvictPrefix after a refused Create, CleanCheck).
// "Use" events that refresh recency: first MarkComplete, Unban of a complete
// blob (both enqueue the blob as most recent) and Open.
package main

import (
	"fmt"
	"sort"
	"strings"
)

// Scope selects the blobs a view operates on.
type Scope int

const (
	ScopeAny Scope = iota
	ScopeComplete
	ScopeIncomplete
)

func (s Scope) String() string { return [...]string{"any", "complete", "incomplete"}[s] }

// Class is the class of an operation result.
type Class int

const (
	OK         Class = iota
	NotExist         // key not in the store
	Exist            // Create of a live key
	OutOfScope       // key live but hidden by the view
	NoSpace          // Create refused: cannot fit even after evicting everything evictable
	Invalid          // invalid argument / metadata to patch does not exist
	Other            // anything else (never predicted by the model)
)

func (c Class) String() string {
	return [...]string{"ok", "not-exist", "exist", "out-of-scope", "no-space", "invalid", "other"}[c]
}

// MBlob is the model of one live blob.
type MBlob struct {
	Size     uint64 // reserved size (argument of Create)
	Complete bool
	Banned   bool
	Data     string            // bytes written by the creator
	MD       map[string]string // suffix -> last value set
}

// Model is the reference store.
type Model struct {
	Cap     uint64
	Blobs   map[string]*MBlob
	LRU     []string        // complete && !banned keys, next-to-evict first
	Movable map[string]bool // metadata suffix -> survives completion
}

// NewModel returns an empty store of the given capacity. movable declares
// the metadata types (suffix -> movable).
func NewModel(capacity uint64, movable map[string]bool) *Model {
	return &Model{Cap: capacity, Blobs: map[string]*MBlob{}, Movable: movable}
}

// Clone deep-copies the model.
func (m *Model) Clone() *Model {
	c := &Model{Cap: m.Cap, Blobs: map[string]*MBlob{}, LRU: append([]string{}, m.LRU...), Movable: m.Movable}
	for k, b := range m.Blobs {
		nb := *b
		nb.MD = map[string]string{}
		for s, v := range b.MD {
			nb.MD[s] = v
		}
		c.Blobs[k] = &nb
	}
	return c
}

// Used is the reserved space: the sum of live blob sizes.
func (m *Model) Used() uint64 {
	var u uint64
	for _, b := range m.Blobs {
		u += b.Size
	}
	return u
}

// Util is the utilisation in percent (rounded down).
func (m *Model) Util() int { return int(m.Used() * 100 / m.Cap) }

// Evictable reports whether key is live, complete and not banned.
func (m *Model) Evictable(key string) bool {
	b, ok := m.Blobs[key]
	return ok && b.Complete && !b.Banned
}

func visible(b *MBlob, sc Scope) bool {
	return !(b.Complete && sc == ScopeIncomplete) && !(!b.Complete && sc == ScopeComplete)
}

// Lookup resolves key through a view.
func (m *Model) Lookup(key string, sc Scope) (*MBlob, Class) {
	b, ok := m.Blobs[key]
	if !ok {
		return nil, NotExist
	}
	if !visible(b, sc) {
		return nil, OutOfScope
	}
	return b, OK
}

func (m *Model) lruRemove(key string) {
	for i, k := range m.LRU {
		if k == key {
			m.LRU = append(m.LRU[:i:i], m.LRU[i+1:]...)
			return
		}
	}
}

func (m *Model) lruPushBack(key string) {
	m.lruRemove(key)
	m.LRU = append(m.LRU, key)
}

func (m *Model) drop(key string) {
	m.lruRemove(key)
	delete(m.Blobs, key)
}

// Create predicts Create(key,size). On OK the minimal LRU prefix has been
// evicted (returned) and the blob is live, incomplete, not banned, without
// metadata. On NoSpace nothing has been changed: the statement fixes the
// order of eviction, not whether a refused Create evicts, so the caller
// applies what the implementation did with EvictPrefix.
func (m *Model) Create(key string, size uint64, data string) (Class, []string) {
	if _, ok := m.Blobs[key]; ok {
		return Exist, nil
	}
	var pinned uint64 // space that eviction cannot free
	for k, b := range m.Blobs {
		if !m.Evictable(k) {
			pinned += b.Size
		}
	}
	if size > m.Cap || pinned > m.Cap-size {
		return NoSpace, nil
	}
	var evicted []string
	for m.Used() > m.Cap-size {
		k := m.LRU[0]
		evicted = append(evicted, k)
		m.drop(k)
	}
	m.Blobs[key] = &MBlob{Size: size, Data: data, MD: map[string]string{}}
	return OK, evicted
}

// EvictPrefix removes the first n keys of the LRU list (what a refused
// Create or a Clean was observed to evict).
func (m *Model) EvictPrefix(n int) {
	for i := 0; i < n; i++ {
		m.drop(m.LRU[0])
	}
}

// IsLRUPrefix reports whether gone (a set of keys) is exactly the first
// len(gone) entries of the LRU list.
func (m *Model) IsLRUPrefix(gone []string) bool {
	if len(gone) > len(m.LRU) {
		return false
	}
	set := map[string]bool{}
	for _, k := range gone {
		set[k] = true
	}
	for _, k := range m.LRU[:len(gone)] {
		if !set[k] {
			return false
		}
	}
	return len(set) == len(gone)
}

// Open predicts Open: the content; an evictable blob becomes most recent.
func (m *Model) Open(key string, sc Scope) (Class, string) {
	b, c := m.Lookup(key, sc)
	if c != OK {
		return c, ""
	}
	if m.Evictable(key) {
		m.lruPushBack(key)
	}
	return OK, b.Data
}

// Stat predicts the length of the blob file.
func (m *Model) Stat(key string, sc Scope) (Class, int64) {
	b, c := m.Lookup(key, sc)
	if c != OK {
		return c, 0
	}
	return OK, int64(len(b.Data))
}

// Has predicts (inStore, inScope).
func (m *Model) Has(key string, sc Scope) (bool, bool) {
	_, c := m.Lookup(key, sc)
	return c != NotExist, c == OK
}

// List predicts the sorted keys visible through a view.
func (m *Model) List(sc Scope) []string {
	res := []string{}
	for k, b := range m.Blobs {
		if visible(b, sc) {
			res = append(res, k)
		}
	}
	sort.Strings(res)
	return res
}

// MarkComplete is not scoped. The first completion enqueues the blob as most
// recent (unless banned) and drops its non-movable metadata.
func (m *Model) MarkComplete(key string) Class {
	b, ok := m.Blobs[key]
	if !ok {
		return NotExist
	}
	if b.Complete {
		return OK
	}
	b.Complete = true
	if !b.Banned {
		m.lruPushBack(key)
	}
	for s := range b.MD {
		if !m.Movable[s] {
			delete(b.MD, s)
		}
	}
	return OK
}

// Delete removes a visible blob with its metadata and frees its space.
func (m *Model) Delete(key string, sc Scope) Class {
	if _, c := m.Lookup(key, sc); c != OK {
		return c
	}
	m.drop(key)
	return OK
}

// Ban makes a visible blob unevictable (idempotent).
func (m *Model) Ban(key string, sc Scope) Class {
	b, c := m.Lookup(key, sc)
	if c != OK {
		return c
	}
	if !b.Banned {
		b.Banned = true
		m.lruRemove(key)
	}
	return OK
}

// Unban undoes Ban (idempotent); a complete blob is enqueued as most recent.
func (m *Model) Unban(key string, sc Scope) Class {
	b, c := m.Lookup(key, sc)
	if c != OK {
		return c
	}
	if b.Banned {
		b.Banned = false
		if b.Complete {
			m.lruPushBack(key)
		}
	}
	return OK
}

// SetMD sets a metadata value.
func (m *Model) SetMD(key, suffix, val string, sc Scope) Class {
	b, c := m.Lookup(key, sc)
	if c != OK {
		return c
	}
	b.MD[suffix] = val
	return OK
}

// GetMD reads a metadata value: (class, present, last value set).
func (m *Model) GetMD(key, suffix string, sc Scope) (Class, bool, string) {
	b, c := m.Lookup(key, sc)
	if c != OK {
		return c, false, ""
	}
	v, ok := b.MD[suffix]
	return OK, ok, v
}

// DelMD removes a metadata value (no error when absent).
func (m *Model) DelMD(key, suffix string, sc Scope) Class {
	b, c := m.Lookup(key, sc)
	if c != OK {
		return c
	}
	delete(b.MD, suffix)
	return OK
}

// ListMD lists the sorted suffixes of the metadata present.
func (m *Model) ListMD(key string, sc Scope) (Class, []string) {
	b, c := m.Lookup(key, sc)
	if c != OK {
		return c, nil
	}
	res := []string{}
	for s := range b.MD {
		res = append(res, s)
	}
	sort.Strings(res)
	return OK, res
}

// WriteAtMD patches an existing metadata value at off (Invalid when absent).
func (m *Model) WriteAtMD(key, suffix, p string, off int, sc Scope) Class {
	b, c := m.Lookup(key, sc)
	if c != OK {
		return c
	}
	v, ok := b.MD[suffix]
	if !ok {
		return Invalid
	}
	buf := []byte(v)
	for len(buf) < off+len(p) {
		buf = append(buf, 0)
	}
	copy(buf[off:], p)
	b.MD[suffix] = string(buf)
	return OK
}

// CleanTarget is the number of bytes Clean(target) must get down to, and
// whether target is valid (0 <= target < 100).
func (m *Model) CleanTarget(target int) (uint64, bool) {
	if target < 0 || target >= 100 {
		return 0, false
	}
	return m.Cap * uint64(target) / 100, true
}

// CleanCheck judges an observed Clean(target, respectBan) that removed the
// keys `removed` and returned (newUtil, class). Clean picks its victims among
// incomplete / banned blobs in an unspecified order, so this is a relation:
// it returns the violated clause ("" when the outcome is allowed) and, when
// allowed, applies the removal to the model.
func (m *Model) CleanCheck(target int, respectBan bool, removed []string, newUtil int, class Class) string {
	tsize, valid := m.CleanTarget(target)
	if !valid {
		switch {
		case class == OK:
			return "Clean accepted an invalid target"
		case len(removed) > 0:
			return "Clean with an invalid target removed blobs"
		case newUtil != m.Util():
			return "Clean reports a utilisation that differs from reserved/capacity"
		}
		return ""
	}
	if class != OK {
		return "Clean failed"
	}
	var evictable []string
	for _, k := range removed {
		b, ok := m.Blobs[k]
		if !ok {
			return "Clean removed a blob that was not live"
		}
		if b.Banned && respectBan {
			return "Clean removed a blob banned from eviction although told to respect bans"
		}
		if m.Evictable(k) {
			evictable = append(evictable, k)
		}
	}
	if !m.IsLRUPrefix(evictable) {
		return "Clean did not evict least-recently-used first"
	}
	for _, k := range removed {
		m.drop(k)
	}
	if newUtil != m.Util() {
		return "Clean reports a utilisation that differs from reserved/capacity"
	}
	if m.Used() > tsize {
		for _, b := range m.Blobs {
			if !b.Banned || !respectBan {
				return "Clean stopped above its target although deletable blobs were left"
			}
		}
	}
	return ""
}

// Key is the canonical rendering of the whole model state.
func (m *Model) Key() string {
	var sb strings.Builder
	fmt.Fprintf(&sb, "used=%d lru=%s", m.Used(), strings.Join(m.LRU, ","))
	keys := make([]string, 0, len(m.Blobs))
	for k := range m.Blobs {
		keys = append(keys, k)
	}
	sort.Strings(keys)
	for _, k := range keys {
		sb.WriteString(" | ")
		sb.WriteString(m.BlobKey(k))
	}
	return sb.String()
}

// BlobKey renders one blob (same format as the implementation dump of the
// check, so the two can be compared as strings).
func (m *Model) BlobKey(k string) string {
	b := m.Blobs[k]
	_, sfx := m.ListMD(k, ScopeAny)
	mds := make([]string, 0, len(sfx))
	for _, s := range sfx {
		mds = append(mds, fmt.Sprintf("%s=%q", s, b.MD[s]))
	}
	return fmt.Sprintf("%s size=%d complete=%v banned=%v data=%q md[%s]", k, b.Size, b.Complete, b.Banned, b.Data, strings.Join(mds, " "))
}
