// C34: HTTP retries resend the complete original request.
//
// The real httputil.Send is run over the real net/http client/transport
// against a loopback httptest server whose answers are enumerated
// exhaustively (lazy depth-first enumeration of the answer tree: a prefix of
// server answers is extended by every symbol of the alphabet exactly where the
// real code asked the server for one more answer). The server records every
// request it receives; a recording RoundTripper (delegating unchanged to a real
// http.Transport) and a recording BackOff observe Send's own attempts.
//
// Status answers may carry a response header the client could interpret
// (Retry-After in its two syntaxes, valid / stale / unparsable; Connection:
// close). Package time inside httputil.go is replaced by checks/c34/vtime
// (overlay.spec.json), so whatever delay Send derives from the backoff or from
// such a header is recorded, not waited.
package main

import (
	"bytes"
	"context"
	"crypto/sha256"
	"encoding/hex"
	"encoding/json"
	"errors"
	"fmt"
	"io"
	"net"
	"net/http"
	"net/http/httptest"
	"os"
	"regexp"
	"runtime"
	"runtime/debug"
	"runtime/pprof"
	"sort"
	"strconv"
	"strings"
	"sync"
	"sync/atomic"
	"time"

	"github.com/cenkalti/backoff"
	"github.com/uber/kraken/utils/httputil"

	"verif/checks/c34/vtime"
	"verif/evid"
	_ "verif/quiet"
)

// ---------------------------------------------------------------------------
// case description

// Config is everything of a case except the server's answers.
type Config struct {
	Method  string `json:"method"`
	Body    string `json:"body"` // none | <kind>[@<off>]: bytes.Reader strings.Reader bytes.Buffer io.Reader readseeker section os.File file-noclose rsc (see makeBody)
	Size    int    `json:"size"`
	Conn    string `json:"conn"`    // fresh (keep-alive disabled) | keepalive | warm (keep-alive, idle connection already pooled) | model (scripted in-process RoundTripper, see modelRT)
	Retries int    `json:"retries"` // -1: no SendRetry option at all; n>=0: SendRetry with a zero back-off that stops after n retries
	Variant string `json:"variant"` // default | accept503 | extra400
}

func (c Config) String() string {
	return fmt.Sprintf("%s %s/%d %s r=%d %s", c.Method, c.Body, c.Size, c.Conn, c.Retries, c.Variant)
}

func (c Config) accepted() map[int]bool {
	if c.Variant == "accept503" {
		return map[int]bool{200: true, 503: true}
	}
	return map[int]bool{200: true}
}

// Case is a config plus the scripted server answers.
type Case struct {
	Config Config   `json:"config"`
	Script []string `json:"script"`
}

// Server answer symbols:
//   "<code>e"  read the whole request body, answer <code> with an empty body
//   "<code>b"  read the whole request body, answer <code> with a non-empty body
//   "X"        read the whole request body, then drop the connection without answering
//   "X@k"      read k bytes of the request body, then drop the connection
// beyond the script the server answers "200e" and marks the run as overrun.
//
// A status answer (either part) may carry a response header the client could
// interpret, written "<answer>~<h>" (see respHeader):
//   ra0 ra1 ra120 ra-1   Retry-After: 0 / 1 / 120 / -1        (delay-seconds)
//   raPast raFuture      Retry-After: an HTTP date in 2015 / in 2999
//   raBad                Retry-After: soon                     (neither form)
//   close                Connection: close

// splitSym cuts an answer symbol into the answer proper and its response-header decoration.
func splitSym(sym string) (base, hdr string) {
	if i := strings.IndexByte(sym, '~'); i >= 0 {
		return sym[:i], sym[i+1:]
	}
	return sym, ""
}

var (
	datePast   = time.Date(2015, 1, 1, 0, 0, 0, 0, time.UTC).Format(http.TimeFormat)
	dateFuture = time.Date(2999, 1, 1, 0, 0, 0, 0, time.UTC).Format(http.TimeFormat)
)

// respHeader is the response header a decoration stands for.
func respHeader(hdr string) (key, val string) {
	switch hdr {
	case "":
		return "", ""
	case "ra0", "ra1", "ra120", "ra-1":
		return "Retry-After", hdr[2:]
	case "raPast":
		return "Retry-After", datePast
	case "raFuture":
		return "Retry-After", dateFuture
	case "raBad":
		return "Retry-After", "soon"
	case "close":
		return "Connection", "close"
	}
	panic("bad response-header decoration " + hdr)
}

// hdrClass names the kind of response header of an answer (fingerprint classes).
func hdrClass(sym string) string {
	_, h := splitSym(sym)
	switch {
	case h == "":
		return ""
	case h == "close":
		return "Connection: close"
	case h == "raBad":
		return "an unparsable Retry-After"
	case strings.HasPrefix(h, "ra"):
		return "Retry-After"
	}
	return h
}

// Attempt is one request as received by the server.
type Attempt struct {
	Sym       string      `json:"answer"`
	Method    string      `json:"method"`
	URI       string      `json:"uri"`
	HostOK    bool        `json:"host_ok"`
	Header    http.Header `json:"header"`
	TE        []string    `json:"transfer_encoding,omitempty"`
	CL        int64       `json:"content_length"`
	BodyLen   int         `json:"body_len"`
	BodySHA   string      `json:"body_sha"`
	BodyOK    bool        `json:"body_complete"` // body (or the prefix the server chose to read) equals the original
	ReadErr   string      `json:"read_err,omitempty"`
	WantedLen int         `json:"wanted_len"`             // how many body bytes the server tried to read (-1: all)
	Stale     string      `json:"stale_writer,omitempty"` // model transport: what the previous attempt's write loop did to ITS body between that attempt's return and the end of this one
}

// RoundTrip is one attempt as made by Send (one client.Do).
type RoundTrip struct {
	Err    string `json:"err,omitempty"`
	Status int    `json:"status,omitempty"`
	Wire   int64  `json:"bytes_written"` // bytes the client put on the wire during it (all connections)
	By     int    `json:"answered_by"`   // index of the request (Attempts) whose answer this attempt returned; -1: it returned an error
}

// Obs is everything observed in one execution.
type Obs struct {
	Attempts    []*Attempt  `json:"attempts"`
	RoundTrips  []RoundTrip `json:"roundtrips"`
	Backoff     []int64     `json:"backoff_answers"` // NextBackOff results in ns, -1 = Stop
	RTAfterStop bool        `json:"roundtrip_after_stop"`
	SendErr     string      `json:"send_err,omitempty"`
	SendStatus  int         `json:"send_status,omitempty"`
	Overrun     bool        `json:"-"`
}

// ---------------------------------------------------------------------------
// worker: one loopback server, one case at a time

type caseState struct {
	mu          sync.Mutex
	path        string
	script      []string
	content     []byte
	attempts    []*Attempt
	overrun     bool
	rt          atomic.Int64 // index of the RoundTrip in flight (-1 before Send)
	wire        [16]atomic.Int64
	clientConns []net.Conn
	dialed      []string // local addresses of the connections the client opened
	stopped     atomic.Bool
	rtAfterStop atomic.Bool
	onBackoff   func() // model transport: scheduling point "Send asked the backoff" (before Send prepares the retry)
}

type connInfo struct {
	addr string // client address
	st   http.ConnState
}

type worker struct {
	srv   *httptest.Server
	cmu   sync.Mutex
	conns map[net.Conn]*connInfo // server-side connections accepted since the current case started
	cur   atomic.Pointer[caseState]
	seq   int
	stray atomic.Int64
	dir   string
}

func newWorker() (*worker, error) {
	w := &worker{}
	dir, err := os.MkdirTemp("", "c34-")
	if err != nil {
		return nil, err
	}
	w.dir = dir
	w.srv = httptest.NewUnstartedServer(http.HandlerFunc(w.handle))
	w.srv.Config.ErrorLog = nil
	w.conns = map[net.Conn]*connInfo{}
	w.srv.Config.ConnState = func(c net.Conn, st http.ConnState) {
		w.cmu.Lock()
		if ci := w.conns[c]; ci != nil {
			ci.st = st
		} else if st == http.StateNew {
			w.conns[c] = &connInfo{addr: c.RemoteAddr().String(), st: st}
		} // else: late event of a connection of an earlier case
		w.cmu.Unlock()
	}
	w.srv.Start()
	return w, nil
}

func (w *worker) close() {
	w.srv.CloseClientConnections()
	w.srv.Close()
	os.RemoveAll(w.dir)
}

func drop(rw http.ResponseWriter) {
	hj, ok := rw.(http.Hijacker)
	if !ok {
		panic(http.ErrAbortHandler)
	}
	c, _, err := hj.Hijack()
	if err != nil {
		panic(http.ErrAbortHandler)
	}
	c.Close()
}

func (w *worker) handle(rw http.ResponseWriter, r *http.Request) {
	if r.URL.Path == "/warm" {
		rw.Header().Set("Content-Length", "0")
		rw.WriteHeader(200)
		return
	}
	cs := w.cur.Load()
	if cs == nil || r.URL.Path != cs.path {
		w.stray.Add(1)
		drop(rw)
		return
	}
	cs.mu.Lock()
	idx := len(cs.attempts)
	sym := "200e"
	if idx < len(cs.script) {
		sym = cs.script[idx]
	} else {
		cs.overrun = true
	}
	a := &Attempt{Sym: sym, Method: r.Method, URI: r.RequestURI, Header: r.Header.Clone(), TE: append([]string(nil), r.TransferEncoding...), CL: r.ContentLength, WantedLen: -1}
	a.HostOK = r.Host == w.srv.Listener.Addr().String()
	cs.attempts = append(cs.attempts, a)
	cs.mu.Unlock()

	var body []byte
	var rerr error
	if strings.HasPrefix(sym, "X@") {
		k, _ := strconv.Atoi(sym[2:])
		a.WantedLen = k
		buf := make([]byte, k)
		n, err := io.ReadFull(r.Body, buf)
		body, rerr = buf[:n], err
	} else {
		body, rerr = io.ReadAll(r.Body)
	}
	cs.mu.Lock()
	a.BodyLen = len(body)
	h := sha256.Sum256(body)
	a.BodySHA = hex.EncodeToString(h[:6])
	if rerr != nil {
		a.ReadErr = normErr(rerr.Error())
	}
	if a.WantedLen >= 0 {
		a.BodyOK = rerr == nil && a.WantedLen <= len(cs.content) && bytes.Equal(body, cs.content[:a.WantedLen])
	} else {
		a.BodyOK = rerr == nil && bytes.Equal(body, cs.content)
	}
	cs.mu.Unlock()

	if rerr != nil || strings.HasPrefix(sym, "X") {
		drop(rw)
		return
	}
	sym, hdr := splitSym(sym)
	if k, v := respHeader(hdr); k != "" {
		rw.Header().Set(k, v)
	}
	code, _ := strconv.Atoi(sym[:3])
	if strings.HasSuffix(sym, "b") {
		msg := fmt.Sprintf("response body of answer %d (%s)", idx, sym)
		rw.Header().Set("Content-Length", strconv.Itoa(len(msg)))
		rw.WriteHeader(code)
		io.WriteString(rw, msg)
		return
	}
	rw.Header().Set("Content-Length", "0")
	rw.WriteHeader(code)
}

var rePath = regexp.MustCompile(`/c34/[0-9]+/`)
var reFile = regexp.MustCompile(`/[^ :"]*/body-[0-9]+`)
var reAddr = regexp.MustCompile(`127\.0\.0\.1:[0-9]+(->127\.0\.0\.1:[0-9]+)?`)

func normErr(s string) string {
	s = reAddr.ReplaceAllString(s, "ADDR")
	s = rePath.ReplaceAllString(s, "/c34/N/")
	s = reFile.ReplaceAllString(s, "BODYFILE")
	return s
}

// quiesce waits until the server has accepted every connection the client
// opened and has finished with it (closed or hijacked-and-closed), so that
// everything the client put on the wire has been recorded.
func (w *worker) quiesce(cs *caseState) error {
	for i := 0; ; i++ {
		busy := ""
		cs.mu.Lock()
		dialed := append([]string(nil), cs.dialed...)
		cs.mu.Unlock()
		w.cmu.Lock()
		byAddr := map[string]http.ConnState{}
		for _, ci := range w.conns {
			byAddr[ci.addr] = ci.st
		}
		w.cmu.Unlock()
		for _, d := range dialed {
			st, ok := byAddr[d]
			if !ok || (st != http.StateClosed && st != http.StateHijacked) {
				busy = fmt.Sprintf("%s: %v (known %v)", d, st, ok)
				break
			}
		}
		if busy == "" {
			return nil
		}
		if i > 20000 {
			return fmt.Errorf("server did not become quiescent: %s", busy)
		}
		if i < 50 {
			runtime.Gosched()
		} else {
			time.Sleep(200 * time.Microsecond)
		}
	}
}

// wireConn counts what the client writes, per Send-level attempt.
type wireConn struct {
	net.Conn
	cs *caseState
}

func (c *wireConn) Write(p []byte) (int, error) {
	// Account before the syscall: the writing goroutine may be descheduled
	// after it for longer than the rest of the case takes.
	i := c.cs.rt.Load()
	if i >= 0 && int(i) < len(c.cs.wire) {
		c.cs.wire[i].Add(int64(len(p)))
	}
	return c.Conn.Write(p)
}

// recording RoundTripper: passes the request through unchanged.
type recRT struct {
	inner http.RoundTripper
	cs    *caseState
	mu    sync.Mutex
	rts   []RoundTrip
}

func (t *recRT) RoundTrip(req *http.Request) (*http.Response, error) {
	t.mu.Lock()
	i := len(t.rts)
	t.rts = append(t.rts, RoundTrip{})
	t.mu.Unlock()
	if t.cs.stopped.Load() {
		t.cs.rtAfterStop.Store(true)
	}
	t.cs.rt.Store(int64(i))
	resp, err := t.inner.RoundTrip(req)
	t.cs.mu.Lock()
	by := len(t.cs.attempts) - 1 // attempts are sequential: the answer just returned is the one to the latest request
	t.cs.mu.Unlock()
	t.mu.Lock()
	if err != nil {
		t.rts[i].Err = normErr(err.Error())
		t.rts[i].By = -1
	} else {
		t.rts[i].Status = resp.StatusCode
		t.rts[i].By = by
	}
	t.mu.Unlock()
	return resp, err
}

// recording BackOff around the real one.
type recBackoff struct {
	inner backoff.BackOff
	cs    *caseState
	out   []int64
}

func (b *recBackoff) NextBackOff() time.Duration {
	if b.cs.onBackoff != nil {
		b.cs.onBackoff()
	}
	d := b.inner.NextBackOff()
	if d == backoff.Stop {
		b.out = append(b.out, -1)
		b.cs.stopped.Store(true)
	} else {
		b.out = append(b.out, int64(d))
	}
	return d
}
func (b *recBackoff) Reset() { b.inner.Reset() }

// stopAfter returns 0 for the first n calls and Stop afterwards. (The real
// backoff.WithMaxRetries treats max=0 as "unlimited", so n=0 needs this.)
type stopAfter struct{ n, used int }

func (s *stopAfter) NextBackOff() time.Duration {
	if s.used >= s.n {
		return backoff.Stop
	}
	s.used++
	return 0
}
func (s *stopAfter) Reset() { s.used = 0 }

type onlyReader struct{ r io.Reader }

func (o onlyReader) Read(p []byte) (int, error) { return o.r.Read(p) }

type readSeeker struct{ r *bytes.Reader }

func (o readSeeker) Read(p []byte) (int, error)            { return o.r.Read(p) }
func (o readSeeker) Seek(off int64, wh int) (int64, error) { return o.r.Seek(off, wh) }

// sendOptions builds the recording BackOff and the options of the Send call of a case.
func sendOptions(cfg Config, cs *caseState, rt http.RoundTripper, body io.Reader) (*recBackoff, []httputil.SendOption) {
	var inner backoff.BackOff
	switch {
	case cfg.Retries <= 0:
		inner = &stopAfter{n: 0}
	case cfg.Retries%2 == 1:
		inner = backoff.WithMaxRetries(&backoff.ZeroBackOff{}, uint64(cfg.Retries)) // the construction kraken itself uses
	default:
		inner = &stopAfter{n: cfg.Retries}
	}
	bo := &recBackoff{inner: inner, cs: cs}
	timeout := 30 * time.Second
	if cfg.Conn == "model" {
		// Nothing can block in the model transport. Without a client timeout net/http starts no
		// timer goroutine per attempt (Send never closes the body of a retried response, so with a
		// timeout each retried attempt would pin a goroutine and a timer until the timeout).
		timeout = 0
	}
	opts := []httputil.SendOption{httputil.SendTransport(rt), httputil.SendHeaders(caseHeaders), httputil.SendTimeout(timeout)}
	if body != nil {
		opts = append(opts, httputil.SendBody(body))
	}
	if cfg.Variant == "accept503" {
		opts = append(opts, httputil.SendAcceptedCodes(200, 503))
	}
	if cfg.Retries >= 0 {
		ro := []httputil.RetryOption{httputil.RetryBackoff(bo)}
		if cfg.Variant == "extra400" {
			ro = append(ro, httputil.RetryCodes(400))
		}
		opts = append(opts, httputil.SendRetry(ro...))
	}
	return bo, opts
}

// rsc is a seekable body with a Close that does not invalidate the reader
// (a pooled / caller-owned buffer).
type rsc struct{ r *bytes.Reader }

func (o rsc) Read(p []byte) (int, error)            { return o.r.Read(p) }
func (o rsc) Seek(off int64, wh int) (int64, error) { return o.r.Seek(off, wh) }
func (o rsc) Close() error                          { return nil }

// getBodyKind: http.NewRequest snapshots these and provides GetBody.
func getBodyKind(kind string) bool {
	switch baseKind(kind) {
	case "bytes.Reader", "strings.Reader", "bytes.Buffer":
		return true
	}
	return false
}

func baseKind(kind string) string {
	if i := strings.IndexByte(kind, '@'); i >= 0 {
		return kind[:i]
	}
	return kind
}

func kindOffset(kind string) int {
	if i := strings.IndexByte(kind, '@'); i >= 0 {
		n, _ := strconv.Atoi(kind[i+1:])
		return n
	}
	return 0
}

// makeBody builds the reader handed to SendBody. "<kind>@<off>": the
// underlying data is <off> filler bytes followed by the original body and the
// reader is handed over positioned after the filler (the caller consumed a
// header first), so the original body -- what the reader yields from the moment
// Send is called -- is the same for every kind and offset.
//
//	bytes.Reader strings.Reader bytes.Buffer  net/http snapshots them (ContentLength + GetBody)
//	io.Reader     Read only
//	readseeker    Read + Seek, no Close
//	section       *io.SectionReader whose section starts at offset 1 of its underlying ReaderAt (Read + Seek + ReadAt, no Close)
//	os.File       *os.File (Read + Seek + Close; closed => every later call fails)
//	file-noclose  struct{ io.ReadSeeker }{*os.File}: the caller keeps ownership of the file
//	rsc           Read + Seek + Close where Close leaves the reader usable
func (w *worker) makeBody(kind string, orig []byte) (io.Reader, func(), error) {
	if kind == "none" {
		return nil, nil, nil
	}
	off := kindOffset(kind)
	data := append(bytes.Repeat([]byte("#"), off), orig...)
	var body io.Reader
	var cleanup func()
	switch baseKind(kind) {
	case "bytes.Reader":
		body = bytes.NewReader(data)
	case "strings.Reader":
		body = strings.NewReader(string(data))
	case "bytes.Buffer":
		body = bytes.NewBuffer(data)
	case "io.Reader":
		body = onlyReader{bytes.NewReader(data)}
	case "readseeker":
		body = readSeeker{bytes.NewReader(data)}
	case "rsc":
		body = rsc{bytes.NewReader(data)}
	case "section":
		padded := append(append([]byte("^"), data...), '$')
		body = io.NewSectionReader(bytes.NewReader(padded), 1, int64(len(data)))
	case "os.File", "file-noclose":
		p := fmt.Sprintf("%s/body-%d", w.dir, w.seq)
		if err := os.WriteFile(p, data, 0o600); err != nil {
			return nil, nil, err
		}
		f, err := os.Open(p)
		if err != nil {
			return nil, nil, err
		}
		body = f
		if baseKind(kind) == "file-noclose" {
			body = struct{ io.ReadSeeker }{f}
		}
		cleanup = func() { f.Close(); os.Remove(p) }
	default:
		return nil, nil, fmt.Errorf("unknown body kind %q", kind)
	}
	if off > 0 {
		if _, err := io.ReadFull(body, make([]byte, off)); err != nil {
			return nil, nil, fmt.Errorf("positioning %s: %v", kind, err)
		}
	}
	return body, cleanup, nil
}

func content(n int) []byte {
	b := make([]byte, n)
	for i := range b {
		b[i] = byte('a' + (i*7+i/251)%26)
	}
	return b
}

var caseHeaders = map[string]string{"X-Verif-A": "alpha beta", "Content-Type": "application/x-verif", "Authorization": "Bearer t0k"}

const query = "?q=1&x=a%20b"

// exec runs one execution of the real Send against the scripted server.
func (w *worker) exec(c Case) (*Obs, error) {
	if c.Config.Conn == "model" {
		return w.execModel(c)
	}
	w.seq++
	cfg := c.Config
	orig := content(cfg.Size) // what the body reader yields when Send is called
	cs := &caseState{path: fmt.Sprintf("/c34/%d/res", w.seq), script: c.Script, content: orig}
	if cfg.Body == "none" {
		cs.content = nil
	}
	body, cleanup, err := w.makeBody(cfg.Body, orig)
	if err != nil {
		return nil, err
	}
	w.cmu.Lock()
	w.conns = map[net.Conn]*connInfo{} // every connection of earlier cases is finished (see the end of exec)
	w.cmu.Unlock()
	w.cur.Store(cs)
	cs.rt.Store(-1)
	var dialer net.Dialer
	tr := &http.Transport{DisableKeepAlives: cfg.Conn == "fresh", MaxIdleConnsPerHost: 2,
		DialContext: func(ctx context.Context, network, addr string) (net.Conn, error) {
			c, err := dialer.DialContext(ctx, network, addr)
			if err != nil {
				return nil, err
			}
			cs.mu.Lock()
			cs.dialed = append(cs.dialed, c.LocalAddr().String())
			cs.clientConns = append(cs.clientConns, c)
			cs.mu.Unlock()
			return &wireConn{Conn: c, cs: cs}, nil
		}}
	if cfg.Conn == "warm" {
		cl := &http.Client{Transport: tr, Timeout: 20 * time.Second}
		resp, err := cl.Get(w.srv.URL + "/warm")
		if err != nil {
			return nil, fmt.Errorf("warm-up: %v", err)
		}
		io.Copy(io.Discard, resp.Body)
		resp.Body.Close()
	}
	rt := &recRT{inner: tr, cs: cs}
	bo, opts := sendOptions(cfg, cs, rt, body)
	resp, err := httputil.Send(cfg.Method, w.srv.URL+cs.path+query, opts...)
	o := &Obs{}
	if err != nil {
		o.SendErr = normErr(err.Error())
		if strings.Contains(err.Error(), "Client.Timeout") || strings.Contains(err.Error(), "deadline exceeded") {
			return nil, fmt.Errorf("%v script %v: client timeout: %v", cfg, c.Script, err)
		}
	} else {
		o.SendStatus = resp.StatusCode
		io.Copy(io.Discard, resp.Body)
		resp.Body.Close()
	}
	tr.CloseIdleConnections()
	// Close every connection the client opened (Send leaves the ones whose
	// response body it did not close) and wait until the server has consumed
	// everything that was written to them: in-order delivery means a pending
	// request is handled before the server sees the close.
	cs.mu.Lock()
	for _, c := range cs.clientConns {
		c.Close()
	}
	cs.mu.Unlock()
	if err := w.quiesce(cs); err != nil {
		return nil, fmt.Errorf("%v script %v: %v", cfg, c.Script, err)
	}
	w.srv.CloseClientConnections()
	w.cur.Store(nil)
	if cleanup != nil {
		cleanup()
	}
	cs.mu.Lock()
	o.Attempts = cs.attempts
	o.Overrun = cs.overrun
	cs.mu.Unlock()
	o.RoundTrips = rt.rts
	for i := range o.RoundTrips {
		if i < len(cs.wire) {
			o.RoundTrips[i].Wire = cs.wire[i].Load()
		}
	}
	for _, r := range o.RoundTrips {
		if strings.Contains(r.Err, "dial tcp") {
			// the server is listening for the whole run: a failed dial is an environment problem, never a finding
			return nil, fmt.Errorf("%v script %v: %s", cfg, c.Script, r.Err)
		}
	}
	o.Backoff = bo.out
	o.RTAfterStop = cs.rtAfterStop.Load()
	if n := w.stray.Load(); n > 0 {
		return nil, fmt.Errorf("%d stray requests reached the server", n)
	}
	return o, nil
}

// ---------------------------------------------------------------------------
// model transport: a scripted in-process http.RoundTripper
//
// The RoundTripper contract lets an implementation keep (read and eventually
// close) the request body after RoundTrip has returned: "RoundTrip must always
// close the body, including on errors, but depending on the implementation may
// do so in a separate goroutine even after RoundTrip returns". net/http's own
// Transport does exactly that whenever the answer (or the failure) arrives
// before its write loop is done with the body. With the real Transport that
// interleaving is a race; here it is an enumerated environment answer.
//
// Answer symbols:
//   "<code>" / "E"         read the body to EOF, close it, answer <code> / fail with a network error
//   "<code>@k+j<p>" / "E@k+j<p>"
//                          answer (fail) when only k body bytes have been read; the body stays with the
//                          "write loop" of this attempt, which reads j more bytes (j = * : up to EOF) and
//                          then closes it at point <p>:
//                            B  when Send asks the backoff (before Send prepares the retry)
//                            R  when the next RoundTrip starts (after Send prepared the retry)
//                            M  after the next attempt has read the first byte of its body
//                          (never, if Send makes no further attempt: closed at teardown)
//   "<code>~<h>"           a status answer carrying a response header (see respHeader)
// beyond the script the transport answers "200" and marks the run as overrun.

type staleWriter struct {
	body io.ReadCloser
	j    int // -1: up to EOF
	p    byte
}

type modelRT struct {
	cs      *caseState
	host    string
	pending *staleWriter
	note    string // stale-writer actions since the previous attempt returned
}

var reModelSym = regexp.MustCompile(`^(E|[0-9]{3})(?:@([0-9]+)\+([0-9]+|\*)([BRM]))?(?:~([a-zA-Z0-9-]+))?$`)

func (m *modelRT) runStale(at byte) {
	s := m.pending
	if s == nil || s.p != at {
		return
	}
	m.pending = nil
	n := 0
	if s.j < 0 {
		b, _ := io.ReadAll(s.body)
		n = len(b)
	} else if s.j > 0 {
		n, _ = io.ReadFull(s.body, make([]byte, s.j))
	}
	s.body.Close()
	m.note += fmt.Sprintf("%c: read %d more bytes, closed; ", at, n)
}

func (m *modelRT) finish() {
	if m.pending != nil {
		m.pending.body.Close()
		m.pending = nil
	}
}

func (m *modelRT) RoundTrip(req *http.Request) (*http.Response, error) {
	cs := m.cs
	idx := len(cs.attempts)
	sym := "200"
	if idx < len(cs.script) {
		sym = cs.script[idx]
	} else {
		cs.overrun = true
	}
	g := reModelSym.FindStringSubmatch(sym)
	if g == nil {
		panic("bad model transport symbol " + sym)
	}
	a := &Attempt{Sym: sym, Method: req.Method, URI: req.URL.RequestURI(), Header: req.Header.Clone(), CL: req.ContentLength, WantedLen: -1}
	a.HostOK = req.URL.Scheme == "http" && req.URL.Host == m.host && (req.Host == "" || req.Host == m.host)
	cs.attempts = append(cs.attempts, a)
	if m.pending != nil && m.pending.p == 'B' {
		m.pending.p = 'R' // Send did not ask the backoff before this attempt: the next point is this one
	}
	m.runStale('R')
	var got []byte
	var rerr error
	readN := func(n int) {
		if n <= 0 || rerr != nil {
			return
		}
		buf := make([]byte, n)
		k, err := io.ReadFull(req.Body, buf)
		got = append(got, buf[:k]...)
		rerr = err
	}
	early := g[2] != ""
	if req.Body != nil {
		if early {
			k, _ := strconv.Atoi(g[2])
			a.WantedLen = k
			if m.pending != nil && k > 0 {
				readN(1)
				m.runStale('M')
				readN(k - 1)
			} else {
				m.runStale('M')
				readN(k)
			}
		} else {
			if m.pending != nil {
				readN(1)
				if rerr == io.EOF {
					rerr = nil // empty body
				}
				m.runStale('M')
			}
			if rerr == nil {
				var rest []byte
				rest, rerr = io.ReadAll(req.Body)
				got = append(got, rest...)
			}
		}
	} else {
		m.runStale('M')
	}
	a.Stale, m.note = m.note, ""
	a.BodyLen = len(got)
	h := sha256.Sum256(got)
	a.BodySHA = hex.EncodeToString(h[:6])
	if a.WantedLen >= 0 {
		a.BodyOK = rerr == nil && a.WantedLen <= len(cs.content) && bytes.Equal(got, cs.content[:a.WantedLen])
	} else {
		a.BodyOK = rerr == nil && bytes.Equal(got, cs.content)
	}
	if i := cs.rt.Load(); i >= 0 && int(i) < len(cs.wire) {
		cs.wire[i].Add(int64(1 + len(got))) // the request line always leaves
	}
	if rerr != nil {
		// the body reader failed: the request cannot be completed (what net/http does, too)
		a.ReadErr = normErr(rerr.Error())
		req.Body.Close()
		return nil, fmt.Errorf("model transport: reading the request body: %v", rerr)
	}
	if req.Body != nil {
		if early {
			j := -1
			if g[3] != "*" {
				j, _ = strconv.Atoi(g[3])
			}
			m.pending = &staleWriter{body: req.Body, j: j, p: g[4][0]}
		} else {
			req.Body.Close()
		}
	}
	if g[1] == "E" {
		return nil, errors.New("model transport: connection reset by peer")
	}
	code, _ := strconv.Atoi(g[1])
	resp := &http.Response{StatusCode: code, Status: fmt.Sprintf("%d %s", code, http.StatusText(code)), Proto: "HTTP/1.1", ProtoMajor: 1, ProtoMinor: 1,
		Header: http.Header{}, Body: http.NoBody, Request: req}
	if k, v := respHeader(g[5]); k != "" {
		resp.Header.Set(k, v)
		resp.Close = k == "Connection" // what net/http's Transport reports for "Connection: close"
	}
	return resp, nil
}

// execModel runs one execution of the real Send over the real http.Client with the model transport.
func (w *worker) execModel(c Case) (*Obs, error) {
	w.seq++
	cfg := c.Config
	orig := content(cfg.Size)
	cs := &caseState{path: fmt.Sprintf("/c34/%d/res", w.seq), script: c.Script, content: orig}
	if cfg.Body == "none" {
		cs.content = nil
	}
	body, cleanup, err := w.makeBody(cfg.Body, orig)
	if err != nil {
		return nil, err
	}
	cs.rt.Store(-1)
	m := &modelRT{cs: cs, host: "model.invalid:8080"}
	cs.onBackoff = func() { m.runStale('B') }
	rt := &recRT{inner: m, cs: cs}
	bo, opts := sendOptions(cfg, cs, rt, body)
	resp, err := httputil.Send(cfg.Method, "http://"+m.host+cs.path+query, opts...)
	o := &Obs{}
	if err != nil {
		o.SendErr = normErr(err.Error())
		if strings.Contains(err.Error(), "Client.Timeout") || strings.Contains(err.Error(), "deadline exceeded") {
			return nil, fmt.Errorf("%v script %v: client timeout: %v", cfg, c.Script, err)
		}
	} else {
		o.SendStatus = resp.StatusCode
		resp.Body.Close()
	}
	m.finish()
	if cleanup != nil {
		cleanup()
	}
	o.Attempts = cs.attempts
	o.Overrun = cs.overrun
	o.RoundTrips = rt.rts
	for i := range o.RoundTrips {
		if i < len(cs.wire) {
			o.RoundTrips[i].Wire = cs.wire[i].Load()
		}
	}
	o.Backoff = bo.out
	o.RTAfterStop = cs.rtAfterStop.Load()
	return o, nil
}

// ---------------------------------------------------------------------------
// oracle

type vio struct{ fp, msg string }

func bodyClass(cfg Config) string {
	cl := "body without GetBody"
	switch {
	case cfg.Body == "none":
		return "no body"
	case getBodyKind(cfg.Body):
		cl = "body with net/http GetBody"
	}
	if kindOffset(cfg.Body) > 0 {
		cl += ", handed over at offset>0"
	}
	return cl
}

// staleSuffix marks failures of an attempt during (or just before) which the
// transport was still working on the previous attempt's body.
func staleSuffix(a *Attempt) string {
	if a.Stale != "" {
		return " (transport still held the previous attempt's body)"
	}
	return ""
}

func headersEqual(a, b http.Header) bool {
	ka := keys(a)
	kb := keys(b)
	if strings.Join(ka, ",") != strings.Join(kb, ",") {
		return false
	}
	for _, k := range ka {
		if strings.Join(a[k], "\x00") != strings.Join(b[k], "\x00") {
			return false
		}
	}
	return true
}

func keys(h http.Header) []string {
	var ks []string
	for k := range h {
		if k == "Content-Length" { // follows the body; a wrong body is reported by the body clause
			continue
		}
		ks = append(ks, k)
	}
	sort.Strings(ks)
	return ks
}

// carried is the fingerprint class suffix for an answer with a response header.
func carried(what, sym string) string {
	if cl := hdrClass(sym); cl != "" {
		return fmt.Sprintf(" [%s carried %s]", what, cl)
	}
	return ""
}

func check(c Case, o *Obs) []vio {
	cfg := c.Config
	var vs []vio
	add := func(fp, format string, a ...interface{}) { vs = append(vs, vio{fp, fmt.Sprintf(format, a...)}) }
	wantURI := ""
	if len(o.Attempts) > 0 {
		wantURI = regexp.MustCompile(`^/c34/[0-9]+/res`).FindString(o.Attempts[0].URI) + query
	}
	acc := cfg.accepted()
	maxRT := 1
	if cfg.Retries > 0 {
		maxRT = 1 + cfg.Retries
	}
	// clause 1: every attempt carries the same method, URL, headers and the complete original body
	for i, a := range o.Attempts {
		if a.Method != cfg.Method {
			add("attempt carries a different method", "attempt %d: method %s, original %s", i, a.Method, cfg.Method)
		}
		if a.URI != wantURI || !a.HostOK {
			add("attempt carries a different URL", "attempt %d: %s (host ok %v), original %s", i, a.URI, a.HostOK, wantURI)
		}
		for k, v := range caseHeaders {
			if got := a.Header[http.CanonicalHeaderKey(k)]; len(got) != 1 || got[0] != v {
				add("attempt lost or changed a request header", "attempt %d: header %s = %q, original %q", i, k, got, v)
			}
		}
		if i > 0 && !headersEqual(a.Header, o.Attempts[0].Header) {
			add("attempts differ in their headers", "attempt %d headers %v, attempt 0 headers %v", i, a.Header, o.Attempts[0].Header)
		}
		if !a.BodyOK {
			which := "first request"
			if i > 0 {
				which = "re-sent request"
			}
			add(fmt.Sprintf("%s reached the server with an incomplete body [%s]%s", which, bodyClass(cfg), staleSuffix(a)),
				"request %d: server read %d body bytes (sha %s, err %q), original body has %d; stale writer: %q", i, a.BodyLen, a.BodySHA, a.ReadErr, len(content(cfg.Size)), a.Stale)
		}
	}
	// an attempt of Send (RoundTrip) during which the server received no request at all carried nothing
	for i, rt := range o.RoundTrips {
		if rt.Wire == 0 {
			which := "first attempt"
			if i > 0 {
				which = "retry"
			}
			add(fmt.Sprintf("%s put nothing on the wire [%s]", which, bodyClass(cfg)),
				"attempt %d of Send failed client-side with nothing written to the connection: %s", i, rt.Err)
		}
	}
	// clause 2: never reports success for an attempt whose body was not sent in full
	if o.SendErr == "" {
		if len(o.Attempts) == 0 {
			add("Send reports success but the server received no request", "status %d", o.SendStatus)
		} else if last := o.Attempts[len(o.Attempts)-1]; !last.BodyOK || last.WantedLen >= 0 {
			add(fmt.Sprintf("Send reports success for an attempt whose body was not sent in full [%s]%s", bodyClass(cfg), staleSuffix(last)),
				"Send returned status %d, nil error; the answered attempt carried %d body bytes (sha %s), original body has %d", o.SendStatus, last.BodyLen, last.BodySHA, len(content(cfg.Size)))
		}
	}
	// clause 3: accepted status codes are never retried
	for i, a := range o.Attempts {
		if strings.HasPrefix(a.Sym, "X") || strings.HasPrefix(a.Sym, "E") || a.ReadErr != "" {
			continue
		}
		code, _ := strconv.Atoi(a.Sym[:3])
		if acc[code] && i+1 < len(o.Attempts) {
			add(fmt.Sprintf("accepted status %d was retried%s", code, carried("the accepted answer", a.Sym)), "attempt %d was answered %s (accepted), yet attempt %d followed", i, a.Sym, i+1)
		}
	}
	// clause 4: retrying stops when the backoff is exhausted
	// (fingerprint class: the response header carried by the answer to the last allowed attempt)
	lastAllowed := ""
	if len(o.RoundTrips) > maxRT {
		if by := o.RoundTrips[maxRT-1].By; by >= 0 && by < len(o.Attempts) {
			lastAllowed = carried("the answer to the last allowed attempt", o.Attempts[by].Sym)
		}
	}
	if len(o.RoundTrips) > maxRT {
		add("more attempts than the backoff allows"+lastAllowed, "%d attempts by Send, backoff allows 1+%d; answers %v", len(o.RoundTrips), maxRT-1, c.Script)
	}
	if o.RTAfterStop {
		add("attempt made after the backoff returned Stop"+lastAllowed, "backoff answers %v, %d attempts; answers %v", o.Backoff, len(o.RoundTrips), c.Script)
	}
	return vs
}

// ---------------------------------------------------------------------------
// enumeration

// Response-header decorations per header level (see respHeader) and the status answers they are put on.
//
//	level 1: {503, 200} x {ra0, ra1, raPast} + 429~raFuture + 503~close                       (8 symbols)
//	level 2: {429, 503, rejected (400 / model: 404), 200} x {ra0, ra1, raPast, raFuture, raBad, close}  (24)
//	level 3: level 2's codes + 404 (+ 502, 504 with the rich alphabet; 503 also with a response body)
//	         x {ra0, ra1, ra120, ra-1, raPast, raFuture, raBad, close}
var hdrDecos = map[int][]string{
	2: {"ra0", "ra1", "raPast", "raFuture", "raBad", "close"},
	3: {"ra0", "ra1", "ra120", "ra-1", "raPast", "raFuture", "raBad", "close"},
}

func decorate(al []string, level int, codes []string) []string {
	if level == 1 {
		sfx := codes[0][3:] // "e" (real transport) or "" (model)
		for _, c := range []string{"503", "200"} {
			for _, h := range []string{"ra0", "ra1", "raPast"} {
				al = append(al, c+sfx+"~"+h)
			}
		}
		return append(al, "429"+sfx+"~raFuture", "503"+sfx+"~close")
	}
	for _, c := range codes {
		for _, h := range hdrDecos[level] {
			al = append(al, c+"~"+h)
		}
	}
	return al
}

// alphabet: the server answers of part A. hdr = 0: answers without response headers (X@k: every k<N for
// N<=4). hdr = 1, 2: the header block of the quick tier -- a reduced set of plain answers (no mid-body
// drops: the response-header dimension does not touch the request body) plus the decorated answers of that
// header level. hdr = 3: the full plain alphabet plus the decorated answers of level 3.
func alphabet(cfg Config, rich bool, hdr int) []string {
	switch hdr {
	case 1:
		return decorate([]string{"X", "503e", "200e"}, 1, []string{"503e"})
	case 2:
		return decorate([]string{"X", "503e", "200e", "404e"}, 2, []string{"429e", "503e", "400e", "200e"})
	case 3:
		codes := []string{"429e", "503e", "503b", "400e", "200e", "404e"}
		if rich {
			codes = append(codes, "502e", "504e")
		}
		return decorate(alphabet(cfg, rich, 0), 3, codes)
	}
	al := []string{"X"}
	if cfg.Body != "none" && cfg.Size > 0 {
		n := cfg.Size
		var ks []int
		if n <= 4 {
			for k := 0; k < n; k++ {
				ks = append(ks, k)
			}
		} else {
			ks = []int{0, 1, n / 2, n - 1}
		}
		if !rich && len(ks) > 2 {
			ks = []int{0, n - 1}
		}
		for _, k := range ks {
			al = append(al, fmt.Sprintf("X@%d", k))
		}
	}
	if rich {
		return append(al, "429e", "502e", "503e", "503b", "504e", "400e", "400b", "500e", "200e", "200b", "404e")
	}
	return append(al, "429e", "503e", "503b", "400e", "200e", "200b", "404e")
}

// modelAlphabet: the answers of the model transport.
//
//	level 0: early answers at k=1, j in {1,*}, p in {R,M}                      (4+8 symbols)
//	level 1: early answers at k in {0,1,N}, j in {1,*}, p in {R,M}            (4+24 symbols for N=3)
//	level 2: early answers at k in {0,1,N}, j in {0,1,*}, p in {B,R,M}        (4+54)
//	level 3: early answers at every k in 0..N, j in {0,1,*}, p in {B,R,M}, four more status codes (8+72 for N=3)
//
// hdr > 0 adds the status answers carrying a response header of that header level (see hdrDecos).
func modelAlphabet(cfg Config, level, hdr int) []string {
	switch hdr {
	case 1:
		return decorate(modelAlphabet(cfg, level, 0), 1, []string{"503"})
	case 2:
		return decorate(modelAlphabet(cfg, level, 0), 2, []string{"429", "503", "404", "200"})
	case 3:
		return decorate(modelAlphabet(cfg, level, 0), 3, []string{"429", "502", "503", "504", "500", "404", "200"})
	}
	al := []string{"200", "404", "503", "E"}
	if level >= 3 {
		al = append(al, "429", "502", "504", "500")
	}
	if cfg.Body == "none" || (cfg.Size == 0 && getBodyKind(cfg.Body)) {
		return al // the request has no body reader (nil / http.NoBody): nothing a write loop could hold on to
	}
	n := cfg.Size
	ks := []int{0, 1, n}
	js := []string{"0", "1", "*"}
	ps := []string{"B", "R", "M"}
	if level <= 1 {
		js, ps = []string{"1", "*"}, []string{"R", "M"}
	}
	if level == 0 {
		ks = []int{1}
	}
	if level >= 3 {
		ks = nil
		for k := 0; k <= n; k++ {
			ks = append(ks, k)
		}
	}
	seen := map[int]bool{}
	for _, out := range []string{"503", "E"} {
		for k := range seen {
			delete(seen, k)
		}
		for _, k := range ks {
			if k > n || seen[k] {
				continue
			}
			seen[k] = true
			for _, j := range js {
				for _, p := range ps {
					al = append(al, fmt.Sprintf("%s@%d+%s%s", out, k, j, p))
				}
			}
		}
	}
	return al
}

type stats struct {
	mu       sync.Mutex
	counters map[string]int64
	vios     map[string]*vioRec
}

func (s *stats) add(k string, d int64) {
	s.mu.Lock()
	s.counters[k] += d
	s.mu.Unlock()
}

var timeCapHit atomic.Bool // part of the space was not run: the per-part vacuity counters may legitimately be zero

const depthSlack = 3 // server-side requests may exceed Send's attempts (net/http replays idempotent requests on a dead pooled connection)

// explore enumerates the answer tree of one config depth-first.
func (w *worker) explore(run *evid.Run, st *stats, it item, deadline time.Time) error {
	cfg, rich := it.cfg, it.rich
	al := alphabet(cfg, rich, it.hdr)
	model := cfg.Conn == "model"
	execKey := fmt.Sprintf("executions retries=%d rich_alphabet=%v", cfg.Retries, rich)
	if model {
		al = modelAlphabet(cfg, it.level, it.hdr)
		execKey = fmt.Sprintf("model_executions retries=%d alphabet_level=%d", cfg.Retries, it.level)
	}
	if it.hdr > 0 {
		execKey += fmt.Sprintf(" header_level=%d", it.hdr)
	}
	maxRT := 1
	if cfg.Retries > 0 {
		maxRT = 1 + cfg.Retries
	}
	var rec func(prefix []string) error
	rec = func(prefix []string) error {
		if time.Now().After(deadline) {
			run.NotExhaustive("time cap hit")
			timeCapHit.Store(true)
			return nil
		}
		c := Case{Config: cfg, Script: append([]string(nil), prefix...)}
		st.add(execKey, 1)
		var o *Obs
		for try := 0; ; try++ {
			var err error
			if o, err = w.exec(c); err != nil {
				return err
			}
			run.Eval(1)
			if len(o.Attempts) >= len(prefix) {
				break
			}
			if model {
				return fmt.Errorf("%v script %v: the model transport run is not deterministic (parent asked for %d answers, this run for %d)", cfg, prefix, len(prefix), len(o.Attempts))
			}
			// The parent script made Send ask for this answer, this run did not:
			// net/http only reuses a pooled connection when its write loop
			// reported back within 50 ms, which an overloaded machine can miss.
			st.add("reruns_connection_reuse_timing", 1)
			if try == 3 {
				// Persistently shorter than the parent run: with a large body and a
				// mid-body drop the part of a non-rewound reader that is left over
				// for the re-send depends on how far the first write got. The oracle
				// still applies to what happened; the scripted tail stays unused.
				st.add("leaves_with_unused_answers", 1)
				break
			}
		}
		if o.Overrun {
			// the real code asked for one more answer than scripted
			vs := check(c, o)
			over := false
			for _, v := range vs {
				if strings.HasPrefix(v.fp, "more attempts") || strings.HasPrefix(v.fp, "attempt made after") {
					over = true
				}
			}
			if over {
				// Send already made more attempts than allowed: a violation by itself, no need to go deeper
				report(run, st, c, o, vs)
				return nil
			}
			if len(prefix) >= 2*maxRT+depthSlack {
				return fmt.Errorf("%v script %v: server asked for more than %d answers without exceeding the attempt bound", cfg, prefix, len(prefix))
			}
			st.add("interior_nodes", 1)
			for _, s := range al {
				if err := rec(append(prefix, s)); err != nil {
					return err
				}
			}
			return nil
		}
		report(run, st, c, o, check(c, o))
		return nil
	}
	if it.first != "" {
		// one subtree of a big tree (the root execution, an interior node, belongs to no piece)
		return rec([]string{it.first})
	}
	return rec(nil)
}

func report(run *evid.Run, st *stats, c Case, o *Obs, vs []vio) {
	st.add("complete_cases", 1)
	st.add("server_requests", int64(len(o.Attempts)))
	st.add("send_attempts", int64(len(o.RoundTrips)))
	retried := len(o.RoundTrips) > 1
	if retried {
		st.add("cases_with_retry", 1)
		if o.SendErr == "" {
			st.add("cases_success_after_retry", 1)
		}
		run.Distinct(c.Config.String() + "|" + strings.Join(c.Script, ","))
	}
	if len(o.Backoff) > 0 && o.Backoff[len(o.Backoff)-1] == -1 {
		st.add("cases_backoff_exhausted", 1)
	}
	if len(o.Attempts) > len(o.RoundTrips) {
		st.add("cases_with_transport_internal_replay", 1)
	}
	for i, a := range o.Attempts {
		if i > 0 && a.BodyOK && a.WantedLen < 0 && c.Config.Body != "none" && c.Config.Size > 0 {
			st.add("retries_with_complete_nonempty_body", 1)
			break
		}
	}
	if o.SendErr == "" {
		st.add("cases_send_ok", 1)
	}
	// response headers: which of the situations the header dimension is about actually occurred
	part := "real_transport"
	if c.Config.Conn == "model" {
		part = "model_transport"
	}
	acc := c.Config.accepted()
	hdrSeen, hdrRetried, hdrAccepted := false, false, false
	for i, a := range o.Attempts {
		if hdrClass(a.Sym) == "" {
			continue
		}
		hdrSeen = true
		if code, _ := strconv.Atoi(a.Sym[:3]); acc[code] {
			hdrAccepted = true
		} else if i+1 < len(o.Attempts) {
			hdrRetried = true
		}
	}
	if hdrSeen {
		st.add("cases_with_response_header "+part, 1)
	}
	if hdrRetried {
		st.add("cases_retry_after_answer_with_response_header "+part, 1)
	}
	if hdrAccepted {
		st.add("cases_accepted_answer_with_response_header "+part, 1)
	}
	if n := len(o.Attempts); n > 0 && n == len(o.RoundTrips) {
		last := o.Attempts[n-1]
		code, _ := strconv.Atoi(last.Sym[:min(3, len(last.Sym))])
		retryable := code == 429 || code == 502 || code == 503 || code == 504 || (code == 400 && c.Config.Variant == "extra400")
		if hdrClass(last.Sym) == "Retry-After" && retryable && !acc[code] {
			// the collision of interest: the backoff is exhausted (or there is none) and the retryable answer carries a parsable hint
			switch {
			case c.Config.Retries < 0:
				st.add("cases_no_SendRetry_and_retryable_answer_with_Retry-After "+part, 1)
			case len(o.Backoff) > 0 && o.Backoff[len(o.Backoff)-1] == -1:
				st.add("cases_backoff_exhausted_on_retryable_answer_with_Retry-After "+part, 1)
			}
		}
	}
	if c.Config.Conn == "model" {
		st.add("model_complete_cases", 1)
		held, heldFull := false, false
		for _, a := range o.Attempts {
			if a.Stale != "" {
				held = true
				if a.BodyOK && a.WantedLen < 0 && c.Config.Size > 0 {
					heldFull = true
				}
			}
		}
		if held {
			st.add("model_cases_retry_while_transport_held_previous_body", 1)
		}
		if heldFull {
			st.add("model_cases_complete_nonempty_retry_while_transport_held_previous_body", 1)
		}
	} else if retried && kindOffset(c.Config.Body) > 0 {
		st.add("cases_with_retry_body_handed_over_at_offset", 1)
	}
	if retried {
		run.Sample(map[string]interface{}{"case": c, "observed": summarize(o)})
	}
	for _, v := range vs {
		st.add("violating_case_clauses", 1)
		st.violation(v, c, o)
	}
}

// violation keeps, per fingerprint, the smallest failing case (fewest retries
// allowed, shortest script, smallest body) and how many cases hit it.
func (s *stats) violation(v vio, c Case, o *Obs) {
	size := c.Config.Retries*10000000 + len(c.Script)*1000000 + c.Config.Size
	if c.Config.Variant != "default" {
		size += 400000
	}
	if c.Config.Method != "POST" {
		size += 200000
	}
	if c.Config.Conn != "fresh" {
		size += 100000
	}
	s.mu.Lock()
	defer s.mu.Unlock()
	if s.vios == nil {
		s.vios = map[string]*vioRec{}
	}
	r := s.vios[v.fp]
	if r == nil {
		r = &vioRec{size: size + 1}
		s.vios[v.fp] = r
	}
	r.count++
	key := c.Config.String() + "|" + strings.Join(c.Script, ",")
	if size < r.size || (size == r.size && key < r.key) {
		r.size, r.key = size, key
		r.detail = map[string]interface{}{"config": c.Config, "script": c.Script, "msg": v.msg, "observed": o}
	}
}

type vioRec struct {
	size   int
	key    string
	count  int64
	detail interface{}
}

// flush reports the collected violations in a stable order.
func (s *stats) flush(run *evid.Run) {
	var fps []string
	for fp := range s.vios {
		fps = append(fps, fp)
	}
	sort.Strings(fps)
	byFP := map[string]int64{}
	for _, fp := range fps {
		byFP[fp] = s.vios[fp].count
		run.Violation(fp, s.vios[fp].detail)
	}
	if len(fps) > 0 {
		run.Set("violating_cases_by_fingerprint", byFP)
	}
}

func summarize(o *Obs) string {
	var b strings.Builder
	for _, a := range o.Attempts {
		fmt.Fprintf(&b, "[%s body=%d ok=%v] ", a.Sym, a.BodyLen, a.BodyOK)
	}
	if o.SendErr != "" {
		e := o.SendErr
		if len(e) > 60 {
			e = e[:60]
		}
		fmt.Fprintf(&b, "=> err %s", e)
	} else {
		fmt.Fprintf(&b, "=> ok %d", o.SendStatus)
	}
	return b.String()
}

// item is one configuration plus the alphabet richness used for its tree.
type item struct {
	cfg   Config
	rich  bool
	level int    // model transport: alphabet level
	hdr   int    // response-header level of the alphabet (0: no response headers)
	first string // explore only the subtree below this first answer
}

type bs struct {
	kind string
	size int
}

var variants = []string{"default", "accept503", "extra400"}

// seekKinds: bodies without GetBody beyond the plain ones (seekable, with / without a
// Close, handed over at offset 0 or 1); offsetGetBodyKinds: snapshotted readers handed over at offset 1.
var seekKinds = []string{"readseeker@1", "section", "section@1", "os.File@1", "file-noclose", "file-noclose@1", "rsc", "rsc@1", "io.Reader@1"}
var offsetGetBodyKinds = []string{"bytes.Reader@1", "strings.Reader@1", "bytes.Buffer@1"}

func product(out *[]item, rich bool, methods map[string][]bs, conns []string, retries []int, vars []string) {
	var ms []string
	for m := range methods {
		ms = append(ms, m)
	}
	sort.Strings(ms)
	for _, m := range ms {
		for _, b := range methods[m] {
			for _, cn := range conns {
				for _, r := range retries {
					for _, v := range vars {
						if r < 0 && v == "extra400" {
							continue // extra retry codes only exist inside SendRetry
						}
						*out = append(*out, item{cfg: Config{Method: m, Body: b.kind, Size: b.size, Conn: cn, Retries: r, Variant: v}, rich: rich})
					}
				}
			}
		}
	}
}

// modelProduct: full product for the model-transport part; trees of configurations
// with split=true are cut into one work item per first answer.
func modelProduct(out *[]item, level int, split bool, methods map[string][]bs, retries []int) {
	modelHdrProduct(out, level, 0, split, methods, retries)
}

// modelHdrProduct: modelProduct with the response-header level hdr.
func modelHdrProduct(out *[]item, level, hdr int, split bool, methods map[string][]bs, retries []int) {
	var tmp []item
	product(&tmp, level >= 3, methods, []string{"model"}, retries, []string{"default"})
	for _, it := range tmp {
		it.level, it.hdr = level, hdr
		if !split {
			*out = append(*out, it)
			continue
		}
		for _, sym := range modelAlphabet(it.cfg, level, hdr) {
			p := it
			p.first = sym
			*out = append(*out, p)
		}
	}
}

// hdrProduct: product for part A with the response-header level hdr.
func hdrProduct(out *[]item, rich bool, hdr int, methods map[string][]bs, conns []string, retries []int, vars []string) {
	var tmp []item
	product(&tmp, rich, methods, conns, retries, vars)
	for _, it := range tmp {
		it.hdr = hdr
		*out = append(*out, it)
	}
}

func bodiesOf(kinds []string, sizes []int) []bs {
	out := []bs{{"none", 0}}
	for _, k := range kinds {
		for _, s := range sizes {
			out = append(out, bs{k, s})
		}
	}
	return out
}

// configs lists the configurations of a tier: plain nested loops over the
// listed domains (each call of product is a full product).
func configs(thorough bool) []item {
	var out []item
	kinds := []string{"bytes.Reader", "strings.Reader", "bytes.Buffer", "os.File", "readseeker", "io.Reader"}
	if !thorough {
		all := map[string][]bs{
			"POST": bodiesOf(kinds, []int{0, 3}),
			"GET":  {{"none", 0}, {"bytes.Reader", 3}, {"io.Reader", 3}},
		}
		product(&out, false, all, []string{"fresh", "keepalive"}, []int{-1, 0, 1}, variants)
		product(&out, false, map[string][]bs{"POST": {{"bytes.Reader", 3}}, "GET": {{"none", 0}}}, []string{"warm"}, []int{1}, variants)
		deep := map[string][]bs{
			"POST": {{"none", 0}, {"bytes.Reader", 3}, {"os.File", 3}, {"io.Reader", 3}},
			"GET":  {{"bytes.Reader", 3}},
		}
		product(&out, false, deep, []string{"fresh", "keepalive"}, []int{2}, []string{"default"})
		product(&out, false, map[string][]bs{"POST": {{"bytes.Reader", 3}, {"io.Reader", 3}}}, []string{"fresh"}, []int{2}, []string{"accept503", "extra400"})
		// readers without GetBody that can seek / have no Close / are handed over at an offset, and snapshotted readers at an offset
		more := map[string][]bs{"POST": append(bodiesOf(seekKinds, []int{0, 3})[1:], bodiesOf(offsetGetBodyKinds, []int{3})[1:]...)}
		product(&out, false, more, []string{"fresh", "keepalive"}, []int{-1, 0, 1}, variants)
		product(&out, false, map[string][]bs{"POST": {{"readseeker@1", 3}, {"section@1", 3}, {"file-noclose@1", 3}, {"bytes.Buffer@1", 3}}}, []string{"fresh", "keepalive"}, []int{2}, []string{"default"})
		// model transport
		mk := append(append(append([]string{}, kinds...), seekKinds...), offsetGetBodyKinds...)
		modelProduct(&out, 2, false, map[string][]bs{"POST": bodiesOf(mk, []int{0, 3}), "PUT": {{"bytes.Reader", 3}, {"section@1", 3}}}, []int{0, 1})
		deepKinds := append([]string{"bytes.Reader", "strings.Reader@1", "bytes.Buffer@1", "os.File", "readseeker", "io.Reader"}, seekKinds...)
		modelProduct(&out, 1, true, map[string][]bs{"POST": bodiesOf(deepKinds, []int{3})[1:]}, []int{2})
		modelProduct(&out, 0, false, map[string][]bs{"POST": {{"bytes.Reader", 3}, {"bytes.Buffer", 3}, {"section@1", 3}, {"file-noclose", 3}, {"rsc@1", 3}}}, []int{3})
		// response headers the client may interpret (header block): real transport ...
		hb := map[string][]bs{"POST": {{"none", 0}, {"bytes.Reader", 3}, {"io.Reader", 3}}, "GET": {{"none", 0}}}
		hdrProduct(&out, false, 2, hb, []string{"fresh", "keepalive"}, []int{-1, 0, 1}, variants)
		hdrProduct(&out, false, 1, map[string][]bs{"POST": {{"none", 0}, {"bytes.Reader", 3}}}, []string{"fresh", "keepalive"}, []int{2}, []string{"default"})
		hdrProduct(&out, false, 1, map[string][]bs{"POST": {{"bytes.Reader", 3}}}, []string{"fresh"}, []int{2}, []string{"accept503", "extra400"})
		// ... and model transport (early answers of level 0)
		modelHdrProduct(&out, 0, 2, false, map[string][]bs{"POST": bodiesOf(mk, []int{0, 3})}, []int{-1, 0, 1})
		modelHdrProduct(&out, 0, 1, false, map[string][]bs{"POST": {{"bytes.Reader", 3}, {"bytes.Buffer@1", 3}, {"io.Reader", 3}, {"section@1", 3}}}, []int{2})
	} else {
		kinds = append(kinds, seekKinds...)
		conns := []string{"fresh", "keepalive", "warm"}
		all := map[string][]bs{
			"POST": bodiesOf(kinds, []int{0, 1, 3, 70000}),
			"GET":  {{"none", 0}, {"bytes.Reader", 3}, {"io.Reader", 3}, {"bytes.Buffer", 70000}, {"readseeker", 3}, {"section@1", 3}},
			"PUT":  {{"bytes.Reader", 3}, {"os.File", 3}, {"io.Reader", 70000}, {"file-noclose@1", 3}},
		}
		all["POST"] = append(all["POST"], bodiesOf(offsetGetBodyKinds, []int{3})[1:]...)
		all["POST"] = append(all["POST"], bs{"bytes.Reader@1", 70000})
		product(&out, true, all, conns, []int{-1, 0, 1}, variants)
		three := map[string][]bs{
			"POST": bodiesOf(kinds, []int{3}),
			"GET":  {{"none", 0}, {"bytes.Reader", 3}, {"io.Reader", 3}, {"readseeker", 3}},
			"PUT":  {{"bytes.Reader", 3}, {"os.File", 3}},
		}
		rest := map[string][]bs{
			"POST": bodiesOf(kinds, []int{0, 1, 70000})[1:],
			"GET":  {{"bytes.Buffer", 70000}},
			"PUT":  {{"io.Reader", 70000}},
		}
		two := []string{"fresh", "keepalive"}
		product(&out, true, three, conns, []int{2}, variants)
		product(&out, true, map[string][]bs{"POST": bodiesOf(offsetGetBodyKinds, []int{3})[1:]}, two, []int{2}, []string{"default"})
		product(&out, false, rest, two, []int{2}, variants)
		deep := map[string][]bs{
			"POST": {{"none", 0}, {"bytes.Reader", 3}, {"bytes.Buffer", 3}, {"os.File", 3}, {"readseeker", 3}, {"io.Reader", 3}},
			"GET":  {{"none", 0}, {"bytes.Reader", 3}, {"io.Reader", 3}},
			"PUT":  {{"bytes.Reader", 3}},
		}
		product(&out, false, deep, two, []int{3}, []string{"default"})
		product(&out, false, map[string][]bs{"POST": {{"bytes.Reader", 3}}, "GET": {{"none", 0}}}, []string{"warm"}, []int{3}, []string{"default"})
		product(&out, false, map[string][]bs{"POST": {{"bytes.Reader", 3}, {"io.Reader", 3}}}, []string{"fresh"}, []int{3}, []string{"accept503", "extra400"})
		// model transport
		mk := append(append([]string{}, kinds...), offsetGetBodyKinds...)
		modelProduct(&out, 3, false, map[string][]bs{
			"POST": bodiesOf(mk, []int{0, 1, 3, 5}),
			"PUT":  bodiesOf(mk, []int{3}),
			"GET":  {{"none", 0}, {"bytes.Reader", 3}, {"section@1", 3}, {"io.Reader", 3}},
		}, []int{-1, 0, 1})
		nonGet := append([]string{"os.File", "readseeker", "io.Reader"}, seekKinds...)
		modelProduct(&out, 3, true, map[string][]bs{"POST": bodiesOf(nonGet, []int{3})}, []int{2})
		modelProduct(&out, 2, true, map[string][]bs{"POST": {{"bytes.Reader", 3}}}, []int{2})
		modelProduct(&out, 1, true, map[string][]bs{
			"POST": append(bodiesOf(append([]string{"bytes.Reader", "strings.Reader@1", "bytes.Buffer@1"}, nonGet...), []int{5})[1:],
				bs{"strings.Reader", 3}, bs{"bytes.Buffer", 3}, bs{"bytes.Reader@1", 3}, bs{"strings.Reader@1", 3}, bs{"bytes.Buffer@1", 3}),
			"PUT": {{"bytes.Reader", 3}, {"readseeker@1", 3}},
		}, []int{2})
		modelProduct(&out, 0, false, map[string][]bs{"POST": bodiesOf(mk, []int{3})[1:]}, []int{3})
		// response headers the client may interpret (header block): real transport ...
		hb := map[string][]bs{
			"POST": {{"none", 0}, {"bytes.Reader", 3}, {"bytes.Buffer", 3}, {"io.Reader", 3}, {"os.File", 3}, {"readseeker", 3}},
			"GET":  {{"none", 0}, {"bytes.Reader", 3}},
			"PUT":  {{"strings.Reader@1", 3}},
		}
		hdrProduct(&out, true, 3, hb, conns, []int{-1, 0}, variants)
		hdrProduct(&out, false, 3, hb, two, []int{1}, variants)
		hdrProduct(&out, false, 2, map[string][]bs{"POST": {{"none", 0}, {"bytes.Reader", 3}, {"io.Reader", 3}}, "GET": {{"none", 0}}}, two, []int{2}, []string{"default"})
		hdrProduct(&out, false, 2, map[string][]bs{"POST": {{"bytes.Reader", 3}}}, []string{"fresh"}, []int{2}, []string{"accept503", "extra400"})
		hdrProduct(&out, false, 1, map[string][]bs{"POST": {{"none", 0}, {"bytes.Reader", 3}}}, two, []int{3}, []string{"default"})
		// ... and model transport
		modelHdrProduct(&out, 3, 3, false, map[string][]bs{"POST": bodiesOf(mk, []int{0, 3}), "GET": {{"none", 0}, {"bytes.Reader", 3}}}, []int{-1, 0})
		modelHdrProduct(&out, 1, 3, false, map[string][]bs{"POST": bodiesOf(mk, []int{0, 3}), "GET": {{"none", 0}, {"bytes.Reader", 3}}}, []int{1})
		modelHdrProduct(&out, 0, 2, true, map[string][]bs{"POST": bodiesOf(mk, []int{3})}, []int{2})
		modelHdrProduct(&out, 0, 1, true, map[string][]bs{"POST": {{"bytes.Reader", 3}, {"bytes.Buffer@1", 3}, {"io.Reader", 3}, {"section@1", 3}}}, []int{3})
	}
	if thorough {
		// cut the big real-transport trees into one work item per first answer (load balance at the tail)
		var split []item
		for _, it := range out {
			if it.cfg.Conn == "model" || it.cfg.Retries < 2 || it.first != "" {
				split = append(split, it)
				continue
			}
			for _, sym := range alphabet(it.cfg, it.rich, it.hdr) {
				p := it
				p.first = sym
				split = append(split, p)
			}
		}
		out = split
	}
	// the (cheap, CPU-only) model-transport part first, so that a time cap on an overloaded machine
	// never cuts it; then biggest trees first for better load balance
	sort.SliceStable(out, func(i, j int) bool {
		if mi, mj := out[i].cfg.Conn == "model", out[j].cfg.Conn == "model"; mi != mj {
			return mi
		}
		if out[i].cfg.Retries != out[j].cfg.Retries {
			return out[i].cfg.Retries > out[j].cfg.Retries
		}
		return out[i].rich && !out[j].rich
	})
	return out
}

func replay(run *evid.Run, path string) {
	b, err := os.ReadFile(path)
	if err != nil {
		run.Fatal(err)
	}
	var f struct {
		Case struct {
			Config Config   `json:"config"`
			Script []string `json:"script"`
		} `json:"case"`
	}
	if err := json.Unmarshal(b, &f); err != nil {
		run.Fatal(err)
	}
	w, err := newWorker()
	if err != nil {
		run.Fatal(err)
	}
	defer w.close()
	c := Case{Config: f.Case.Config, Script: f.Case.Script}
	if pf := os.Getenv("C34_PROF"); pf != "" {
		f, _ := os.Create(pf)
		pprof.StartCPUProfile(f)
		defer pprof.StopCPUProfile()
	}
	if n, _ := strconv.Atoi(os.Getenv("C34_REPEAT")); n > 0 {
		// determinism probe: the same case n times on 8 workers, observation summaries counted
		var mu sync.Mutex
		seen := map[string]int{}
		var wg sync.WaitGroup
		for g := 0; g < 8; g++ {
			wg.Add(1)
			go func() {
				defer wg.Done()
				w, err := newWorker()
				if err != nil {
					run.Fatal(err)
				}
				defer w.close()
				for i := 0; i < n; i++ {
					o, err := w.exec(c)
					if err != nil {
						run.Fatal(err)
					}
					k := summarize(o) + " wire:"
					for _, r := range o.RoundTrips {
						k += fmt.Sprintf(" %v", r.Wire > 0)
					}
					mu.Lock()
					seen[k]++
					mu.Unlock()
				}
			}()
		}
		wg.Wait()
		for k, v := range seen {
			fmt.Printf("%6d x %s\n", v, k)
		}
		pprof.StopCPUProfile()
	}
	o, err := w.exec(c)
	if err != nil {
		run.Fatal(err)
	}
	out, _ := json.MarshalIndent(o, "", " ")
	fmt.Printf("replay %v script %v\n%s\n", c.Config, c.Script, out)
	vs := check(c, o)
	sort.Slice(vs, func(i, j int) bool { return vs[i].fp < vs[j].fp })
	for _, v := range vs {
		run.Violation(v.fp, map[string]interface{}{"config": c.Config, "script": c.Script, "msg": v.msg, "observed": o})
	}
	// no run.Finish(): a replay must not overwrite the tier's evidence file
	if run.NViolations() > 0 {
		os.Exit(1)
	}
	os.Exit(0)
}

func main() {
	debug.SetGCPercent(800) // live heap is a few MB; the model-transport part allocates ~10 kB per execution
	run := evid.New("C34", "exploration")
	run.Rule = "Part A (real transport). For every configuration (method x body kind x size x connection mode {fresh, keep-alive, warm pooled} x retry limit x accepted/extra-retry code variant; plain nested loops, full product of the listed domains) the tree of server answers is enumerated exhaustively and lazily depth-first by the check's own loop (equivalent to vrt.Choose in sequential mode): a script of answers is extended by EVERY symbol of the alphabet {drop after reading the whole body, drop after reading k body bytes (every k<N for N<=4), 429/502/503/504/extra-code/500 with empty and non-empty response bodies, 200, 404} exactly when the real Send (real net/http transport, loopback httptest server) asked the server for one more answer. Body kinds: none | bytes.Reader, strings.Reader, bytes.Buffer (GetBody) | io.Reader | ReadSeeker without Close | *io.SectionReader over a section starting at offset 1 of its ReaderAt | *os.File | struct{io.ReadSeeker}{*os.File} (Close hidden) | ReadSeeker with a Close that leaves it usable -- each handed over at offset 0 and at offset 1 of its underlying data (original body = what the reader yields from its position when Send is called). " +
		"Part B (model transport). The same body kinds x sizes x retry limits run through the real Send and the real http.Client over a scripted RoundTripper; its answer tree is enumerated the same way over the alphabet {200, 404, 503 (+429/502/504/500 in thorough), network error: after reading the body to EOF and closing it} + {503, network error: delivered when only k body bytes have been read (k in {0,1,N}; every k<=N in thorough); the body then stays with that attempt's write loop (RoundTripper contract: the body may be read and closed after RoundTrip returned), which reads j in {0,1,up to EOF} more bytes and closes it at point p in {B: when Send asks the backoff, R: when the next RoundTrip starts, M: after the next attempt has read its first body byte}}; deeper retry limits use the stated sub-alphabets (level 1: j in {1,EOF}, p in {R,M}; level 0: additionally k=1 only). " +
		"Response headers (both parts, header block). The status answers additionally come with a response header the client may interpret: Retry-After: 0 | 1 | an HTTP date in the past (2015) | an HTTP date in the future (2999) | unparsable ('soon') (thorough: also 120 and -1), or Connection: close -- the full product {429, 503, a rejected non-retryable code (400, which is the extra retry code in the extra400 variant; model: 404), accepted 200 (and 503 in the accept503 variant)} x {those headers} (thorough: also 502, 504, 404, 500 and 503 with a response body) is added to the alphabet and every sequence of plain and header-carrying answers that Send asks for is executed: part A for {POST without body, POST bytes.Reader, POST io.Reader, GET} x {fresh, keep-alive} x retry limit {no SendRetry, 0, 1} x the three code variants (thorough: more body kinds, warm connections), retry limit 2 (thorough: 3) with the stated header sub-alphabet {503, 200} x {0, 1, past date} + 429 future date + 503 Connection: close; part B for every body kind x size {0,3} x retry limit {no SendRetry, 0, 1} (early answers of level 0), retry limit 2 with the sub-alphabet. The oracle is unchanged: a header never allows an attempt beyond the backoff (in particular none without SendRetry and none after Stop), never makes an accepted answer retried, and every attempt still carries the complete original request. " +
		"Oracle per execution (both parts): every request received has the original method/URI/headers/complete body (for an attempt answered after k bytes: those k bytes are the original's first k); every Send-level attempt (RoundTrip) reached the server; nil error only for an answered attempt with the complete body; no request after an accepted answer; attempts <= 1+retry limit and none after the backoff said Stop. distinct = distinct (configuration, script) leaves in which Send actually retried."
	run.Assume("no delay is ever waited: package time inside utils/httputil/httputil.go is replaced through the build overlay by checks/c34/vtime, whose Sleep / After / NewTimer record the requested delay and return at once (everything else is the real package time), so a delay taken from the backoff or from a response header (Retry-After of seconds, minutes, centuries) costs nothing; the recorded delays are reported as counters and are not part of the oracle (the statement says nothing about how long Send waits)")
	run.Assume("zero back-off (cenkalti ZeroBackOff / constant 0) so no wall-clock is involved; the client timeout (30 s) never fires (a timeout is a harness error); part B uses SendTimeout(0) (nothing can block in the model transport, and no per-attempt timer goroutines are left behind)")
	run.Assume("part A: the server reads the request body (or the chosen k-byte prefix) before it answers or drops, so what the client managed to write is determined by the script, not by a race, and the real Transport is done with the body when RoundTrip returns; for 70 kB bodies a mid-body drop leaves a racy remainder in non-rewindable readers, which only affects how incomplete a retry is, not whether it is")
	run.Assume("part B: the model RoundTripper models the http.RoundTripper contract, not net/http's Transport internals; a lingering write loop finishes (reads, then closes) at the latest during the next attempt; early answers are never accepted statuses (whether an accepted answer to a partially read body is a success is not decided by the statement); response bodies are empty")
	run.Assume("response headers: one header per answer; Location on a 3xx answer is not in the alphabet (the http.Client would follow it inside one attempt of Send; redirects are out of scope), nor are headers on dropped connections (there is no response)")
	run.Assume("http->https fallback (SendTLS) and redirects are out of scope; a status that is both accepted and configured as an extra retry code is a contradictory configuration and is left out of the alphabet")
	run.Assume("small-scope: body sizes {0,1,3,70000} (part B {0,1,3,5}), hand-over offsets {0,1}, retry limits <= 3, one extra retry code (400)")
	if p := run.ReplayPath(); p != "" {
		replay(run, p)
		return
	}
	thorough := run.Thorough()
	cfgs := configs(thorough)
	budget := 55 * time.Second
	if thorough {
		budget = 13 * time.Minute
	}
	deadline := time.Now().Add(budget)
	st := &stats{counters: map[string]int64{}}
	ch := make(chan item)
	var wg sync.WaitGroup
	var firstErr atomic.Pointer[error]
	for i := 0; i < evid.Workers(); i++ {
		wg.Add(1)
		go func() {
			defer wg.Done()
			w, err := newWorker()
			if err != nil {
				firstErr.CompareAndSwap(nil, &err)
				return
			}
			defer w.close()
			for it := range ch {
				if firstErr.Load() != nil {
					continue
				}
				t0 := time.Now()
				if err := w.explore(run, st, it, deadline); err != nil {
					firstErr.CompareAndSwap(nil, &err)
				}
				part := "worker_ms_part_A_real_transport"
				if it.cfg.Conn == "model" {
					part = "worker_ms_part_B_model_transport"
				}
				st.add(part, time.Since(t0).Milliseconds())
			}
		}()
	}
	for _, c := range cfgs {
		ch <- c
	}
	close(ch)
	wg.Wait()
	if e := firstErr.Load(); e != nil {
		run.Fatal(*e)
	}
	st.flush(run)
	distinctCfg := map[Config]bool{}
	for _, it := range cfgs {
		distinctCfg[it.cfg] = true
	}
	run.Set("configurations", len(distinctCfg))
	run.Set("work_items", len(cfgs))
	for k, v := range st.counters {
		run.Set(k, v)
	}
	nSleep, posSleep, sumSleep, maxSleep := vtime.Stats()
	run.Set("delays_requested_by_httputil_not_slept", nSleep)
	run.Set("delays_requested_by_httputil_longer_than_zero", posSleep)
	run.Set("delays_requested_by_httputil_sum", sumSleep.String())
	run.Set("delays_requested_by_httputil_longest", maxSleep.String())
	if nSleep == 0 {
		run.Fatal(errors.New("vacuous: httputil.Send never asked the check's clock for a delay (overlay not applied?)"))
	}
	if run.NViolations() == 0 && !timeCapHit.Load() {
		for _, k := range []string{"cases_retry_after_answer_with_response_header real_transport", "cases_retry_after_answer_with_response_header model_transport",
			"cases_accepted_answer_with_response_header real_transport", "cases_accepted_answer_with_response_header model_transport",
			"cases_no_SendRetry_and_retryable_answer_with_Retry-After real_transport", "cases_no_SendRetry_and_retryable_answer_with_Retry-After model_transport",
			"cases_backoff_exhausted_on_retryable_answer_with_Retry-After real_transport", "cases_backoff_exhausted_on_retryable_answer_with_Retry-After model_transport",
			"cases_with_retry", "cases_success_after_retry", "cases_backoff_exhausted", "retries_with_complete_nonempty_body",
			"cases_with_retry_body_handed_over_at_offset", "model_cases_retry_while_transport_held_previous_body", "model_cases_complete_nonempty_retry_while_transport_held_previous_body"} {
			if st.counters[k] == 0 {
				run.Fatal(errors.New("vacuous: counter " + k + " is zero"))
			}
		}
	}
	run.Finish()
}
