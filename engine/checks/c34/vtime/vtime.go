// Package vtime is check C34's stand-in for package time inside
// utils/httputil/httputil.go (import rewritten by the build overlay; kraken's
// source is not edited; same device as checks/c33/vtime). Send has no clock
// seam: it calls time.Sleep directly between attempts. With this package a
// delay -- whether it comes from the backoff or from anything a response told
// the client (Retry-After ...) -- is recorded instead of slept, so the answer
// alphabet may contain hints of seconds, minutes or centuries without the check
// ever waiting. Everything else is the real package time (types are aliases,
// the clock readings are the real clock: nothing in the oracle depends on it,
// the HTTP dates of the alphabet are decades in the past / centuries ahead).
//
// The counters are process-wide (workers run in parallel in one process); they
// are vacuity / cost figures only, never part of an oracle.
package vtime

import (
	"sync/atomic"
	"time"
)

type (
	Time       = time.Time
	Duration   = time.Duration
	Month      = time.Month
	Weekday    = time.Weekday
	Location   = time.Location
	Timer      = time.Timer
	Ticker     = time.Ticker
	ParseError = time.ParseError
)

const (
	Nanosecond  = time.Nanosecond
	Microsecond = time.Microsecond
	Millisecond = time.Millisecond
	Second      = time.Second
	Minute      = time.Minute
	Hour        = time.Hour
)

const (
	Layout      = time.Layout
	ANSIC       = time.ANSIC
	UnixDate    = time.UnixDate
	RubyDate    = time.RubyDate
	RFC822      = time.RFC822
	RFC822Z     = time.RFC822Z
	RFC850      = time.RFC850
	RFC1123     = time.RFC1123
	RFC1123Z    = time.RFC1123Z
	RFC3339     = time.RFC3339
	RFC3339Nano = time.RFC3339Nano
	Kitchen     = time.Kitchen
	Stamp       = time.Stamp
	StampMilli  = time.StampMilli
	StampMicro  = time.StampMicro
	StampNano   = time.StampNano
	DateTime    = time.DateTime
	DateOnly    = time.DateOnly
	TimeOnly    = time.TimeOnly
)

const (
	January   = time.January
	February  = time.February
	March     = time.March
	April     = time.April
	May       = time.May
	June      = time.June
	July      = time.July
	August    = time.August
	September = time.September
	October   = time.October
	November  = time.November
	December  = time.December
)

const (
	Sunday    = time.Sunday
	Monday    = time.Monday
	Tuesday   = time.Tuesday
	Wednesday = time.Wednesday
	Thursday  = time.Thursday
	Friday    = time.Friday
	Saturday  = time.Saturday
)

var (
	UTC   = time.UTC
	Local = time.Local
)

var (
	sleeps   atomic.Int64 // delays asked for (Sleep, After, NewTimer, Tick ...)
	positive atomic.Int64 // of those: with a duration > 0
	total    atomic.Int64 // sum of the positive durations, ns (saturating)
	longest  atomic.Int64 // longest single delay, ns
)

func record(d Duration) {
	sleeps.Add(1)
	if d <= 0 {
		return
	}
	positive.Add(1)
	if t := total.Add(int64(d)); t < 0 {
		total.Store(1<<63 - 1)
	}
	for {
		l := longest.Load()
		if int64(d) <= l || longest.CompareAndSwap(l, int64(d)) {
			return
		}
	}
}

// Stats returns how many delays the rewritten code asked for, how many of them
// were > 0, their sum and the longest one. None of them was actually waited.
func Stats() (n, pos int64, sum, max Duration) {
	return sleeps.Load(), positive.Load(), Duration(total.Load()), Duration(longest.Load())
}

// Sleep records the delay and returns at once.
func Sleep(d Duration) { record(d) }

// After records the delay; the channel is ready at once.
func After(d Duration) <-chan Time { record(d); return time.After(0) }

// NewTimer records the delay; the timer fires at once.
func NewTimer(d Duration) *Timer { record(d); return time.NewTimer(0) }

// AfterFunc records the delay; f runs at once (in its own goroutine).
func AfterFunc(d Duration, f func()) *Timer { record(d); return time.AfterFunc(0, f) }

func Now() Time             { return time.Now() }
func Since(t Time) Duration { return time.Since(t) }
func Until(t Time) Duration { return time.Until(t) }

func Tick(d Duration) <-chan Time                 { return time.Tick(d) }
func NewTicker(d Duration) *Ticker                { return time.NewTicker(d) }
func Unix(sec int64, nsec int64) Time             { return time.Unix(sec, nsec) }
func UnixMilli(msec int64) Time                   { return time.UnixMilli(msec) }
func UnixMicro(usec int64) Time                   { return time.UnixMicro(usec) }
func Parse(layout, value string) (Time, error)    { return time.Parse(layout, value) }
func ParseDuration(s string) (Duration, error)    { return time.ParseDuration(s) }
func FixedZone(name string, offset int) *Location { return time.FixedZone(name, offset) }
func LoadLocation(name string) (*Location, error) { return time.LoadLocation(name) }
func ParseInLocation(layout, value string, loc *Location) (Time, error) {
	return time.ParseInLocation(layout, value, loc)
}
func Date(year int, month Month, day, hour, min, sec, nsec int, loc *Location) Time {
	return time.Date(year, month, day, hour, min, sec, nsec, loc)
}
