// Package vtime stands in for package time inside origin/blobclient's
// cluster_client.go (build-overlay import rewrite, kraken's source is not
// edited; same device as checks/c35/vtime): ClusterClient hard-codes its Poll
// back-off (1 s .. 5 s, 15 minutes in total, backoff.SystemClock), so Sleep
// here advances a virtual clock instead of blocking. The clock is one per
// process: the vrt explorer runs one execution at a time per process and Poll
// runs synchronously on the thread that called ReplicateToRemote (the harness
// calls Reset at the start of every execution).
package vtime

import (
	"sync"
	"time"
)

type Duration = time.Duration

const (
	Second = time.Second
	Minute = time.Minute
	Hour   = time.Hour
)

var base = time.Date(2000, 1, 1, 0, 0, 0, 0, time.UTC)

var (
	mu      sync.Mutex
	elapsed time.Duration
	sleeps  int
)

// Sleep advances the virtual clock.
func Sleep(d Duration) {
	mu.Lock()
	if d > 0 {
		elapsed += d
	}
	sleeps++
	mu.Unlock()
}

// Now is the virtual time.
func Now() time.Time {
	mu.Lock()
	defer mu.Unlock()
	return base.Add(elapsed)
}

// Elapsed returns what the clock has accumulated (virtual time slept, number
// of sleeps).
func Elapsed() (time.Duration, int) {
	mu.Lock()
	defer mu.Unlock()
	return elapsed, sleeps
}

// Reset restarts the clock.
func Reset() {
	mu.Lock()
	elapsed, sleeps = 0, 0
	mu.Unlock()
}
