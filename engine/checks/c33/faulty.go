//go:build go1.25

// C33, part 3 (engine E1q): overlapping replications through the REAL origin
// with FAILING uploads and retries.
//
// Same world as part 2 (concurrent.go): real tagreplication.Executor.Exec calls
// over the real blobclient.ClusterClient (Poll) in front of the real
// blobserver.Server handler, blobs in a real CAStore, remote origin clusters'
// UploadBlob and remote build-indexes' PutAndReplicate as seams. Widened along
// three dimensions:
//
//   - the same task (same tag, same remote, same dependency blobs) is executed
//     by several build-index replicas at once ("Replication will call Exec n^2
//     times", executor.go), so several replicate-to-remote requests for the SAME
//     (remote, namespace, blob) are inside the origin handler together;
//   - when a parked upload is released its outcome is an environment answer
//     {ok; 503, nothing stored; bytes stored but the response is lost}, at most
//     `maxFail` non-ok answers per execution;
//   - a task whose Exec returned an error may be executed again (what the
//     persisted-retry manager does), at most `maxRetry` times per task, at any
//     moment relative to the other tasks' pending actions.
//
// EVERY order of {start Exec, retry Exec, release of a parked upload (x its
// outcome), release of a parked put} is executed. When nothing is enabled any
// more the closing phase runs every task that has not returned nil once more,
// alone, with no failure.
//
// Oracle (the statement's clauses): when PutAndReplicate reaches build-index R
// an UploadBlob of every dependency blob of that task to remote origin cluster
// R has returned success to the local origin (= "confirmed present"); Exec
// returns nil only if build-index R holds the tag; the closing Exec returns nil
// ("retried until the remote holds the tag"); every Exec returns.
package main

import (
	"fmt"
	"sort"
	"strings"
	"sync"

	"github.com/uber-go/tally"
	"github.com/uber/kraken/core"
	"github.com/uber/kraken/lib/persistedretry/tagreplication"
	"github.com/uber/kraken/origin/blobclient"

	"verif/e1q"
	"verif/vrt"
)

type fscenario struct {
	label    string
	tasks    []ctask
	maxFail  int // upload failures the environment may inject per execution
	maxRetry int // re-executions of a failed task inside the explored phase (per task)
}

func (sc fscenario) name() string {
	return fmt.Sprintf("faulty concurrent: %s (<=%d failing uploads, <=%d retries per task)", sc.label, sc.maxFail, sc.maxRetry)
}

func fscenarios(thorough bool) []fscenario {
	two := func(deps ...int) []ctask { return []ctask{{"x", "A", deps, 1}, {"x", "A", deps, 2}} }
	three := []ctask{{"x", "A", []int{0}, 1}, {"x", "A", []int{0}, 2}, {"x", "A", []int{0}, 3}}
	mixed := []ctask{{"x", "A", []int{0}, 1}, {"x", "A", []int{0}, 2}, {"x", "B", []int{0}, 0}}
	scs := []fscenario{
		{"two replicas execute one task, one blob", two(0), 2, 1},
		{"two replicas execute one task, two blobs", two(0, 1), 1, 1},
		{"three replicas execute one task, one blob", three, 1, 0},
		{"two remotes, one shared blob", []ctask{{"x", "A", []int{0}, 0}, {"x", "B", []int{0}, 0}}, 1, 1},
		{"one remote, two tags, same blob", []ctask{{"x", "A", []int{0}, 0}, {"y", "A", []int{0}, 0}}, 1, 1},
	}
	if thorough {
		scs = append(scs,
			fscenario{"two replicas execute one task, one blob", two(0), 3, 2},
			fscenario{"two replicas execute one task, two blobs", two(0, 1), 2, 1},
			fscenario{"three replicas execute one task, one blob", three, 2, 0},
			fscenario{"three replicas execute one task, one blob", three, 1, 1},
			fscenario{"two replicas and a second remote, one blob", mixed, 1, 1},
		)
	}
	return scs
}

func fbody(sc fscenario) func(c *e1q.Ctl) (string, string) {
	return func(c *e1q.Ctl) (obs, vio string) {
		w, err := newCWorld(c, cscenario{sc.label, sc.tasks})
		if err != nil {
			return "", "HARNESS: " + err.Error()
		}
		defer w.close()
		w.faults = sc.maxFail
		ex := tagreplication.NewExecutor(tally.NoopScope, blobclient.NewClusterClient(w), w)
		n := len(sc.tasks)
		type trun struct {
			running bool
			runs    int
			ok      bool
			results []string
		}
		st := make([]trun, n)
		var rmu sync.Mutex
		exec := func(i int) {
			t := sc.tasks[i]
			var deps core.DigestList
			for _, d := range t.deps {
				deps = append(deps, blobDigest[d])
			}
			task := tagreplication.NewTask(t.tag, tagDigest, deps, indexAddr(t.remote), 0)
			rmu.Lock()
			task.Failures = st[i].runs
			st[i].running = true
			st[i].runs++
			rmu.Unlock()
			go func() {
				err := ex.Exec(task)
				rmu.Lock()
				defer rmu.Unlock()
				st[i].running = false
				if err != nil {
					st[i].results = append(st[i].results, "error")
					return
				}
				st[i].ok = true
				st[i].results = append(st[i].results, "nil")
				// Exec returned nil: the manager drops the task, nobody retries it
				w.mu.Lock()
				got, ok := w.remoteTag[t.remote+"|"+t.tag]
				w.mu.Unlock()
				if !ok || got != tagDigest {
					w.violate("concurrent replications: Exec returned nil although the remote build-index does not hold the tag\ntask " + t.name())
				}
			}()
		}
		// replicas of one task are interchangeable: replica k+1 is started only
		// after replica k (symmetry reduction, loses no behaviour)
		prevReplicaStarted := func(i int) bool {
			t := sc.tasks[i]
			if t.rep <= 1 {
				return true
			}
			for j, u := range sc.tasks {
				if u.tag == t.tag && u.remote == t.remote && u.rep == t.rep-1 {
					return st[j].runs > 0
				}
			}
			return true
		}
		retried := false
		actions := func() []e1q.Action {
			rmu.Lock()
			defer rmu.Unlock()
			var as []e1q.Action
			for i := range sc.tasks {
				i := i
				s := st[i]
				switch {
				case s.running || s.ok:
				case s.runs == 0 && prevReplicaStarted(i):
					as = append(as, e1q.Action{Label: "start Exec " + sc.tasks[i].name(), Run: func() { exec(i) }})
				case s.runs > 0 && s.runs <= sc.maxRetry:
					as = append(as, e1q.Action{Label: "retry Exec " + sc.tasks[i].name(), Run: func() { retried = true; exec(i) }})
				}
			}
			return as
		}
		for c.Step(actions) {
		}
		// closing phase: no call fails any more; every task that has not
		// returned nil is executed once more, alone
		w.mu.Lock()
		w.faults = 0
		w.mu.Unlock()
		closing := 0
		for i, t := range sc.tasks {
			rmu.Lock()
			skip := st[i].running || st[i].ok
			rmu.Unlock()
			if skip {
				continue
			}
			closing++
			exec(i)
			c.Drain()
			rmu.Lock()
			s := st[i]
			rmu.Unlock()
			if !s.running && !s.ok {
				w.violate("concurrent replications: closing phase: Exec fails although no remote call fails any more\ntask " + t.name())
			}
		}
		// every Exec must have returned (a caller still blocked inside kraken is
		// also reported by the bubble as a deadlock)
		rmu.Lock()
		defer rmu.Unlock()
		var parts []string
		for i, t := range sc.tasks {
			r := strings.Join(st[i].results, ",")
			if st[i].running {
				r += ",blocked"
				w.violate("concurrent replications: an Exec never returns\ntask " + t.name())
			}
			parts = append(parts, t.name()+":"+r)
		}
		w.mu.Lock()
		defer w.mu.Unlock()
		var held []string
		for k := range w.remoteBlob {
			h := k
			if !w.confirmed[k] {
				h += "(unconfirmed)"
			}
			held = append(held, h)
		}
		sort.Strings(held)
		obs = fmt.Sprintf("%s remote-blobs=%s failed-uploads=%d(503:%d,lost:%d) same-key-overlap=%v fail-in-overlap=%v retried=%v closing=%d",
			strings.Join(parts, " "), strings.Join(held, ","), w.nfail, w.nfail-w.nlost, w.nlost, w.sameKeyOverlap, w.failInOverlap, retried, closing)
		if w.dummy.stray > 0 {
			w.stray = append(w.stray, w.dummy.events...)
		}
		if len(w.stray) > 0 && w.vio == "" {
			w.vio = "HARNESS: " + strings.Join(w.stray, "; ")
		}
		if w.vio != "" {
			vio = w.vio + "\norder: " + strings.Join(c.Trace, "; ") + "\nend: " + obs
		}
		return obs, vio
	}
}

func fharness(sc fscenario) *vrt.Harness {
	return e1q.Harness(sc.name(), 64, fbody(sc))
}
