// Package vbackoff stands in for github.com/cenkalti/backoff inside
// origin/blobclient's cluster_client.go: everything is the real library except
// SystemClock, which reads the virtual clock of package vtime so that the
// hard-coded 15 minute budget of ClusterClient's back-off elapses in virtual time.
package vbackoff

import (
	"time"

	"github.com/cenkalti/backoff"

	"verif/checks/c33/vtime"
)

type BackOff = backoff.BackOff
type ExponentialBackOff = backoff.ExponentialBackOff

const Stop = backoff.Stop

type vclock struct{}

func (vclock) Now() time.Time { return vtime.Now() }

// SystemClock is the virtual clock.
var SystemClock backoff.Clock = vclock{}
