//go:build go1.25

// C33: tags reach a remote cluster only after their blobs do.
//
// E1(seq): one controlled thread runs the REAL tagreplication.Executor over the
// REAL blobclient.ClusterClient (ReplicateToRemote -> Poll) over fake origin
// blobclient.Clients and a fake remote build-index tag client. Every answer the
// environment gives to a call is a vrt.Choose: the explorer enumerates every
// fault sequence with at most `bound` non-default answers. A task is executed
// up to `attempts` times in the fault phase (the persisted-retry manager, C30,
// re-runs an Exec that returned an error and drops a task whose Exec returned
// nil); then a closing phase (every answer ok) executes it once more.
//
// ClusterClient hard-codes its Poll back-off (1 s .. 5 s, 15 minutes,
// backoff.SystemClock): overlay.spec.json redirects the `time` and `backoff`
// imports of cluster_client.go to checks/c33/vtime and vbackoff (the device of
// checks/c35), so "202 until the back-off stops" takes 15 virtual minutes.
package main

import (
	"context"
	"encoding/json"
	"errors"
	"fmt"
	"io"
	"os"
	"sort"
	"strings"
	"testing"
	"time"

	"github.com/uber-go/tally"
	"github.com/uber/kraken/build-index/tagclient"
	"github.com/uber/kraken/build-index/tagmodels"
	"github.com/uber/kraken/core"
	"github.com/uber/kraken/lib/persistedretry/tagreplication"
	"github.com/uber/kraken/origin/blobclient"
	"github.com/uber/kraken/utils/httputil"

	"verif/checks/c33/vtime"
	"verif/e1q"
	"verif/evid"
	_ "verif/quiet"
	"verif/rep"
	"verif/vrt"
)

// ---------------------------------------------------------------- domain

const (
	theTag       = "repo/app:v1"
	remoteIndex  = "build-index.remote:7000" // task destination (remote build-index)
	remoteOrigin = "origin.remote:9003"      // what the remote build-index names as its origin cluster
)

func mkDigest(s string) core.Digest {
	d, err := core.NewDigester().FromBytes([]byte(s))
	if err != nil {
		panic(err)
	}
	return d
}

var (
	tagDigest = mkDigest("manifest of repo/app:v1")
	depDigest = []core.Digest{mkDigest("layer 1"), mkDigest("layer 2")}
)

func depName(d core.Digest) string {
	for i, x := range depDigest {
		if x == d {
			return fmt.Sprintf("dep%d", i+1)
		}
	}
	return "dep?"
}

type scenario struct {
	deps, origins, attempts int
}

func (sc scenario) name() string {
	return fmt.Sprintf("deps=%d origins=%d attempts=%d", sc.deps, sc.origins, sc.attempts)
}

// ---------------------------------------------------------------- the fake world

var errNet = httputil.NetworkError{}

func status(method, url string, code int) error {
	return httputil.StatusError{Method: method, URL: url, Status: code}
}

// world is the remote cluster + the local origins as the executor sees them.
type world struct {
	sc  scenario
	env bool // fault phase: answers are environment choices; closing phase: every answer is ok

	confirmed map[string]bool        // dependency -> some local origin answered 200 to "replicate to <remoteOrigin>" (the blob is in the remote origin cluster)
	remoteTag map[string]core.Digest // tags the remote build-index holds

	// per Exec
	sticky    map[string]string // origin|dep -> "then-ok" | "forever" (the blob is still being fetched)
	n202      int
	putCalled bool
	fallback  bool
	hasHit    bool

	events []string
	vio    string
	harn   string // harness error (environment misuse), reported as a violation of no property
	stray  int
}

func (w *world) ev(format string, a ...interface{}) {
	if len(w.events) < 200 {
		w.events = append(w.events, fmt.Sprintf(format, a...))
	}
}

func (w *world) violate(msg string) {
	if w.vio == "" {
		w.vio = msg
	}
}

func (w *world) choose(n int, label string) int {
	if !w.env {
		return 0
	}
	return vrt.Choose(n, label)
}

// --- local origins (blobclient.Client)

type originClient struct {
	w *world
	i int
}

var replAnswers = []string{"ok", "202 then ok", "202 until back-off stops", "503", "404", "network error"}

func (o originClient) Addr() string { return fmt.Sprintf("origin%d:80", o.i+1) }

func (o originClient) ReplicateToRemote(namespace string, d core.Digest, remoteDNS string) error {
	w := o.w
	key := fmt.Sprintf("origin%d|%s", o.i+1, depName(d))
	url := "http://" + o.Addr() + "/namespace/x/blobs/" + d.Hex() + "/remote/" + remoteDNS
	if o.i > 0 {
		w.fallback = true
	}
	ok := func() error {
		if remoteDNS == remoteOrigin {
			w.confirmed[depName(d)] = true
		} else {
			w.ev("%s replicated to WRONG remote %q", key, remoteDNS)
		}
		return nil
	}
	switch w.sticky[key] {
	case "forever":
		w.n202++
		return status("POST", url, 202)
	case "then-ok":
		delete(w.sticky, key)
		w.ev("%s -> ok (after 202)", key)
		return ok()
	}
	a := w.choose(len(replAnswers), "replicate "+key)
	w.ev("%s -> %s", key, replAnswers[a])
	switch a {
	case 0:
		return ok()
	case 1:
		w.sticky[key] = "then-ok"
		w.n202++
		return status("POST", url, 202)
	case 2:
		w.sticky[key] = "forever"
		w.n202++
		return status("POST", url, 202)
	case 3:
		return status("POST", url, 503)
	case 4:
		return status("POST", url, 404)
	default:
		return errNet
	}
}

func (o originClient) unexpected(what string) error {
	o.w.stray++
	o.w.ev("unexpected origin call %s", what)
	return errors.New("c33: unexpected call " + what)
}

func (o originClient) CheckReadiness() error { return o.unexpected("CheckReadiness") }
func (o originClient) Locations(core.Digest) ([]string, error) {
	return nil, o.unexpected("Locations")
}
func (o originClient) DeleteBlob(core.Digest) error { return o.unexpected("DeleteBlob") }
func (o originClient) TransferBlob(core.Digest, io.Reader, uint64) error {
	return o.unexpected("TransferBlob")
}
func (o originClient) Stat(string, core.Digest) (*core.BlobInfo, error) {
	return nil, o.unexpected("Stat")
}
func (o originClient) StatLocal(string, core.Digest) (*core.BlobInfo, error) {
	return nil, o.unexpected("StatLocal")
}
func (o originClient) GetMetaInfo(string, core.Digest) (*core.MetaInfo, error) {
	return nil, o.unexpected("GetMetaInfo")
}
func (o originClient) OverwriteMetaInfo(core.Digest, int64) error {
	return o.unexpected("OverwriteMetaInfo")
}
func (o originClient) UploadBlob(context.Context, string, core.Digest, io.Reader, uint64) error {
	return o.unexpected("UploadBlob")
}
func (o originClient) DuplicateUploadBlob(string, core.Digest, io.Reader, uint64, time.Duration) error {
	return o.unexpected("DuplicateUploadBlob")
}
func (o originClient) DownloadBlob(context.Context, string, core.Digest, io.Writer) error {
	return o.unexpected("DownloadBlob")
}
func (o originClient) PrefetchBlob(string, core.Digest) error { return o.unexpected("PrefetchBlob") }
func (o originClient) GetPeerContext() (core.PeerContext, error) {
	return core.PeerContext{}, o.unexpected("GetPeerContext")
}
func (o originClient) ForceCleanup(time.Duration) error { return o.unexpected("ForceCleanup") }

// Resolve: the ordered, stable list of local origins owning d.
func (w *world) Resolve(d core.Digest) ([]blobclient.Client, error) {
	var cs []blobclient.Client
	for i := 0; i < w.sc.origins; i++ {
		cs = append(cs, originClient{w, i})
	}
	return cs, nil
}

// --- remote build-index (tagclient.Client)

type remoteTagClient struct {
	w    *world
	addr string
}

var (
	hasAnswers    = []string{"truthful", "503"}
	originAnswers = []string{"ok", "503"}
	putAnswers    = []string{"ok", "503", "409", "network error", "stored but response lost"}
)

func (w *world) Provide(addr string) tagclient.Client { return remoteTagClient{w, addr} }

func (c remoteTagClient) right(what string) bool {
	if c.addr != remoteIndex {
		c.w.ev("%s sent to WRONG build-index %q", what, c.addr)
		return false
	}
	return true
}

func (c remoteTagClient) Has(tag string) (bool, error) {
	w := c.w
	a := w.choose(len(hasAnswers), "has")
	w.ev("has -> %s", hasAnswers[a])
	if a == 1 {
		return false, status("HEAD", "http://"+c.addr+"/tags/x", 503)
	}
	_, ok := w.remoteTag[tag]
	ok = ok && c.right("has")
	if ok {
		w.hasHit = true
	}
	return ok, nil
}

func (c remoteTagClient) Origin() (string, error) {
	w := c.w
	a := w.choose(len(originAnswers), "origin")
	w.ev("origin -> %s", originAnswers[a])
	if a == 1 {
		return "", status("GET", "http://"+c.addr+"/origin", 503)
	}
	if !c.right("origin") {
		return "origin.elsewhere:9003", nil
	}
	return remoteOrigin, nil
}

func (c remoteTagClient) PutAndReplicate(tag string, d core.Digest) error {
	w := c.w
	w.putCalled = true
	// the oracle of the first clause: at the moment the remote build-index is
	// asked to store the tag, every dependency has been confirmed present in
	// the remote origin cluster
	var missing []string
	for i := 0; i < w.sc.deps; i++ {
		if n := depName(depDigest[i]); !w.confirmed[n] {
			missing = append(missing, n)
		}
	}
	if len(missing) > 0 {
		w.violate(fmt.Sprintf("PutAndReplicate was sent to the remote build-index before every dependency was confirmed present in the remote origin cluster\nunconfirmed: %v", missing))
	}
	a := w.choose(len(putAnswers), "put")
	w.ev("put -> %s", putAnswers[a])
	url := "http://" + c.addr + "/tags/x/digest/y?replicate=true"
	store := func() {
		if c.right("put") {
			w.remoteTag[tag] = d
		}
	}
	switch a {
	case 0:
		store()
		return nil
	case 1:
		return status("PUT", url, 503)
	case 2:
		return status("PUT", url, 409)
	case 3:
		return errNet
	default:
		store()
		return errNet
	}
}

func (c remoteTagClient) unexpected(what string) error {
	c.w.stray++
	c.w.ev("unexpected build-index call %s", what)
	return errors.New("c33: unexpected call " + what)
}

func (c remoteTagClient) CheckReadiness() error         { return c.unexpected("CheckReadiness") }
func (c remoteTagClient) Put(string, core.Digest) error { return c.unexpected("Put") }
func (c remoteTagClient) Get(string) (core.Digest, error) {
	return core.Digest{}, c.unexpected("Get")
}
func (c remoteTagClient) List(string) ([]string, error) { return nil, c.unexpected("List") }
func (c remoteTagClient) ListWithPagination(string, tagclient.ListFilter) (tagmodels.ListResponse, error) {
	return tagmodels.ListResponse{}, c.unexpected("ListWithPagination")
}
func (c remoteTagClient) ListRepository(string) ([]string, error) {
	return nil, c.unexpected("ListRepository")
}
func (c remoteTagClient) ListRepositoryWithPagination(string, tagclient.ListFilter) (tagmodels.ListResponse, error) {
	return tagmodels.ListResponse{}, c.unexpected("ListRepositoryWithPagination")
}
func (c remoteTagClient) Replicate(string) error { return c.unexpected("Replicate") }
func (c remoteTagClient) DuplicateReplicate(string, core.Digest, core.DigestList, time.Duration) error {
	return c.unexpected("DuplicateReplicate")
}
func (c remoteTagClient) DuplicatePut(string, core.Digest, time.Duration) error {
	return c.unexpected("DuplicatePut")
}

// ---------------------------------------------------------------- one execution

func (w *world) beginExec(env bool) {
	w.env = env
	w.sticky = map[string]string{}
	w.n202 = 0
	w.putCalled, w.fallback, w.hasHit = false, false, false
}

// classify names the outcome class of one Exec (observation; low cardinality).
func (w *world) classify(err error, slept time.Duration) string {
	var c string
	switch {
	case err == nil && w.putCalled:
		c = "ok-put"
	case err == nil && w.hasHit:
		c = "ok-has"
	case err == nil:
		c = "ok-?"
	case strings.HasPrefix(err.Error(), "lookup remote origin cluster"):
		c = "err-origin-lookup"
	case strings.HasPrefix(err.Error(), "origin cluster replicate"):
		c = "err-replicate"
	case strings.HasPrefix(err.Error(), "put and replicate tag"):
		c = "err-put"
	default:
		c = "err-other"
	}
	if w.n202 > 0 {
		c += "+202"
	}
	if slept >= 15*time.Minute {
		c += "+timeout"
	}
	if w.fallback {
		c += "+fallback"
	}
	return c
}

func body(sc scenario) (obs, vio string) {
	vtime.Reset()
	w := &world{sc: sc, confirmed: map[string]bool{}, remoteTag: map[string]core.Digest{}}
	ex := tagreplication.NewExecutor(tally.NoopScope, blobclient.NewClusterClient(w), w)
	task := tagreplication.NewTask(theTag, tagDigest, core.DigestList(depDigest[:sc.deps]), remoteIndex, 0)
	var classes []string
	done := false
	oneExec := func(env bool, phase string) error {
		w.beginExec(env)
		w.ev("--- Exec (%s)", phase)
		before, _ := vtime.Elapsed()
		err := ex.Exec(task)
		after, _ := vtime.Elapsed()
		cl := w.classify(err, after-before)
		classes = append(classes, phase+"="+cl)
		if err != nil {
			w.ev("Exec -> error: %s", firstLine(err.Error()))
			task.Failures++
			return err
		}
		w.ev("Exec -> nil")
		// Exec returned nil: the manager removes the task, nobody retries it.
		got, ok := w.remoteTag[theTag]
		switch {
		case !ok:
			w.violate("Exec returned nil although the remote build-index does not hold the tag (the task is dropped, replication is never retried)\nlast Exec class: " + cl)
		case got != tagDigest:
			w.violate("Exec returned nil but the remote build-index holds another digest for the tag")
		}
		return nil
	}
	for a := 1; a <= sc.attempts && !done; a++ {
		if oneExec(true, fmt.Sprintf("x%d", a)) == nil {
			done = true
		}
	}
	if !done {
		// closing phase: every remote call succeeds
		if err := oneExec(false, "close"); err != nil {
			w.violate("closing phase: Exec fails although every remote call succeeds\n" + firstLine(err.Error()))
		}
	}
	if w.stray > 0 && w.vio == "" {
		w.vio = fmt.Sprintf("HARNESS: %d calls outside the replication protocol reached the fakes", w.stray)
	}
	obs = strings.Join(classes, " ")
	if w.vio != "" {
		vio = w.vio + "\ntrace: " + strings.Join(w.events, "; ")
	}
	return obs, vio
}

func firstLine(s string) string {
	s = strings.SplitN(s, "\n", 2)[0]
	if len(s) > 160 {
		s = s[:160] + "..."
	}
	return s
}

// ---------------------------------------------------------------- harnesses

func harness(sc scenario) *vrt.Harness {
	return &vrt.Harness{Name: sc.name(), Horizon: 100000, Body: func() (string, string) { return body(sc) }}
}

func scenarios(thorough bool) []scenario {
	at := 3
	if thorough {
		at = 4
	}
	var scs []scenario
	for deps := 1; deps <= 2; deps++ {
		for origins := 1; origins <= 2; origins++ {
			scs = append(scs, scenario{deps, origins, at})
		}
	}
	return scs
}

func allHarnesses() []*vrt.Harness {
	var hs []*vrt.Harness
	for _, th := range []bool{false, true} {
		for _, sc := range scenarios(th) {
			hs = append(hs, harness(sc))
		}
	}
	for _, sc := range cscenarios(true) {
		hs = append(hs, charness(sc))
	}
	for _, sc := range fscenarios(true) {
		hs = append(hs, fharness(sc))
	}
	return hs
}

func replay(run *evid.Run, path string) {
	b, err := os.ReadFile(path)
	if err != nil {
		run.Fatal(err)
	}
	var f struct {
		Case struct {
			Harness string
			Choices []int
		} `json:"case"`
	}
	if err := json.Unmarshal(b, &f); err != nil {
		run.Fatal(err)
	}
	for _, h := range allHarnesses() {
		if h.Name == f.Case.Harness {
			_, obs, vio := vrt.Replay(h, f.Case.Choices)
			fmt.Printf("replay %s choices %v\n  observation: %s\n", h.Name, f.Case.Choices, obs)
			if vio != "" {
				fmt.Printf("  => %s\n", vio)
				os.Exit(1)
			}
			os.Exit(0)
		}
	}
	run.Fatal(fmt.Errorf("replay: no harness %q", f.Case.Harness))
}

func main() {
	args := os.Args // e1q.Main truncates os.Args for the testing package; evid.New needs the tier argument
	e1q.Main(func(t *testing.T) {
		os.Args = args
		mainT()
	})
}

func mainT() {
	vrt.WorkerMain(allHarnesses())
	run := evid.New("C33", "exploration")
	run.Rule = "E1(seq): per scenario (1-2 dependencies x 1-2 local origins), ONE controlled thread executes a tag-replication task with the real tagreplication.Executor over the real blobclient.ClusterClient (ReplicateToRemote -> Poll, hard-coded back-off on a virtual clock) up to `attempts` times (stopping at the first nil, as the persisted-retry manager does) and then once more in a closing phase where every answer is ok. Every environment answer is a vrt.Choose: remote build-index Has {truthful, 503}, Origin {ok, 503}, PutAndReplicate {ok, 503, 409, network error, stored but response lost}; each local origin's ReplicateToRemote {ok, 202 then ok, 202 until the back-off stops, 503, 404, network error}. The explorer enumerates every answer sequence with at most `bound` non-default answers. Oracle: whenever PutAndReplicate reaches the remote build-index every dependency has been answered ok by a local origin for that remote origin cluster; Exec returns nil only if the remote build-index holds the tag with the task's digest; the closing Exec returns nil. distinct = distinct outcome classes (per-Exec result class incl. 202 / back-off timeout / origin fall-back flags) per scenario. PART 2, E1q (testing/synctest bubble): 2-3 tasks (two remote clusters A, B and/or two tags, 1-2 dependency blobs) are executed by concurrent real Executor.Exec calls over the real ClusterClient in front of the REAL blobserver.Server (replicate-to-remote requests served by Server.Handler().ServeHTTP, blobs in a real CAStore); seams = each remote origin cluster's UploadBlob (parks while the upload is in flight; on release reads the bytes the origin sends and records that remote origin R holds the blob) and each remote build-index's PutAndReplicate; EVERY order of the actions 'start Exec <task>' and of the parked seams is executed. Oracle: when PutAndReplicate reaches build-index R, remote origin R has really received every dependency blob of that task; Exec nil => build-index R holds the tag; every Exec returns. PART 3, E1q: the world of part 2 with (a) the SAME task (same tag, remote, dependency blobs) executed by 2-3 build-index replicas at once (plus: one tag to two remotes; two tags sharing a blob on one remote; thorough: two replicas and a second remote), so that several replicate-to-remote requests for the same (remote, namespace, blob) are inside the real origin handler together, (b) the outcome of every released upload an environment answer {ok; 503, nothing stored; bytes stored but the response is lost}, at most maxFail non-ok answers per execution, (c) 'retry Exec <task>' as a further action for a task whose Exec returned an error (at most maxRetry per task); EVERY order of start/retry actions and parked seams with every outcome is executed, then a closing phase executes every task that has not returned nil once more, alone, without failures. Oracle: when PutAndReplicate reaches build-index R an UploadBlob of every dependency blob of that task to remote origin R has returned success to the local origin (confirmed present); Exec nil => build-index R holds the tag; the closing Exec returns nil; every Exec returns. Vacuity counters: orders in which two requests for the same (remote, namespace, blob) overlapped in the handler, and in which an upload failed during such an overlap. PART 4, E3 (breadth-first search over histories, one expansion per distinct state, successors by replay on a fresh system): RE-PUSHED tags on ONE long-lived system = sqlite database with the real localdb schema + real tagreplication.Store + real tagreplication.Remotes + the real persistedretry manager (built by NewManager, its goroutines stopped at once; the harness calls Add, one worker iteration on the incoming or the retries queue, pollRetries) + real Executor over the real ClusterClient, against a fake local origin and fake remote clusters. Alphabet: push <tag>=<image> for 1-2 tags x 2-3 images (A=[L1,mA], B=[L2,mB] disjoint, C=[L1,L2,mC] overlapping both; a push adds one task per destination as tagserver.replicateTag does, 1-2 remote clusters); work <queue> with every call succeeding or with exactly one failing call out of {Has 503, Origin 503, k-th ReplicateToRemote 503 (k=1..3), PutAndReplicate 503, PutAndReplicate stored but response lost}; poll; restart (database re-opened, NewStore, NewManager: pending tasks become failed, queues are lost); settle (no failure any more: drain queues and poll until no task is stored). EVERY history up to the depth bound is executed. Oracle: when PutAndReplicate(tag, d) reaches remote build-index R every dependency blob OF THE IMAGE WITH DIGEST d (the manifest d itself included) has been answered 200 by the local origin for remote origin cluster R; Exec nil => R holds the tag; after settle every pushed (tag, destination) is held by its remote and the store is empty. distinct (part 4) = classes of executed tasks (queue the task came from x injected fault x result x number of dependencies x whether the task's digest is older than the latest push)."
	run.Assume("the persisted-retry manager (C30) re-runs a task whose Exec returned an error and drops one whose Exec returned nil: 'retried until the remote holds the tag' is checked as 'Exec returns nil only if the remote holds the tag' + 'with every call succeeding Exec returns nil'")
	run.Assume("'confirmed present in the remote origin cluster' = some local origin answered 200 to the replicate-to-remote request for that blob and that remote origin cluster, in this or an earlier execution of the task (the fakes never lose a blob)")
	run.Assume("ClusterClient's Poll back-off is hard-coded: the build overlay redirects the time/backoff imports of cluster_client.go to a process-wide virtual clock, reset per execution (kraken's source is unchanged; the import rewrite is trusted to preserve semantics)")
	run.Assume("small-scope (part 4): 1-2 tags, 1-2 remote clusters, 2-3 images, one local origin, at most one failing call per Exec, no 202 answers, history depth 6-8 (thorough 5-10) as named per search")
	run.Assume("small-scope: part 1 one tag, 1-2 dependencies, 1-2 origins, one remote; part 2 2-3 concurrent tasks, 2 remotes, 1-2 blobs, one local origin, no injected failures; part 3 2-3 concurrent tasks of which 2-3 may be the same task, 1-2 blobs, 1-3 failing uploads and 0-2 retries per task as named per scenario, only uploads fail; a remote build-index that answers Has never lies")
	run.Assume("part 3: replicas of one task are interchangeable, replica k+1 is started only after replica k (symmetry reduction); 'confirmed present in remote origin cluster R' = some UploadBlob of that blob to R returned success to the local origin (by any request: blobs are content-addressed and the fakes never lose a blob)")
	run.Assume("parts 2-3: the HTTP hop between the cluster client and the origin is replaced by a direct Handler().ServeHTTP call (non-200 status -> httputil.StatusError as blobclient.HTTPClient returns it); scheduling granularity = the seam points (upload in flight / released, put in flight / released, task start), code between two seams runs atomically")
	run.Assume("part 4: the dependency list of an image is fixed ground truth (what a tagtype resolver returns for its manifest: the layers, then the manifest itself); 'every dependency blob' of a put of tag->d means the dependencies of d, whatever list the stored task carries; which of several pushed digests a remote ends up with is not decided by the statement (kraken keeps the queued task and drops the re-push; a remote that already holds the tag is not updated) and is not checked")
	run.Assume("part 4: the persisted-retry manager's goroutines are replaced by harness steps (one worker iteration = receive one task + manager.exec; one poller tick = manager.pollRetries) through an export file added to lib/persistedretry by the build overlay; steps are atomic (interleavings inside the manager are property C30); RetryInterval 1ns, tasks have no delay (sqlite timestamps are wall-clock), queue buffers 1-2 so that the queue-full path (task marked failed instead of enqueued) is inside the bound; every instance works on a copy of a database file created and migrated once by the real localdb.New, opened with the same driver settings")
	if p := run.ReplayPath(); p != "" {
		replay(run, p)
		return
	}
	thorough := run.Thorough()
	bound, budget := 3, 50
	if thorough {
		bound, budget = 4, 13*60
	}
	run.Set("deviation_bound", bound)
	fp := func(v vrt.Violation) string {
		if strings.HasPrefix(v.Msg, "HARNESS:") {
			run.Fatal(fmt.Errorf("%s (harness %s, choices %v)", v.Msg, v.Harness, v.Choices))
		}
		return strings.TrimSpace(strings.SplitN(v.Msg, "\n", 2)[0])
	}
	started := time.Now()
	deadline := started.Add(time.Duration(budget) * time.Second)
	scs := scenarios(thorough)
	need := map[string]int{}
	markers := []string{"ok-put", "ok-has", "err-origin-lookup", "err-replicate", "err-put", "+202", "+timeout", "+fallback", "close=ok-put", "close=ok-has", "x2=", "x3="}
	for _, sc := range scs {
		h := harness(sc)
		// determinism: the same choices give the same observation
		for _, ch := range [][]int{nil, {0, 0, 2}, {1, 1, 3, 1}, {0, 0, 1, 0, 4}} {
			_, o1, _ := vrt.Replay(h, ch)
			_, o2, _ := vrt.Replay(h, ch)
			if o1 != o2 {
				run.Fatal(fmt.Errorf("non-deterministic replay in %s for %v: %q vs %q", h.Name, ch, o1, o2))
			}
		}
		left := int(time.Until(deadline).Seconds())
		if left < 1 {
			left = 1
		}
		// quick explores a few thousand executions per scenario: in-process is
		// faster than starting shard worker processes
		workers := 1
		if thorough && evid.Workers() > 1 {
			workers = 4
		}
		res := rep.VRT(run, h, bound, workers, left, fp)
		var keys []string
		for k, n := range res.Outcomes {
			keys = append(keys, k)
			for _, m := range markers {
				if strings.Contains(k, m) {
					need[m] += n
				}
			}
		}
		sort.Strings(keys)
		fmt.Printf("  %s: executions=%d outcome classes=%d max choice points=%d completed=%v\n", h.Name, res.Executions, len(res.Outcomes), res.MaxPoints, res.Completed)
	}
	exs := map[string]int{}
	for _, m := range markers {
		exs[m] = need[m]
	}
	run.Set("executions_by_outcome_marker", exs)

	// part 2 (E1q): overlapping Exec runs through the real origin handler
	cneed := map[string]int{}
	cmarkers := []string{"same-blob-overlap=true", "any-overlap=true", "any-overlap=false"}
	for _, sc := range cscenarios(thorough) {
		h := charness(sc)
		for _, ch := range [][]int{nil, {1, 0, 1}, {0, 1, 1, 0, 1}} {
			_, o1, _ := vrt.Replay(h, ch)
			_, o2, _ := vrt.Replay(h, ch)
			if o1 != o2 {
				run.Fatal(fmt.Errorf("non-deterministic replay in %s for %v: %q vs %q", h.Name, ch, o1, o2))
			}
		}
		left := int(time.Until(deadline).Seconds())
		if left < 1 {
			left = 1
		}
		// bound 64 >= number of steps of any execution: every order
		res := rep.VRT(run, h, 64, 1, left, fp)
		blocked, failed := 0, 0
		for k, n := range res.Outcomes {
			for _, m := range cmarkers {
				if strings.Contains(k, m) {
					cneed[m] += n
				}
			}
			if strings.Contains(k, ":blocked") || strings.HasPrefix(k, "DEADLOCK") {
				blocked += n
			}
			if strings.Contains(k, ":error") {
				failed += n
			}
		}
		if run.NViolations() == 0 && (blocked > 0 || failed > 0) {
			run.Fatal(fmt.Errorf("%s: %d orders left an Exec blocked and %d made one fail although no failure is injected in this part", h.Name, blocked, failed))
		}
		fmt.Printf("  %s: orders=%d outcome classes=%d max steps=%d completed=%v\n", h.Name, res.Executions, len(res.Outcomes), res.MaxPoints, res.Completed)
	}
	cexs := map[string]int{}
	for _, m := range cmarkers {
		cexs[m] = cneed[m]
	}
	run.Set("concurrent_orders_by_marker", cexs)

	// part 3 (E1q): overlapping Exec runs of the SAME task (and of tasks sharing
	// a blob) through the real origin handler, with failing uploads and retries
	fneed := map[string]int{}
	fmarkers := []string{"same-key-overlap=true", "fail-in-overlap=true", "failed-uploads=0", "failed-uploads=1", "failed-uploads=2", "503:1", "lost:1", "retried=true", "closing=1", ":error,nil", ":error,error"}
	for _, sc := range fscenarios(thorough) {
		h := fharness(sc)
		for _, ch := range [][]int{nil, {0, 0, 0, 1}, {0, 0, 1, 2, 0, 1}, {0, 1, 0, 1, 1}} {
			_, o1, _ := vrt.Replay(h, ch)
			_, o2, _ := vrt.Replay(h, ch)
			if o1 != o2 {
				run.Fatal(fmt.Errorf("non-deterministic replay in %s for %v: %q vs %q", h.Name, ch, o1, o2))
			}
		}
		left := int(time.Until(deadline).Seconds())
		if left < 1 {
			left = 1
		}
		workers := 1
		if thorough && evid.Workers() > 1 {
			workers = 4
		}
		// bound 64 >= number of steps of any execution: every order and every outcome
		t0 := time.Now()
		res := rep.VRT(run, h, 64, workers, left, fp)
		blocked := 0
		for k, n := range res.Outcomes {
			for _, m := range fmarkers {
				if strings.Contains(k, m) {
					fneed[m] += n
				}
			}
			if strings.Contains(k, "blocked") || strings.HasPrefix(k, "DEADLOCK") {
				blocked += n
			}
		}
		if run.NViolations() == 0 && blocked > 0 {
			run.Fatal(fmt.Errorf("%s: %d orders left an Exec blocked without a violation being reported", h.Name, blocked))
		}
		fmt.Printf("  %s: orders=%d outcome classes=%d max steps=%d completed=%v (%.0fs)\n", h.Name, res.Executions, len(res.Outcomes), res.MaxPoints, res.Completed, time.Since(t0).Seconds())
	}
	fexs := map[string]int{}
	for _, m := range fmarkers {
		fexs[m] = fneed[m]
	}
	run.Set("faulty_concurrent_orders_by_marker", fexs)

	// part 4 (E3): histories with re-pushed tags on one long-lived store +
	// manager + executor (own time budget)
	rbudget := 60
	if thorough {
		// whatever parts 1-3 left of 14.5 minutes, at least 2 and at most 5 minutes
		rbudget = int(time.Until(started.Add(14*time.Minute + 30*time.Second)).Seconds())
		if rbudget > 5*60 {
			rbudget = 5 * 60
		}
		if rbudget < 2*60 {
			rbudget = 2 * 60
		}
	}
	repushPart(run, thorough, rbudget)
	if run.NViolations() == 0 {
		for _, m := range markers {
			if need[m] == 0 {
				run.Fatal(errors.New("vacuous: no execution with outcome marker " + m))
			}
		}
		for _, m := range cmarkers {
			if cneed[m] == 0 {
				run.Fatal(errors.New("vacuous: no concurrent order with " + m))
			}
		}
		for _, m := range fmarkers {
			if fneed[m] == 0 {
				run.Fatal(errors.New("vacuous: no faulty concurrent order with " + m))
			}
		}
	}
	run.Finish()
}
