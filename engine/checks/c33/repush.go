//go:build go1.25

// C33, part 4 (engine E3, explicit-state search over histories): RE-PUSHED tags.
//
// Parts 1-3 hand the executor a task object the harness built itself, one push
// per tag. In a build-index the task the executor sees on a retry is whatever
// the persisted-retry manager loads from the tagreplication.Store, and a tag
// can be pushed again (another image: another digest, another dependency set)
// while an earlier replication task for the same (tag, destination) is still
// queued, pending or failed. What the remote build-index is then asked to store
// is decided by the store row + the manager's queues, so here the history runs
// on ONE long-lived system:
//
//	real localdb schema (sqlite file) -> real tagreplication.Store
//	real tagreplication.Remotes (destinations of a tag, task validation on restart)
//	real persistedretry manager (NewManager; its goroutines are stopped at once
//	     and the harness calls Add / one worker iteration / pollRetries itself)
//	real tagreplication.Executor over the real blobclient.ClusterClient
//	fake local origin + fake remote clusters (blobs confirmed, tags held)
//
// Alphabet: push <tag>=<image> (what tagserver.replicateTag does: one Add per
// matching destination), work <queue> [with one failing remote call], poll
// (one tick of the retry poller), restart (the process restarts: database
// re-opened, NewStore, NewManager), settle (the remote has recovered: poll and
// work without failures until the store is empty). Breadth-first over ALL
// histories up to the depth bound, one expansion per distinct state.
//
// Oracle (the statement): when PutAndReplicate(tag, d) reaches remote
// build-index R every dependency blob OF d has been confirmed present in remote
// origin cluster R; an Exec that returns nil (the manager drops the task)
// leaves R holding the tag; after settle every pushed (tag, destination) is
// held by its remote and no task is left.
package main

import (
	"errors"
	"fmt"
	"os"
	"path/filepath"
	"sort"
	"strings"
	"sync"
	"time"

	"github.com/jmoiron/sqlx"
	"github.com/pressly/goose"
	"github.com/uber-go/tally"
	"github.com/uber/kraken/build-index/tagclient"
	"github.com/uber/kraken/core"
	"github.com/uber/kraken/lib/persistedretry"
	"github.com/uber/kraken/lib/persistedretry/tagreplication"
	"github.com/uber/kraken/localdb"
	"github.com/uber/kraken/origin/blobclient"
	"github.com/uber/kraken/utils/httputil"

	"verif/bfs"
	"verif/evid"
	"verif/rep"
)

// ---------------------------------------------------------------- domain

// image: what a tag can point to. deps is the dependency list a tagtype
// resolver produces for the manifest `digest` (layers, then the manifest
// itself): the ground truth the oracle uses for "every dependency blob".
type image struct {
	name   string
	digest core.Digest
	deps   core.DigestList
}

var (
	rLayer = []core.Digest{mkDigest("re-push: layer 1"), mkDigest("re-push: layer 2")}
	// A and B are disjoint; C overlaps both (a superset of their layers)
	rImages = func() []image {
		ma, mb, mc := mkDigest("re-push: manifest A"), mkDigest("re-push: manifest B"), mkDigest("re-push: manifest C")
		return []image{
			{"A", ma, core.DigestList{rLayer[0], ma}},
			{"B", mb, core.DigestList{rLayer[1], mb}},
			{"C", mc, core.DigestList{rLayer[0], rLayer[1], mc}},
		}
	}()
)

func imageOf(d core.Digest) (image, bool) {
	for _, im := range rImages {
		if im.digest == d {
			return im, true
		}
	}
	return image{}, false
}

func rBlob(d core.Digest) string {
	for i, l := range rLayer {
		if l == d {
			return fmt.Sprintf("L%d", i+1)
		}
	}
	if im, ok := imageOf(d); ok {
		return "m" + im.name
	}
	return "?" + d.Hex()[:8]
}

func rImg(d core.Digest) string {
	if im, ok := imageOf(d); ok {
		return im.name
	}
	return "?" + d.Hex()[:8]
}

func rBlobs(l core.DigestList) string {
	var s []string
	for _, d := range l {
		s = append(s, rBlob(d))
	}
	return strings.Join(s, ",")
}

func remoteOfIndex(addr string) string {
	for _, r := range []string{"A", "B"} {
		if addr == indexAddr(r) {
			return r
		}
	}
	return ""
}

type rscenario struct {
	label   string
	tags    []string
	remotes []string // remote clusters every tag is replicated to
	images  []int    // indices into rImages
	inBuf   int      // manager IncomingBuffer
	reBuf   int      // manager RetryBuffer
	depth   int
}

func (sc rscenario) name() string {
	var ims []string
	for _, i := range sc.images {
		ims = append(ims, rImages[i].name)
	}
	return fmt.Sprintf("re-push histories: %s (tags %s, remotes %s, images %s, queue buffers %d/%d, depth %d)",
		sc.label, strings.Join(sc.tags, ","), strings.Join(sc.remotes, ","), strings.Join(ims, ","), sc.inBuf, sc.reBuf, sc.depth)
}

func rscenarios(thorough bool) []rscenario {
	if thorough {
		return []rscenario{
			{"one tag, one remote", []string{"x"}, []string{"A"}, []int{0, 1, 2}, 2, 2, 10},
			{"two tags, one remote", []string{"x", "y"}, []string{"A"}, []int{0, 1}, 1, 1, 8},
			{"one tag, two remotes", []string{"x"}, []string{"A", "B"}, []int{0, 1}, 1, 1, 8},
			{"two tags, two remotes", []string{"x", "y"}, []string{"A", "B"}, []int{0, 1}, 2, 2, 5},
		}
	}
	return []rscenario{
		{"one tag, one remote", []string{"x"}, []string{"A"}, []int{0, 1, 2}, 2, 2, 8},
		{"two tags, one remote", []string{"x", "y"}, []string{"A"}, []int{0, 1}, 1, 1, 6},
		{"one tag, two remotes", []string{"x"}, []string{"A", "B"}, []int{0, 1}, 1, 1, 6},
	}
}

// one failing remote call per Exec ("" = every call succeeds). A fault whose
// call the Exec never makes leaves the Exec untouched (same successor state).
var rFaults = []string{"", "has 503", "origin 503", "replicate#1 503", "replicate#2 503", "replicate#3 503", "put 503", "put stored, response lost"}

// ---------------------------------------------------------------- fake remote world

type rworld struct {
	fault     string
	nrep      int             // ReplicateToRemote calls of the current Exec
	confirmed map[string]bool // "R|blob": a local origin answered 200 to "replicate blob to remote origin cluster R"
	tags      map[string]core.Digest
	fail      *bfs.Fail // first violation
	stray     []string
	dummy     *world // counts calls outside the replication protocol (embedded sequential fakes)
}

func (w *rworld) violate(f *bfs.Fail) {
	if w.fail == nil {
		w.fail = f
	}
}

// --- local origin

type rOrigin struct {
	originClient // every other method: unexpected call
	rw           *rworld
}

func (o rOrigin) Addr() string { return "origin1:80" }

func (o rOrigin) ReplicateToRemote(namespace string, d core.Digest, remoteDNS string) error {
	w := o.rw
	w.nrep++
	if w.fault == fmt.Sprintf("replicate#%d 503", w.nrep) {
		return httputil.StatusError{Method: "POST", URL: "http://origin1:80/namespace/x/blobs/" + d.Hex() + "/remote/" + remoteDNS, Status: 503}
	}
	for _, r := range []string{"A", "B"} {
		if remoteDNS == originAddr(r) {
			w.confirmed[r+"|"+rBlob(d)] = true
			return nil
		}
	}
	w.stray = append(w.stray, "replicate to unknown remote origin "+remoteDNS)
	return errors.New("c33: unknown remote origin")
}

func (w *rworld) Resolve(d core.Digest) ([]blobclient.Client, error) {
	return []blobclient.Client{rOrigin{originClient{w: w.dummy, i: 0}, w}}, nil
}

// --- remote build-indexes

type rIndex struct {
	remoteTagClient // every other method: unexpected call
	rw              *rworld
	r               string
}

func (w *rworld) Provide(addr string) tagclient.Client {
	r := remoteOfIndex(addr)
	if r == "" {
		w.stray = append(w.stray, "tagclient Provide("+addr+")")
	}
	return rIndex{remoteTagClient{w: w.dummy, addr: addr}, w, r}
}

func (c rIndex) Has(tag string) (bool, error) {
	if c.rw.fault == "has 503" {
		return false, httputil.StatusError{Method: "HEAD", URL: "http://" + indexAddr(c.r) + "/tags/x", Status: 503}
	}
	_, ok := c.rw.tags[c.r+"|"+tag]
	return ok, nil
}

func (c rIndex) Origin() (string, error) {
	if c.rw.fault == "origin 503" {
		return "", httputil.StatusError{Method: "GET", URL: "http://" + indexAddr(c.r) + "/origin", Status: 503}
	}
	return originAddr(c.r), nil
}

const (
	fpRepushPut    = "re-pushed tag: PutAndReplicate(tag, digest) was sent to the remote build-index before every dependency blob of THAT digest was confirmed present in the remote origin cluster"
	fpRepushNil    = "re-pushed tag: Exec returned nil (the manager drops the task) although the remote build-index does not hold the tag"
	fpRepushSettle = "re-pushed tag: after the remote recovered, replication was not retried until the remote holds the tag"
)

func (c rIndex) PutAndReplicate(tag string, d core.Digest) error {
	w := c.rw
	// the oracle of the first clause, at the moment the remote build-index is
	// asked: the dependencies are those OF THE DIGEST it is asked to store (the
	// manifest blob d itself is always one of them)
	var missing []string
	if im, ok := imageOf(d); ok {
		for _, dep := range im.deps {
			if !w.confirmed[c.r+"|"+rBlob(dep)] {
				missing = append(missing, rBlob(dep))
			}
		}
	} else if !w.confirmed[c.r+"|"+rBlob(d)] {
		missing = append(missing, rBlob(d))
	}
	if len(missing) > 0 {
		var have []string
		for k := range w.confirmed {
			if strings.HasPrefix(k, c.r+"|") {
				have = append(have, k[len(c.r)+1:])
			}
		}
		sort.Strings(have)
		w.violate(bfs.Failf(fpRepushPut, "build-index %s asked to store %s -> image %s; dependency blobs of image %s not confirmed in remote origin %s: %v (confirmed there: %v)", c.r, tag, rImg(d), rImg(d), c.r, missing, have))
	}
	switch w.fault {
	case "put 503":
		return httputil.StatusError{Method: "PUT", URL: "http://" + indexAddr(c.r) + "/tags/x/digest/y?replicate=true", Status: 503}
	case "put stored, response lost":
		w.tags[c.r+"|"+tag] = d
		return httputil.NetworkError{}
	}
	w.tags[c.r+"|"+tag] = d
	return nil
}

// ---------------------------------------------------------------- database template

type nopGooseLogger struct{}

func (nopGooseLogger) Fatal(v ...interface{})                 {}
func (nopGooseLogger) Fatalf(format string, v ...interface{}) {}
func (nopGooseLogger) Print(v ...interface{})                 {}
func (nopGooseLogger) Println(v ...interface{})               {}
func (nopGooseLogger) Printf(format string, v ...interface{}) {}

var rTemplate struct {
	once sync.Once
	data []byte
	err  error
}

// rTemplateDB: a database file created and migrated by the real localdb.New
// (once per process); every system instance works on a copy.
func rTemplateDB() ([]byte, error) {
	t := &rTemplate
	t.once.Do(func() {
		goose.SetLogger(nopGooseLogger{})
		dir, err := os.MkdirTemp("", "c33-tmpl-")
		if err != nil {
			t.err = err
			return
		}
		defer os.RemoveAll(dir)
		p := filepath.Join(dir, "template.db")
		db, err := localdb.New(localdb.Config{Source: p})
		if err != nil {
			t.err = err
			return
		}
		if err := db.Close(); err != nil {
			t.err = err
			return
		}
		t.data, t.err = os.ReadFile(p)
	})
	return t.data, t.err
}

// ---------------------------------------------------------------- the system

// rclasses collects outcome classes of executed tasks over the whole search
// (distinct non-trivial cases + vacuity).
type rclasses struct {
	mu sync.Mutex
	m  map[string]bool
}

func (c *rclasses) add(k string) {
	c.mu.Lock()
	c.m[k] = true
	c.mu.Unlock()
}

type rsys struct {
	sc      rscenario
	cl      *rclasses
	dir     string
	db      *sqlx.DB
	remotes tagreplication.Remotes
	store   *tagreplication.Store
	mgr     *persistedretry.VerifStepper
	w       *rworld
	pushed  map[string]bool   // "tag>R": a replication of tag to R was requested
	latest  map[string]string // "tag>R" -> image of the latest push (observation only)
	queue   string            // queue the task being executed came from (observation only)
	key     string
}

// recExecutor is the manager's Executor: the real one, observed.
type recExecutor struct {
	real *tagreplication.Executor
	s    *rsys
}

func (e recExecutor) Name() string { return e.real.Name() }

func (e recExecutor) Exec(r persistedretry.Task) error {
	s := e.s
	s.w.nrep = 0
	err := e.real.Exec(r)
	t, ok := r.(*tagreplication.Task)
	if !ok {
		return err
	}
	R := remoteOfIndex(t.Destination)
	held, holds := s.w.tags[R+"|"+t.Tag]
	if err == nil && !holds {
		s.w.violate(bfs.Failf(fpRepushNil, "task %s -> %s (image %s)", t.Tag, R, rImg(t.Digest)))
	}
	var res string
	switch {
	case err == nil && holds && held == t.Digest:
		res = "nil, remote holds the task's digest"
	case err == nil:
		res = "nil, remote holds another digest"
	case strings.HasPrefix(err.Error(), "lookup remote origin cluster"):
		res = "err-origin-lookup"
	case strings.HasPrefix(err.Error(), "origin cluster replicate"):
		res = "err-replicate"
	case strings.HasPrefix(err.Error(), "put and replicate tag"):
		res = "err-put"
	default:
		res = "err-other"
	}
	stale := s.latest[t.Tag+">"+R] != rImg(t.Digest)
	s.cl.add(fmt.Sprintf("%s | task from %s | fault=%q | %s | ndeps=%d | task digest older than latest push=%v", s.sc.label, s.queue, s.w.fault, res, len(t.Dependencies), stale))
	return err
}

func (s *rsys) open() error {
	db, err := sqlx.Open("sqlite3", filepath.Join(s.dir, "kraken.db"))
	if err != nil {
		return err
	}
	db.SetMaxOpenConns(1) // as localdb.New
	// speed only (tmpfs; no crash is modelled here)
	if _, err := db.Exec(`PRAGMA journal_mode=MEMORY; PRAGMA synchronous=OFF`); err != nil {
		db.Close()
		return err
	}
	s.db = db
	// what build-index/cmd does at start-up
	st, err := tagreplication.NewStore(db, s.remotes)
	if err != nil {
		return err
	}
	s.store = st
	ex := tagreplication.NewExecutor(tally.NoopScope, blobclient.NewClusterClient(s.w), s.w)
	mgr, err := persistedretry.VerifNewStepper(persistedretry.Config{
		IncomingBuffer: s.sc.inBuf, RetryBuffer: s.sc.reBuf,
		NumIncomingWorkers: 1, NumRetryWorkers: 1,
		MaxTaskThroughput: time.Nanosecond, RetryInterval: time.Nanosecond,
		PollRetriesInterval: time.Hour, WorkqueueMetricsEmitInterval: time.Hour,
		Testing: true,
	}, tally.NoopScope, st, recExecutor{ex, s})
	if err != nil {
		return err
	}
	s.mgr = mgr
	return nil
}

func newRSys(sc rscenario, cl *rclasses) (bfs.System, error) {
	tmpl, err := rTemplateDB()
	if err != nil {
		return nil, err
	}
	dir, err := os.MkdirTemp("", "c33-rp-")
	if err != nil {
		return nil, err
	}
	s := &rsys{sc: sc, cl: cl, dir: dir, pushed: map[string]bool{}, latest: map[string]string{},
		w: &rworld{confirmed: map[string]bool{}, tags: map[string]core.Digest{}, dummy: &world{}}}
	if err := os.WriteFile(filepath.Join(dir, "kraken.db"), tmpl, 0644); err != nil {
		s.Close()
		return nil, err
	}
	cfg := tagreplication.RemotesConfig{}
	for _, r := range sc.remotes {
		cfg[indexAddr(r)] = []string{".*"}
	}
	if s.remotes, err = cfg.Build(); err != nil {
		s.Close()
		return nil, err
	}
	if err := s.open(); err != nil {
		s.Close()
		return nil, err
	}
	if err := s.computeKey(); err != nil {
		s.Close()
		return nil, err
	}
	return s, nil
}

func (s *rsys) Close() {
	if s.db != nil {
		s.db.Close()
	}
	os.RemoveAll(s.dir)
}

func (s *rsys) Ops() []string {
	var ops []string
	for _, tag := range s.sc.tags {
		for _, i := range s.sc.images {
			ops = append(ops, "push "+tag+"="+rImages[i].name)
		}
	}
	maxDeps := 0
	for _, i := range s.sc.images {
		if n := len(rImages[i].deps); n > maxDeps {
			maxDeps = n
		}
	}
	for _, q := range []string{"incoming", "retries"} {
		if len(s.mgr.Queued(q)) == 0 {
			continue
		}
		for _, f := range rFaults {
			var k int
			if n, _ := fmt.Sscanf(f, "replicate#%d", &k); n == 1 && k > maxDeps {
				continue
			}
			if f == "" {
				ops = append(ops, "work "+q)
			} else {
				ops = append(ops, "work "+q+": "+f)
			}
		}
	}
	ops = append(ops, "poll", "restart", "settle")
	return ops
}

func taskLine(r persistedretry.Task) string {
	t, ok := r.(*tagreplication.Task)
	if !ok {
		return fmt.Sprintf("?%T", r)
	}
	return fmt.Sprintf("%s>%s=%s deps[%s] failures=%d", t.Tag, remoteOfIndex(t.Destination), rImg(t.Digest), rBlobs(t.Dependencies), t.Failures)
}

// computeKey: everything that decides what happens next and what the oracle
// reads: the stored tasks (through the Store's own API), the tasks buffered in
// the manager's queues (in order), the remote clusters, what was pushed.
func (s *rsys) computeKey() error {
	var parts []string
	for _, st := range []string{"pending", "failed"} {
		var ts []persistedretry.Task
		var err error
		if st == "pending" {
			ts, err = s.store.GetPending()
		} else {
			ts, err = s.store.GetFailed()
		}
		if err != nil {
			return fmt.Errorf("store: %v", err)
		}
		var ls []string
		for _, t := range ts {
			ls = append(ls, taskLine(t))
		}
		sort.Strings(ls)
		parts = append(parts, st+"{"+strings.Join(ls, "; ")+"}")
	}
	for _, q := range []string{"incoming", "retries"} {
		var ls []string
		for _, t := range s.mgr.Queued(q) {
			ls = append(ls, taskLine(t))
		}
		parts = append(parts, q+"["+strings.Join(ls, "; ")+"]")
	}
	var cf, tg, ps []string
	for k := range s.w.confirmed {
		cf = append(cf, k)
	}
	for k, d := range s.w.tags {
		tg = append(tg, k+"="+rImg(d))
	}
	for k := range s.pushed {
		ps = append(ps, k)
	}
	sort.Strings(cf)
	sort.Strings(tg)
	sort.Strings(ps)
	parts = append(parts, "remote-blobs{"+strings.Join(cf, ",")+"}", "remote-tags{"+strings.Join(tg, ",")+"}", "pushed{"+strings.Join(ps, ",")+"}")
	s.key = strings.Join(parts, " ")
	return nil
}

func (s *rsys) Key() string { return s.key }

func (s *rsys) workOne(q, fault string) (bool, error) {
	s.w.fault, s.queue = fault, q
	_, ok, err := s.mgr.Work(q)
	s.w.fault = ""
	if err != nil {
		return ok, fmt.Errorf("manager exec: %v", err)
	}
	return ok, nil
}

func (s *rsys) stored() (int, error) {
	p, err := s.store.GetPending()
	if err != nil {
		return 0, err
	}
	f, err := s.store.GetFailed()
	if err != nil {
		return 0, err
	}
	return len(p) + len(f), nil
}

func (s *rsys) Apply(op string) error {
	switch {
	case strings.HasPrefix(op, "push "):
		kv := strings.SplitN(op[len("push "):], "=", 2)
		tag := kv[0]
		var im image
		for _, x := range rImages {
			if x.name == kv[1] {
				im = x
			}
		}
		// tagserver.replicateTag: one task per matching destination
		dests := s.remotes.Match(tag)
		sort.Strings(dests)
		for _, dest := range dests {
			task := tagreplication.NewTask(tag, im.digest, append(core.DigestList{}, im.deps...), dest, 0)
			if err := s.mgr.Add(task); err != nil {
				return fmt.Errorf("Add: %v", err)
			}
			k := tag + ">" + remoteOfIndex(dest)
			s.pushed[k] = true
			s.latest[k] = im.name
		}
	case strings.HasPrefix(op, "work "):
		rest := op[len("work "):]
		q, fault := rest, ""
		if i := strings.Index(rest, ": "); i >= 0 {
			q, fault = rest[:i], rest[i+2:]
		}
		ok, err := s.workOne(q, fault)
		if err != nil {
			return err
		}
		if !ok {
			return fmt.Errorf("work %s: queue is empty", q)
		}
	case op == "poll":
		s.mgr.PollRetries()
	case op == "restart":
		// the process restarts: queues are lost, the database is opened again
		if err := s.db.Close(); err != nil {
			return err
		}
		s.db = nil
		if err := s.open(); err != nil {
			return err
		}
	case op == "settle":
		// the remote has recovered: no call fails any more; the workers drain the
		// queues and the poller ticks until no task is stored
		rounds := 2*len(s.sc.tags)*len(s.sc.remotes) + 3
		left := -1
		for r := 0; r < rounds && s.w.fail == nil; r++ {
			for _, q := range []string{"incoming", "retries"} {
				for {
					ok, err := s.workOne(q, "")
					if err != nil {
						return err
					}
					if !ok {
						break
					}
				}
			}
			var err error
			if left, err = s.stored(); err != nil {
				return err
			}
			if left == 0 {
				break
			}
			s.mgr.PollRetries()
		}
		if s.w.fail == nil {
			var lacking []string
			for k := range s.pushed {
				tr := strings.SplitN(k, ">", 2)
				if _, ok := s.w.tags[tr[1]+"|"+tr[0]]; !ok {
					lacking = append(lacking, k)
				}
			}
			sort.Strings(lacking)
			if left != 0 || len(lacking) > 0 {
				s.w.violate(bfs.Failf(fpRepushSettle, "after %d rounds of {drain queues, poll} without any failure: %d tasks still stored; pushed but not held by the remote: %v", rounds, left, lacking))
			}
		}
	default:
		return fmt.Errorf("unknown op %q", op)
	}
	if err := s.computeKey(); err != nil {
		return err
	}
	if s.w.dummy.stray > 0 {
		s.w.stray = append(s.w.stray, s.w.dummy.events...)
	}
	if len(s.w.stray) > 0 {
		return fmt.Errorf("calls outside the replication protocol reached the fakes: %s", strings.Join(s.w.stray, "; "))
	}
	if f := s.w.fail; f != nil {
		f.Msg += "\nstate: " + s.key
		return f
	}
	return nil
}

// ---------------------------------------------------------------- driver

func repushPart(run *evid.Run, thorough bool, seconds int) {
	cl := &rclasses{m: map[string]bool{}}
	deadline := time.Now().Add(time.Duration(seconds) * time.Second)
	for _, sc := range rscenarios(thorough) {
		sc := sc
		// determinism: the same history gives the same state
		var keys [2]string
		for i := range keys {
			s, err := newRSys(sc, cl)
			if err != nil {
				run.Fatal(err)
			}
			for _, op := range []string{"push x=A", "work incoming: put 503", "push x=B", "poll", "restart", "poll"} {
				if err := s.Apply(op); err != nil {
					if _, ok := err.(*bfs.Fail); !ok {
						run.Fatal(fmt.Errorf("%s: %s: %v", sc.name(), op, err))
					}
				}
			}
			keys[i] = s.Key()
			s.Close()
		}
		if keys[0] != keys[1] {
			run.Fatal(fmt.Errorf("non-deterministic replay in %s: %q vs %q", sc.name(), keys[0], keys[1]))
		}
		t0 := time.Now()
		res := rep.BFS(run, sc.name(), bfs.Config{
			MaxDepth: sc.depth,
			Deadline: deadline,
			New:      func() (bfs.System, error) { return newRSys(sc, cl) },
		})
		fmt.Printf("  %s: states=%d transitions=%d max depth=%d fixpoint=%v completed=%v (%.0fs)\n", sc.name(), res.States, res.Transitions, res.MaxDepth, res.Fixpoint, res.Completed, time.Since(t0).Seconds())
	}
	var ks []string
	for k := range cl.m {
		ks = append(ks, k)
	}
	sort.Strings(ks)
	need := map[string]int{
		"task from retries":                             0,
		"task from incoming":                            0,
		"task digest older than latest push=true":       0,
		"nil, remote holds another digest":              0,
		"nil, remote holds the task's digest":           0,
		"err-origin-lookup":                             0,
		"err-replicate":                                 0,
		"err-put":                                       0,
		"ndeps=3":                                       0,
		"fault=\"put stored, response lost\" | err-put": 0,
		"task from retries | fault=\"\" | nil, remote holds the task's digest | ndeps=2 | task digest older than latest push=true": 0,
	}
	for _, k := range ks {
		run.Distinct("re-push|" + k)
		for m := range need {
			if strings.Contains(k, m) {
				need[m]++
			}
		}
	}
	run.Set("repush_exec_classes_by_marker", need)
	if run.NViolations() == 0 {
		for m, n := range need {
			if n == 0 {
				run.Fatal(errors.New("vacuous: no re-push history executed a task with " + m))
			}
		}
	}
}
