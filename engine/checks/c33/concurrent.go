//go:build go1.25

// C33, part 2 (engine E1q): overlapping replications through the REAL origin
// (part 3, faulty.go, adds same-task replicas, failing uploads and retries).
//
// Several tag-replication tasks (different remote clusters and/or different
// tags) are executed concurrently by real tagreplication.Executor.Exec calls
// over the real blobclient.ClusterClient (Poll) in front of the REAL
// blobserver.Server: the local origin client hands every
// "POST /namespace/{ns}/blobs/{digest}/remote/{remote}" to
// Server.Handler().ServeHTTP (no sockets; a non-200 status becomes the
// httputil.StatusError the HTTP client would return). The origin holds the
// dependency blobs in a real CAStore. The remote side is fakes: every remote
// origin cluster's UploadBlob is a seam that parks (an upload in flight) and,
// when released, reads the bytes and records "remote origin R holds blob d";
// every remote build-index's PutAndReplicate is a seam too. Inside a
// testing/synctest bubble the explorer enumerates EVERY order of the harness
// actions "start Exec <task>" and of the parked seams (quiescence detection
// tells which calls are blocked inside kraken rather than parked in a seam).
package main

import (
	"bytes"
	"context"
	"fmt"
	"io"
	"net/http"
	"net/http/httptest"
	"net/url"
	"os"
	"path/filepath"
	"sort"
	"strings"
	"sync"

	"github.com/andres-erbsen/clock"
	"github.com/uber-go/tally"
	"github.com/uber/kraken/build-index/tagclient"
	"github.com/uber/kraken/core"
	"github.com/uber/kraken/lib/backend"
	"github.com/uber/kraken/lib/blobrefresh"
	"github.com/uber/kraken/lib/hashring"
	"github.com/uber/kraken/lib/healthcheck"
	"github.com/uber/kraken/lib/hostlist"
	"github.com/uber/kraken/lib/metainfogen"
	"github.com/uber/kraken/lib/persistedretry"
	"github.com/uber/kraken/lib/persistedretry/tagreplication"
	"github.com/uber/kraken/lib/store"
	"github.com/uber/kraken/origin/blobclient"
	"github.com/uber/kraken/origin/blobserver"
	"github.com/uber/kraken/utils/httputil"

	"verif/e1q"
	"verif/vrt"
)

// ---------------------------------------------------------------- scenarios

// ctask is one replication task: tag -> remote cluster, with dependencies
// (indices into blobContent).
type ctask struct {
	tag    string
	remote string // "A" | "B"
	deps   []int
	rep    int // part 3: 1, 2, .. = the same task executed by several build-index replicas (0: a single executor)
}

func (t ctask) name() string {
	var ds []string
	for _, d := range t.deps {
		ds = append(ds, fmt.Sprintf("b%d", d+1))
	}
	n := fmt.Sprintf("%s->%s[%s]", t.tag, t.remote, strings.Join(ds, ","))
	if t.rep > 0 {
		n += fmt.Sprintf("#%d", t.rep)
	}
	return n
}

type cscenario struct {
	label string
	tasks []ctask
}

// taskName: the task as the remote build-index sees it (replicas of one task
// are indistinguishable there).
func (t ctask) taskName() string {
	t.rep = 0
	return t.name()
}

func (sc cscenario) name() string { return "concurrent: " + sc.label }

func cscenarios(thorough bool) []cscenario {
	scs := []cscenario{
		{"two remotes, one shared blob", []ctask{{"x", "A", []int{0}, 0}, {"x", "B", []int{0}, 0}}},
		{"two remotes, two shared blobs", []ctask{{"x", "A", []int{0, 1}, 0}, {"x", "B", []int{0, 1}, 0}}},
		{"one remote, different blobs", []ctask{{"x", "A", []int{0}, 0}, {"y", "A", []int{1}, 0}}},
		{"one remote, same blob", []ctask{{"x", "A", []int{0}, 0}, {"y", "A", []int{0}, 0}}},
	}
	if thorough {
		scs = append(scs,
			cscenario{"two remotes, blobs in opposite order", []ctask{{"x", "A", []int{0, 1}, 0}, {"y", "B", []int{1, 0}, 0}}},
			cscenario{"three tasks", []ctask{{"x", "A", []int{0}, 0}, {"x", "B", []int{0}, 0}, {"y", "A", []int{1}, 0}}},
		)
	}
	return scs
}

var (
	blobContent = [][]byte{[]byte("layer one: 0123456789abcdef"), []byte("layer two: fedcba9876543210--")}
	blobDigest  = []core.Digest{mkDigest(string(blobContent[0])), mkDigest(string(blobContent[1]))}
)

func blobName(d core.Digest) string {
	for i, x := range blobDigest {
		if x == d {
			return fmt.Sprintf("b%d", i+1)
		}
	}
	return "b?"
}

func indexAddr(r string) string  { return "build-index." + strings.ToLower(r) + ":7000" }
func originAddr(r string) string { return "origin." + strings.ToLower(r) + ":9003" }

// ---------------------------------------------------------------- world

type cworld struct {
	c   *e1q.Ctl
	sc  cscenario
	dir string
	cas *store.CAStore
	h   http.Handler

	mu         sync.Mutex
	remoteBlob map[string]bool        // "R|bN": remote origin cluster R received the bytes of blob N
	remoteTag  map[string]core.Digest // "R|tag"
	inflight   map[string]int         // blob -> uploads currently parked in a remote origin seam
	overlap    bool                   // two uploads of one blob (to different remotes) were in flight together
	overlapAny bool                   // any two uploads were in flight together
	requests   int                    // replicate-to-remote requests that reached the origin handler

	// part 3 (faulty.go): failing uploads
	faults         int             // remaining budget of upload failures the environment may still choose
	nfail          int             // failures chosen so far
	nlost          int             // of which: the bytes arrived but the response was lost
	confirmed      map[string]bool // "R|bN": an UploadBlob of blob N to remote origin cluster R returned nil to the local origin
	reqInflight    map[string]int  // "remote|namespace|bN" -> replicate-to-remote requests currently inside the origin handler
	sameKeyOverlap bool            // two requests for the same (remote, namespace, blob) were inside the handler together
	failInOverlap  bool            // an upload failed while another request for the same (remote, namespace, blob) was inside the handler
	vio        string
	stray      []string
	dummy      *world // receives the "unexpected call" counts of the embedded sequential fakes
}

func (w *cworld) violate(msg string) {
	w.mu.Lock()
	if w.vio == "" {
		w.vio = msg
	}
	w.mu.Unlock()
}

func (w *cworld) strayCall(what string) error {
	w.mu.Lock()
	w.stray = append(w.stray, what)
	w.mu.Unlock()
	return fmt.Errorf("c33: unexpected call %s", what)
}

func (w *cworld) taskOf(remote, tag string) *ctask {
	for i := range w.sc.tasks {
		if w.sc.tasks[i].remote == remote && w.sc.tasks[i].tag == tag {
			return &w.sc.tasks[i]
		}
	}
	return nil
}

// --- the local origin as the build-index's cluster client reaches it

// handlerOrigin is a blobclient.Client whose ReplicateToRemote is served by the
// real blobserver handler.
type handlerOrigin struct {
	originClient // every other method: unexpected call (counted in the embedded dummy world)
	cw           *cworld
}

func (o handlerOrigin) Addr() string { return "origin1:80" }

func (o handlerOrigin) ReplicateToRemote(namespace string, d core.Digest, remoteDNS string) error {
	target := fmt.Sprintf("/namespace/%s/blobs/%s/remote/%s", url.PathEscape(namespace), d, remoteDNS)
	key := remoteDNS + "|" + namespace + "|" + blobName(d)
	o.cw.mu.Lock()
	o.cw.requests++
	o.cw.reqInflight[key]++
	if o.cw.reqInflight[key] > 1 {
		o.cw.sameKeyOverlap = true
	}
	o.cw.mu.Unlock()
	req := httptest.NewRequest("POST", target, nil)
	rec := httptest.NewRecorder()
	o.cw.h.ServeHTTP(rec, req)
	o.cw.mu.Lock()
	o.cw.reqInflight[key]--
	o.cw.mu.Unlock()
	if rec.Code == http.StatusOK {
		return nil
	}
	return httputil.StatusError{Method: "POST", URL: "http://origin1:80" + target, Status: rec.Code, ResponseDump: rec.Body.String()}
}

func (w *cworld) Resolve(d core.Digest) ([]blobclient.Client, error) {
	return []blobclient.Client{handlerOrigin{originClient{w: w.dummy, i: 0}, w}}, nil
}

// --- remote origin clusters (what the origin's clusterProvider hands out)

type remoteCluster struct {
	w *cworld
	r string
}

func (w *cworld) provideCluster(dns string) (blobclient.ClusterClient, error) {
	for _, r := range []string{"A", "B"} {
		if dns == originAddr(r) {
			return remoteCluster{w, r}, nil
		}
	}
	return nil, w.strayCall("clusterProvider.Provide(" + dns + ")")
}

type clusterProviderFn func(string) (blobclient.ClusterClient, error)

func (f clusterProviderFn) Provide(dns string) (blobclient.ClusterClient, error) { return f(dns) }

// UploadBlob: the upload of one blob to remote origin cluster r. Parked =
// in flight; released = the bytes arrive (read here from the reader the real
// origin passes) and the remote cluster holds the blob.
func (c remoteCluster) UploadBlob(ctx context.Context, namespace string, d core.Digest, blob io.ReadSeeker, size uint64) error {
	w := c.w
	b := blobName(d)
	w.mu.Lock()
	for other, n := range w.inflight {
		if n > 0 {
			w.overlapAny = true
			if other == b {
				w.overlap = true
			}
		}
	}
	w.inflight[b]++
	w.mu.Unlock()
	w.c.Park(fmt.Sprintf("upload %s to origin %s", b, c.r))
	// part 3: the outcome of the upload is an environment answer (while the
	// failure budget lasts); alternative 0 = the upload succeeds
	outcome := 0
	w.mu.Lock()
	budget := w.faults
	w.mu.Unlock()
	if budget > 0 {
		outcome = w.c.Choose(len(uploadAnswers), fmt.Sprintf("outcome of upload %s to origin %s", b, c.r))
	}
	if outcome == 1 {
		// the remote origin cluster is unavailable: nothing arrives
		w.mu.Lock()
		defer w.mu.Unlock()
		w.inflight[b]--
		w.uploadFailed(originAddr(c.r) + "|" + namespace + "|" + b)
		return httputil.StatusError{Method: "POST", URL: "http://" + originAddr(c.r) + "/namespace/x/blobs/" + d.Hex() + "/uploads", Status: http.StatusServiceUnavailable}
	}
	data, err := io.ReadAll(blob)
	w.mu.Lock()
	defer w.mu.Unlock()
	w.inflight[b]--
	if err != nil {
		return err
	}
	i := -1
	for k := range blobDigest {
		if blobDigest[k] == d {
			i = k
		}
	}
	if i < 0 || !bytes.Equal(data, blobContent[i]) || size != uint64(len(blobContent[i])) {
		w.stray = append(w.stray, fmt.Sprintf("upload of %s to %s carried wrong bytes (%d bytes, size %d)", b, c.r, len(data), size))
		return fmt.Errorf("c33: bad upload")
	}
	w.remoteBlob[c.r+"|"+b] = true
	if outcome == 2 {
		// the bytes arrived but the local origin never learns it: the blob is in
		// the remote cluster, its presence is NOT confirmed
		w.uploadFailed(originAddr(c.r) + "|" + namespace + "|" + b)
		w.nlost++
		return httputil.NetworkError{}
	}
	w.confirmed[c.r+"|"+b] = true
	return nil
}

var uploadAnswers = []string{"ok", "503, nothing stored", "stored but response lost"}

// uploadFailed: w.mu held.
func (w *cworld) uploadFailed(key string) {
	w.faults--
	w.nfail++
	if w.reqInflight[key] > 1 {
		w.failInOverlap = true
	}
}

func (c remoteCluster) CheckReadiness() error { return c.w.strayCall("remote CheckReadiness") }
func (c remoteCluster) DownloadBlob(context.Context, string, core.Digest, io.Writer) error {
	return c.w.strayCall("remote DownloadBlob")
}
func (c remoteCluster) PrefetchBlob(string, core.Digest) error {
	return c.w.strayCall("remote PrefetchBlob")
}
func (c remoteCluster) GetMetaInfo(string, core.Digest) (*core.MetaInfo, error) {
	return nil, c.w.strayCall("remote GetMetaInfo")
}
func (c remoteCluster) Stat(string, core.Digest) (*core.BlobInfo, error) {
	return nil, c.w.strayCall("remote Stat")
}
func (c remoteCluster) OverwriteMetaInfo(core.Digest, int64) error {
	return c.w.strayCall("remote OverwriteMetaInfo")
}
func (c remoteCluster) Owners(core.Digest) ([]core.PeerContext, error) {
	return nil, c.w.strayCall("remote Owners")
}
func (c remoteCluster) ReplicateToRemote(string, core.Digest, string) error {
	return c.w.strayCall("remote ReplicateToRemote")
}

// --- remote build-indexes

type remoteIndexClient struct {
	remoteTagClient // every other method: unexpected call
	cw              *cworld
	r               string
}

func (w *cworld) Provide(addr string) tagclient.Client {
	for _, r := range []string{"A", "B"} {
		if addr == indexAddr(r) {
			return remoteIndexClient{remoteTagClient{w: w.dummy, addr: addr}, w, r}
		}
	}
	w.strayCall("tagclient Provide(" + addr + ")")
	return remoteIndexClient{remoteTagClient{w: w.dummy, addr: addr}, w, "?"}
}

func (c remoteIndexClient) Has(tag string) (bool, error) {
	c.cw.mu.Lock()
	defer c.cw.mu.Unlock()
	_, ok := c.cw.remoteTag[c.r+"|"+tag]
	return ok, nil
}

func (c remoteIndexClient) Origin() (string, error) { return originAddr(c.r), nil }

func (c remoteIndexClient) PutAndReplicate(tag string, d core.Digest) error {
	w := c.cw
	t := w.taskOf(c.r, tag)
	if t == nil {
		return w.strayCall(fmt.Sprintf("PutAndReplicate(%s) on build-index %s", tag, c.r))
	}
	// the oracle, at the moment the remote build-index is asked
	w.mu.Lock()
	var missing, unconfirmed []string
	for _, dep := range t.deps {
		b := fmt.Sprintf("b%d", dep+1)
		if !w.remoteBlob[c.r+"|"+b] {
			missing = append(missing, b)
		} else if !w.confirmed[c.r+"|"+b] {
			unconfirmed = append(unconfirmed, b)
		}
	}
	w.mu.Unlock()
	if len(missing) > 0 {
		w.violate(fmt.Sprintf("concurrent replications: PutAndReplicate was sent to a remote build-index although its origin cluster never received a dependency blob\ntask %s: remote origin %s has not received %v", t.taskName(), c.r, missing))
	} else if len(unconfirmed) > 0 {
		w.violate(fmt.Sprintf("concurrent replications: PutAndReplicate was sent to a remote build-index although no upload of a dependency blob to its origin cluster was ever confirmed\ntask %s: no upload of %v to remote origin %s has returned success", t.taskName(), unconfirmed, c.r))
	}
	w.c.Park(fmt.Sprintf("put %s on build-index %s", tag, c.r))
	w.mu.Lock()
	w.remoteTag[c.r+"|"+tag] = d
	w.mu.Unlock()
	return nil
}

// ---------------------------------------------------------------- construction

type noWriteBack struct{}

func (noWriteBack) Add(persistedretry.Task) error                   { return nil }
func (noWriteBack) SyncExec(persistedretry.Task) error              { return nil }
func (noWriteBack) Close()                                          {}
func (noWriteBack) Find(interface{}) ([]persistedretry.Task, error) { return nil, nil }

type noBlobClients struct{}

func (noBlobClients) Provide(string) blobclient.Client { return nil }

func newCWorld(c *e1q.Ctl, sc cscenario) (*cworld, error) {
	dir, err := os.MkdirTemp("", "c33-")
	if err != nil {
		return nil, err
	}
	w := &cworld{c: c, sc: sc, dir: dir, remoteBlob: map[string]bool{}, remoteTag: map[string]core.Digest{}, inflight: map[string]int{}, confirmed: map[string]bool{}, reqInflight: map[string]int{}, dummy: &world{}}
	cas, err := store.NewCAStore(store.CAStoreConfig{
		UploadDir: filepath.Join(dir, "upload"), CacheDir: filepath.Join(dir, "cache"), Capacity: 64,
		UploadCleanup: store.CleanupConfig{Disabled: true},
		CacheCleanup:  store.CleanupConfig{Disabled: true},
	}, tally.NoopScope)
	if err != nil {
		os.RemoveAll(dir)
		return nil, err
	}
	w.cas = cas
	for i, content := range blobContent {
		if err := cas.CreateCacheFile(blobDigest[i].Hex(), bytes.NewReader(content)); err != nil {
			w.close()
			return nil, err
		}
	}
	backends, err := backend.NewManager(backend.ManagerConfig{}, nil, backend.AuthConfig{}, tally.NoopScope)
	if err != nil {
		w.close()
		return nil, err
	}
	const addr = "origin1:80"
	ring := hashring.New(hashring.Config{MaxReplica: 1}, hostlist.Fixture(addr), healthcheck.IdentityFilter{}, tally.NoopScope)
	mg := metainfogen.Fixture(cas, 4)
	br := blobrefresh.New(blobrefresh.Config{}, tally.NoopScope, cas, backends, mg)
	srv, err := blobserver.New(blobserver.Config{}, tally.NoopScope, clock.NewMock(), addr, ring, cas,
		noBlobClients{}, clusterProviderFn(w.provideCluster), core.PeerContext{}, backends, br, mg, noWriteBack{})
	if err != nil {
		w.close()
		return nil, err
	}
	w.h = srv.Handler()
	return w, nil
}

func (w *cworld) close() {
	if w.cas != nil {
		w.cas.Close()
	}
	os.RemoveAll(w.dir)
}

// ---------------------------------------------------------------- one execution

func cbody(sc cscenario) func(c *e1q.Ctl) (string, string) {
	return func(c *e1q.Ctl) (obs, vio string) {
		w, err := newCWorld(c, sc)
		if err != nil {
			return "", "HARNESS: " + err.Error()
		}
		defer w.close()
		ex := tagreplication.NewExecutor(tally.NoopScope, blobclient.NewClusterClient(w), w)
		n := len(sc.tasks)
		started := make([]bool, n)
		returned := make([]bool, n)
		errs := make([]error, n)
		var rmu sync.Mutex
		actions := func() []e1q.Action {
			var as []e1q.Action
			for i := range sc.tasks {
				if started[i] {
					continue
				}
				i := i
				t := sc.tasks[i]
				var deps core.DigestList
				for _, d := range t.deps {
					deps = append(deps, blobDigest[d])
				}
				task := tagreplication.NewTask(t.tag, tagDigest, deps, indexAddr(t.remote), 0)
				as = append(as, e1q.Action{Label: "start Exec " + t.name(), Run: func() {
					started[i] = true
					go func() {
						err := ex.Exec(task)
						rmu.Lock()
						returned[i], errs[i] = true, err
						rmu.Unlock()
					}()
				}})
			}
			return as
		}
		for c.Step(actions) {
		}
		// nothing is enabled any more: every Exec must have returned (a caller
		// still blocked inside kraken is reported by the bubble as a deadlock)
		rmu.Lock()
		defer rmu.Unlock()
		var parts []string
		for i, t := range sc.tasks {
			switch {
			case !returned[i]:
				parts = append(parts, t.name()+":blocked")
			case errs[i] != nil:
				parts = append(parts, t.name()+":error")
			default:
				parts = append(parts, t.name()+":nil")
				w.mu.Lock()
				got, ok := w.remoteTag[t.remote+"|"+t.tag]
				w.mu.Unlock()
				if !ok || got != tagDigest {
					w.violate("concurrent replications: Exec returned nil although the remote build-index does not hold the tag\ntask " + t.name())
				}
			}
		}
		w.mu.Lock()
		defer w.mu.Unlock()
		var held []string
		for k := range w.remoteBlob {
			held = append(held, k)
		}
		sort.Strings(held)
		obs = fmt.Sprintf("%s remote-blobs=%s same-blob-overlap=%v any-overlap=%v", strings.Join(parts, " "), strings.Join(held, ","), w.overlap, w.overlapAny)
		if w.dummy.stray > 0 {
			w.stray = append(w.stray, w.dummy.events...)
		}
		if len(w.stray) > 0 && w.vio == "" {
			w.vio = "HARNESS: " + strings.Join(w.stray, "; ")
		}
		if w.vio != "" {
			vio = w.vio + "\norder: " + strings.Join(c.Trace, "; ") + "\nend: " + obs
		}
		return obs, vio
	}
}

func charness(sc cscenario) *vrt.Harness {
	return e1q.Harness(sc.name(), 64, cbody(sc))
}
