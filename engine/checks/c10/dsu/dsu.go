// Package diskspaceutil (check-local shim, import path verif/checks/c10/dsu)
// replaces github.com/uber/kraken/utils/diskspaceutil inside lib/store/cleanup.go
// through the build overlay, so that the REAL cleanupManager.cleanup dispatch
// (shouldAggro / customPolicyBasedCleanup / ttlBasedCleanup) runs with a disk
// usage answer chosen by the check instead of the sandbox's real "/" usage.
// Answers are per goroutine, so grid workers run in parallel.
package diskspaceutil

import (
	"bytes"
	"runtime"
	"strconv"
	"sync"

	real "github.com/uber/kraken/utils/diskspaceutil"
)

// UsageInfo is the real type (alias: type identity is preserved).
type UsageInfo = real.UsageInfo

var hooks sync.Map // goroutine id -> func() (UsageInfo, error)

func gid() int64 {
	var buf [64]byte
	b := buf[:runtime.Stack(buf[:], false)]
	b = bytes.TrimPrefix(b, []byte("goroutine "))
	if i := bytes.IndexByte(b, ' '); i > 0 {
		b = b[:i]
	}
	n, _ := strconv.ParseInt(string(b), 10, 64)
	return n
}

// Set installs the answer for the calling goroutine.
func Set(f func() (UsageInfo, error)) { hooks.Store(gid(), f) }

// Clear removes it.
func Clear() { hooks.Delete(gid()) }

// Usage answers from the hook; an unhooked call is a harness error (the real
// disk usage of the sandbox must never decide a case).
func Usage() (UsageInfo, error) {
	h, ok := hooks.Load(gid())
	if !ok {
		panic("c10: diskspaceutil.Usage called without a hook")
	}
	return h.(func() (UsageInfo, error))()
}
