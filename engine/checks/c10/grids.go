package main

import (
	"fmt"
	"os"
	"sort"
	"strings"
	"sync"
	"time"

	"github.com/uber/kraken/lib/store"
	"github.com/uber/kraken/lib/store/metadata"
	"github.com/uber/kraken/utils/diskspaceutil"

	dsu "verif/checks/c10/dsu"
	"verif/evid"
)

// ---------------------------------------------------------------------------
// Grid A: one pass of the real cleanup job over a directory of <= 3 files.

var mtAges = []time.Duration{time.Minute, ttl, ttl + time.Second, 72 * time.Hour}
var mtNames = []string{"fresh", "age==TTL", "age==TTL+1s", "age>>TTL"}

// latAges[0] < 0: no LAT sidecar.
var latAges = []time.Duration{-1, time.Minute, tti, tti + time.Second, 100 * time.Hour}
var latNames = []string{"noLAT", "lat-fresh", "lat==TTI", "lat==TTI+1s", "lat>>TTI"}
var psNames = []string{"nopersist", "persist=false", "persist=true"}

type fileClass struct{ mt, lat, ps int }

func classOf(c int) fileClass { return fileClass{c % 4, (c / 4) % 5, c / 20} }
func (f fileClass) String() string {
	return mtNames[f.mt] + "/" + latNames[f.lat] + "/" + psNames[f.ps]
}

const nClasses = 60

// reduced class list for the 3-file grid.
var reducedClasses = func() []int {
	var out []int
	for _, ps := range []int{0, 2} {
		for _, lat := range []int{0, 1, 3} {
			for _, mt := range []int{0, 2} {
				out = append(out, mt+4*lat+20*ps)
			}
		}
	}
	return out
}()

type cfgA struct {
	name   string
	cfg    store.CleanupConfig
	util   int           // answered disk utilisation when the config asks
	normal bool          // a normal (TTI/TTL) pass: the exact-set oracle applies
	effTTL time.Duration // TTL in effect for a normal pass
	mode   string
}

var cfgsA = []cfgA{
	{name: "tti-only", cfg: store.CleanupConfig{TTI: tti}, normal: true, mode: "normal"},
	{name: "tti+ttl", cfg: store.CleanupConfig{TTI: tti, TTL: ttl}, normal: true, effTTL: ttl, mode: "normal"},
	{name: "defaults+ttl", cfg: store.CleanupConfig{TTL: ttl}, normal: true, effTTL: ttl, mode: "normal"}, // TTI defaults to 6h == tti
	{name: "aggr-configured,util<threshold,tti-only", cfg: store.CleanupConfig{TTI: tti, AggressiveThreshold: 80, AggressiveTTL: aggTTL, AggressiveLowerThreshold: 50}, util: 79, normal: true, mode: "normal"},
	{name: "aggr-configured,util<threshold,tti+ttl", cfg: store.CleanupConfig{TTI: tti, TTL: ttl, AggressiveThreshold: 80, AggressiveTTL: aggTTL}, util: 79, normal: true, effTTL: ttl, mode: "normal"},
	{name: "aggr-fired(util==threshold),ttl", cfg: store.CleanupConfig{TTI: tti, TTL: ttl, AggressiveThreshold: 80, AggressiveTTL: aggTTL}, util: 80, mode: "aggressive-ttl"},
	{name: "aggr-fired(util 95),no-ttl", cfg: store.CleanupConfig{TTI: tti, AggressiveThreshold: 80}, util: 95, mode: "aggressive-ttl"},
}

type storeVariant struct {
	kind    string
	cap     int
	restart bool
}

type blockA struct {
	n       int
	classes []int // class ids available per file
	cfg     int
	sv      storeVariant
	size    int
}

type caseA struct {
	Config  string   `json:"config"`
	Store   string   `json:"store"`
	Restart bool     `json:"restart_before_pass"`
	Files   []string `json:"files"` // name: class
	Removed []string `json:"removed"`
	Now     string   `json:"now"`
}

func allClasses() []int {
	out := make([]int, nClasses)
	for i := range out {
		out[i] = i
	}
	return out
}

func gridNormal(run *evid.Run, thorough bool, deadline time.Time) {
	svs := []storeVariant{{"local", 0, false}, {"local", 0, true}, {"caslru", 1 << 20, false}, {"caslru", 1 << 20, true}}
	if thorough {
		svs = append(svs, storeVariant{"cas", 0, false}, storeVariant{"cas", 0, true}, storeVariant{"lru", 8, false}, storeVariant{"lru", 8, true})
	}
	var blocks []blockA
	total := 0
	add := func(n int, classes []int, cfg int, sv storeVariant) {
		b := blockA{n: n, classes: classes, cfg: cfg, sv: sv, size: pow(len(classes), n)}
		blocks = append(blocks, b)
		total += b.size
	}
	for ci := range cfgsA {
		for si, sv := range svs {
			add(1, allClasses(), ci, sv)
			// thorough: the full 60x60 two-file grid on the four main layouts;
			// quick: only for the TTI+TTL config on the first and last layout;
			// reduced classes elsewhere.
			if (thorough && si < 4) || (cfgsA[ci].name == "tti+ttl" && (si == 0 || si == len(svs)-1)) {
				add(2, allClasses(), ci, sv)
			} else {
				add(2, reducedClasses, ci, sv)
			}
			if thorough {
				add(3, reducedClasses, ci, sv)
			}
		}
	}
	starts := make([]int, len(blocks)+1)
	for i, b := range blocks {
		starts[i+1] = starts[i] + b.size
	}
	var mu sync.Mutex
	counters := map[string]int64{}
	done, err := forEach(total, deadline, func(wk *worker, i int) error {
		bi := sort.Search(len(blocks), func(k int) bool { return starts[k+1] > i })
		b := blocks[bi]
		t := tuple(i-starts[bi], b.n, len(b.classes))
		fcs := make([]fileClass, b.n)
		for k := range t {
			fcs[k] = classOf(b.classes[t[k]])
		}
		loc := map[string]int64{}
		err := runCaseA(run, wk, cfgsA[b.cfg], b.sv, fcs, loc)
		mu.Lock()
		for k, v := range loc {
			counters[k] += v
		}
		mu.Unlock()
		return err
	})
	if err != nil {
		run.Fatal(fmt.Errorf("grid A: %v", err))
	}
	run.Eval(int(done))
	if int(done) < total {
		run.NotExhaustive(fmt.Sprintf("grid A: deadline after %d of %d cases", done, total))
	}
	run.Set("gridA_cases", done)
	for k, v := range counters {
		run.Set("gridA_"+k, v)
	}
	if done > 0 && run.NViolations() == 0 && (counters["persisted_files_that_were_idle_or_expired"] == 0 || counters["unprotected_removed"] == 0 || counters["unprotected_kept"] == 0) {
		run.Fatal(fmt.Errorf("grid A vacuous: %v", counters))
	}
}

func usageAnswer(util int, total uint64) func() (diskspaceutil.UsageInfo, error) {
	return func() (diskspaceutil.UsageInfo, error) {
		used := total * uint64(util) / 100
		return diskspaceutil.UsageInfo{Util: util, TotalBytes: total, UsedBytes: used, FreeBytes: total - used}, nil
	}
}

// setup builds the files of a case through the store API and sets mtimes.
func setupFile(w *world, name, content string, ps int, lat *time.Time, mtime time.Time) error {
	if err := w.create(name, content); err != nil {
		return fmt.Errorf("create %s: %v", name, err)
	}
	if ps != 0 {
		if _, err := w.op().SetFileMetadata(name, metadata.NewPersist(ps == 2)); err != nil {
			return fmt.Errorf("set persist %s: %v", name, err)
		}
	}
	if lat == nil {
		if err := w.op().DeleteFileMetadata(name, &metadata.LastAccessTime{}); err != nil {
			return fmt.Errorf("delete LAT %s: %v", name, err)
		}
	} else {
		if _, err := w.op().SetFileMetadata(name, metadata.NewLastAccessTime(*lat)); err != nil {
			return fmt.Errorf("set LAT %s: %v", name, err)
		}
	}
	return os.Chtimes(w.dataPath(name), mtime, mtime)
}

func content(name string) string { return "blob-" + name }

func runCaseA(run *evid.Run, wk *worker, c cfgA, sv storeVariant, fcs []fileClass, cnt map[string]int64) error {
	now := wk.clk.Now()
	dir := wk.fresh()
	defer os.RemoveAll(dir)
	w, err := newWorld(dir, sv.kind, sv.cap, wk.clk)
	if err != nil {
		return err
	}
	for i, fc := range fcs {
		var lat *time.Time
		if latAges[fc.lat] >= 0 {
			t := now.Add(-latAges[fc.lat])
			lat = &t
		}
		if err := setupFile(w, names[i], content(names[i]), fc.ps, lat, now.Add(-mtAges[fc.mt])); err != nil {
			return err
		}
	}
	// what is on disk before the pass (sanity of the setup itself)
	for i, fc := range fcs {
		d, err := w.observe(names[i])
		if err != nil {
			return err
		}
		wantP := []string{"", "false", "true"}[fc.ps]
		if !d.exists || d.data != content(names[i]) || d.persist != wantP || d.hasLAT != (latAges[fc.lat] >= 0) ||
			!d.mtime.Equal(now.Add(-mtAges[fc.mt])) || (d.hasLAT && !d.lat.Equal(now.Add(-latAges[fc.lat]))) {
			return fmt.Errorf("setup of %s (%v) not as intended: %+v", names[i], fc, d)
		}
	}
	if sv.restart {
		w.open()
	}
	if c.cfg.AggressiveThreshold != 0 {
		dsu.Set(usageAnswer(c.util, 1000))
		defer dsu.Clear()
	}
	cm := store.VerifNewCleanup(wk.clk)
	_, err = cm.Tick(w.op(), c.cfg)
	cm.Stop()
	if err != nil {
		return fmt.Errorf("cleanup returned %v", err)
	}
	cs := caseA{Config: c.name, Store: fmt.Sprintf("%s cap=%d", sv.kind, sv.cap), Restart: sv.restart, Now: now.UTC().Format(time.RFC3339)}
	var keyParts []string
	var viols []string
	for i, fc := range fcs {
		d, err := w.observe(names[i])
		if err != nil {
			return err
		}
		cs.Files = append(cs.Files, names[i]+": "+fc.String())
		if !d.exists {
			cs.Removed = append(cs.Removed, names[i])
		}
		keyParts = append(keyParts, fmt.Sprintf("%v:%v", fc, d.exists))
		idle := latAges[fc.lat] > tti
		expired := c.effTTL > 0 && mtAges[fc.mt] > c.effTTL
		if fc.ps == 2 {
			if idle || expired || !c.normal {
				cnt["persisted_files_that_were_idle_or_expired"]++
			}
			if !intact(d, content(names[i])) {
				viols = append(viols, "persisted file removed or altered by cleanup pass ("+c.mode+")")
			}
			continue
		}
		if !c.normal {
			continue // aggressive TTL pass: the text only protects persisted files
		}
		boundary := ""
		if fc.lat == 2 {
			boundary = " [last access exactly at idle limit]"
		} else if fc.mt == 1 && c.effTTL > 0 {
			boundary = " [age exactly TTL]"
		}
		switch {
		case expired:
			if d.exists {
				viols = append(viols, "normal cleanup pass kept an unprotected file whose age exceeds the TTL")
			}
			cnt["unprotected_removed"]++
		case latAges[fc.lat] < 0:
			// no recorded access time, not expired: the text does not decide.
			cnt["undecided_noLAT"]++
		case idle:
			if d.exists {
				viols = append(viols, "normal cleanup pass kept an unprotected idle file")
			}
			cnt["unprotected_removed"]++
		default:
			if !d.exists {
				viols = append(viols, "normal cleanup pass removed an unprotected file that is neither idle nor expired"+boundary)
			}
			cnt["unprotected_kept"]++
		}
	}
	run.Distinct("A|" + c.name + "|" + sortedJoin(keyParts))
	if wk.id == 0 && wk.seq%997 == 1 {
		run.Sample(cs)
	}
	for _, fp := range viols {
		run.Violation(fp, cs)
	}
	return nil
}

// ---------------------------------------------------------------------------
// Grid B: the usage-driven policy. The pass deletes until its byte budget is
// used up; running the same directory with every budget k*size (k = 0..n)
// exposes the deletion ORDER as the chain D_0 <= D_1 <= ... of removed sets.

var serveDiff = []time.Duration{0, 10 * time.Minute, 2 * time.Hour} // not served / served / for sure in agent
var serveNames = []string{"unserved", "served", "in-agent"}
var latRanks = []time.Duration{3 * time.Hour, 2 * time.Hour, 1 * time.Hour} // age of last access, rank 0 = least recent

type polClass struct{ cls, rank, ps int }

func (p polClass) String() string {
	return fmt.Sprintf("%s/lat-rank%d/%s", serveNames[p.cls], p.rank, psNames[p.ps])
}

type caseB struct {
	Store   string     `json:"store"`
	Restart bool       `json:"restart_before_pass"`
	Files   []string   `json:"files"`
	Chain   [][]string `json:"removed_for_budget_k"`
}

func gridPolicy(run *evid.Run, thorough bool, deadline time.Time) {
	pss := []int{0, 2}
	maxN := 2
	svs := []storeVariant{{"caslru", 1 << 20, false}, {"local", 0, true}}
	if thorough {
		pss = []int{0, 1, 2}
		maxN = 3
		svs = append(svs, storeVariant{"caslru", 1 << 20, true}, storeVariant{"local", 0, false})
	}
	var classes []polClass
	for _, ps := range pss {
		for cls := 0; cls < 3; cls++ {
			for rank := 0; rank < 3; rank++ {
				classes = append(classes, polClass{cls, rank, ps})
			}
		}
	}
	type job struct {
		sv  storeVariant
		fcs []polClass
	}
	var jobs []job
	for _, sv := range svs {
		for n := 1; n <= maxN; n++ {
			if n == 3 && sv != svs[0] {
				continue
			}
			for idx := 0; idx < pow(len(classes), n); idx++ {
				t := tuple(idx, n, len(classes))
				fcs := make([]polClass, n)
				for k := range t {
					fcs[k] = classes[t[k]]
				}
				jobs = append(jobs, job{sv, fcs})
			}
		}
	}
	var mu sync.Mutex
	counters := map[string]int64{}
	var passes int64
	done, err := forEach(len(jobs), deadline, func(wk *worker, i int) error {
		loc := map[string]int64{}
		np, err := runCaseB(run, wk, jobs[i].sv, jobs[i].fcs, loc)
		mu.Lock()
		passes += int64(np)
		for k, v := range loc {
			counters[k] += v
		}
		mu.Unlock()
		return err
	})
	if err != nil {
		run.Fatal(fmt.Errorf("grid B: %v", err))
	}
	run.Eval(int(passes))
	if int(done) < len(jobs) {
		run.NotExhaustive(fmt.Sprintf("grid B: deadline after %d of %d file sets", done, len(jobs)))
	}
	run.Set("gridB_file_sets", done)
	run.Set("gridB_passes", passes)
	for k, v := range counters {
		run.Set("gridB_"+k, v)
	}
	if done > 0 && run.NViolations() == 0 && (counters["order_constraints_checked"] == 0 || counters["partial_deletions"] == 0) {
		run.Fatal(fmt.Errorf("grid B vacuous (the order was never observable): %v", counters))
	}
}

// mustPrecede: the text requires a to be deleted before b.
func mustPrecede(a, b polClass) bool {
	sa, sb := a.cls >= 1, b.cls >= 1
	if sa != sb {
		return sa // served before the others
	}
	if a.cls != b.cls {
		return false // served vs for-sure-in-agent: left to the implementation
	}
	return a.rank < b.rank // least recently accessed first
}

func runCaseB(run *evid.Run, wk *worker, sv storeVariant, fcs []polClass, cnt map[string]int64) (int, error) {
	now := wk.clk.Now()
	n := len(fcs)
	cs := caseB{Store: fmt.Sprintf("%s cap=%d", sv.kind, sv.cap), Restart: sv.restart}
	for i, fc := range fcs {
		cs.Files = append(cs.Files, names[i]+": "+fc.String())
	}
	cfg := store.CleanupConfig{TTI: tti, TTL: ttl, AggressiveThreshold: 80, AggressiveTTL: aggTTL, AggressiveLowerThreshold: 50}
	size := int64(len(content(names[0])))
	removed := make([][]bool, n+2)
	passes := 0
	for k := 0; k <= n+1; k++ {
		dir := wk.fresh()
		w, err := newWorld(dir, sv.kind, sv.cap, wk.clk)
		if err != nil {
			return passes, err
		}
		for i, fc := range fcs {
			lat := now.Add(-latRanks[fc.rank])
			if err := setupFile(w, names[i], content(names[i]), fc.ps, &lat, lat.Add(-serveDiff[fc.cls])); err != nil {
				os.RemoveAll(dir)
				return passes, err
			}
		}
		if sv.restart {
			w.open()
		}
		// budget of the pass = total - total*50/100 = k*size
		dsu.Set(usageAnswer(90, uint64(2*int64(k)*size)))
		cm := store.VerifNewCleanup(wk.clk)
		_, err = cm.Tick(w.op(), cfg)
		cm.Stop()
		dsu.Clear()
		if err != nil {
			os.RemoveAll(dir)
			return passes, fmt.Errorf("policy cleanup returned %v", err)
		}
		passes++
		removed[k] = make([]bool, n)
		var gone []string
		for i, fc := range fcs {
			d, err := w.observe(names[i])
			if err != nil {
				os.RemoveAll(dir)
				return passes, err
			}
			removed[k][i] = !d.exists
			if !d.exists {
				gone = append(gone, names[i])
			}
			if fc.ps == 2 && !intact(d, content(names[i])) {
				run.Violation("persisted file removed or altered by cleanup pass (usage-policy)", cs.with(k, gone))
			}
		}
		cs.Chain = append(cs.Chain, gone)
		os.RemoveAll(dir)
	}
	deletable := 0
	for _, fc := range fcs {
		if fc.ps != 2 {
			deletable++
		}
	}
	var order []string
	for k := 0; k <= n+1; k++ {
		nGone := 0
		for i := range fcs {
			if removed[k][i] {
				nGone++
				if k > 0 && !removed[k-1][i] {
					order = append(order, fcs[i].String())
				}
			}
			if k > 0 && removed[k-1][i] && !removed[k][i] {
				run.Violation("usage-driven policy: a larger budget kept a file a smaller budget deleted (no consistent order)", cs)
			}
		}
		if nGone > 0 && nGone < deletable {
			cnt["partial_deletions"]++
		}
		for a := range fcs {
			for b := range fcs {
				if a == b || fcs[a].ps == 2 || fcs[b].ps == 2 {
					continue
				}
				if mustPrecede(fcs[a], fcs[b]) {
					cnt["order_constraints_checked"]++
					if removed[k][b] && !removed[k][a] {
						which := "a less recently accessed file of the same class was kept while a more recent one was deleted"
						if (fcs[a].cls >= 1) != (fcs[b].cls >= 1) {
							which = "a file not yet served was deleted while a served one was kept"
						}
						run.Violation("usage-driven policy order: "+which, cs)
					}
				}
			}
		}
	}
	var fl []string
	for _, fc := range fcs {
		fl = append(fl, fc.String())
	}
	run.Distinct("B|" + sortedJoin(fl) + "|" + strings.Join(order, ">"))
	if wk.id == 0 && wk.seq%499 < n+2 && n >= 2 {
		run.Sample(cs)
	}
	return passes, nil
}

func (c caseB) with(k int, gone []string) map[string]interface{} {
	return map[string]interface{}{"store": c.Store, "restart_before_pass": c.Restart, "files": c.Files, "budget_k": k, "removed": gone}
}
