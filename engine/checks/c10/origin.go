package main

import (
	"errors"
	"fmt"
	"net/http"
	"net/http/httptest"
	"os"
	"path/filepath"
	"strings"
	"sync"
	"time"

	"github.com/uber-go/tally"
	"github.com/uber/kraken/core"
	"github.com/uber/kraken/lib/persistedretry"
	"github.com/uber/kraken/lib/store"
	"github.com/uber/kraken/lib/store/base"
	"github.com/uber/kraken/lib/store/metadata"
	"github.com/uber/kraken/origin/blobserver"
	"github.com/uber/kraken/utils/stringset"

	"verif/evid"
)

// ---------------------------------------------------------------------------
// Grid C: the origin's own removal paths on a real blobserver.Server over a
// real CAStore: POST /forcecleanup (maybeDelete: write-back first) and
// DELETE /internal/blobs/{digest}. Ring and write-back manager are fakes.

type fakeRing struct{ locs []string }

func (r fakeRing) Locations(core.Digest) []string { return r.locs }
func (r fakeRing) Contains(string) bool           { return true }
func (r fakeRing) WaitForContains(string) error   { return nil }
func (r fakeRing) Members() stringset.Set         { return stringset.New(r.locs...) }
func (r fakeRing) Monitor(<-chan struct{})        {}
func (r fakeRing) Refresh()                       {}

type fakeTask struct {
	name string
	idx  int
}

func (t *fakeTask) GetLastAttempt() time.Time { return time.Time{} }
func (t *fakeTask) GetFailures() int          { return 0 }
func (t *fakeTask) Ready() bool               { return true }
func (t *fakeTask) Tags() map[string]string   { return nil }

type fakeWB struct {
	tasks  map[string][]persistedretry.Task
	failAt map[string]int
	execOK map[string]int
	onExec func(name string)
}

func (m *fakeWB) Add(persistedretry.Task) error { return nil }
func (m *fakeWB) Close()                        {}
func (m *fakeWB) Find(q interface{}) ([]persistedretry.Task, error) {
	s := fmt.Sprintf("%+v", q) // &{name:<hex>}
	i := strings.Index(s, "name:")
	if i < 0 {
		return nil, fmt.Errorf("fakeWB: query %q", s)
	}
	name := strings.TrimSuffix(s[i+5:], "}")
	return m.tasks[name], nil
}
func (m *fakeWB) SyncExec(t persistedretry.Task) error {
	ft := t.(*fakeTask)
	m.onExec(ft.name)
	if m.failAt[ft.name] == ft.idx {
		return errors.New("backend unavailable")
	}
	m.execOK[ft.name]++
	return nil
}

type blobClass struct {
	old    bool // data file older than the forced TTL
	ps     int
	tasks  int
	failAt int // -1: every write-back succeeds
}

func (b blobClass) String() string {
	age := "fresh"
	if b.old {
		age = "expired"
	}
	return fmt.Sprintf("%s/%s/tasks=%d/failAt=%d", age, psNames[b.ps], b.tasks, b.failAt)
}

type caseC struct {
	Request  string   `json:"request"`
	Owns     bool     `json:"ring_says_owner"`
	Capacity int      `json:"lru_capacity"`
	Blobs    []string `json:"blobs"`
	Removed  []string `json:"removed"`
	Status   int      `json:"http_status"`
}

func gridOrigin(run *evid.Run, thorough bool, deadline time.Time) {
	var tf [][2]int
	for t := 0; t <= 2; t++ {
		for f := -1; f < t; f++ {
			tf = append(tf, [2]int{t, f})
		}
	}
	var classes []blobClass
	for _, old := range []bool{false, true} {
		for ps := 0; ps < 3; ps++ {
			for _, x := range tf {
				if ps != 2 && x != tf[0] && !(thorough && x == tf[1]) {
					continue // tasks only matter for a persisted blob
				}
				classes = append(classes, blobClass{old, ps, x[0], x[1]})
			}
		}
	}
	type job struct {
		req  string
		owns bool
		cap  int
		bcs  []blobClass
	}
	var jobs []job
	for _, req := range []string{"forcecleanup", "delete0"} {
		for _, owns := range []bool{true, false} {
			for _, c := range []int{1 << 20, 1} {
				for n := 1; n <= 2; n++ {
					for idx := 0; idx < pow(len(classes), n); idx++ {
						t := tuple(idx, n, len(classes))
						bcs := make([]blobClass, n)
						for k := range t {
							bcs[k] = classes[t[k]]
						}
						if req == "delete0" && (!owns || bcs[0].tasks != 0 && bcs[0].ps != 2) {
							continue
						}
						jobs = append(jobs, job{req, owns, c, bcs})
					}
				}
			}
		}
	}
	var mu sync.Mutex
	counters := map[string]int64{}
	done, err := forEach(len(jobs), deadline, func(wk *worker, i int) error {
		j := jobs[i]
		loc := map[string]int64{}
		err := runCaseC(run, wk, j.req, j.owns, j.cap, j.bcs, loc)
		mu.Lock()
		for k, v := range loc {
			counters[k] += v
		}
		mu.Unlock()
		return err
	})
	if err != nil {
		run.Fatal(fmt.Errorf("grid C: %v", err))
	}
	run.Eval(int(done))
	if int(done) < len(jobs) {
		run.NotExhaustive(fmt.Sprintf("grid C: deadline after %d of %d cases", done, len(jobs)))
	}
	run.Set("gridC_cases", done)
	for k, v := range counters {
		run.Set("gridC_"+k, v)
	}
	if done > 0 && run.NViolations() == 0 && (counters["persisted_removed_after_writeback"] == 0 || counters["persisted_kept_writeback_failed"] == 0 || counters["delete_request_on_persisted"] == 0) {
		run.Fatal(fmt.Errorf("grid C vacuous: %v", counters))
	}
}

func runCaseC(run *evid.Run, wk *worker, req string, owns bool, capacity int, bcs []blobClass, cnt map[string]int64) error {
	now := wk.clk.Now()
	dir := wk.fresh()
	defer os.RemoveAll(dir)
	cas, err := store.VerifNewCAStore(store.CAStoreConfig{
		UploadDir:     filepath.Join(dir, "upload"),
		CacheDir:      filepath.Join(dir, "cache"),
		Capacity:      capacity,
		UploadCleanup: store.CleanupConfig{Disabled: true},
		CacheCleanup:  store.CleanupConfig{Disabled: true},
	}, wk.clk)
	if err != nil {
		return err
	}
	defer cas.Close()
	fac := base.NewCASFileEntryFactory()
	path := func(hex string) string { return filepath.Join(dir, "cache", fac.GetRelativePath(hex)) }
	observe := func(hex string) (disk, error) {
		w := &world{state: base.NewFileState(filepath.Join(dir, "cache")), fac: fac}
		return w.observe(hex)
	}
	var early []string
	wb := &fakeWB{tasks: map[string][]persistedretry.Task{}, failAt: map[string]int{}, execOK: map[string]int{}}
	hexes := make([]string, len(bcs))
	datas := make([]string, len(bcs))
	digests := make([]core.Digest, len(bcs))
	for i, bc := range bcs {
		datas[i] = fmt.Sprintf("origin-blob-%d", i)
		d, err := core.NewDigester().FromBytes([]byte(datas[i]))
		if err != nil {
			return err
		}
		digests[i], hexes[i] = d, d.Hex()
		if err := cas.CreateCacheFile(d.Hex(), strings.NewReader(datas[i])); err != nil {
			return fmt.Errorf("CreateCacheFile: %v", err)
		}
		if bc.ps != 0 {
			if _, err := cas.SetCacheFileMetadata(d.Hex(), metadata.NewPersist(bc.ps == 2)); err != nil {
				return fmt.Errorf("set persist: %v", err)
			}
		}
		age := time.Minute
		if bc.old {
			age = 3 * time.Hour
		}
		// With capacity 1 an earlier unprotected blob has been evicted by now.
		if _, err := os.Stat(path(d.Hex())); err != nil {
			return fmt.Errorf("blob %d vanished during setup: %v", i, err)
		}
		if err := os.Chtimes(path(d.Hex()), now.Add(-age), now.Add(-age)); err != nil {
			return err
		}
		for t := 0; t < bc.tasks; t++ {
			wb.tasks[d.Hex()] = append(wb.tasks[d.Hex()], &fakeTask{name: d.Hex(), idx: t})
		}
		wb.failAt[d.Hex()] = bc.failAt
	}
	pre := make([]disk, len(bcs))
	for i := range bcs {
		if pre[i], err = observe(hexes[i]); err != nil {
			return err
		}
	}
	wb.onExec = func(name string) {
		for i := range hexes {
			if hexes[i] == name {
				d, err := observe(name)
				if err != nil || !intact(d, datas[i]) {
					early = append(early, fmt.Sprintf("blob %d", i))
				}
			}
		}
	}
	locs := []string{"other-origin"}
	if owns {
		locs = []string{"me"}
	}
	srv, err := blobserver.New(blobserver.Config{}, tally.NoopScope, wk.clk, "me", fakeRing{locs}, cas, nil, nil, core.PeerContext{}, nil, nil, nil, wb)
	if err != nil {
		return err
	}
	var r *http.Request
	if req == "forcecleanup" {
		r = httptest.NewRequest("POST", "/forcecleanup?ttl_hr=1", nil)
	} else {
		r = httptest.NewRequest("DELETE", "/internal/blobs/"+digests[0].String(), nil)
	}
	rec := httptest.NewRecorder()
	srv.Handler().ServeHTTP(rec, r)
	cs := caseC{Request: req, Owns: owns, Capacity: capacity, Status: rec.Code}
	if req == "forcecleanup" && rec.Code != 200 {
		return fmt.Errorf("forcecleanup answered %d: %s", rec.Code, rec.Body.String())
	}
	var key []string
	var viols []string
	for i, bc := range bcs {
		cs.Blobs = append(cs.Blobs, fmt.Sprintf("blob %d: %v", i, bc))
		d, err := observe(hexes[i])
		if err != nil {
			return err
		}
		if !d.exists {
			cs.Removed = append(cs.Removed, fmt.Sprintf("blob %d", i))
		}
		key = append(key, fmt.Sprintf("%v:%v", bc, d.exists))
		if bc.ps != 2 {
			continue // unprotected: eviction / deletion is the implementation's choice
		}
		if !pre[i].exists {
			// only possible with capacity 1: the next blob's creation evicted it
			viols = append(viols, "persisted blob removed by LRU eviction of the CAStore file map (another blob created)")
			continue
		}
		if capacity == 1 && len(bcs) == 2 && i == 0 {
			cnt["persisted_blob_survived_eviction_by_next_blob"]++
		}
		if req == "delete0" {
			if i == 0 {
				cnt["delete_request_on_persisted"]++
			}
			if !intact(d, datas[i]) {
				viols = append(viols, "persisted blob removed or altered by the origin delete request")
			}
			continue
		}
		candidate := bc.old || !owns
		switch {
		case !d.exists:
			if !candidate {
				viols = append(viols, "forced cleanup removed a persisted blob that is neither expired nor foreign")
			} else if bc.failAt >= 0 || wb.execOK[hexes[i]] != bc.tasks {
				viols = append(viols, "forced cleanup removed a persisted blob although its write-back did not succeed")
			} else if bc.tasks > 0 {
				cnt["persisted_removed_after_writeback"]++
			} else {
				cnt["persisted_without_tasks_removed(leaked-file rule)"]++
			}
		default:
			if !intact(d, datas[i]) {
				viols = append(viols, "forced cleanup altered a persisted blob it kept")
			}
			if candidate && bc.failAt >= 0 {
				cnt["persisted_kept_writeback_failed"]++
			}
		}
	}
	if len(early) > 0 {
		viols = append(viols, "forced cleanup touched a persisted blob before its write-back ran")
	}
	run.Distinct(fmt.Sprintf("C|%s|%v|%d|%s", req, owns, capacity, strings.Join(key, ",")))
	if wk.id == 0 && wk.seq%211 == 1 {
		run.Sample(cs)
	}
	for _, fp := range viols {
		run.Violation(fp, cs)
	}
	return nil
}
