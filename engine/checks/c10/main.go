// C10: files awaiting write-back (persist flag) are never deleted — by a delete
// request, by LRU eviction of the file map, by periodic or aggressive cleanup —
// a normal cleanup pass removes exactly the unprotected idle / expired files,
// and the usage-driven policy deletes served files first, LRU first.
//
// E4 (grids.go): small-scope grids through the REAL cleanupManager.cleanup
// (reached through an overlay export file; disk usage answered by the check),
// and through the REAL origin blobserver handlers (forcecleanup / DELETE).
// E3 (bfs.go): BFS over op histories on the real base LRU file stores.
package main

import (
	"fmt"
	"os"
	"path/filepath"
	"sort"
	"strings"
	"sync"
	"sync/atomic"
	"time"

	"github.com/andres-erbsen/clock"
	"github.com/uber/kraken/lib/store"
	"github.com/uber/kraken/lib/store/base"
	"github.com/uber/kraken/lib/store/metadata"

	"verif/evid"
	_ "verif/quiet"
)

const (
	tti    = 6 * time.Hour
	ttl    = 24 * time.Hour
	aggTTL = 1 * time.Hour
)

// gridNow is the (mock) present of every grid case. Whole seconds: the LAT
// sidecar has second resolution.
var gridNow = time.Date(2021, 3, 4, 5, 0, 0, 0, time.UTC)

var names = []string{"aa01", "bb02", "cc03"} // valid for the local and the CAS layout

// ---------------------------------------------------------------------------
// world: one real base.FileStore over a scratch directory.

type world struct {
	dir   string
	kind  string // local | cas | lru | caslru
	cap   int
	clk   clock.Clock
	fs    base.FileStore
	state base.FileState
	fac   base.FileEntryFactory
}

func newWorld(dir, kind string, capacity int, clk clock.Clock) (*world, error) {
	w := &world{dir: dir, kind: kind, cap: capacity, clk: clk}
	if err := os.MkdirAll(dir, 0o775); err != nil {
		return nil, err
	}
	w.state = base.NewFileState(dir)
	switch kind {
	case "local", "lru":
		w.fac = base.NewLocalFileEntryFactory()
	case "cas", "caslru":
		w.fac = base.NewCASFileEntryFactory()
	default:
		return nil, fmt.Errorf("kind %q", kind)
	}
	w.open()
	return w, nil
}

// open (re)creates the store object over the same directory: a process restart.
func (w *world) open() {
	switch w.kind {
	case "local":
		w.fs = base.NewLocalFileStore(w.clk)
	case "cas":
		w.fs = base.NewCASFileStore(w.clk)
	case "lru":
		w.fs = base.NewLRUFileStore(w.cap, w.clk)
	case "caslru":
		w.fs = base.NewCASFileStoreWithLRUMap(w.cap, w.clk)
	}
}

func (w *world) op() base.FileOp { return w.fs.NewFileOp().AcceptState(w.state) }

func (w *world) dataPath(name string) string {
	return filepath.Join(w.state.GetDirectory(), w.fac.GetRelativePath(name))
}

// create makes a file with content through the store API.
func (w *world) create(name, content string) error {
	if err := w.op().CreateFile(name, w.state, int64(len(content))); err != nil {
		return err
	}
	rw, err := w.op().GetFileReadWriter(name, 100, 100)
	if err != nil {
		return fmt.Errorf("readwriter after create: %v", err)
	}
	if _, err := rw.Write([]byte(content)); err != nil {
		rw.Close()
		return fmt.Errorf("write after create: %v", err)
	}
	return rw.Close()
}

// disk is what is on disk for one name (read with plain os calls).
type disk struct {
	exists  bool
	data    string
	persist string // "" (no sidecar) or the sidecar's bytes
	hasLAT  bool
	lat     time.Time
	mtime   time.Time
}

func (w *world) observe(name string) (disk, error) {
	var d disk
	p := w.dataPath(name)
	st, err := os.Stat(p)
	if os.IsNotExist(err) {
		return d, nil
	} else if err != nil {
		return d, err
	}
	d.exists = true
	d.mtime = st.ModTime()
	b, err := os.ReadFile(p)
	if err != nil {
		return d, err
	}
	d.data = string(b)
	pb, err := os.ReadFile(filepath.Join(filepath.Dir(p), "_persist"))
	if err == nil {
		d.persist = string(pb)
	} else if !os.IsNotExist(err) {
		return d, err
	}
	lb, err := os.ReadFile(filepath.Join(filepath.Dir(p), "_last_access_time"))
	if err == nil {
		var lat metadata.LastAccessTime
		if err := lat.Deserialize(lb); err != nil {
			return d, fmt.Errorf("LAT sidecar of %s unreadable: %v", name, err)
		}
		d.hasLAT, d.lat = true, lat.Time
	} else if !os.IsNotExist(err) {
		return d, err
	}
	return d, nil
}

// intact: a protected file is still there with its data and its flag.
func intact(d disk, content string) bool {
	return d.exists && d.data == content && d.persist == "true"
}

// ---------------------------------------------------------------------------
// parallel grid driver

type worker struct {
	id   int
	root string
	seq  int
	clk  *clock.Mock
}

func (wk *worker) fresh() string {
	wk.seq++
	return filepath.Join(wk.root, fmt.Sprintf("c%d", wk.seq))
}

// forEach runs f(worker, i) for i in [0,n) on evid.Workers() goroutines. The
// first error (harness error) is returned. stop() makes workers drain.
func forEach(n int, deadline time.Time, f func(wk *worker, i int) error) (done int64, err error) {
	nw := evid.Workers()
	var next, completed int64 = -1, 0
	var mu sync.Mutex
	var wg sync.WaitGroup
	for k := 0; k < nw; k++ {
		wg.Add(1)
		go func(k int) {
			defer wg.Done()
			root, e := os.MkdirTemp("", "c10-")
			if e != nil {
				mu.Lock()
				if err == nil {
					err = e
				}
				mu.Unlock()
				return
			}
			defer os.RemoveAll(root)
			clk := clock.NewMock()
			clk.Set(gridNow)
			wk := &worker{id: k, root: root, clk: clk}
			for {
				i := atomic.AddInt64(&next, 1)
				if i >= int64(n) {
					return
				}
				if i%64 == 0 && !deadline.IsZero() && time.Now().After(deadline) {
					return
				}
				mu.Lock()
				failed := err != nil
				mu.Unlock()
				if failed {
					return
				}
				if e := f(wk, int(i)); e != nil {
					mu.Lock()
					if err == nil {
						err = e
					}
					mu.Unlock()
					return
				}
				atomic.AddInt64(&completed, 1)
			}
		}(k)
	}
	wg.Wait()
	return completed, err
}

// product enumerates all tuples of n digits in [0,base).
func tuple(idx, n, b int) []int {
	t := make([]int, n)
	for i := 0; i < n; i++ {
		t[i] = idx % b
		idx /= b
	}
	return t
}

func pow(b, n int) int {
	r := 1
	for i := 0; i < n; i++ {
		r *= b
	}
	return r
}

func sortedJoin(xs []string) string {
	ys := append([]string{}, xs...)
	sort.Strings(ys)
	return strings.Join(ys, ",")
}

var _ = store.CleanupConfig{}

func main() {
	run := evid.New("C10", "model_checking")
	thorough := run.Thorough()
	run.Rule = "E4: every file set of the small-scope grid (data-file age class x last-access class x persist sidecar x cleanup config x store layout x restart) is built through the store API (+os.Chtimes) and cleaned by the real cleanupManager.cleanup; every deletion budget k for the usage-driven policy; every (age, ownership, persist, write-back task outcome) case through the real origin forcecleanup/DELETE handlers. E3: BFS over all op histories (create, read, persist on/off, DeleteFile, cleanup pass, clock advance, restart) on the real base LRU file stores, every transition compared with the persist-protection model and the exact idle/expired set. A case is distinct by its (config, per-file class, outcome) tuple / BFS state key."
	run.Assume("small-scope: <= 3 files per store; ages/access times drawn from {fresh, exactly at limit, limit+1s, far beyond}; LRU capacity 1-2")
	run.Assume("time is clock.Mock (BFS: a clock.Mock embedded in a settable wrapper, only Now() overridden, to avoid Mock.Add's real 1ms sleep); data-file mtimes are set with os.Chtimes relative to the mock clock")
	run.Assume("disk usage is answered by the check (overlay rewrites the diskspaceutil import of lib/store/cleanup.go to a check-local shim); the sandbox's real disk usage never decides a case")
	run.Assume("sequential histories only (no concurrent access while a pass runs); 'last access' is the access time the store recorded (LAT sidecar), cross-checked in the BFS against the time of the last successful read/create")
	run.Assume("the text does not say what idle means for a file without a recorded access time: such files are only checked for persist protection and TTL expiry")
	run.Assume("usage-driven policy: 'served to consumers' = accessed >= 10 min after download, 'not served' = never accessed after download (the 1 s heuristic boundary is kept out); the relative order of 'for sure in agent' (>45 min) vs merely served files is not constrained")

	budget := 90 * time.Second
	if thorough {
		budget = 10 * time.Minute
	}
	deadline := time.Now().Add(budget)

	for _, part := range []struct {
		name string
		f    func(*evid.Run, bool, time.Time)
	}{{"gridA", gridNormal}, {"gridB", gridPolicy}, {"gridC", gridOrigin}, {"bfs", searchStores}} {
		t0 := time.Now()
		part.f(run, thorough, deadline)
		run.Set("wall_s_"+part.name, time.Since(t0).Seconds())
	}
	run.Finish()
}
