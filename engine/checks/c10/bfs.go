package main

import (
	"fmt"
	"io"
	"os"
	"strings"
	"sync"
	"time"

	"github.com/andres-erbsen/clock"
	"github.com/uber/kraken/lib/store"
	"github.com/uber/kraken/lib/store/base"
	"github.com/uber/kraken/lib/store/metadata"

	"verif/bfs"
	"verif/evid"
	"verif/rep"
)

// ---------------------------------------------------------------------------
// E3: BFS over op histories on the real LRU file stores.

const (
	bfsTTI = time.Hour
	bfsRes = 5 * time.Minute // lruFileMap.timeResolution
)

var bfsStart = time.Date(2021, 3, 4, 5, 0, 0, 0, time.UTC)

// mclock is a clock.Mock whose Now() is settable without Mock.Add's real sleep.
type mclock struct {
	*clock.Mock
	mu  sync.Mutex
	now time.Time
}

func (c *mclock) Now() time.Time {
	c.mu.Lock()
	defer c.mu.Unlock()
	return c.now
}
func (c *mclock) advance(d time.Duration) {
	c.mu.Lock()
	c.now = c.now.Add(d)
	c.mu.Unlock()
}

type paramsD struct {
	kind  string
	cap   int
	names []string
	ttl   time.Duration
	// fine: sub-resolution clock mode. The idle limit is 9 min and the clock
	// advances by 4 min (shorter than the 5 min write-out resolution of the
	// recorded access time) or 5 min; no persist ops (kept small, depth 8).
	fine bool
}

const (
	fineTTI  = 9 * time.Minute
	fineStep = 4 * time.Minute
)

func (p paramsD) tti() time.Duration {
	if p.fine {
		return fineTTI
	}
	return bfsTTI
}

type mfile struct {
	exists   bool
	flag     int // 0 none, 1 false, 2 true (as acknowledged by the API)
	data     string
	lastRead time.Time // last successful create / read through the API
}

type sysD struct {
	p    paramsD
	dir  string
	clk  *mclock
	w    *world
	cm   *store.VerifCleanup
	m    map[string]*mfile
	stat *statsD
}

type statsD struct {
	mu   sync.Mutex
	seen map[string]bool
	cnt  map[string]int64
	run  *evid.Run
}

// once counts an event class once per (state, op).
func (s *statsD) once(key, class string) {
	s.mu.Lock()
	if !s.seen[key+"|"+class] {
		s.seen[key+"|"+class] = true
		s.cnt[class]++
	}
	s.mu.Unlock()
}

func newSysD(p paramsD, st *statsD) (*sysD, error) {
	dir, err := os.MkdirTemp("", "c10bfs-")
	if err != nil {
		return nil, err
	}
	clk := &mclock{Mock: clock.NewMock(), now: bfsStart}
	w, err := newWorld(dir+"/cache", p.kind, p.cap, clk)
	if err != nil {
		return nil, err
	}
	s := &sysD{p: p, dir: dir, clk: clk, w: w, cm: store.VerifNewCleanup(clk), m: map[string]*mfile{}, stat: st}
	for _, n := range p.names {
		s.m[n] = &mfile{}
	}
	return s, nil
}

func (s *sysD) Close() {
	s.cm.Stop()
	os.RemoveAll(s.dir)
}

func (s *sysD) Ops() []string {
	var ops []string
	for _, n := range s.p.names {
		f := s.m[n]
		if !f.exists {
			ops = append(ops, "create "+n)
			continue
		}
		ops = append(ops, "read "+n)
		if s.p.fine {
			ops = append(ops, "del "+n)
			continue
		}
		if f.flag != 2 {
			ops = append(ops, "pt "+n)
		}
		if f.flag != 1 {
			ops = append(ops, "pf "+n)
		}
		ops = append(ops, "del "+n)
	}
	if s.p.fine {
		return append(ops, "clean", "advS", "advR", "reload")
	}
	return append(ops, "clean", "advR", "advI", "reload")
}

func (s *sysD) capAge(t time.Time) time.Duration {
	lim := s.p.tti()
	if s.p.ttl > lim {
		lim = s.p.ttl
	}
	a := s.clk.Now().Sub(t)
	if a > lim {
		return lim + time.Second
	}
	return a
}

func (s *sysD) keyOf(ds map[string]disk) string {
	var b strings.Builder
	for _, n := range s.p.names {
		f, d := s.m[n], ds[n]
		fmt.Fprintf(&b, "%s:%v/%d/%q", n, d.exists, f.flag, d.persist)
		if d.exists {
			fmt.Fprintf(&b, "/lat%v/mt%v/rd%v/%s", s.capAge(d.lat), s.capAge(d.mtime), s.capAge(f.lastRead), d.data)
			if !d.hasLAT {
				b.WriteString("/noLAT")
			}
		}
		b.WriteByte(';')
	}
	b.WriteString("map:")
	for _, e := range base.VerifMapState(s.w.fs) {
		fmt.Fprintf(&b, "%s@%v,", e.Name, s.capAge(e.LAT))
	}
	return b.String()
}

func (s *sysD) observeAll() (map[string]disk, error) {
	ds := map[string]disk{}
	for _, n := range s.p.names {
		d, err := s.w.observe(n)
		if err != nil {
			return nil, err
		}
		ds[n] = d
	}
	return ds, nil
}

func (s *sysD) Key() string {
	ds, err := s.observeAll()
	if err != nil {
		return "observe-error:" + err.Error()
	}
	return s.keyOf(ds)
}

func opContext(kind string, same bool) string {
	switch kind {
	case "create":
		if same {
			return "its own creation"
		}
		return "LRU eviction (another file created)"
	case "read", "pt", "pf":
		if same {
			return "an access to it (" + kind + ")"
		}
		return "LRU eviction (another file accessed: " + kind + ")"
	case "del":
		if same {
			return "a delete request"
		}
		return "the delete of another file"
	case "clean":
		return "a cleanup pass"
	case "reload":
		return "a store restart"
	}
	return "a clock advance"
}

func (s *sysD) Apply(op string) error {
	fs := strings.Fields(op)
	kind, name := fs[0], ""
	if len(fs) > 1 {
		name = fs[1]
	}
	pre, err := s.observeAll()
	if err != nil {
		return err
	}
	preKey := s.keyOf(pre)
	preInMap := map[string]bool{}
	for _, e := range base.VerifMapState(s.w.fs) {
		preInMap[e.Name] = true
	}
	type snap struct {
		exists bool
		flag   int
		data   string
	}
	preM := map[string]snap{}
	onDisk := 0
	for _, n := range s.p.names {
		f := s.m[n]
		if f.exists != pre[n].exists {
			return fmt.Errorf("model out of sync for %s before %q", n, op)
		}
		preM[n] = snap{f.exists, f.flag, f.data}
		if f.exists {
			onDisk++
		}
	}
	now := s.clk.Now()
	var apiErr error
	switch kind {
	case "create":
		apiErr = s.w.create(name, content(name))
		if apiErr == nil {
			if err := os.Chtimes(s.w.dataPath(name), now, now); err != nil {
				return err
			}
			f := s.m[name]
			f.exists, f.flag, f.data, f.lastRead = true, 0, content(name), now
		} else if !os.IsExist(apiErr) {
			return fmt.Errorf("create %s: %v", name, apiErr)
		}
	case "read":
		var r base.FileReader
		r, apiErr = s.w.op().GetFileReader(name, 100)
		if apiErr == nil {
			b, err := io.ReadAll(r)
			r.Close()
			if err != nil {
				return err
			}
			s.m[name].lastRead = now
			if preM[name].flag == 2 && string(b) != preM[name].data {
				return bfs.Failf("persisted file read back with different data", "op %q read %q want %q", op, b, preM[name].data)
			}
		} else if !os.IsNotExist(apiErr) {
			return fmt.Errorf("read %s: %v", name, apiErr)
		} else if preM[name].flag == 2 {
			return bfs.Failf("persisted file not readable through the store", "op %q: %v", op, apiErr)
		}
	case "pt", "pf":
		_, apiErr = s.w.op().SetFileMetadata(name, metadata.NewPersist(kind == "pt"))
		if apiErr == nil {
			if kind == "pt" {
				s.m[name].flag = 2
			} else {
				s.m[name].flag = 1
			}
		} else if !os.IsNotExist(apiErr) {
			return fmt.Errorf("%s: %v", op, apiErr)
		}
	case "del":
		apiErr = s.w.op().DeleteFile(name)
		if apiErr == base.ErrFilePersisted {
			s.stat.once(preKey+op, "delete answered ErrFilePersisted")
		}
	case "clean":
		cfg := store.CleanupConfig{TTI: s.p.tti(), TTL: s.p.ttl}
		if _, err := s.cm.Tick(s.w.op(), cfg); err != nil {
			return fmt.Errorf("cleanup: %v", err)
		}
	case "advS":
		s.clk.advance(fineStep)
	case "advR":
		s.clk.advance(bfsRes)
	case "advI":
		s.clk.advance(s.p.tti() + time.Second)
	case "reload":
		s.w.open()
	default:
		return fmt.Errorf("op %q", op)
	}
	post, err := s.observeAll()
	if err != nil {
		return err
	}

	// 1. persist protection: whatever was protected before the op (and is not
	// being un-protected by it) is still there with its data and its flag.
	var cls []string
	for _, n := range s.p.names {
		pm := preM[n]
		d := post[n]
		if !pm.exists {
			continue
		}
		same := n == name
		if pm.flag == 2 {
			s.stat.once(preKey+op, "transitions with a protected file: "+kind)
			if kind == "pf" && same && apiErr == nil {
				if !d.exists || d.data != pm.data {
					return bfs.Failf("file lost while its persist flag was cleared", "op %q on %v: now %+v", op, pm, d)
				}
			} else if !intact(d, pm.data) {
				return bfs.Failf("persisted file removed or altered by "+opContext(kind, same), "history ends with %q; %s before %+v, on disk now %+v", op, n, pm, d)
			}
			cls = append(cls, n+":protected-kept")
			continue
		}
		if kind == "pt" && same && apiErr == nil && !intact(d, pm.data) {
			return bfs.Failf("persist flag not on disk after a successful mark", "op %q: on disk now %+v", op, d)
		}
		if d.exists {
			cls = append(cls, n+":kept")
		} else {
			cls = append(cls, n+":gone")
		}
	}

	// 2. the cleanup pass removes exactly the unprotected idle / expired files.
	if kind == "clean" {
		evictionPossible := s.p.cap > 0 && onDisk > s.p.cap
		for _, n := range s.p.names {
			pm, pd, d := preM[n], pre[n], post[n]
			if !pm.exists || pm.flag == 2 {
				if pm.exists && (now.Sub(pd.lat) > s.p.tti() || s.p.ttl > 0 && now.Sub(pd.mtime) > s.p.ttl) {
					s.stat.once(preKey+op, "cleanup pass over an idle/expired PROTECTED file")
				}
				continue
			}
			if !pd.hasLAT {
				return fmt.Errorf("%s has no LAT sidecar (not reachable in this alphabet)", n)
			}
			expired := s.p.ttl > 0 && now.Sub(pd.mtime) > s.p.ttl
			idle := now.Sub(pd.lat) > s.p.tti()
			// The recorded access time may lag a real access by less than the
			// write-out resolution; a read is decidedly "within the idle
			// limit" only if it still is after adding that lag. Reads in the
			// band (TTI-resolution, TTI] are decided by the recorded time.
			recentlyRead := now.Sub(s.m[n].lastRead) <= s.p.tti()-bfsRes
			if !expired && now.Sub(s.m[n].lastRead) <= s.p.tti() && !recentlyRead && idle {
				s.stat.once(preKey+op, "read inside the undecided band (recorded time lags by < resolution)")
			}
			switch {
			case expired || idle:
				if idle && recentlyRead && !expired {
					// the recorded access time lags a successful read by more
					// than the idle limit: the file is not idle by the text.
					if !d.exists {
						return bfs.Failf("cleanup pass removed a file that was read within the idle limit (recorded access time stale)", "op %q: %s lastRead %v ago, sidecar LAT %v ago", op, n, now.Sub(s.m[n].lastRead), now.Sub(pd.lat))
					}
					continue
				}
				if d.exists {
					what := "idle"
					if expired {
						what = "expired (TTL)"
					}
					return bfs.Failf("cleanup pass kept an unprotected "+what+" file", "op %q: %s lat %v ago, mtime %v ago", op, n, now.Sub(pd.lat), now.Sub(pd.mtime))
				}
				s.stat.once(preKey+op, "cleanup removed idle/expired unprotected file")
			default:
				if !d.exists {
					if evictionPossible {
						// more files on disk than the LRU map holds: loading
						// them for the pass evicts (and deletes) unprotected
						// ones; that is LRU eviction, which the text allows.
						s.stat.once(preKey+op, "fresh unprotected file evicted by the map while the pass scanned (files > capacity)")
						continue
					}
					return bfs.Failf("cleanup pass removed an unprotected file that is neither idle nor expired", "op %q: %s lat %v ago, mtime %v ago", op, n, now.Sub(pd.lat), now.Sub(pd.mtime))
				}
				s.stat.once(preKey+op, "cleanup kept fresh unprotected file")
			}
		}
	}

	// 3. model follows the disk for unprotected files (eviction is the
	// implementation's choice).
	for _, n := range s.p.names {
		f := s.m[n]
		if !post[n].exists {
			*f = mfile{}
		} else if !f.exists {
			return fmt.Errorf("%s appeared on disk after %q without a successful create", n, op)
		}
	}
	// eviction of a protected entry from the in-memory map (file stays on disk)
	inMap := map[string]bool{}
	for _, e := range base.VerifMapState(s.w.fs) {
		inMap[e.Name] = true
	}
	for _, n := range s.p.names {
		if preM[n].exists && preM[n].flag == 2 && preInMap[n] && !inMap[n] && kind != "reload" && kind != "del" {
			s.stat.once(preKey+op, "protected entry evicted from the map, file kept on disk")
		}
	}
	s.stat.run.Distinct("D|" + s.p.kind + "|" + kind + "|" + strings.Join(cls, ",") + "|" + fmt.Sprint(apiErr != nil))
	return nil
}

func searchStores(run *evid.Run, thorough bool, deadline time.Time) {
	type search struct {
		name  string
		p     paramsD
		depth int
	}
	two, three := names[:2], names[:3]
	searches := []search{
		{"lru cap=1 2 names ttl=off", paramsD{kind: "lru", cap: 1, names: two, ttl: 0}, 6},
		{"caslru cap=1 2 names ttl=3h", paramsD{kind: "caslru", cap: 1, names: two, ttl: 3 * time.Hour}, 6},
		{"lru cap=2 3 names ttl=off", paramsD{kind: "lru", cap: 2, names: three, ttl: 0}, 5},
		{"fine clock (4/5 min steps, TTI 9 min) lru cap=2 2 names", paramsD{kind: "lru", cap: 2, names: two, fine: true}, 8},
	}
	if thorough {
		searches = []search{
			{"lru cap=1 2 names ttl=off", paramsD{kind: "lru", cap: 1, names: two, ttl: 0}, 6},
			{"lru cap=1 2 names ttl=3h", paramsD{kind: "lru", cap: 1, names: two, ttl: 3 * time.Hour}, 6},
			{"caslru cap=1 2 names ttl=3h", paramsD{kind: "caslru", cap: 1, names: two, ttl: 3 * time.Hour}, 6},
			{"caslru cap=2 3 names ttl=off", paramsD{kind: "caslru", cap: 2, names: three, ttl: 0}, 6},
			{"lru cap=2 3 names ttl=3h", paramsD{kind: "lru", cap: 2, names: three, ttl: 3 * time.Hour}, 6},
			{"lru cap=unbounded 2 names ttl=3h", paramsD{kind: "lru", cap: 0, names: two, ttl: 3 * time.Hour}, 6},
			{"fine clock (4/5 min steps, TTI 9 min) lru cap=2 2 names", paramsD{kind: "lru", cap: 2, names: two, fine: true}, 9},
			{"fine clock (4/5 min steps, TTI 9 min) caslru cap=1 2 names ttl=20min", paramsD{kind: "caslru", cap: 1, names: two, ttl: 20 * time.Minute, fine: true}, 8},
		}
	}
	st := &statsD{seen: map[string]bool{}, cnt: map[string]int64{}, run: run}
	for _, sc := range searches {
		sc := sc
		t0 := time.Now()
		rep.BFS(run, sc.name, bfs.Config{
			MaxDepth: sc.depth,
			Deadline: deadline,
			New:      func() (bfs.System, error) { return newSysD(sc.p, st) },
		})
		run.Set("wall_s_search:"+sc.name, time.Since(t0).Seconds())
	}
	for k, v := range st.cnt {
		run.Set("bfs: "+k, v)
	}
	if run.NViolations() == 0 && (st.cnt["transitions with a protected file: create"] == 0 || st.cnt["transitions with a protected file: clean"] == 0 ||
		st.cnt["protected entry evicted from the map, file kept on disk"] == 0 || st.cnt["cleanup pass over an idle/expired PROTECTED file"] == 0 ||
		st.cnt["cleanup removed idle/expired unprotected file"] == 0) {
		run.Fatal(fmt.Errorf("BFS vacuous: %v", st.cnt))
	}
}
