// C08: the memory blob store behaves like its capacity-bounded LRU model, and
// stale handles fail cleanly.
//
// E3: breadth-first search over all operation histories (small key space,
// small sizes / capacities) of a REAL memory.Store, including operations on
// handles (memory.File) retained from earlier Create/Open calls -- the last two
// handles of every key are kept, so a handle of the previous incarnation of a
// key coexists with a handle of the current one. Every transition is executed
// on the store and on the reference model (model.go, the C07 model plus a
// handle table), results are compared, and after every transition the whole
// state (accounting, eviction queue, blob table, List per scope, metadata,
// bytes of every blob, Size/Off/ReadAt of every retained handle) is compared
// with the model. One extra operation per state ("observe") issues every call
// that must NOT change the state: all reads through the three scoped views,
// every mutator on absent / out-of-scope blobs, idempotent repeats, and EVERY
// handle operation on every handle whose blob was evicted or deleted (each must
// fail with ErrEvicted, return no bytes, and leave all blobs untouched).
//
// E1: all interleavings (preemption bounded) at the lock operations of
// lib/store/memory of 3 threads -- a reader/writer on a retained handle of key
// a, a creator whose Create(b) must evict a, a deleter / re-creator of a. The
// recorded call/return history (store and handle operations) must be
// linearizable (porcupine) w.r.t. the same sequential model, and the
// stale-handle rule is checked directly on the history.
package main

import (
	"crypto/sha1"
	"encoding/json"
	"errors"
	"fmt"
	"hash"
	"io"
	"os"
	"runtime/pprof"
	"sort"
	"strconv"
	"strings"
	"sync"
	"time"

	"github.com/anishathalye/porcupine"
	"github.com/uber-go/tally"
	storelib "github.com/uber/kraken/lib/store"
	"github.com/uber/kraken/lib/store/memory"

	"verif/bfs"
	"verif/evid"
	_ "verif/quiet"
	"verif/rep"
	"verif/shim/vsync"
	"verif/vrt"
)

// ---- metadata types used by the harness ---------------------------------------

const (
	sfxMov = "_vmov" // movable: survives MarkComplete
	sfxImm = "_vimm" // non-movable: must disappear on MarkComplete
)

var movable = map[string]bool{sfxMov: true, sfxImm: false}

type vmd struct {
	suffix string
	val    []byte
}

func (m *vmd) GetSuffix() string          { return m.suffix }
func (m *vmd) Movable() bool              { return movable[m.suffix] }
func (m *vmd) Serialize() ([]byte, error) { return m.val, nil }
func (m *vmd) Deserialize(b []byte) error { m.val = append([]byte{}, b...); return nil }

// ---- the real store behind the generic operation language -----------------------

// memLimit is passed as Config.GOMEMLIMITBytes: NewStore refuses to start
// without a memory limit; 1 TiB never triggers the collector here.
const memLimit = int64(1) << 40

type realSys struct {
	st    *memory.Store
	views [3]*memory.Store // indexed by Scope
	H     map[string]*memory.File
}

func newReal(capacity uint64, scopedCtors bool) (*realSys, error) {
	st, err := memory.NewStore(&memory.Config{CapacityBytes: capacity, GOMEMLIMITBytes: memLimit}, tally.NoopScope)
	if err != nil {
		return nil, err
	}
	r := &realSys{st: st, H: map[string]*memory.File{}}
	// all constructors of scoped views are used
	r.views = [3]*memory.Store{st, st.ScopeComplete(), st.Scoped(storelib.BlobScopeIncomplete)}
	if scopedCtors {
		r.views = [3]*memory.Store{st.Scoped(storelib.BlobScopeAny), st.Scoped(storelib.BlobScopeComplete), st.ScopeIncomplete()}
	}
	return r, nil
}

// classify maps an error of the store / of a handle to a result class.
func classify(err error) Class {
	switch {
	case err == nil, err == io.EOF:
		return OK
	case err == os.ErrNotExist:
		return NotExist
	case err == os.ErrExist:
		return Exist
	case err == storelib.ErrOutOfScope:
		return OutOfScope
	case err == memory.ErrNoSpace:
		return NoSpace
	case err == memory.ErrEvicted:
		return Evicted
	}
	return Other
}

func same(model, impl Class) bool {
	return model == impl || (model == Invalid && impl == Other)
}

func outEq(model, impl Out) bool {
	return same(model.Cls, impl.Cls) && model.N == impl.N && model.Data == impl.Data && model.B1 == impl.B1 && model.B2 == impl.B2
}

// do executes op on the real store; panicked != "" when the call panicked.
func (r *realSys) do(op Op) (out Out, panicked string) {
	defer func() {
		if x := recover(); x != nil {
			panicked = fmt.Sprint(x)
			out = Out{Cls: Other, Data: "panic: " + panicked}
		}
	}()
	v := r.views[op.Scope]
	switch op.Kind {
	case "create":
		f, err := v.Create(op.Key, op.Size)
		if err == nil && op.H != "" {
			r.H[op.H] = f
		}
		return Out{Cls: classify(err)}, ""
	case "open":
		f, err := v.Open(op.Key)
		if err == nil && op.H != "" {
			r.H[op.H] = f
		}
		return Out{Cls: classify(err)}, ""
	case "delete":
		return Out{Cls: classify(v.Delete(op.Key))}, ""
	case "complete":
		return Out{Cls: classify(v.MarkComplete(op.Key))}, ""
	case "ban":
		return Out{Cls: classify(v.BanEviction(op.Key))}, ""
	case "unban":
		return Out{Cls: classify(v.UnbanEviction(op.Key))}, ""
	case "has":
		a, b := v.Has(op.Key)
		return Out{B1: a, B2: b}, ""
	case "stat":
		n, err := v.Stat(op.Key)
		return Out{Cls: classify(err), N: n}, ""
	case "list":
		l := v.List()
		sort.Strings(l)
		return Out{Data: strings.Join(l, ",")}, ""
	case "setmd":
		return Out{Cls: classify(v.SetMetadata(op.Key, &vmd{suffix: op.Sfx, val: []byte(op.Val)}))}, ""
	case "getmd":
		md := &vmd{suffix: op.Sfx}
		ok, err := v.GetMetadata(op.Key, md)
		return Out{Cls: classify(err), B1: ok, Data: string(md.val)}, ""
	case "delmd":
		return Out{Cls: classify(v.DeleteMetadata(op.Key, op.Sfx))}, ""
	case "listmd":
		l, err := v.ListMetadata(op.Key)
		var s []string
		for _, md := range l {
			s = append(s, md.GetSuffix())
		}
		sort.Strings(s)
		return Out{Cls: classify(err), Data: strings.Join(s, ",")}, ""
	}
	f := r.H[op.H]
	if f == nil {
		return Out{Cls: Other, Data: "unknown handle " + op.H}, ""
	}
	switch op.Kind {
	case "read":
		p := make([]byte, op.N)
		n, err := f.Read(p)
		return Out{Cls: classify(err), N: int64(n), Data: string(p[:n])}, ""
	case "readat":
		p := make([]byte, op.N)
		n, err := f.ReadAt(p, op.Off)
		return Out{Cls: classify(err), N: int64(n), Data: string(p[:n])}, ""
	case "write":
		n, err := f.Write([]byte(op.P))
		return Out{Cls: classify(err), N: int64(n)}, ""
	case "writeat":
		n, err := f.WriteAt([]byte(op.P), op.Off)
		return Out{Cls: classify(err), N: int64(n)}, ""
	case "seek":
		n, err := f.Seek(op.Off, op.Wh)
		return Out{Cls: classify(err), N: n}, ""
	case "size":
		n := f.Size()
		if n == -1 {
			return Out{Cls: Evicted, N: -1}, ""
		}
		return Out{N: n}, ""
	}
	return Out{Cls: Other, Data: "unknown op " + op.Kind}, ""
}

// =================================================================================
// E3: histories
// =================================================================================

const huge = ^uint64(0)

const maxLen = 3 // writes are offered while the blob stays within maxLen bytes

type cfg struct {
	name   string
	keys   []string
	sizes  []uint64
	cap    uint64
	slots  int  // handles retained per key (the most recent ones)
	open   bool // alphabet: Open
	ban    bool // alphabet: BanEviction / UnbanEviction
	md     bool // alphabet: metadata mutators
	hops   bool // alphabet: mutating operations on live handles
	scoped bool // scoped mutators go through the matching scoped view instead of the Any view
	depth  int
}

var allScopes = []Scope{ScopeAny, ScopeComplete, ScopeIncomplete}

var (
	cntMu sync.Mutex
	cnt   = map[string]int64{}
)

type sys struct {
	c      *cfg
	r      *realSys
	m      *Model
	impl   string    // rendering of the implementation state at the last comparison
	events []string  // what the last Apply exercised
	hist   hash.Hash // running hash of the history applied so far
}

// validated holds the hashes of the histories whose end state has already been
// compared in full with the model. BFS re-executes the (deterministic) prefix of
// every history it extends; the full comparison is not repeated for those
// replayed prefixes.
var validated sync.Map

// checkState runs the full comparison unless this exact history was compared before.
func (s *sys) checkState(ctx string) error {
	var k [20]byte
	copy(k[:], s.hist.Sum(nil))
	if _, ok := validated.Load(k); ok {
		return nil
	}
	if err := s.compare(ctx); err != nil {
		return err
	}
	validated.Store(k, struct{}{})
	return nil
}

func newSys(c *cfg) (bfs.System, error) {
	r, err := newReal(c.cap, c.scoped)
	if err != nil {
		return nil, err
	}
	s := &sys{c: c, r: r, m: NewModel(c.cap, movable), hist: sha1.New()}
	s.hist.Write([]byte(searchName(c) + "\n"))
	if err := s.checkState("initial state"); err != nil {
		return nil, err
	}
	return s, nil
}

func (s *sys) Close() {}

func (s *sys) Key() string {
	cntMu.Lock()
	for _, e := range s.events {
		cnt[e]++
	}
	cntMu.Unlock()
	s.events = nil
	return s.m.Key() + " ## " + s.impl
}

func (s *sys) ev(e string) {
	for _, x := range s.events {
		if x == e {
			return
		}
	}
	s.events = append(s.events, e)
}

func letter(key string) string { return key[len(key)-1:] }

func (s *sys) Ops() []string {
	ops := []string{"observe"}
	for _, k := range s.c.keys {
		b, ok := s.m.Blobs[k]
		if !ok {
			for _, z := range s.c.sizes {
				ops = append(ops, fmt.Sprintf("create %s %d", k, z))
			}
			continue
		}
		if !b.Complete {
			ops = append(ops, "complete "+k)
		}
		if s.c.open {
			ops = append(ops, "open "+k)
		}
		ops = append(ops, "delete "+k)
		if s.c.ban {
			if b.Banned {
				ops = append(ops, "unban "+k)
			} else {
				ops = append(ops, "ban "+k)
			}
		}
		if s.c.md {
			ops = append(ops, "setmd "+k+" "+sfxMov+" A", "setmd "+k+" "+sfxMov+" B", "setmd "+k+" "+sfxImm+" A")
			if _, ok := b.MD[sfxMov]; ok {
				ops = append(ops, "delmd "+k+" "+sfxMov)
			}
			if _, ok := b.MD[sfxImm]; ok {
				ops = append(ops, "delmd "+k+" "+sfxImm)
			}
		}
	}
	if s.c.hops {
		for _, n := range s.m.HandleNames() {
			h := s.m.H[n]
			b := s.m.Live(h)
			if b == nil {
				continue // every operation on a handle that is not live is issued by `observe`
			}
			l := int64(len(b.Data))
			if h.Off < l {
				ops = append(ops, "h "+n+" read 1")
				if l-h.Off > 1 {
					ops = append(ops, "h "+n+" read 4")
				}
			}
			if h.Off+1 <= maxLen {
				ops = append(ops, "h "+n+" write 1")
			}
			if h.Off+2 <= maxLen {
				ops = append(ops, "h "+n+" write 2")
			}
			ops = append(ops, "h "+n+" writeat 0")
			if l+2 <= maxLen {
				ops = append(ops, "h "+n+" writeat gap")
			}
			if h.Off != 0 {
				ops = append(ops, "h "+n+" seek start", "h "+n+" seek back")
			}
			if h.Off != l {
				ops = append(ops, "h "+n+" seek end")
			}
		}
	}
	return ops
}

// view returns the scope a scoped mutator on key goes through.
func (s *sys) view(key string) Scope {
	if !s.c.scoped {
		return ScopeAny
	}
	if b, ok := s.m.Blobs[key]; ok && b.Complete {
		return ScopeComplete
	} else if ok {
		return ScopeIncomplete
	}
	return ScopeAny
}

// retain rotates the handle slots of key after a successful Create/Open that
// stored its handle under the name "new": new -> key0 -> key1 -> dropped.
func (s *sys) retain(key string) {
	rot := func(has func(string) bool, mv func(from, to string), del func(string)) {
		if s.c.slots >= 2 && has(key+"0") {
			mv(key+"0", key+"1")
		}
		if s.c.slots >= 1 {
			mv("new", key+"0")
		}
		del("new")
	}
	rot(func(n string) bool { _, ok := s.r.H[n]; return ok }, func(f, t string) { s.r.H[t] = s.r.H[f] }, func(n string) { delete(s.r.H, n) })
	rot(func(n string) bool { _, ok := s.m.H[n]; return ok }, func(f, t string) { s.m.H[t] = s.m.H[f] }, func(n string) { delete(s.m.H, n) })
}

func (s *sys) Apply(op string) (err error) {
	s.events = s.events[:0]
	f := strings.Fields(op)
	kind := f[0]
	s.hist.Write([]byte(op + "\n"))
	switch kind {
	case "observe":
		return s.observe()
	case "create":
		size, _ := strconv.ParseUint(f[2], 10, 64)
		return s.create(op, f[1], size)
	case "h":
		return s.handleOp(op, f[1], f[2:])
	}
	key := f[1]
	o := Op{Kind: kind, Key: key, Scope: s.view(key)}
	switch kind {
	case "open":
		o.H = "new"
		if s.m.Evictable(key) {
			s.ev("open of an evictable blob")
		}
	case "complete":
		o.Scope = s.view(key) // MarkComplete is documented as not scoped: any view must do
		if b := s.m.Blobs[key]; b != nil && !b.Complete {
			if _, ok := b.MD[sfxImm]; ok {
				s.ev("completion with non-movable metadata present")
			}
			if _, ok := b.MD[sfxMov]; ok {
				s.ev("completion with movable metadata present")
			}
			if b.Banned {
				s.ev("completion of a banned blob")
			}
		}
	case "delete":
		if s.liveHandles(key) > 0 {
			s.ev("delete of a blob with retained handles")
		}
	case "ban", "unban":
	case "setmd":
		o.Sfx, o.Val = f[2], f[3]
	case "delmd":
		o.Sfx = f[2]
	default:
		return fmt.Errorf("unknown op %q", op)
	}
	got, pan := s.r.do(o)
	if pan != "" {
		return bfs.Failf("panic in the store during "+kind, "%s: %s", op, pan)
	}
	want := s.m.Do(o, false)
	if !outEq(want, got) {
		return bfs.Failf(fmt.Sprintf("%s result differs from model (got %v, want %v)", kind, got.Cls, want.Cls), "%s through view %v: got %v want %v", op, o.Scope, got, want)
	}
	if kind == "open" && got.Cls == OK {
		s.retain(key)
	}
	return s.checkState("after " + kind)
}

func (s *sys) liveHandles(key string) int {
	n := 0
	for _, h := range s.m.H {
		if h.Key == key && s.m.Live(h) != nil {
			n++
		}
	}
	return n
}

func (s *sys) create(op, key string, size uint64) error {
	pre := s.m.Clone()
	before := pre.List(ScopeAny)
	// Create is documented as not scoped: go through the view that would hide the new (incomplete) blob
	o := Op{Kind: "create", Key: key, Size: size, H: "new", Scope: ScopeAny}
	if s.c.scoped {
		o.Scope = ScopeComplete
	}
	cls := "small"
	if size > 16 {
		cls = "huge"
	}
	got, pan := s.r.do(o)
	if pan != "" {
		return bfs.Failf("Create panics ("+cls+" size)", "%s: %s; capacity %d, reserved before %d; model state before: %s", op, pan, s.c.cap, pre.Used(), pre.Key())
	}
	gone := diff(before, sorted(s.r.st.List()))
	want, evicted := s.m.Create(key, size, "new")
	if got.Cls == OK && want == NoSpace {
		return bfs.Failf("Create admits a blob that does not fit within capacity ("+cls+" size)", "%s: capacity %d, reserved before %d, unevictable blobs leave no room; model state before: %s", op, s.c.cap, pre.Used(), pre.Key())
	}
	if !same(want, got.Cls) {
		return bfs.Failf(fmt.Sprintf("create result differs from model (got %v, want %v)", got.Cls, want), "%s; model state before: %s", op, pre.Key())
	}
	for _, k := range gone {
		if !pre.Evictable(k) {
			return bfs.Failf("Create evicted a blob that is incomplete or banned from eviction", "%s evicted %s; model state before: %s", op, k, pre.Key())
		}
	}
	if !pre.IsLRUPrefix(gone) {
		return bfs.Failf("Create did not evict least-recently-used first", "%s evicted %v, LRU order was %v", op, gone, pre.LRU)
	}
	switch got.Cls {
	case OK:
		if len(gone) > len(evicted) {
			return bfs.Failf("Create evicted more blobs than needed to fit", "%s evicted %v, needed %v (LRU %v)", op, gone, evicted, pre.LRU)
		}
		if len(evicted) > 0 {
			s.ev("create that evicts")
			for _, k := range evicted {
				for _, h := range pre.H {
					if h.Key == k && pre.Live(h) != nil {
						s.ev("eviction of a blob with retained handles")
					}
				}
			}
		}
		if len(evicted) > 1 {
			s.ev("create that evicts two or more")
		}
		for _, h := range pre.H {
			if h.Key == key {
				s.ev("re-create of a key with a retained handle of an earlier incarnation")
			}
		}
		s.retain(key)
	case NoSpace:
		s.m.EvictPrefix(len(gone))
		s.ev("create refused for lack of space")
		if len(gone) > 0 {
			s.ev("refused create that evicted")
			if len(gone) == len(pre.LRU) {
				s.ev("refused create that evicted every evictable blob")
			} else {
				s.ev("refused create that evicted only part of the evictable blobs")
			}
		}
	case Exist:
		if len(gone) > 0 {
			return bfs.Failf("Create of a live key removed blobs", "%s removed %v", op, gone)
		}
	}
	return s.checkState("after create")
}

// handleOp executes a mutating operation on a live handle.
func (s *sys) handleOp(op, name string, f []string) error {
	h := s.m.H[name]
	b := s.m.Live(h)
	if h == nil || b == nil {
		return fmt.Errorf("%s: handle not live in the model", op)
	}
	o := Op{H: name}
	switch f[0] {
	case "read":
		o.Kind = "read"
		o.N, _ = strconv.Atoi(f[1])
	case "write":
		o.Kind = "write"
		n, _ := strconv.Atoi(f[1])
		o.P = strings.Repeat(letter(h.Key), n)
		if h.Off+int64(n) > int64(b.Size) {
			s.ev("write beyond the reserved size")
		}
	case "writeat":
		o.Kind = "writeat"
		o.P = strings.ToUpper(letter(h.Key))
		if f[1] == "gap" {
			o.Off = int64(len(b.Data)) + 1
			s.ev("positional write that leaves a gap")
		}
	case "seek":
		o.Kind = "seek"
		switch f[1] {
		case "start":
			o.Off, o.Wh = 0, io.SeekStart
		case "end":
			o.Off, o.Wh = 0, io.SeekEnd
		case "back":
			o.Off, o.Wh = -1, io.SeekCurrent
		}
	default:
		return fmt.Errorf("unknown handle op %q", op)
	}
	shared := 0
	for _, x := range s.m.H {
		if s.m.Live(x) == b {
			shared++
		}
	}
	if shared > 1 && (o.Kind == "write" || o.Kind == "writeat") {
		s.ev("write through one of two live handles of the same blob")
	}
	got, pan := s.r.do(o)
	if pan != "" {
		return bfs.Failf("panic in memory.File."+o.Kind, "%s: %s", op, pan)
	}
	want := s.m.Do(o, false)
	if !outEq(want, got) {
		return bfs.Failf("live handle: "+o.Kind+" result differs from model", "%s (%v): got %v want %v; model: %s", op, o, got, want, s.m.Key())
	}
	return s.checkState("after handle " + o.Kind)
}

func diff(before, after []string) []string {
	in := map[string]bool{}
	for _, k := range after {
		in[k] = true
	}
	var gone []string
	for _, k := range before {
		if !in[k] {
			gone = append(gone, k)
		}
	}
	return gone
}

func sorted(xs []string) []string {
	r := append([]string{}, xs...)
	sort.Strings(r)
	return r
}

func eq(a, b []string) bool {
	if len(a) != len(b) {
		return false
	}
	for i := range a {
		if a[i] != b[i] {
			return false
		}
	}
	return true
}

// staleFail builds the violation of the stale-handle rule for one operation on
// a handle whose incarnation left the store; nil when the result is allowed.
func staleFail(h *MHandle, recreated bool, what string, got Out, ctx string) error {
	if got.Cls == Evicted && got.Data == "" && (got.N == 0 || (what == "Size" && got.N == -1)) {
		return nil
	}
	why := h.Gone
	if why == "" {
		why = "gone"
	}
	sym := "does not fail with the evicted error"
	if what == "Size" {
		sym = "does not report eviction (-1)"
	} else if got.Data != "" {
		sym = "returns bytes"
	} else if got.Cls == OK && got.N > 0 {
		sym = "succeeds"
	}
	return bfs.Failf(fmt.Sprintf("handle of a blob that was %s: %s %s", why, what, sym), "%s: key %s (re-created since: %v): got %v", ctx, h.Key, recreated, got)
}

// compare checks the whole state of the store and of every retained handle
// against the model and renders it (for the state key). Only calls that do not
// change any state are used.
func (s *sys) compare(ctx string) error {
	m := s.m
	st := s.r.st
	var sb strings.Builder
	size := st.VerifSize()
	lru := st.VerifEvictionOrder()
	fmt.Fprintf(&sb, "size=%d lru=%s", size, strings.Join(lru, ","))
	if size != m.Used() {
		return bfs.Failf("reserved space differs from the sum of live blob sizes ("+ctx+")", "store.size=%d, model sum=%d; model: %s", size, m.Used(), m.Key())
	}
	if size > s.c.cap {
		return bfs.Failf("reserved space exceeds capacity ("+ctx+")", "store.size=%d capacity=%d", size, s.c.cap)
	}
	if !eq(lru, m.LRU) {
		return bfs.Failf("eviction order differs from LRU model ("+ctx+")", "store %v, model %v", lru, m.LRU)
	}
	for _, sc := range allScopes {
		got := sorted(s.r.views[sc].List())
		if want := m.List(sc); !eq(got, want) {
			return bfs.Failf(fmt.Sprintf("List through view %v differs from model (%s)", sc, ctx), "got %v want %v", got, want)
		}
	}
	keys := m.List(ScopeAny)
	var tbl []string
	for _, k := range keys {
		b := m.Blobs[k]
		tbl = append(tbl, fmt.Sprintf("%s %d %v %v %v", k, b.Size, b.Complete, b.Banned, b.Complete && !b.Banned))
	}
	blobs := st.VerifBlobs()
	if want := strings.Join(tbl, "\n"); blobs != want {
		return bfs.Failf("blob table (size, complete, banned, queued) differs from model ("+ctx+")", "store:\n%s\nmodel:\n%s", blobs, want)
	}
	for _, k := range keys {
		b := m.Blobs[k]
		var mds []string
		for _, sfx := range []string{sfxImm, sfxMov} {
			md := &vmd{suffix: sfx}
			ok, err := st.GetMetadata(k, md)
			if err != nil {
				return bfs.Failf("GetMetadata fails on a live blob ("+ctx+")", "GetMetadata(%s,%s): %v", k, sfx, err)
			}
			want, wok := b.MD[sfx]
			if ok {
				mds = append(mds, fmt.Sprintf("%s=%q", sfx, md.val))
			}
			switch {
			case ok && !wok && sfx == sfxImm && b.Complete:
				return bfs.Failf("non-movable metadata present on a complete blob that never had it set since completion ("+ctx+")", "%s %s=%q", k, sfx, md.val)
			case ok != wok || (ok && string(md.val) != want):
				return bfs.Failf("metadata read differs from the last value set ("+ctx+")", "%s %s: got (%v,%q) want (%v,%q)", k, sfx, ok, md.val, wok, want)
			}
		}
		lst, err := st.ListMetadata(k)
		if err != nil {
			return bfs.Failf("ListMetadata fails on a live blob ("+ctx+")", "ListMetadata(%s): %v", k, err)
		}
		var sfxs []string
		for _, md := range lst {
			sfxs = append(sfxs, md.GetSuffix())
		}
		sort.Strings(sfxs)
		if _, want := m.ListMD(k, ScopeAny); !eq(sfxs, want) {
			return bfs.Failf("ListMetadata differs from the metadata set ("+ctx+")", "%s: got %v want %v", k, sfxs, want)
		}
		data, live, nilData := st.VerifData(k)
		if !live || nilData {
			return bfs.Failf("bytes of a live blob are gone ("+ctx+")", "%s: live=%v nil=%v", k, live, nilData)
		}
		if string(data) != b.Data {
			return bfs.Failf("blob bytes differ from what was written through its handles ("+ctx+")", "%s: got %q want %q", k, data, b.Data)
		}
		if n, err := st.Stat(k); err != nil || n != int64(len(b.Data)) {
			return bfs.Failf("Stat of a live blob differs from the bytes written ("+ctx+")", "%s: got (%d,%v) want %d", k, n, err, len(b.Data))
		}
		fmt.Fprintf(&sb, " | %s data=%q md[%s]", k, data, strings.Join(mds, " "))
	}
	sb.WriteString(" || ")
	sb.WriteString(strings.ReplaceAll(blobs, "\n", ";"))
	sb.WriteString(" || handles")
	for _, n := range m.HandleNames() {
		h := m.H[n]
		f := s.r.H[n]
		if f == nil {
			return fmt.Errorf("handle %s retained in the model only", n)
		}
		sz, pan := s.r.do(Op{Kind: "size", H: n})
		ra, pan2 := s.r.do(Op{Kind: "readat", H: n, N: maxLen + 2, Off: 0})
		if pan != "" || pan2 != "" {
			return bfs.Failf("panic in memory.File (Size/ReadAt)", "%s: %s%s", n, pan, pan2)
		}
		off := f.Off()
		b := m.Live(h)
		if b == nil {
			_, recreated := m.Blobs[h.Key]
			if err := staleFail(h, recreated, "Size", sz, ctx); err != nil {
				return err
			}
			if err := staleFail(h, recreated, "ReadAt", ra, ctx); err != nil {
				return err
			}
		} else {
			if want := m.HSize(h); !outEq(want, sz) {
				return bfs.Failf("live handle: Size differs from the bytes written ("+ctx+")", "%s: got %v want %v", n, sz, want)
			}
			if want := m.HReadAt(h, maxLen+2, 0); !outEq(want, ra) {
				return bfs.Failf("live handle: ReadAt returns bytes that differ from the blob ("+ctx+")", "%s: got %v want %v", n, ra, want)
			}
		}
		if off != h.Off {
			return bfs.Failf("handle offset differs from model ("+ctx+")", "%s: Off()=%d want %d", n, off, h.Off)
		}
		fmt.Fprintf(&sb, " %s:%v@%d", n, sz.N, off)
	}
	if len(s.r.H) != len(m.H) {
		return fmt.Errorf("handle tables differ: real %d model %d", len(s.r.H), len(m.H))
	}
	s.impl = sb.String()
	return nil
}

// observe issues every call that must leave the state unchanged and compares
// each result with the model; then the whole state is compared again.
func (s *sys) observe() error {
	m := s.m
	keyBefore := m.Key()
	if err := s.compare("before observe"); err != nil {
		return err
	}
	implBefore := s.impl
	fail := func(what string, sc Scope, got, want interface{}, k string) error {
		return bfs.Failf(fmt.Sprintf("%s through view %v differs from model (got %v, want %v)", what, sc, got, want), "key %s; model: %s", k, m.Key())
	}
	call := func(o Op) (Out, error) {
		got, pan := s.r.do(o)
		if pan != "" {
			return got, bfs.Failf("panic in the store during "+o.Kind, "%v: %s", o, pan)
		}
		return got, nil
	}
	// phase A: store calls that must fail or be no-ops
	for _, sc := range allScopes {
		for _, k := range s.c.keys {
			b, cls := m.Lookup(k, sc)
			_, live := m.Blobs[k]
			if cls != OK {
				if cls == OutOfScope {
					s.ev("calls on a blob hidden by the view")
				}
				kinds := []string{"open", "delete", "ban", "unban", "setmd", "delmd"}
				if cls == NotExist {
					kinds = append(kinds, "complete")
				}
				for _, kind := range kinds {
					got, err := call(Op{Kind: kind, Key: k, Scope: sc, Sfx: sfxMov, Val: "Q"})
					if err != nil {
						return err
					}
					if got.Cls != cls {
						return fail(kind+" on a blob that is absent or hidden by the view", sc, got.Cls, cls, k)
					}
				}
			}
			if live {
				got, err := call(Op{Kind: "create", Key: k, Size: 1, Scope: sc})
				if err != nil {
					return err
				}
				if got.Cls != Exist {
					return fail("Create of a live key", sc, got.Cls, Exist, k)
				}
			}
			if cls != OK {
				continue
			}
			if b.Complete {
				if got, _ := call(Op{Kind: "complete", Key: k, Scope: sc}); got.Cls != OK {
					return fail("MarkComplete of a complete blob", sc, got.Cls, OK, k)
				}
			}
			kind := "unban"
			if b.Banned {
				kind = "ban"
			}
			if got, _ := call(Op{Kind: kind, Key: k, Scope: sc}); got.Cls != OK {
				return fail("idempotent repeat of BanEviction/UnbanEviction", sc, got.Cls, OK, k)
			}
			for _, sfx := range []string{sfxMov, sfxImm} {
				if _, ok := b.MD[sfx]; ok {
					continue
				}
				if got, _ := call(Op{Kind: "delmd", Key: k, Sfx: sfx, Scope: sc}); got.Cls != OK {
					return fail("DeleteMetadata of absent metadata", sc, got.Cls, OK, k)
				}
			}
			if !m.Evictable(k) {
				// Open of a blob that is not in the eviction queue changes nothing (the handle is not retained)
				f, err := s.r.views[sc].Open(k)
				if err != nil {
					return fail("Open of a visible blob", sc, classify(err), OK, k)
				}
				data, rerr := io.ReadAll(f)
				if rerr != nil {
					return bfs.Failf("reading a fresh handle of a live blob fails", "observe %s through %v: %v", k, sc, rerr)
				}
				if string(data) != b.Data {
					return bfs.Failf("Open returns bytes that differ from the blob written", "observe %s through %v: got %q want %q", k, sc, data, b.Data)
				}
			}
		}
	}
	// phase B: store reads
	for _, sc := range allScopes {
		for _, k := range s.c.keys {
			reads := []Op{{Kind: "has", Key: k, Scope: sc}, {Kind: "stat", Key: k, Scope: sc}, {Kind: "getmd", Key: k, Sfx: sfxMov, Scope: sc}, {Kind: "getmd", Key: k, Sfx: sfxImm, Scope: sc}, {Kind: "listmd", Key: k, Scope: sc}}
			for _, o := range reads {
				got, err := call(o)
				if err != nil {
					return err
				}
				if want := m.Do(o, false); !outEq(want, got) {
					return fail(o.Kind, sc, got, want, k)
				}
			}
		}
	}
	// phase C: handles
	for _, n := range m.HandleNames() {
		h := m.H[n]
		b := m.Live(h)
		if b != nil {
			// calls that change nothing on a live handle
			l := int64(len(b.Data))
			probes := []Op{
				{Kind: "read", H: n, N: 0}, {Kind: "readat", H: n, N: 0, Off: 0}, {Kind: "write", H: n, P: ""}, {Kind: "writeat", H: n, P: "", Off: 0},
				{Kind: "writeat", H: n, P: "", Off: l + 2}, // an empty positional write never extends the blob
				{Kind: "readat", H: n, N: 2, Off: l}, {Kind: "readat", H: n, N: 1, Off: 1},
				{Kind: "seek", H: n, Off: 0, Wh: io.SeekCurrent}, {Kind: "seek", H: n, Off: 1, Wh: io.SeekEnd}, {Kind: "seek", H: n, Off: -1, Wh: io.SeekStart},
				{Kind: "size", H: n},
			}
			if h.Off >= l {
				probes = append(probes, Op{Kind: "read", H: n, N: 2}) // at the end: no bytes
			}
			for _, o := range probes {
				got, err := call(o)
				if err != nil {
					return err
				}
				if want := m.Do(o, false); !outEq(want, got) {
					return bfs.Failf("live handle: "+o.Kind+" result differs from model (observe)", "%v: got %v want %v; model: %s", o, got, want, m.Key())
				}
			}
			s.ev("observe with a live handle")
			continue
		}
		// the stale-handle rule: EVERY operation fails with the evicted error, returns no bytes, changes nothing
		_, recreated := m.Blobs[h.Key]
		s.ev("observe with a handle of a blob that was " + h.Gone)
		if recreated {
			s.ev("observe with a stale handle whose key was re-created")
			if len(m.Blobs[h.Key].Data) > 0 {
				s.ev("observe with a stale handle whose re-created key has bytes")
			}
		}
		type probe struct {
			what string
			o    Op
		}
		probes := []probe{
			{"Read", Op{Kind: "read", H: n, N: 2}},
			{"ReadAt", Op{Kind: "readat", H: n, N: 2, Off: 0}},
			{"ReadAt", Op{Kind: "readat", H: n, N: 2, Off: 1}},
			{"Write", Op{Kind: "write", H: n, P: "X"}},
			{"WriteAt", Op{Kind: "writeat", H: n, P: "Y", Off: 0}},
			{"WriteAt", Op{Kind: "writeat", H: n, P: "Y", Off: 5}},
			{"Seek", Op{Kind: "seek", H: n, Off: 0, Wh: io.SeekStart}},
			{"Seek", Op{Kind: "seek", H: n, Off: 0, Wh: io.SeekCurrent}},
			{"Seek", Op{Kind: "seek", H: n, Off: 0, Wh: io.SeekEnd}},
			{"Seek", Op{Kind: "seek", H: n, Off: 1, Wh: io.SeekEnd}},
			{"Size", Op{Kind: "size", H: n}},
			{"zero-length Write", Op{Kind: "write", H: n, P: ""}},
			{"zero-length WriteAt", Op{Kind: "writeat", H: n, P: "", Off: 0}},
			// last, so that a failure of these two does not hide any of the above
			{"zero-length Read", Op{Kind: "read", H: n, N: 0}},
			{"zero-length ReadAt", Op{Kind: "readat", H: n, N: 0, Off: 0}},
		}
		for _, p := range probes {
			got, err := call(p.o)
			if err != nil {
				return err
			}
			if err := staleFail(h, recreated, p.what, got, "observe "+p.o.String()); err != nil {
				// a write through a stale handle must not have reached any blob either: compare first,
				// a foreign write is the more specific finding
				if cerr := s.compare("after an operation on a stale handle"); cerr != nil {
					return cerr
				}
				return err
			}
		}
	}
	if err := s.compare("after calls that must not change the state"); err != nil {
		return err
	}
	if s.impl != implBefore || m.Key() != keyBefore {
		return bfs.Failf("state changed by calls that must not change it", "before: %s\nafter: %s", implBefore, s.impl)
	}
	s.ev("observe")
	return nil
}

var (
	k2 = []string{"a", "b"}
	k3 = []string{"a", "b", "c"}
)

func searches(thorough bool) []*cfg {
	small := []uint64{0, 1, 2, 3}
	// depth 14 is beyond the fixpoint of the searches without handle writes: those enumerate every
	// reachable state of their alphabet (reported as fixpoint:true in the evidence)
	if !thorough {
		return []*cfg{
			{name: "handles", keys: k2, sizes: []uint64{1, 2}, cap: 2, slots: 2, open: true, hops: true, depth: 7},
			{name: "handles3", keys: k3, sizes: []uint64{1, 2}, cap: 3, slots: 1, open: true, hops: true, depth: 5},
			{name: "lru", keys: k2, sizes: small, cap: 3, slots: 2, open: true, ban: true, depth: 14},
			{name: "lru3", keys: k3, sizes: []uint64{1, 2}, cap: 3, slots: 1, open: true, ban: true, depth: 14},
			{name: "meta", keys: k2, sizes: []uint64{1}, cap: 1, slots: 1, ban: true, md: true, depth: 14},
			{name: "full-scoped", keys: k2, sizes: []uint64{1, 2}, cap: 2, slots: 1, open: true, ban: true, md: true, hops: true, scoped: true, depth: 5},
			{name: "huge", keys: k2, sizes: []uint64{1, huge}, cap: 3, slots: 1, open: true, ban: true, depth: 3},
		}
	}
	return []*cfg{
		{name: "handles", keys: k2, sizes: []uint64{1, 2}, cap: 2, slots: 2, open: true, hops: true, depth: 9},
		{name: "handles cap=3", keys: k2, sizes: []uint64{1, 2, 3}, cap: 3, slots: 2, open: true, ban: true, hops: true, depth: 7},
		{name: "handles3", keys: k3, sizes: []uint64{1, 2}, cap: 3, slots: 1, open: true, hops: true, depth: 7},
		{name: "lru cap=2", keys: k3, sizes: small, cap: 2, slots: 1, open: true, ban: true, depth: 14},
		{name: "lru cap=3", keys: k3, sizes: small, cap: 3, slots: 1, open: true, ban: true, depth: 14},
		{name: "lru cap=4", keys: k3, sizes: small, cap: 4, slots: 1, open: true, ban: true, depth: 14},
		{name: "lru slots=2", keys: k2, sizes: small, cap: 3, slots: 2, open: true, ban: true, depth: 14},
		{name: "lru-scoped", keys: k2, sizes: small, cap: 3, slots: 1, open: true, ban: true, scoped: true, depth: 14},
		{name: "meta", keys: k2, sizes: []uint64{1}, cap: 1, slots: 1, ban: true, md: true, depth: 14},
		{name: "meta cap=2", keys: k2, sizes: []uint64{1, 2}, cap: 2, slots: 1, ban: true, md: true, depth: 9},
		{name: "full-scoped", keys: k2, sizes: []uint64{1, 2}, cap: 2, slots: 1, open: true, ban: true, md: true, hops: true, scoped: true, depth: 7},
		{name: "huge", keys: k3, sizes: []uint64{1, 2, huge}, cap: 3, slots: 1, open: true, ban: true, depth: 4},
	}
}

func searchName(c *cfg) string {
	return fmt.Sprintf("%s keys=%d sizes=%v cap=%d slots=%d scoped=%v depth=%d", c.name, len(c.keys), sizesStr(c.sizes), c.cap, c.slots, c.scoped, c.depth)
}

func sizesStr(z []uint64) string {
	var p []string
	for _, x := range z {
		if x == huge {
			p = append(p, "2^64-1")
		} else {
			p = append(p, strconv.FormatUint(x, 10))
		}
	}
	return strings.Join(p, ",")
}

// =================================================================================
// E1: schedules
// =================================================================================

type scenario struct {
	name    string
	cap     uint64
	setup   []Op              // executed sequentially before the threads start (must succeed as the model predicts)
	threads [][]Op            // one program per thread
	final   []Op              // executed sequentially after all threads finished (part of the history)
	allowed map[string]string // handle name -> bytes its reads may return (bytes written through handles of its incarnation)
	thor    bool              // thorough tier only
}

func hop(kind, h string) Op { return Op{Kind: kind, H: h} }

func scenarios() []scenario {
	// capacity 2; a (size 1) is complete and evictable, so Create(b,2) can only be admitted by evicting it
	setupA := []Op{{Kind: "create", Key: "a", Size: 1, H: "h0"}, {Kind: "write", H: "h0", P: "a"}, {Kind: "complete", Key: "a"}}
	final := []Op{
		hop("size", "h0"), {Kind: "readat", H: "h0", N: 3}, {Kind: "write", H: "h0", P: "z"},
		hop("size", "h1"), {Kind: "readat", H: "h1", N: 3},
		{Kind: "stat", Key: "a"}, {Kind: "stat", Key: "b"}, {Kind: "list"},
	}
	allowed := map[string]string{"h0": "apq", "h1": "n", "h2": "n", "hb": "b"}
	return []scenario{
		{
			name: "positional rw on a retained handle | evicting create | delete+re-create", cap: 2, setup: setupA, final: final, allowed: allowed,
			threads: [][]Op{
				{{Kind: "writeat", H: "h0", P: "p", Off: 0}, {Kind: "readat", H: "h0", N: 2, Off: 0}, {Kind: "writeat", H: "h0", P: "q", Off: 1}, {Kind: "readat", H: "h0", N: 2, Off: 0}},
				{{Kind: "create", Key: "b", Size: 2, H: "hb"}, {Kind: "complete", Key: "b"}},
				{{Kind: "delete", Key: "a"}, {Kind: "create", Key: "a", Size: 1, H: "h1"}, {Kind: "write", H: "h1", P: "n"}, {Kind: "complete", Key: "a"}, {Kind: "readat", H: "h1", N: 2, Off: 0}},
			},
		},
		{
			name: "streaming rw on a retained handle | evicting create | delete+re-create", cap: 2, setup: setupA, final: final, allowed: allowed,
			threads: [][]Op{
				{{Kind: "write", H: "h0", P: "p"}, {Kind: "seek", H: "h0", Off: 0, Wh: io.SeekStart}, {Kind: "read", H: "h0", N: 3}, hop("size", "h0")},
				{{Kind: "create", Key: "b", Size: 2, H: "hb"}, {Kind: "write", H: "hb", P: "b"}, {Kind: "stat", Key: "a"}},
				{{Kind: "delete", Key: "a"}, {Kind: "create", Key: "a", Size: 1, H: "h1"}, {Kind: "write", H: "h1", P: "n"}, {Kind: "stat", Key: "a"}},
			},
		},
		{
			name: "reader | evicting create then delete | re-create then open+read", cap: 2, setup: setupA, final: final, allowed: allowed, thor: true,
			threads: [][]Op{
				{{Kind: "readat", H: "h0", N: 2, Off: 0}, {Kind: "writeat", H: "h0", P: "p", Off: 1}, {Kind: "readat", H: "h0", N: 2, Off: 0}},
				{{Kind: "create", Key: "b", Size: 2, H: "hb"}, {Kind: "delete", Key: "b"}},
				{{Kind: "delete", Key: "a"}, {Kind: "create", Key: "a", Size: 1, H: "h1"}, {Kind: "write", H: "h1", P: "n"}, {Kind: "open", Key: "a", H: "h2"}, {Kind: "readat", H: "h2", N: 2, Off: 0}},
			},
		},
	}
}

type pstate struct{ m *Model }

func linModel(init *Model) porcupine.Model {
	return porcupine.Model{
		Init: func() interface{} { return pstate{init.Clone()} },
		Step: func(state, input, output interface{}) (bool, interface{}) {
			m := state.(pstate).m.Clone()
			want := m.Do(input.(Op), true)
			return outEq(want, output.(Out)), pstate{m}
		},
		Equal:             func(a, b interface{}) bool { return a.(pstate).m.Key() == b.(pstate).m.Key() },
		DescribeOperation: func(in, out interface{}) string { return fmt.Sprintf("%v -> %v", in.(Op), out.(Out)) },
	}
}

func isHandleOp(o Op) bool {
	switch o.Kind {
	case "read", "readat", "write", "writeat", "seek", "size":
		return true
	}
	return false
}

func short(o Out) string {
	s := o.Cls.String()
	if o.Data != "" {
		s += ":" + o.Data
	} else if o.N != 0 {
		s += ":" + strconv.FormatInt(o.N, 10)
	}
	if o.B1 {
		s += "+"
	}
	return s
}

func harness(sc scenario) *vrt.Harness {
	return &vrt.Harness{Name: sc.name, Horizon: 20000, Body: func() (string, string) {
		vsync.Points, vsync.UnlockPoints = true, true
		r, err := newReal(sc.cap, false)
		if err != nil {
			return "", "HARNESS: " + err.Error()
		}
		m := NewModel(sc.cap, movable)
		for _, o := range sc.setup {
			got, pan := r.do(o)
			want := m.Do(o, true)
			if pan != "" || !outEq(want, got) {
				return "", fmt.Sprintf("HARNESS: setup %v: got %v want %v %s", o, got, want, pan)
			}
		}
		var hist []porcupine.Operation
		var ts int64
		var vio []string
		addVio := func(s string) {
			for _, v := range vio {
				if v == s {
					return
				}
			}
			vio = append(vio, s)
		}
		record := func(client int, o Op) Out {
			ts++
			call := ts
			out, pan := r.do(o)
			ts++
			if pan != "" {
				addVio(fmt.Sprintf("panic in %s | %v: %s", o.Kind, o, pan))
			}
			hist = append(hist, porcupine.Operation{ClientId: client, Input: o, Call: call, Output: out, Return: ts})
			return out
		}
		outs := make([][]string, len(sc.threads)+1)
		for ti, prog := range sc.threads {
			ti, prog := ti, prog
			vrt.GoNamed(fmt.Sprintf("T%d", ti), func() {
				for _, o := range prog {
					if isHandleOp(o) && r.H[o.H] == nil {
						outs[ti] = append(outs[ti], "-")
						continue // the call that should have produced the handle was refused
					}
					outs[ti] = append(outs[ti], short(record(ti, o)))
				}
			})
		}
		vrt.Join()
		for _, o := range sc.final {
			if isHandleOp(o) && r.H[o.H] == nil {
				continue
			}
			outs[len(sc.threads)] = append(outs[len(sc.threads)], short(record(len(sc.threads), o)))
		}
		// the stale-handle rule, directly on the history
		evictedAt := map[string]int64{} // handle -> return time of the first operation that reported eviction
		for _, op := range hist {
			o, out := op.Input.(Op), op.Output.(Out)
			if !isHandleOp(o) {
				continue
			}
			for _, c := range out.Data {
				if c != 0 && !strings.ContainsRune(sc.allowed[o.H], c) {
					addVio(fmt.Sprintf("a handle returns bytes that were never written to its incarnation of the key (%s) | %v -> %v", o.Kind, o, out))
				}
			}
			if t, ok := evictedAt[o.H]; ok && op.Call > t && out.Cls != Evicted {
				addVio(fmt.Sprintf("a handle works again after it reported eviction (%s) | %v -> %v", o.Kind, o, out))
			}
			if out.Cls == Evicted {
				if t, ok := evictedAt[o.H]; !ok || op.Return < t {
					evictedAt[o.H] = op.Return
				}
				if out.Data != "" || (out.N != 0 && o.Kind != "size") {
					addVio(fmt.Sprintf("an operation that reports eviction returns bytes (%s) | %v -> %v", o.Kind, o, out))
				}
			}
		}
		if res := porcupine.CheckOperations(linModel(m), hist); !res {
			addVio("history of store and handle operations is not linearizable w.r.t. the sequential model | " + describe(hist))
		}
		// accounting of the end state
		var sum uint64
		for _, l := range strings.Split(r.st.VerifBlobs(), "\n") {
			if f := strings.Fields(l); len(f) >= 2 {
				z, _ := strconv.ParseUint(f[1], 10, 64)
				sum += z
			}
		}
		if sz := r.st.VerifSize(); sz != sum || sz > sc.cap {
			addVio(fmt.Sprintf("end state: reserved space differs from the sum of live blob sizes or exceeds capacity | size=%d sum=%d cap=%d", sz, sum, sc.cap))
		}
		var ob []string
		for i, o := range outs {
			ob = append(ob, fmt.Sprintf("T%d[%s]", i, strings.Join(o, " ")))
		}
		sort.Strings(vio)
		return strings.Join(ob, " "), strings.Join(vio, "\n")
	}}
}

func describe(hist []porcupine.Operation) string {
	h := append([]porcupine.Operation{}, hist...)
	sort.Slice(h, func(i, j int) bool { return h[i].Call < h[j].Call })
	var p []string
	for _, o := range h {
		p = append(p, fmt.Sprintf("T%d@%d-%d %v -> %s", o.ClientId, o.Call, o.Return, o.Input.(Op), short(o.Output.(Out))))
	}
	return strings.Join(p, "; ")
}

// =================================================================================

func main() {
	var hs []*vrt.Harness
	for _, sc := range scenarios() {
		hs = append(hs, harness(sc))
	}
	vrt.WorkerMain(hs)

	if p := os.Getenv("VERIF_PPROF"); p != "" {
		f, _ := os.Create(p)
		pprof.StartCPUProfile(f)
		defer pprof.StopCPUProfile()
	}
	run := evid.New("C08", "model_checking")
	run.Rule = "E3: BFS over all histories up to depth d of {Create(k,size), MarkComplete, Open, Delete, BanEviction, UnbanEviction, Set/Delete metadata (one movable, one non-movable type), Read/Write/WriteAt/Seek on every live retained handle (the last 1-2 handles per key are retained), observe} on a real memory.Store vs the LRU reference model with a handle table; state = model state + full dump of the store (accounting, eviction queue, blob table, metadata, bytes per blob) + Size/Off of every retained handle, deduplicated; after every transition the whole state incl. Size and ReadAt of every handle is compared; `observe` = all reads through the 3 scoped views, every call that must fail / be a no-op, and all 15 handle operations on every handle whose blob was evicted or deleted. E1: every interleaving (preemption bounded DFS) at the lock operations of lib/store/memory of 3 threads, history checked for linearizability against the same model. distinct = distinct BFS states per search configuration + distinct outcome vectors per E1 scenario."
	run.Assume("small-scope: 2-3 keys, sizes 0..3 (plus 2^64-1 in the `huge` search), capacities 1..4, blobs of at most 3 bytes, depth as listed per search")
	run.Assume("Has/Stat/List/metadata calls, idempotent repeats and all handle operations are not uses: they are required to leave the eviction order unchanged (as implemented; the statement does not name them as uses)")
	run.Assume("Create and MarkComplete are not scoped (documented in scoped_store.go); they are called through scoped views and must behave as through the unscoped one")
	run.Assume("io.EOF vs nil of reads is not compared (EOF placement is not part of the statement); negative offsets / invalid whence are outside the alphabet")
	run.Assume("E1: interleavings at the sync.RWMutex operations of lib/store/memory only (SC; data-race freedom between them is assumed); a refused Create evicts every evictable blob (the choice observed in E3); one eviction per Create (the statement does not say that a Create evicting two blobs is atomic w.r.t. their handles)")

	if p := run.ReplayPath(); p != "" {
		replay(run, p, hs)
		return
	}

	only := os.Getenv("VERIF_C08_ONLY")
	start := time.Now()
	deadline := start.Add(30 * time.Second)
	if run.Thorough() {
		deadline = start.Add(6 * time.Minute)
	}
	if only != "" {
		run.NotExhaustive("VERIF_C08_ONLY set: only " + only)
	}
	for _, c := range searches(run.Thorough()) {
		c := c
		if only != "" {
			if c.name != only {
				continue
			}
			if d, err := strconv.Atoi(os.Getenv("VERIF_C08_DEPTH")); err == nil {
				c.depth = d
			}
		}
		res := rep.BFS(run, searchName(c), bfs.Config{MaxDepth: c.depth, Deadline: deadline, New: func() (bfs.System, error) { return newSys(c) }})
		for i := 0; i < res.States; i++ {
			run.Distinct(fmt.Sprintf("%s#%d", c.name, i))
		}
	}
	cntMu.Lock()
	for k, v := range cnt {
		run.Set("transitions with: "+k, v)
	}
	need := []string{"create that evicts", "eviction of a blob with retained handles", "delete of a blob with retained handles", "re-create of a key with a retained handle of an earlier incarnation",
		"create refused for lack of space", "refused create that evicted", "open of an evictable blob", "calls on a blob hidden by the view", "completion with non-movable metadata present",
		"observe", "observe with a live handle", "observe with a handle of a blob that was evicted", "observe with a handle of a blob that was deleted", "observe with a stale handle whose re-created key has bytes",
		"write through one of two live handles of the same blob", "write beyond the reserved size", "positional write that leaves a gap"}
	for _, k := range need {
		if cnt[k] == 0 && run.NViolations() == 0 && only == "" {
			cntMu.Unlock()
			run.Fatal(fmt.Errorf("vacuous: no transition with %q", k))
		}
	}
	cntMu.Unlock()

	// ---- E1 ----
	// time budget of the whole run (quick 70 s, thorough 13 min), shared by the remaining scenarios
	bound, e1End := 2, start.Add(70*time.Second)
	if run.Thorough() {
		bound, e1End = 3, start.Add(13*time.Minute)
	}
	var todo int
	for _, sc := range scenarios() {
		if !sc.thor || run.Thorough() {
			todo++
		}
	}
	var e1exec, e1evMid, e1refused, e1notexist int64
	for i, sc := range scenarios() {
		if (sc.thor && !run.Thorough()) || (only != "" && only != "e1") {
			continue
		}
		h := hs[i]
		// determinism: the default schedule twice must give the same observation
		_, o1, _ := vrt.Replay(h, nil)
		_, o2, _ := vrt.Replay(h, nil)
		if o1 != o2 {
			run.Fatal(errors.New("non-deterministic replay in " + sc.name + ": " + o1 + " vs " + o2))
		}
		maxDur := int(time.Until(e1End).Seconds()) / todo
		if maxDur < 5 {
			maxDur = 5
		}
		todo--
		res := rep.VRT(run, h, bound, evid.Workers(), maxDur, func(v vrt.Violation) string {
			msg := strings.SplitN(v.Msg, "\n", 2)[0]
			msg = strings.SplitN(msg, " | ", 2)[0]
			if len(msg) > 140 {
				msg = msg[:140]
			}
			return "E1: " + msg
		})
		e1exec += int64(res.Executions)
		for obs, n := range res.Outcomes {
			t0 := strings.SplitN(obs, "]", 2)[0]
			if strings.Contains(t0, "ok") && strings.Contains(t0, "evicted") {
				e1evMid += int64(n)
			}
			if strings.Contains(obs, "no-space") {
				e1refused += int64(n)
			}
			if strings.Contains(obs, "not-exist") {
				e1notexist += int64(n)
			}
		}
	}
	run.Set("E1 executions (interleavings)", e1exec)
	run.Set("E1 executions where the handle thread saw its blob live and then evicted", e1evMid)
	run.Set("E1 executions with a Create refused for lack of space", e1refused)
	run.Set("E1 executions where the blob was already evicted when Delete/Stat ran", e1notexist)
	run.Set("E1 preemption bound", bound)
	pprof.StopCPUProfile()
	if e1exec > 0 && run.NViolations() == 0 && (e1evMid == 0 || e1notexist == 0) {
		run.Fatal(fmt.Errorf("vacuous E1: mid-thread eviction seen in %d executions, eviction-before-delete in %d", e1evMid, e1notexist))
	}
	run.Finish()
}

// replay re-executes a replay artefact: a BFS history or an E1 schedule.
func replay(run *evid.Run, path string, hs []*vrt.Harness) {
	b, err := os.ReadFile(path)
	if err != nil {
		run.Fatal(err)
	}
	var rp struct {
		Fingerprint string `json:"fingerprint"`
		Case        struct {
			Search  string   `json:"search"`
			History []string `json:"history"`
			Harness string
			Choices []int
		} `json:"case"`
	}
	if err := json.Unmarshal(b, &rp); err != nil {
		run.Fatal(err)
	}
	run.Distinct("replay")
	run.Distinct("replay:" + rp.Fingerprint)
	if rp.Case.Harness != "" {
		for _, h := range hs {
			if h.Name != rp.Case.Harness {
				continue
			}
			x, obs, vio := vrt.Replay(h, rp.Case.Choices)
			run.Eval(1)
			if x.Panic != "" {
				vio = "panic: " + x.Panic
			} else if x.Deadlock && vio == "" {
				vio = "deadlock: " + strings.Join(x.Blocked, ",")
			}
			if vio != "" {
				run.Violation(rp.Fingerprint, map[string]interface{}{"Harness": h.Name, "Choices": rp.Case.Choices, "Msg": vio, "Obs": obs})
			} else {
				fmt.Printf("replay of schedule %v: no violation (%s)\n", rp.Case.Choices, obs)
			}
			run.Finish()
		}
		run.Fatal(fmt.Errorf("replay: unknown harness %q", rp.Case.Harness))
	}
	var c *cfg
	for _, x := range append(searches(false), searches(true)...) {
		if searchName(x) == rp.Case.Search {
			c = x
		}
	}
	if c == nil {
		run.Fatal(fmt.Errorf("replay: unknown search %q", rp.Case.Search))
	}
	err = bfs.Replay(bfs.Config{New: func() (bfs.System, error) { return newSys(c) }}, rp.Case.History)
	run.Eval(len(rp.Case.History))
	if f, ok := err.(*bfs.Fail); ok {
		run.Violation(f.Fingerprint, map[string]interface{}{"search": rp.Case.Search, "history": rp.Case.History, "msg": f.Msg})
	} else if err != nil {
		run.Fatal(err)
	} else {
		fmt.Printf("replay of %v: no violation\n", rp.Case.History)
	}
	run.Finish()
}
