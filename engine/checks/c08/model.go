// Reference model of a capacity-bounded LRU blob store with completeness,
// eviction bans, scoped views and per-blob metadata -- copied from the C07
// check (checks/c07/model.go, written for the disk store) and adapted to the
// memory store (property C08):
//   - no persistence, no Clean, no positional metadata writes (the memory
//     store has neither);
//   - blobs are written through HANDLES (memory.File) returned by Create/Open,
//     so the model has a handle table. Every Create starts a new INCARNATION
//     of its key; a handle belongs to one incarnation and is live exactly
//     while that incarnation is in the store. Every operation on a handle that
//     is not live has the result class Evicted and neither returns nor changes
//     bytes.
//
// What the model fixes (all literally in the C07/C08 statements):
//   - reserved space == sum of the sizes given to Create for the live blobs,
//     and a Create is admitted iff that sum stays <= capacity after evicting
//     (the actual number of bytes written through handles is tolerated to
//     differ and does not count);
//   - only complete, not-banned blobs are evicted, least-recently-used first,
//     and (for an admitted Create) no more of them than needed;
//   - a scoped view hides exactly the blobs of the other completeness;
//   - metadata reads return the last value set;
//   - non-movable metadata disappears when the blob is completed;
//   - a live handle behaves like a file positioned at its own offset over the
//     bytes of its incarnation (shared by all handles of that incarnation).
//
// Where the statement leaves a choice the model is a relation and the caller
// follows the implementation (EvictPrefix after a refused Create).
// "Use" events that refresh recency: first MarkComplete, Unban of a complete
// blob (both enqueue the blob as most recent) and Open.
package main

import (
	"fmt"
	"sort"
	"strconv"
	"strings"
)

// Scope selects the blobs a view operates on.
type Scope int

const (
	ScopeAny Scope = iota
	ScopeComplete
	ScopeIncomplete
)

func (s Scope) String() string { return [...]string{"any", "complete", "incomplete"}[s] }

// Class is the class of an operation result.
type Class int

const (
	OK         Class = iota // includes io.EOF of reads (EOF placement is not part of the statement)
	NotExist                // key not in the store
	Exist                   // Create of a live key
	OutOfScope              // key live but hidden by the view
	NoSpace                 // Create refused: cannot fit even after evicting everything evictable
	Invalid                 // invalid argument (seek outside the blob)
	Evicted                 // operation on a handle whose incarnation left the store
	Other                   // anything else (never predicted by the model)
)

func (c Class) String() string {
	return [...]string{"ok", "not-exist", "exist", "out-of-scope", "no-space", "invalid", "evicted", "other"}[c]
}

// MBlob is the model of one live blob (one incarnation of its key).
type MBlob struct {
	Size     uint64 // reserved size (argument of Create)
	Complete bool
	Banned   bool
	Data     string            // bytes written through the handles of this incarnation
	MD       map[string]string // suffix -> last value set
	Inc      int               // incarnation number (unique per Create)
}

// MHandle is the model of one memory.File.
type MHandle struct {
	Key  string
	Inc  int
	Off  int64
	Gone string // "" while live; why the incarnation left the store ("evicted" / "deleted")
}

// Model is the reference store.
type Model struct {
	Cap     uint64
	Blobs   map[string]*MBlob
	LRU     []string            // complete && !banned keys, next-to-evict first
	Movable map[string]bool     // metadata suffix -> survives completion
	H       map[string]*MHandle // retained handles by name
	nextInc int
}

// NewModel returns an empty store of the given capacity. movable declares
// the metadata types (suffix -> movable).
func NewModel(capacity uint64, movable map[string]bool) *Model {
	return &Model{Cap: capacity, Blobs: map[string]*MBlob{}, Movable: movable, H: map[string]*MHandle{}}
}

// Clone deep-copies the model.
func (m *Model) Clone() *Model {
	c := &Model{Cap: m.Cap, Blobs: map[string]*MBlob{}, LRU: append([]string{}, m.LRU...), Movable: m.Movable, H: map[string]*MHandle{}, nextInc: m.nextInc}
	for k, b := range m.Blobs {
		nb := *b
		nb.MD = map[string]string{}
		for s, v := range b.MD {
			nb.MD[s] = v
		}
		c.Blobs[k] = &nb
	}
	for n, h := range m.H {
		nh := *h
		c.H[n] = &nh
	}
	return c
}

// Used is the reserved space: the sum of live blob sizes.
func (m *Model) Used() uint64 {
	var u uint64
	for _, b := range m.Blobs {
		u += b.Size
	}
	return u
}

// Evictable reports whether key is live, complete and not banned.
func (m *Model) Evictable(key string) bool {
	b, ok := m.Blobs[key]
	return ok && b.Complete && !b.Banned
}

func visible(b *MBlob, sc Scope) bool {
	return !(b.Complete && sc == ScopeIncomplete) && !(!b.Complete && sc == ScopeComplete)
}

// Lookup resolves key through a view.
func (m *Model) Lookup(key string, sc Scope) (*MBlob, Class) {
	b, ok := m.Blobs[key]
	if !ok {
		return nil, NotExist
	}
	if !visible(b, sc) {
		return nil, OutOfScope
	}
	return b, OK
}

func (m *Model) lruRemove(key string) {
	for i, k := range m.LRU {
		if k == key {
			m.LRU = append(m.LRU[:i:i], m.LRU[i+1:]...)
			return
		}
	}
}

func (m *Model) lruPushBack(key string) {
	m.lruRemove(key)
	m.LRU = append(m.LRU, key)
}

// drop removes an incarnation; its handles stop being live.
func (m *Model) drop(key, why string) {
	if b, ok := m.Blobs[key]; ok {
		for _, h := range m.H {
			if h.Key == key && h.Inc == b.Inc && h.Gone == "" {
				h.Gone = why
			}
		}
	}
	m.lruRemove(key)
	delete(m.Blobs, key)
}

// Create predicts Create(key,size). On OK the minimal LRU prefix has been
// evicted (returned), the blob is live, incomplete, not banned, empty, without
// metadata, and (when hname != "") the returned handle is retained as hname.
// On NoSpace nothing has been changed: the statement fixes the order of
// eviction, not whether a refused Create evicts, so the caller applies what
// the implementation did with EvictPrefix.
func (m *Model) Create(key string, size uint64, hname string) (Class, []string) {
	if _, ok := m.Blobs[key]; ok {
		return Exist, nil
	}
	var pinned uint64 // space that eviction cannot free
	for k, b := range m.Blobs {
		if !m.Evictable(k) {
			pinned += b.Size
		}
	}
	if size > m.Cap || pinned > m.Cap-size {
		return NoSpace, nil
	}
	var evicted []string
	for m.Used() > m.Cap-size {
		k := m.LRU[0]
		evicted = append(evicted, k)
		m.drop(k, "evicted")
	}
	m.nextInc++
	m.Blobs[key] = &MBlob{Size: size, MD: map[string]string{}, Inc: m.nextInc}
	if hname != "" {
		m.H[hname] = &MHandle{Key: key, Inc: m.nextInc}
	}
	return OK, evicted
}

// EvictPrefix removes the first n keys of the LRU list (what a refused
// Create was observed to evict).
func (m *Model) EvictPrefix(n int) {
	for i := 0; i < n; i++ {
		m.drop(m.LRU[0], "evicted")
	}
}

// IsLRUPrefix reports whether gone (a set of keys) is exactly the first
// len(gone) entries of the LRU list.
func (m *Model) IsLRUPrefix(gone []string) bool {
	if len(gone) > len(m.LRU) {
		return false
	}
	set := map[string]bool{}
	for _, k := range gone {
		set[k] = true
	}
	for _, k := range m.LRU[:len(gone)] {
		if !set[k] {
			return false
		}
	}
	return len(set) == len(gone)
}

// Open predicts Open: an evictable blob becomes most recent; the returned
// handle (offset 0) is retained as hname when hname != "".
func (m *Model) Open(key string, sc Scope, hname string) Class {
	b, c := m.Lookup(key, sc)
	if c != OK {
		return c
	}
	if m.Evictable(key) {
		m.lruPushBack(key)
	}
	if hname != "" {
		m.H[hname] = &MHandle{Key: key, Inc: b.Inc}
	}
	return OK
}

// Stat predicts the actual number of bytes of the blob.
func (m *Model) Stat(key string, sc Scope) (Class, int64) {
	b, c := m.Lookup(key, sc)
	if c != OK {
		return c, 0
	}
	return OK, int64(len(b.Data))
}

// Has predicts (inStore, inScope).
func (m *Model) Has(key string, sc Scope) (bool, bool) {
	_, c := m.Lookup(key, sc)
	return c != NotExist, c == OK
}

// List predicts the sorted keys visible through a view.
func (m *Model) List(sc Scope) []string {
	res := []string{}
	for k, b := range m.Blobs {
		if visible(b, sc) {
			res = append(res, k)
		}
	}
	sort.Strings(res)
	return res
}

// MarkComplete is not scoped. The first completion enqueues the blob as most
// recent (unless banned) and drops its non-movable metadata.
func (m *Model) MarkComplete(key string) Class {
	b, ok := m.Blobs[key]
	if !ok {
		return NotExist
	}
	if b.Complete {
		return OK
	}
	b.Complete = true
	if !b.Banned {
		m.lruPushBack(key)
	}
	for s := range b.MD {
		if !m.Movable[s] {
			delete(b.MD, s)
		}
	}
	return OK
}

// Delete removes a visible blob with its metadata and frees its space.
func (m *Model) Delete(key string, sc Scope) Class {
	if _, c := m.Lookup(key, sc); c != OK {
		return c
	}
	m.drop(key, "deleted")
	return OK
}

// Ban makes a visible blob unevictable (idempotent).
func (m *Model) Ban(key string, sc Scope) Class {
	b, c := m.Lookup(key, sc)
	if c != OK {
		return c
	}
	if !b.Banned {
		b.Banned = true
		m.lruRemove(key)
	}
	return OK
}

// Unban undoes Ban (idempotent); a complete blob is enqueued as most recent.
func (m *Model) Unban(key string, sc Scope) Class {
	b, c := m.Lookup(key, sc)
	if c != OK {
		return c
	}
	if b.Banned {
		b.Banned = false
		if b.Complete {
			m.lruPushBack(key)
		}
	}
	return OK
}

// SetMD sets a metadata value.
func (m *Model) SetMD(key, suffix, val string, sc Scope) Class {
	b, c := m.Lookup(key, sc)
	if c != OK {
		return c
	}
	b.MD[suffix] = val
	return OK
}

// GetMD reads a metadata value: (class, present, last value set).
func (m *Model) GetMD(key, suffix string, sc Scope) (Class, bool, string) {
	b, c := m.Lookup(key, sc)
	if c != OK {
		return c, false, ""
	}
	v, ok := b.MD[suffix]
	return OK, ok, v
}

// DelMD removes a metadata value (no error when absent).
func (m *Model) DelMD(key, suffix string, sc Scope) Class {
	b, c := m.Lookup(key, sc)
	if c != OK {
		return c
	}
	delete(b.MD, suffix)
	return OK
}

// ListMD lists the sorted suffixes of the metadata present.
func (m *Model) ListMD(key string, sc Scope) (Class, []string) {
	b, c := m.Lookup(key, sc)
	if c != OK {
		return c, nil
	}
	res := []string{}
	for s := range b.MD {
		res = append(res, s)
	}
	sort.Strings(res)
	return OK, res
}

// ---- handles -------------------------------------------------------------------

// Out is the observable result of one operation (store or handle).
type Out struct {
	Cls  Class
	N    int64  // byte count / size / position
	Data string // bytes returned / metadata value / joined list
	B1   bool   // Has: inStore; GetMetadata: present
	B2   bool   // Has: inScope
}

func (o Out) String() string {
	return fmt.Sprintf("(%v n=%d data=%q %v %v)", o.Cls, o.N, o.Data, o.B1, o.B2)
}

// Live returns the blob a handle reads and writes, nil when the handle's
// incarnation has left the store (evicted, deleted, possibly re-created since).
func (m *Model) Live(h *MHandle) *MBlob {
	b, ok := m.Blobs[h.Key]
	if !ok || b.Inc != h.Inc {
		return nil
	}
	return b
}

func splice(data string, off int64, p string) string {
	buf := []byte(data)
	for int64(len(buf)) < off+int64(len(p)) {
		buf = append(buf, 0)
	}
	copy(buf[off:], p)
	return string(buf)
}

// HRead predicts Read of n bytes at the handle's offset.
func (m *Model) HRead(h *MHandle, n int) Out {
	b := m.Live(h)
	if b == nil {
		return Out{Cls: Evicted}
	}
	if n == 0 || h.Off >= int64(len(b.Data)) {
		return Out{}
	}
	end := h.Off + int64(n)
	if end > int64(len(b.Data)) {
		end = int64(len(b.Data))
	}
	d := b.Data[h.Off:end]
	h.Off = end
	return Out{N: int64(len(d)), Data: d}
}

// HReadAt predicts ReadAt of n bytes at off (off >= 0).
func (m *Model) HReadAt(h *MHandle, n int, off int64) Out {
	b := m.Live(h)
	if b == nil {
		return Out{Cls: Evicted}
	}
	if n == 0 || off >= int64(len(b.Data)) {
		return Out{}
	}
	end := off + int64(n)
	if end > int64(len(b.Data)) {
		end = int64(len(b.Data))
	}
	d := b.Data[off:end]
	return Out{N: int64(len(d)), Data: d}
}

// HWrite predicts Write of p at the handle's offset.
func (m *Model) HWrite(h *MHandle, p string) Out {
	b := m.Live(h)
	if b == nil {
		return Out{Cls: Evicted}
	}
	if len(p) > 0 {
		b.Data = splice(b.Data, h.Off, p)
		h.Off += int64(len(p))
	}
	return Out{N: int64(len(p))}
}

// HWriteAt predicts WriteAt of p at off (off >= 0); an empty write changes nothing.
func (m *Model) HWriteAt(h *MHandle, p string, off int64) Out {
	b := m.Live(h)
	if b == nil {
		return Out{Cls: Evicted}
	}
	if len(p) > 0 {
		b.Data = splice(b.Data, off, p)
	}
	return Out{N: int64(len(p))}
}

// HSeek predicts Seek (whence 0,1,2); targets outside [0,len] are rejected.
func (m *Model) HSeek(h *MHandle, off int64, whence int) Out {
	b := m.Live(h)
	if b == nil {
		return Out{Cls: Evicted}
	}
	var n int64
	switch whence {
	case 0:
		n = off
	case 1:
		n = h.Off + off
	case 2:
		n = int64(len(b.Data)) + off
	default:
		return Out{Cls: Invalid}
	}
	if n < 0 || n > int64(len(b.Data)) {
		return Out{Cls: Invalid}
	}
	h.Off = n
	return Out{N: n}
}

// HSize predicts Size (-1 with class Evicted for a handle that is not live).
func (m *Model) HSize(h *MHandle) Out {
	b := m.Live(h)
	if b == nil {
		return Out{Cls: Evicted, N: -1}
	}
	return Out{N: int64(len(b.Data))}
}

// ---- generic operations (shared by the history search and the linearizability model) ------

// Op is one call of the public API.
type Op struct {
	Kind  string // create open delete complete ban unban has stat list setmd getmd delmd listmd | read readat write writeat seek size
	Key   string
	Size  uint64
	Scope Scope
	H     string // handle name: the handle operated on, or the name the returned handle is retained under
	N     int
	Off   int64
	P     string
	Wh    int
	Sfx   string
	Val   string
}

func (o Op) String() string {
	switch o.Kind {
	case "create":
		return fmt.Sprintf("create %s %d ->%s", o.Key, o.Size, o.H)
	case "open":
		return fmt.Sprintf("open %s %v ->%s", o.Key, o.Scope, o.H)
	case "delete", "ban", "unban", "has", "stat", "listmd":
		return fmt.Sprintf("%s %s %v", o.Kind, o.Key, o.Scope)
	case "complete":
		return "complete " + o.Key
	case "list":
		return fmt.Sprintf("list %v", o.Scope)
	case "setmd":
		return fmt.Sprintf("setmd %s %s=%q %v", o.Key, o.Sfx, o.Val, o.Scope)
	case "getmd", "delmd":
		return fmt.Sprintf("%s %s %s %v", o.Kind, o.Key, o.Sfx, o.Scope)
	case "read":
		return fmt.Sprintf("%s.Read(%d)", o.H, o.N)
	case "readat":
		return fmt.Sprintf("%s.ReadAt(%d,%d)", o.H, o.N, o.Off)
	case "write":
		return fmt.Sprintf("%s.Write(%q)", o.H, o.P)
	case "writeat":
		return fmt.Sprintf("%s.WriteAt(%q,%d)", o.H, o.P, o.Off)
	case "seek":
		return fmt.Sprintf("%s.Seek(%d,%d)", o.H, o.Off, o.Wh)
	case "size":
		return o.H + ".Size()"
	}
	return o.Kind
}

// Do applies op to the model and predicts its result. A refused Create evicts
// the whole LRU list when evictAllOnRefusal is set (the choice the memory store
// is observed to make in the history search), nothing otherwise.
func (m *Model) Do(op Op, evictAllOnRefusal bool) Out {
	switch op.Kind {
	case "create":
		c, _ := m.Create(op.Key, op.Size, op.H)
		if c == NoSpace && evictAllOnRefusal {
			m.EvictPrefix(len(m.LRU))
		}
		return Out{Cls: c}
	case "open":
		return Out{Cls: m.Open(op.Key, op.Scope, op.H)}
	case "delete":
		return Out{Cls: m.Delete(op.Key, op.Scope)}
	case "complete":
		return Out{Cls: m.MarkComplete(op.Key)}
	case "ban":
		return Out{Cls: m.Ban(op.Key, op.Scope)}
	case "unban":
		return Out{Cls: m.Unban(op.Key, op.Scope)}
	case "has":
		a, b := m.Has(op.Key, op.Scope)
		return Out{B1: a, B2: b}
	case "stat":
		c, n := m.Stat(op.Key, op.Scope)
		return Out{Cls: c, N: n}
	case "list":
		return Out{Data: strings.Join(m.List(op.Scope), ",")}
	case "setmd":
		return Out{Cls: m.SetMD(op.Key, op.Sfx, op.Val, op.Scope)}
	case "getmd":
		c, ok, v := m.GetMD(op.Key, op.Sfx, op.Scope)
		return Out{Cls: c, B1: ok, Data: v}
	case "delmd":
		return Out{Cls: m.DelMD(op.Key, op.Sfx, op.Scope)}
	case "listmd":
		c, l := m.ListMD(op.Key, op.Scope)
		return Out{Cls: c, Data: strings.Join(l, ",")}
	}
	h, ok := m.H[op.H]
	if !ok {
		return Out{Cls: Other, Data: "unknown handle " + op.H}
	}
	switch op.Kind {
	case "read":
		return m.HRead(h, op.N)
	case "readat":
		return m.HReadAt(h, op.N, op.Off)
	case "write":
		return m.HWrite(h, op.P)
	case "writeat":
		return m.HWriteAt(h, op.P, op.Off)
	case "seek":
		return m.HSeek(h, op.Off, op.Wh)
	case "size":
		return m.HSize(h)
	}
	return Out{Cls: Other, Data: "unknown op " + op.Kind}
}

// Key is the canonical rendering of the whole model state (blobs, eviction
// order, handles: which incarnation they belong to is rendered as live/gone).
func (m *Model) Key() string {
	var sb strings.Builder
	fmt.Fprintf(&sb, "used=%d lru=%s", m.Used(), strings.Join(m.LRU, ","))
	keys := make([]string, 0, len(m.Blobs))
	for k := range m.Blobs {
		keys = append(keys, k)
	}
	sort.Strings(keys)
	for _, k := range keys {
		sb.WriteString(" | ")
		sb.WriteString(m.BlobKey(k))
	}
	sb.WriteString(" | handles")
	for _, n := range m.HandleNames() {
		h := m.H[n]
		st := "live"
		if m.Live(h) == nil {
			st = "gone"
		}
		sb.WriteString(" " + n + ":" + h.Key + ":" + st + "@" + strconv.FormatInt(h.Off, 10))
	}
	return sb.String()
}

// HandleNames lists the retained handle names, sorted.
func (m *Model) HandleNames() []string {
	ns := make([]string, 0, len(m.H))
	for n := range m.H {
		ns = append(ns, n)
	}
	sort.Strings(ns)
	return ns
}

// BlobKey renders one blob.
func (m *Model) BlobKey(k string) string {
	b := m.Blobs[k]
	_, sfx := m.ListMD(k, ScopeAny)
	mds := make([]string, 0, len(sfx))
	for _, s := range sfx {
		mds = append(mds, fmt.Sprintf("%s=%q", s, b.MD[s]))
	}
	return fmt.Sprintf("%s size=%d complete=%v banned=%v data=%q md[%s]", k, b.Size, b.Complete, b.Banned, b.Data, strings.Join(mds, " "))
}
