// C32: build-index tag puts are dependency-checked, stable and written back.
//
// E3: explicit-state BFS over all histories of PUT / GET / backend fail / backend
// heal / run write-back on a REAL tagserver.Server (Handler().ServeHTTP, no
// sockets) over a real tagstore over a real store.SimpleStore, with the real
// writeback.Executor behind a persistedretry.Manager seam, once in async
// write-back mode and once in write-through mode. The environment is a fake
// origin cluster (Stat answers per dependency are part of the PUT operation),
// a fake dependency resolver and a fake backend with a failure switch.
package main

import (
	"context"
	"errors"
	"fmt"
	"io"
	"net/http"
	"net/http/httptest"
	"net/url"
	"os"
	"path/filepath"
	"sort"
	"strings"
	"sync"
	"time"

	"github.com/uber-go/tally"
	"github.com/uber/kraken/build-index/tagclient"
	"github.com/uber/kraken/build-index/tagserver"
	"github.com/uber/kraken/build-index/tagstore"
	"github.com/uber/kraken/core"
	"github.com/uber/kraken/lib/backend"
	"github.com/uber/kraken/lib/backend/backenderrors"
	"github.com/uber/kraken/lib/persistedretry"
	"github.com/uber/kraken/lib/persistedretry/writeback"
	"github.com/uber/kraken/lib/store"
	"github.com/uber/kraken/origin/blobclient"
	"github.com/uber/kraken/utils/stringset"
	"go.opentelemetry.io/otel/trace/noop"

	"verif/bfs"
	"verif/evid"
	_ "verif/quiet"
	"verif/rep"
)

// ---------------------------------------------------------------- domain

var tags = []string{"r:t1", "r:t2"}

func mkDigest(s string) core.Digest {
	d, err := core.NewDigester().FromBytes([]byte(s))
	if err != nil {
		panic(err)
	}
	return d
}

// digests d1, d2 and the blobs they depend on (b2 is shared).
var (
	digests = map[string]core.Digest{"d1": mkDigest("manifest d1"), "d2": mkDigest("manifest d2")}
	blobs   = map[string]core.Digest{"b1": mkDigest("blob b1"), "b2": mkDigest("blob b2"), "b3": mkDigest("blob b3")}
	depsOf  = map[string][]string{"d1": {"b1", "b2"}, "d2": {"b2", "b3"}}
)

func digestName(d string) string {
	for n, x := range digests {
		if x.String() == d {
			return n
		}
	}
	return "?" + d
}

// ---------------------------------------------------------------- environment fakes

var errInjected = errors.New("c32: injected failure")

// fakeBackend is the remote tag storage: a map with a failure switch.
type fakeBackend struct {
	mu      sync.Mutex
	down    bool
	content map[string]string
	uploads int
}

func (b *fakeBackend) Stat(ns, name string) (*core.BlobInfo, error) {
	b.mu.Lock()
	defer b.mu.Unlock()
	if b.down {
		return nil, errInjected
	}
	c, ok := b.content[name]
	if !ok {
		return nil, backenderrors.ErrBlobNotFound
	}
	return core.NewBlobInfo(int64(len(c))), nil
}

func (b *fakeBackend) Upload(ns, name string, src io.Reader) error {
	data, rerr := io.ReadAll(src)
	b.mu.Lock()
	defer b.mu.Unlock()
	if b.down {
		return errInjected
	}
	if rerr != nil {
		return rerr
	}
	b.content[name] = string(data)
	b.uploads++
	return nil
}

func (b *fakeBackend) Download(ns, name string, dst io.Writer) error {
	b.mu.Lock()
	defer b.mu.Unlock()
	if b.down {
		return errInjected
	}
	c, ok := b.content[name]
	if !ok {
		return backenderrors.ErrBlobNotFound
	}
	_, err := io.WriteString(dst, c)
	return err
}

func (b *fakeBackend) List(prefix string, opts ...backend.ListOption) (*backend.ListResult, error) {
	return &backend.ListResult{}, nil
}

func (b *fakeBackend) Close() error { return nil }

// fakeOrigin is the local origin cluster as the tag server sees it: Stat only.
// answers: blob digest -> 'p' present, 'm' missing (ErrBlobNotFound), 'e' the
// origin cluster fails to answer (and the blob is in fact absent).
type fakeOrigin struct {
	answers map[string]byte
	stats   int
	unknown int
}

func (o *fakeOrigin) Stat(ns string, d core.Digest) (*core.BlobInfo, error) {
	o.stats++
	switch o.answers[d.String()] {
	case 'p':
		return core.NewBlobInfo(1), nil
	case 'm':
		return nil, blobclient.ErrBlobNotFound
	case 'e':
		return nil, errInjected
	}
	o.unknown++
	return nil, blobclient.ErrBlobNotFound
}

func (o *fakeOrigin) CheckReadiness() error { return nil }
func (o *fakeOrigin) UploadBlob(context.Context, string, core.Digest, io.ReadSeeker, uint64) error {
	return errInjected
}
func (o *fakeOrigin) DownloadBlob(context.Context, string, core.Digest, io.Writer) error {
	return errInjected
}
func (o *fakeOrigin) PrefetchBlob(string, core.Digest) error { return errInjected }
func (o *fakeOrigin) GetMetaInfo(string, core.Digest) (*core.MetaInfo, error) {
	return nil, errInjected
}
func (o *fakeOrigin) OverwriteMetaInfo(core.Digest, int64) error          { return errInjected }
func (o *fakeOrigin) Owners(core.Digest) ([]core.PeerContext, error)      { return nil, errInjected }
func (o *fakeOrigin) ReplicateToRemote(string, core.Digest, string) error { return errInjected }

// fakeDeps resolves the dependencies of d1 / d2.
type fakeDeps struct{}

func (fakeDeps) Resolve(tag string, d core.Digest) (core.DigestList, error) {
	n := digestName(d.String())
	names, ok := depsOf[n]
	if !ok {
		return nil, fmt.Errorf("c32: unknown digest %s", d)
	}
	var l core.DigestList
	for _, b := range names {
		l = append(l, blobs[b])
	}
	return l, nil
}

type emptyHosts struct{}

func (emptyHosts) Resolve() stringset.Set { return stringset.New() }

type noTagClients struct{}

func (noTagClients) Provide(string) tagclient.Client { return nil }

type noRetry struct{}

func (noRetry) Add(persistedretry.Task) error                   { return errInjected }
func (noRetry) SyncExec(persistedretry.Task) error              { return errInjected }
func (noRetry) Close()                                          {}
func (noRetry) Find(interface{}) ([]persistedretry.Task, error) { return nil, nil }

// seamManager stands in for the persisted-retry manager (covered by C30): the
// points at which it runs the REAL write-back executor are driven by the search.
//
//	Add       records the task (a task with the same (namespace, name) is a no-op,
//	          like the manager's ErrTaskExists handling); the operation
//	          "run write-back <tag>" executes it once with the real executor:
//	          success removes it, failure keeps it for a later retry.
//	SyncExec  runs the real executor once, immediately, and returns its error.
type seamManager struct {
	exec     *writeback.Executor
	pending  map[string]*writeback.Task
	added    int
	syncExec int
}

func (m *seamManager) Add(t persistedretry.Task) error {
	wt, ok := t.(*writeback.Task)
	if !ok {
		return fmt.Errorf("c32: unexpected task type %T", t)
	}
	m.added++
	k := wt.Namespace + "\x00" + wt.Name
	if _, dup := m.pending[k]; dup {
		return nil
	}
	m.pending[k] = wt
	return nil
}

func (m *seamManager) SyncExec(t persistedretry.Task) error {
	m.syncExec++
	if err := m.exec.Exec(t); err != nil {
		return fmt.Errorf("sync task failed: %w", err)
	}
	return nil
}

func (m *seamManager) Close() {}

func (m *seamManager) Find(interface{}) ([]persistedretry.Task, error) { return nil, nil }

// runOne executes the pending task of tag; ok reports whether it succeeded.
func (m *seamManager) runOne(tag string) (found, ok bool) {
	k := tag + "\x00" + tag
	t, found := m.pending[k]
	if !found {
		return false, false
	}
	if err := m.exec.Exec(t); err != nil {
		t.Failures++
		return true, false
	}
	delete(m.pending, k)
	return true, true
}

func (m *seamManager) pendingTags() []string {
	var r []string
	for _, t := range m.pending {
		if t.Namespace != t.Name {
			r = append(r, "?"+t.Namespace+"/"+t.Name)
			continue
		}
		r = append(r, t.Name)
	}
	sort.Strings(r)
	return r
}

// ---------------------------------------------------------------- vacuity / coverage events

type eventSet struct {
	mu sync.Mutex
	m  map[string]map[string]struct{}
}

var events = &eventSet{m: map[string]map[string]struct{}{}}

func (e *eventSet) record(ev, id string) {
	e.mu.Lock()
	if e.m[ev] == nil {
		e.m[ev] = map[string]struct{}{}
	}
	e.m[ev][id] = struct{}{}
	e.mu.Unlock()
}

func (e *eventSet) count(ev string) int {
	e.mu.Lock()
	defer e.mu.Unlock()
	return len(e.m[ev])
}

// ---------------------------------------------------------------- system

type sys struct {
	run          *evid.Run
	writeThrough bool
	depth        int // alphabet operations allowed before the closing phase
	answers      string
	dir          string
	ss           *store.SimpleStore
	h            http.Handler
	be           *fakeBackend
	origin       *fakeOrigin
	mgr          *seamManager

	steps  int
	closed bool

	// reference model (the statement's vocabulary only)
	eligible  map[string]map[string]bool // tag -> digests PUT for it while every dependency was present
	succeeded map[string]bool            // tag -> some PUT was answered 2xx
	resolved  map[string]string          // tag -> the digest the first 200 GET on this node returned
}

func (s *sys) mode() string {
	if s.writeThrough {
		return "write-through"
	}
	return "async"
}

func newSys(run *evid.Run, writeThrough bool, depth int, answers string) (*sys, error) {
	dir, err := os.MkdirTemp("", "c32-")
	if err != nil {
		return nil, err
	}
	ss, err := store.NewSimpleStore(store.SimpleStoreConfig{
		UploadDir: filepath.Join(dir, "upload"), CacheDir: filepath.Join(dir, "cache"),
		UploadCleanup: store.CleanupConfig{Disabled: true},
		CacheCleanup:  store.CleanupConfig{Disabled: true},
	}, tally.NoopScope)
	if err != nil {
		os.RemoveAll(dir)
		return nil, err
	}
	be := &fakeBackend{content: map[string]string{}}
	backends, err := backend.NewManager(backend.ManagerConfig{}, nil, backend.AuthConfig{}, tally.NoopScope)
	if err != nil {
		return nil, err
	}
	if err := backends.Register(".*", be, false); err != nil {
		return nil, err
	}
	mgr := &seamManager{exec: writeback.NewExecutor(tally.NoopScope, ss, backends), pending: map[string]*writeback.Task{}}
	origin := &fakeOrigin{answers: map[string]byte{}}
	ts := tagstore.New(tagstore.Config{WriteThrough: writeThrough}, ss, backends, mgr)
	srv := tagserver.New(tagserver.Config{}, tally.NoopScope, backends, "origin-dns", origin,
		emptyHosts{}, ts, nil, noRetry{}, noTagClients{}, fakeDeps{},
		noop.NewTracerProvider().Tracer("c32"))
	return &sys{
		run: run, writeThrough: writeThrough, depth: depth, answers: answers, dir: dir, ss: ss, h: srv.Handler(), be: be, origin: origin, mgr: mgr,
		eligible:  map[string]map[string]bool{},
		succeeded: map[string]bool{},
		resolved:  map[string]string{},
	}, nil
}

func (s *sys) Close() {
	s.ss.Close()
	os.RemoveAll(s.dir)
}

func (s *sys) do(method, path string) (int, string) {
	req := httptest.NewRequest(method, path, nil)
	rec := httptest.NewRecorder()
	s.h.ServeHTTP(rec, req)
	return rec.Code, rec.Body.String()
}

func (s *sys) get(tag string) (int, string) {
	return s.do("GET", "/tags/"+url.PathEscape(tag))
}

// answerTuples enumerates the per-dependency origin answers of one PUT.
func answerTuples(alpha string, n int) []string {
	out := []string{""}
	for i := 0; i < n; i++ {
		var next []string
		for _, p := range out {
			for _, a := range alpha {
				next = append(next, p+string(a))
			}
		}
		out = next
	}
	return out
}

func (s *sys) Ops() []string {
	if s.closed {
		return nil
	}
	if s.steps >= s.depth {
		return []string{"close"}
	}
	var ops []string
	for _, t := range tags {
		for _, d := range []string{"d1", "d2"} {
			for _, a := range answerTuples(s.answers, len(depsOf[d])) {
				ops = append(ops, fmt.Sprintf("PUT %s %s deps=%s", t, d, a))
			}
		}
	}
	for _, t := range tags {
		ops = append(ops, "GET "+t)
	}
	if s.be.down {
		ops = append(ops, "backend heal")
	} else {
		ops = append(ops, "backend fail")
	}
	for _, t := range s.mgr.pendingTags() {
		ops = append(ops, "run write-back "+t)
	}
	return append(ops, "close")
}

func (s *sys) Apply(op string) error {
	if s.closed {
		return fmt.Errorf("operation %q after the closing phase", op)
	}
	id := s.mode() + "|" + s.Key() + "|" + op
	f := strings.Fields(op)
	switch {
	case f[0] == "PUT" && len(f) == 4:
		if err := s.put(f[1], f[2], strings.TrimPrefix(f[3], "deps="), id); err != nil {
			return err
		}
	case f[0] == "GET" && len(f) == 2:
		// the observation itself is made by invariants() below, for every tag
	case op == "backend fail":
		s.be.down = true
	case op == "backend heal":
		s.be.down = false
	case strings.HasPrefix(op, "run write-back "):
		tag := strings.TrimPrefix(op, "run write-back ")
		found, ok := s.mgr.runOne(tag)
		if !found {
			return fmt.Errorf("no pending write-back task for %q", tag)
		}
		if ok {
			events.record("writeback_runs_succeeded", id)
		} else {
			events.record("writeback_runs_failed_and_kept", id)
		}
	case op == "close":
		return s.closing(id)
	default:
		return fmt.Errorf("unknown op %q", op)
	}
	s.steps++
	if err := s.invariants(op); err != nil {
		return err
	}
	if s.nontrivial() {
		s.run.Distinct(s.mode() + "|" + s.Key())
	}
	return nil
}

func (s *sys) nontrivial() bool {
	for _, t := range tags {
		if s.succeeded[t] {
			return true
		}
	}
	return false
}

func (s *sys) put(tag, dn, ans, id string) error {
	d, ok := digests[dn]
	if !ok || len(ans) != len(depsOf[dn]) {
		return fmt.Errorf("bad PUT operands %q %q %q", tag, dn, ans)
	}
	// the state of the origin cluster at the time of this PUT
	s.origin.answers = map[string]byte{}
	allPresent := true
	for i, b := range depsOf[dn] {
		s.origin.answers[blobs[b].String()] = ans[i]
		if ans[i] != 'p' {
			allPresent = false
		}
	}
	statsBefore := s.origin.stats
	prevStatus, prevDigest := s.get(tag)
	code, body := s.do("PUT", "/tags/"+url.PathEscape(tag)+"/digest/"+url.PathEscape(d.String()))
	if s.origin.unknown > 0 {
		return fmt.Errorf("origin was asked about a blob outside the dependency list (%d times)", s.origin.unknown)
	}
	success := code >= 200 && code < 300
	if success && !allPresent {
		kind := "missing"
		if !strings.Contains(ans, "m") {
			kind = "unconfirmed (origin error)"
		}
		return bfs.Failf("PUT answered 2xx although a dependency is "+kind+" in the origin cluster",
			"%s: PUT %s=%s answered %d with origin answers %q for dependencies %v (p present, m missing, e origin error and blob absent); origin Stat calls during the PUT: %d",
			s.mode(), tag, dn, code, ans, depsOf[dn], s.origin.stats-statsBefore)
	}
	if allPresent {
		if s.eligible[tag] == nil {
			s.eligible[tag] = map[string]bool{}
		}
		s.eligible[tag][d.String()] = true
	}
	switch {
	case success:
		s.succeeded[tag] = true
		events.record("puts_2xx", id)
		if prevStatus == 200 && prevDigest != d.String() {
			events.record("puts_2xx_of_another_digest_for_a_stored_tag", id)
		}
		if s.be.down {
			events.record("puts_2xx_while_backend_down", id)
		}
	case !allPresent:
		events.record("puts_rejected_dependency_not_present", id)
		if strings.Contains(ans, "e") && !strings.Contains(ans, "m") {
			events.record("puts_rejected_origin_error_only", id)
		}
	default:
		events.record("puts_failed_all_dependencies_present", id)
		if !(s.writeThrough && s.be.down) {
			// the only failure this harness injects behind the dependency check
			// is the backend switch in write-through mode
			return fmt.Errorf("PUT %s=%s failed with %d %q although every dependency is present and no failure was injected", tag, dn, code, body)
		}
	}
	if success && s.writeThrough {
		// "synchronously in write-through mode"
		gs, gd := s.get(tag)
		c, ok := s.be.content[tag]
		if !ok || gs != 200 || c != gd {
			return bfs.Failf("write-through PUT answered 2xx but the backend does not hold the digest the node resolves",
				"PUT %s=%s answered %d; GET -> %d %s; backend holds %q (present=%v)", tag, dn, code, gs, digestName(gd), digestName(c), ok)
		}
		events.record("write_through_puts_checked_against_backend", id)
	}
	return nil
}

// invariants: what the statement promises about GET on this node, checked
// after every operation for every tag.
func (s *sys) invariants(op string) error {
	for _, t := range tags {
		code, body := s.get(t)
		switch {
		case code == 200:
			if _, err := core.ParseSHA256Digest(body); err != nil {
				return bfs.Failf("GET answered 200 with something that is not a digest", "after %q: GET %s -> %q", op, t, body)
			}
			if !s.eligible[t][body] {
				return bfs.Failf("GET resolves the tag to a digest that was never put for it with its dependencies present",
					"%s after %q: GET %s -> %s; digests put for it with all dependencies present: %v", s.mode(), op, t, digestName(body), s.eligibleNames(t))
			}
			if prev, ok := s.resolved[t]; ok && prev != body {
				return bfs.Failf("GET resolves a stored tag to a different digest than before",
					"%s after %q: GET %s -> %s, earlier %s", s.mode(), op, t, digestName(body), digestName(prev))
			}
			s.resolved[t] = body
		case s.succeeded[t]:
			return bfs.Failf("GET does not resolve a tag whose PUT succeeded on this node",
				"%s after %q: GET %s -> %d %q", s.mode(), op, t, code, body)
		case code == 404:
			if _, ok := s.resolved[t]; ok {
				return bfs.Failf("GET no longer resolves a tag it resolved before",
					"%s after %q: GET %s -> 404, earlier %s", s.mode(), op, t, digestName(s.resolved[t]))
			}
		default:
			return fmt.Errorf("GET %s -> %d %q (no failure injected on the read path)", t, code, body)
		}
	}
	return nil
}

// closing: backend up, every pending write-back task is run (retried a bounded
// number of times); then the backend must hold, for every tag whose PUT
// succeeded, the digest this node resolves.
func (s *sys) closing(id string) error {
	s.closed = true
	s.be.down = false
	pend := s.mgr.pendingTags()
	if len(pend) > 0 {
		events.record("closing_phases_with_pending_writeback", id)
	}
	for round := 0; round < 3; round++ {
		for _, t := range s.mgr.pendingTags() {
			s.mgr.runOne(t)
		}
	}
	if left := s.mgr.pendingTags(); len(left) > 0 {
		return bfs.Failf("closing phase: write-back task still fails with the backend available",
			"%s: tasks %v failed 3 more times with the backend up", s.mode(), left)
	}
	if err := s.invariants("close"); err != nil {
		return err
	}
	for _, t := range tags {
		if !s.succeeded[t] {
			continue
		}
		_, d := s.get(t)
		c, ok := s.be.content[t]
		if !ok {
			return bfs.Failf("closing phase: backend does not hold a tag whose PUT succeeded",
				"%s: tag %s resolves to %s on the node, backend has no entry (pending tasks before closing: %v)", s.mode(), t, digestName(d), pend)
		}
		if c != d {
			return bfs.Failf("closing phase: backend holds a different digest than the node resolves",
				"%s: tag %s resolves to %s on the node, backend holds %s", s.mode(), t, digestName(d), digestName(c))
		}
		events.record("closing_phase_tags_checked_against_backend", id+"|"+t)
	}
	return nil
}

func (s *sys) eligibleNames(t string) []string {
	var r []string
	for d := range s.eligible[t] {
		r = append(r, digestName(d))
	}
	sort.Strings(r)
	return r
}

// Key: model state + everything observable (GET per tag, backend contents and
// switch, pending write-back tasks).
func (s *sys) Key() string {
	var b strings.Builder
	if s.closed {
		b.WriteString("closed ")
	}
	for _, t := range tags {
		code, body := s.get(t)
		fmt.Fprintf(&b, "%s[get=%d:%s ok=%v elig=%s res=%s be=", t, code, digestName(body), s.succeeded[t], strings.Join(s.eligibleNames(t), ","), digestName(s.resolved[t]))
		if c, ok := s.be.content[t]; ok {
			b.WriteString(digestName(c))
		} else {
			b.WriteString("-")
		}
		b.WriteString("] ")
	}
	fmt.Fprintf(&b, "down=%v pending=%s", s.be.down, strings.Join(s.mgr.pendingTags(), ","))
	return b.String()
}

// ---------------------------------------------------------------- main

func main() {
	run := evid.New("C32", "model_checking")
	run.Rule = "E3: per write-back mode (async, write-through), BFS over all histories of the alphabet {PUT tag digest with every tuple of per-dependency origin answers (present / missing / origin error with the blob absent), GET tag, backend fail, backend heal, run write-back <tag> (async mode: one execution of a pending task by the real writeback.Executor; failure keeps the task)} for tags {r:t1,r:t2} and digests {d1 -> blobs b1,b2; d2 -> blobs b2,b3}, on a real tagserver.Server (Handler().ServeHTTP) over a real tagstore over a real SimpleStore in a fresh directory; from EVERY distinct state a closing phase (backend healed, pending write-back tasks run) is applied as a terminal transition. States are deduplicated on GET results per tag + backend contents + backend switch + pending tasks + model (digests put with all dependencies present, PUT-succeeded flag, first resolved digest). Oracle after every transition: PUT 2xx only if every dependency was answered present; GET 200 only with a digest put for that tag while its dependencies were present, never a different digest than an earlier GET, and always 200 once a PUT succeeded; write-through PUT 2xx => backend holds the resolved digest at once; closing phase => backend holds the resolved digest of every tag whose PUT succeeded. distinct = distinct (mode, state) pairs in which some PUT has succeeded."
	run.Assume("small-scope: 2 tags, 2 digests with 2 dependencies each (one shared), at most depth operations before the closing phase")
	run.Assume("the persisted-retry manager (queueing, retry timing, persistence: property C30) is replaced by a seam: Add records the task (duplicate (namespace,name) is a no-op as in the manager), an explicit operation runs it once with the REAL write-back executor, SyncExec runs the real executor once immediately")
	run.Assume("'a digest that was put for it' is read as: the digest of some PUT request for that tag issued while every dependency was present (whether or not the write-through upload then failed); a digest resolved by GET before any PUT succeeded is held to the same rule and to stability")
	run.Assume("GET is treated as an observation without side effects: it is issued for every tag after every operation")
	run.Assume("neighbours, remotes and replicate=true are outside this property (empty neighbour list, replicate=false); cache cleanup is disabled (eviction is property C31's subject)")

	thorough := run.Thorough()
	depth, answers := 4, "pme"
	budget := 50 * time.Second
	if thorough {
		depth = 10
		budget = 13 * time.Minute
	}
	run.Set("depth_before_closing_phase", depth)
	run.Set("origin_answers_per_dependency", answers)
	deadline := time.Now().Add(budget)
	for _, wt := range []bool{false, true} {
		wt := wt
		name := "async"
		if wt {
			name = "write-through"
		}
		res := rep.BFS(run, name, bfs.Config{MaxDepth: depth + 1, Deadline: deadline, New: func() (bfs.System, error) {
			return newSys(run, wt, depth, answers)
		}})
		// every state first reached below the depth limit was expanded with the
		// full alphabet: if no level from the limit on produced a new state, the
		// search covered every reachable state of this alphabet (any history length)
		saturated := res.Completed && res.Fixpoint && res.MaxDepth < depth
		run.Set("saturated:"+name, saturated)
		fmt.Printf("  %s: saturated=%v\n", name, saturated)
		fmt.Printf("  %s: states=%d transitions=%d reached_depth=%d fixpoint=%v completed=%v fails=%d\n", name, res.States, res.Transitions, res.MaxDepth, res.Fixpoint, res.Completed, len(res.Fails))
	}
	events.mu.Lock()
	for ev, ids := range events.m {
		run.Set("transitions_with_"+ev, len(ids))
	}
	events.mu.Unlock()
	if run.NViolations() == 0 {
		for _, ev := range []string{"puts_2xx", "puts_rejected_dependency_not_present", "puts_rejected_origin_error_only", "puts_failed_all_dependencies_present",
			"puts_2xx_of_another_digest_for_a_stored_tag", "puts_2xx_while_backend_down", "writeback_runs_succeeded", "writeback_runs_failed_and_kept",
			"closing_phases_with_pending_writeback", "closing_phase_tags_checked_against_backend", "write_through_puts_checked_against_backend"} {
			if events.count(ev) == 0 {
				run.Fatal(errors.New("vacuous: no transition with " + ev))
			}
		}
	}
	run.Finish()
}
