// C03: an agent commits a blob only after every piece is verified.
// E3: BFS over all WritePiece sequences (tiny alphabet) on the real
// agentstorage.Torrent vs a reference model; E1: all interleavings (preemption
// bounded) of concurrent writers + an observer on the real code.
package main

import (
	"bytes"
	"errors"
	"fmt"
	"io"
	"os"
	"sort"
	"strings"

	"github.com/uber-go/tally"
	"github.com/uber/kraken/core"
	"github.com/uber/kraken/lib/store"
	"github.com/uber/kraken/lib/torrent/storage"
	"github.com/uber/kraken/lib/torrent/storage/agentstorage"
	"github.com/uber/kraken/lib/torrent/storage/piecereader"
	"github.com/uber/kraken/tracker/metainfoclient"

	"verif/bfs"
	"verif/evid"
	_ "verif/quiet"
	"verif/rep"
	"verif/shim/vos"
	"verif/shim/vsyncq"
	"verif/vrt"
)

type blobSpec struct {
	content []byte
	pl      int64
}

func (b blobSpec) numPieces() int {
	return int((int64(len(b.content)) + b.pl - 1) / b.pl)
}
func (b blobSpec) piece(i int) []byte {
	s := int64(i) * b.pl
	e := s + b.pl
	if e > int64(len(b.content)) {
		e = int64(len(b.content))
	}
	return b.content[s:e]
}

type sys struct {
	spec     blobSpec
	dir      string
	cads     *store.CADownloadStore
	t        *agentstorage.Torrent
	mi       *core.MetaInfo
	complete []bool // model
	accepted []bool // a correct payload was accepted (returned nil)

	// environment faults (E3 only): maxFaults I/O errors may be injected per
	// history, each at the k-th file-system primitive of one WritePiece.
	ta        *agentstorage.TorrentArchive
	ctl       *vos.Ctl
	maxFaults int
	faults    int
	maxPrims  int // primitives per WritePiece seen so far on this instance's calibration
	cnt       int // primitive counter of the running op
	failAt    int // 0 = none
	fired     string
}

var errInjected = errors.New("injected I/O error")

// primsPerWrite is the largest number of file-system primitives one WritePiece
// was seen to perform (calibrated per blob spec before the BFS starts).
var primsPerWrite = map[string]int{}

func newSys(spec blobSpec) (*sys, error) {
	dir, err := os.MkdirTemp("", "c03-")
	if err != nil {
		return nil, err
	}
	cfg := store.CADownloadStoreConfig{
		DownloadDir:     dir + "/download",
		CacheDir:        dir + "/cache",
		DownloadCleanup: store.CleanupConfig{Disabled: true},
		CacheCleanup:    store.CleanupConfig{Disabled: true},
	}
	cads, err := store.NewCADownloadStore(cfg, tally.NoopScope)
	if err != nil {
		return nil, err
	}
	dg, err := core.NewDigester().FromBytes(spec.content)
	if err != nil {
		return nil, err
	}
	mi, err := core.NewMetaInfo(dg, bytes.NewReader(spec.content), spec.pl)
	if err != nil {
		return nil, err
	}
	tc := metainfoclient.NewTestClient()
	if err := tc.Upload(mi); err != nil {
		return nil, err
	}
	ta := agentstorage.NewTorrentArchive(tally.NoopScope, cads, tc)
	t, err := ta.CreateTorrent("ns", mi.Digest())
	if err != nil {
		return nil, err
	}
	n := spec.numPieces()
	return &sys{spec: spec, dir: dir, cads: cads, ta: ta, t: t.(*agentstorage.Torrent), mi: mi, complete: make([]bool, n), accepted: make([]bool, n)}, nil
}

// newFaultSys is newSys with the fault injector armed on the store directory.
func newFaultSys(spec blobSpec, maxFaults int) (*sys, error) {
	s, err := newSys(spec)
	if err != nil {
		return nil, err
	}
	s.maxFaults = maxFaults
	s.ctl = vos.Register(s.dir, 0)
	s.ctl.Fault = func(desc string) error {
		s.cnt++
		if s.failAt > 0 && s.cnt == s.failAt {
			s.fired = desc
			return errInjected
		}
		return nil
	}
	return s, nil
}

func (s *sys) Close() {
	if s.ctl != nil {
		s.ctl.Unregister()
	}
	s.cads.Close()
	os.RemoveAll(s.dir)
}

// calibrate counts the primitives of each WritePiece of a full in-order download.
func calibrate(spec blobSpec) (int, error) {
	s, err := newFaultSys(spec, 0)
	if err != nil {
		return 0, err
	}
	defer s.Close()
	max := 0
	for i := 0; i < spec.numPieces(); i++ {
		s.cnt = 0
		if err := s.t.WritePiece(piecereader.NewBuffer(spec.piece(i)), i); err != nil {
			return 0, err
		}
		if s.cnt > max {
			max = s.cnt
		}
	}
	return max, nil
}

func specKey(spec blobSpec) string { return fmt.Sprintf("%s/%d", spec.content, spec.pl) }

var kinds = []string{"ok", "flip", "short", "long", "empty"}

func (s *sys) payload(i int, kind string) []byte {
	var want []byte
	if i >= 0 && i < s.spec.numPieces() {
		want = append([]byte{}, s.spec.piece(i)...)
	} else {
		want = []byte("zz")[:min(2, int(s.spec.pl))]
	}
	switch kind {
	case "ok":
		return want
	case "flip":
		if len(want) == 0 {
			return want
		}
		want[len(want)-1] ^= 0x55
		return want
	case "short":
		if len(want) == 0 {
			return want
		}
		return want[:len(want)-1]
	case "long":
		return append(want, 'L')
	case "empty":
		return nil
	}
	panic(kind)
}

func (s *sys) Ops() []string {
	var ops []string
	n := s.spec.numPieces()
	for i := 0; i < n; i++ {
		ops = append(ops, fmt.Sprintf("w %d ok", i))
	}
	for _, k := range kinds[1:] {
		for i := 0; i < n; i++ {
			ops = append(ops, fmt.Sprintf("w %d %s", i, k))
		}
	}
	for _, i := range []int{n, -1} {
		for _, k := range []string{"ok", "empty"} {
			ops = append(ops, fmt.Sprintf("w %d %s", i, k))
		}
	}
	if s.ctl != nil {
		ops = append(ops, "reopen")
		if s.faults < s.maxFaults {
			for i := 0; i < n; i++ {
				for k := 1; k <= primsPerWrite[specKey(s.spec)]; k++ {
					ops = append(ops, fmt.Sprintf("f %d %d", i, k))
				}
			}
		}
	}
	return ops
}

// reopen replaces the Torrent by a new one restored from what is on disk (what
// an agent restart, or eviction from the archive's cache, does).
func (s *sys) reopen() error {
	t, err := s.ta.GetTorrent("ns", s.mi.Digest())
	if err != nil {
		if s.faults > 0 {
			return nil // a faulted history may leave a download that cannot be reopened
		}
		return bfs.Failf("download cannot be reopened", "GetTorrent: %v", err)
	}
	nt := t.(*agentstorage.Torrent)
	bf := nt.Bitfield()
	for i := range s.complete {
		if s.accepted[i] && !bf.Test(uint(i)) {
			return bfs.Failf("accepted piece lost on reopen", "piece %d was accepted (nil) but the reopened torrent reports it missing", i)
		}
		// what the restored torrent reports complete is checked byte for byte below
		s.complete[i] = bf.Test(uint(i))
	}
	s.t = nt
	return s.checkState("reopen")
}

// faultWrite writes the correct payload of piece i while the k-th file-system
// primitive of that WritePiece fails.
func (s *sys) faultWrite(i, k int) error {
	s.cnt, s.failAt, s.fired = 0, k, ""
	err, pan := writePiece(s.t, s.spec.piece(i), i)
	s.failAt = 0
	if pan != "" {
		return bfs.Failf("panic in WritePiece under I/O fault", "piece %d fault at primitive %d (%s): %s", i, k, s.fired, pan)
	}
	if s.fired == "" {
		// fewer than k primitives: an ordinary correct write
		return s.judge(fmt.Sprintf("w %d ok", i), i, "ok", s.spec.piece(i), err)
	}
	s.faults++
	was := s.complete[i]
	now := s.t.Bitfield().Test(uint(i))
	switch {
	case was && !now:
		return bfs.Failf("verified piece reported missing after an I/O fault", "piece %d fault at %q: err=%v", i, s.fired, err)
	case err == nil && !now:
		return bfs.Failf("write returned nil but piece not complete (fault)", "piece %d fault at %q", i, s.fired)
	}
	if err == nil {
		s.accepted[i] = true
	}
	s.complete[i] = now
	return s.checkState(fmt.Sprintf("fault %d@%q", i, s.fired))
}

// writePiece calls the real WritePiece, turning a panic into an error marker.
func writePiece(t *agentstorage.Torrent, data []byte, i int) (err error, panicked string) {
	defer func() {
		if r := recover(); r != nil {
			panicked = fmt.Sprint(r)
		}
	}()
	return t.WritePiece(piecereader.NewBuffer(data), i), ""
}

func (s *sys) Apply(op string) error {
	var i, k int
	var kind string
	if op == "reopen" {
		return s.reopen()
	}
	if _, err := fmt.Sscanf(op, "f %d %d", &i, &k); err == nil {
		return s.faultWrite(i, k)
	}
	if _, err := fmt.Sscanf(op, "w %d %s", &i, &kind); err != nil {
		return err
	}
	data := s.payload(i, kind)
	n := s.spec.numPieces()
	err, pan := writePiece(s.t, data, i)
	if pan != "" {
		cls := "valid-index"
		if i < 0 {
			cls = "negative-index"
		} else if i >= n {
			cls = "index-too-large"
		}
		return bfs.Failf("panic in WritePiece ("+cls+")", "op %q panicked: %s", op, pan)
	}
	return s.judge(op, i, kind, data, err)
}

// judge compares the answer of one un-faulted WritePiece with the model.
func (s *sys) judge(op string, i int, kind string, data []byte, err error) error {
	n := s.spec.numPieces()
	valid := i >= 0 && i < n
	correct := valid && bytes.Equal(data, s.spec.piece(i))
	switch {
	case !valid:
		if err == nil {
			return bfs.Failf("invalid index accepted", "op %q returned nil", op)
		}
	case !correct:
		if err == nil {
			return bfs.Failf("wrong payload accepted ("+kind+")", "op %q returned nil", op)
		}
	case s.complete[i]:
		if err != storage.ErrPieceComplete {
			return bfs.Failf("duplicate correct piece not answered ErrPieceComplete", "op %q: %v", op, err)
		}
	default:
		if err != nil {
			return bfs.Failf("correct piece rejected", "op %q: %v", op, err)
		}
		s.complete[i] = true
		s.accepted[i] = true
	}
	return s.checkState("seq")
}

// checkState compares everything observable with the model.
func (s *sys) checkState(ctx string) error {
	n := s.spec.numPieces()
	nc := 0
	bf := s.t.Bitfield()
	for i := 0; i < n; i++ {
		if s.complete[i] {
			nc++
		}
		if bf.Test(uint(i)) != s.complete[i] || s.t.HasPiece(i) != s.complete[i] {
			return bfs.Failf("bitfield differs from verified pieces", "%s: piece %d bitfield=%v model=%v", ctx, i, bf.Test(uint(i)), s.complete[i])
		}
	}
	wantBytes := int64(nc) * s.spec.pl
	if wantBytes > int64(len(s.spec.content)) {
		wantBytes = int64(len(s.spec.content))
	}
	if got := s.t.BytesDownloaded(); got != wantBytes {
		return bfs.Failf("BytesDownloaded differs from verified pieces", "%s: got %d want %d", ctx, got, wantBytes)
	}
	var miss []int
	for i := 0; i < n; i++ {
		if !s.complete[i] {
			miss = append(miss, i)
		}
	}
	if fmt.Sprint(s.t.MissingPieces()) != fmt.Sprint(miss) {
		return bfs.Failf("MissingPieces differs from model", "%s: got %v want %v", ctx, s.t.MissingPieces(), miss)
	}
	if s.faults > 0 {
		// after an I/O fault the commit itself may have failed: only safety remains
		if s.t.Complete() && nc != n {
			return bfs.Failf("Complete() although not every piece is verified (fault)", "%s: verified %d/%d", ctx, nc, n)
		}
	} else if s.t.Complete() != (nc == n) {
		return bfs.Failf("Complete() differs from all-pieces-verified", "%s: Complete=%v verified %d/%d", ctx, s.t.Complete(), nc, n)
	}
	return s.checkBytes(ctx)
}

// checkBytes: the safety core — whatever is reported complete has the blob's bytes.
func (s *sys) checkBytes(ctx string) error {
	hex := s.mi.Digest().Hex()
	if s.t.Complete() {
		r, err := s.cads.Cache().GetFileReader(hex)
		if err != nil {
			return bfs.Failf("complete torrent not readable from cache", "%s: %v", ctx, err)
		}
		b, _ := readAll(r)
		r.Close()
		if !bytes.Equal(b, s.spec.content) {
			return bfs.Failf("committed file differs from blob", "%s: cache has %q want %q", ctx, b, s.spec.content)
		}
	} else if r, err := s.cads.Cache().GetFileReader(hex); err == nil {
		b, _ := io.ReadAll(r)
		r.Close()
		if !bytes.Equal(b, s.spec.content) {
			return bfs.Failf("file in cache before torrent complete differs from blob", "%s: cache has %q", ctx, b)
		}
	}
	bf := s.t.Bitfield()
	for i := 0; i < s.spec.numPieces(); i++ {
		if !bf.Test(uint(i)) {
			continue
		}
		pr, err := s.t.GetPieceReader(i)
		if err != nil {
			return bfs.Failf("complete piece has no reader", "%s: piece %d: %v", ctx, i, err)
		}
		b, err := io.ReadAll(pr)
		pr.Close()
		if err != nil && s.faults > 0 && !s.t.Complete() {
			continue // a failed commit may leave the data file unreachable; never wrong bytes
		}
		if err != nil || !bytes.Equal(b, s.spec.piece(i)) {
			return bfs.Failf("piece reported complete has wrong bytes", "%s: piece %d has %q want %q (err %v)", ctx, i, b, s.spec.piece(i), err)
		}
	}
	return nil
}

func (s *sys) Key() string {
	var b strings.Builder
	for i := range s.complete {
		if s.complete[i] {
			b.WriteByte('1')
		} else {
			b.WriteByte('0')
		}
	}
	// file bytes (download or cache)
	if r, err := s.cads.Any().GetFileReader(s.mi.Digest().Hex()); err == nil {
		x, _ := io.ReadAll(r)
		r.Close()
		fmt.Fprintf(&b, "|%x", x)
	}
	fmt.Fprintf(&b, "|%v|%v|%d", s.t.Complete(), s.t.Bitfield().String(), s.t.BytesDownloaded())
	if s.ctl != nil {
		fmt.Fprintf(&b, "|faults=%d|%s", s.faults, s.diskStatus())
	}
	return b.String()
}

func readAll(r io.Reader) ([]byte, error) { return io.ReadAll(r) }

// diskStatus lists the store directory (names and sidecar contents): part of
// the state key in fault mode, where memory and disk may differ.
func (s *sys) diskStatus() string {
	var out []string
	filepathWalk(s.dir, func(p string, isDir bool) {
		if isDir {
			return
		}
		b, _ := os.ReadFile(p)
		out = append(out, fmt.Sprintf("%s=%x", strings.TrimPrefix(p, s.dir), b))
	})
	sort.Strings(out)
	return strings.Join(out, ",")
}

func filepathWalk(dir string, f func(p string, isDir bool)) {
	es, _ := os.ReadDir(dir)
	for _, e := range es {
		p := dir + "/" + e.Name()
		f(p, e.IsDir())
		if e.IsDir() {
			filepathWalk(p, f)
		}
	}
}

// ---------------------------------------------------------------- E1

type wr struct {
	i    int
	kind string
}

type scenario struct {
	name     string
	spec     blobSpec
	pre      []int  // pieces written (correctly) before the threads start
	threads  [][]wr // writer programs
	observer bool
	opener   bool // a thread opens a second Torrent on the same store (what every further Download request does)
}

func scenarios(thorough bool) []scenario {
	b3 := blobSpec{[]byte("abcde"), 2} // pieces ab cd e
	b2 := blobSpec{[]byte("abc"), 2}   // pieces ab c
	sc := []scenario{
		{name: "same-piece ok/ok", spec: b2, pre: []int{1}, threads: [][]wr{{{0, "ok"}}, {{0, "ok"}}}, observer: true},
		{name: "same-piece ok/flip", spec: b2, pre: []int{1}, threads: [][]wr{{{0, "ok"}}, {{0, "flip"}}}, observer: true},
		{name: "same-piece flip/ok+retry", spec: b2, pre: nil, threads: [][]wr{{{0, "flip"}, {1, "ok"}}, {{0, "ok"}, {0, "ok"}}}},
		{name: "last-two-race-to-commit", spec: b3, pre: []int{0}, threads: [][]wr{{{1, "ok"}}, {{2, "ok"}}}, observer: true},
		{name: "two-writers-two-pieces-each", spec: b3, pre: nil, threads: [][]wr{{{0, "ok"}, {2, "ok"}}, {{1, "ok"}, {2, "ok"}}}},
		// three payloads for one piece in flight (endgame): a writer turned away by
		// a conflict must not disturb the reservation of the writer in progress
		{name: "three-writers-same-piece", spec: b2, pre: nil, threads: [][]wr{{{0, "ok"}}, {{0, "flip"}}, {{0, "ok"}}}},
		// a second request for the same blob opens its own Torrent while the last
		// piece is being written and committed by the first
		{name: "second-open-races-with-commit", spec: b2, pre: []int{0}, threads: [][]wr{{{1, "ok"}}}, opener: true},
	}
	if thorough {
		sc = append(sc,
			scenario{name: "three-writers-race-to-commit", spec: b3, pre: nil, threads: [][]wr{{{0, "ok"}}, {{1, "ok"}}, {{2, "ok"}}}, observer: true},
			scenario{name: "three-writers-same-piece-commit", spec: b2, pre: []int{1}, threads: [][]wr{{{0, "ok"}}, {{0, "flip"}}, {{0, "ok"}}}},
			scenario{name: "bad-index-vs-commit", spec: b2, pre: []int{0}, threads: [][]wr{{{1, "ok"}}, {{2, "ok"}, {1, "long"}}}, observer: true},
		)
	}
	return sc
}

// harness builds the E1 harness for a scenario. fine=true: every lock
// operation of lib/store and lib/store/base is a scheduling point as well;
// fine=false: only agentstorage's own lock/atomic operations are (the store's
// internal critical sections then execute atomically).
func harness(sc scenario, fine bool) *vrt.Harness {
	name := sc.name + "/coarse"
	if fine {
		name = sc.name + "/fine"
	}
	return &vrt.Harness{Name: name, Horizon: 20000, Body: func() (string, string) {
		vsyncq.Points = fine
		s, err := newSys(sc.spec)
		if err != nil {
			return "", "HARNESS: " + err.Error()
		}
		defer s.Close()
		for _, i := range sc.pre {
			if err := s.t.WritePiece(piecereader.NewBuffer(s.spec.piece(i)), i); err != nil {
				return "", "HARNESS: pre-write: " + err.Error()
			}
			s.complete[i] = true
		}
		n := s.spec.numPieces()
		results := make([][]string, len(sc.threads))
		var vio []string
		addVio := func(m string) { vio = append(vio, m) }
		okAccepted := make([]int, n)  // number of nil returns for correct payload per piece
		okAttempted := make([]int, n) // correct payload attempts not answered by conflict
		for ti, prog := range sc.threads {
			ti, prog := ti, prog
			vrt.GoNamed(fmt.Sprintf("w%d", ti), func() {
				for _, w := range prog {
					data := s.payload(w.i, w.kind)
					err, pan := writePiece(s.t, data, w.i)
					if pan != "" {
						addVio(fmt.Sprintf("panic in WritePiece(%d,%s): %s", w.i, w.kind, pan))
						return
					}
					valid := w.i >= 0 && w.i < n
					correct := valid && bytes.Equal(data, s.spec.piece(w.i))
					cls := "err"
					switch {
					case err == nil:
						cls = "nil"
					case err == storage.ErrPieceComplete:
						cls = "complete"
					case strings.Contains(err.Error(), "already being written"):
						cls = "conflict"
					}
					results[ti] = append(results[ti], cls)
					if !correct && err == nil {
						addVio(fmt.Sprintf("wrong payload accepted: WritePiece(%d,%s) returned nil", w.i, w.kind))
					}
					if correct {
						if cls == "err" {
							addVio(fmt.Sprintf("correct piece rejected: WritePiece(%d,ok): %v", w.i, err))
						}
						if cls == "nil" {
							okAccepted[w.i]++
						}
						if cls != "conflict" {
							okAttempted[w.i]++
						}
					}
				}
			})
		}
		var second *agentstorage.Torrent
		if sc.opener {
			vrt.GoNamed("open", func() {
				t2, err := s.ta.CreateTorrent("ns", s.mi.Digest())
				if err != nil {
					addVio("second CreateTorrent on the same store failed: " + err.Error())
					return
				}
				second = t2.(*agentstorage.Torrent)
			})
		}
		if sc.observer {
			vrt.GoNamed("obs", func() {
				for k := 0; k < 2; k++ {
					if err := s.checkBytes("observer"); err != nil {
						addVio(err.Error())
					}
				}
			})
		}
		vrt.Join()
		// end-state oracle
		for i := 0; i < n; i++ {
			if okAccepted[i] > 1 {
				addVio(fmt.Sprintf("piece %d accepted (nil) %d times", i, okAccepted[i]))
			}
			if okAccepted[i] > 0 {
				s.complete[i] = true
			}
		}
		if err := s.checkState("end"); err != nil {
			addVio(err.Error())
		}
		all := true
		for i := 0; i < n; i++ {
			if !(s.complete[i]) && okAttempted[i] > 0 {
				addVio(fmt.Sprintf("piece %d: a correct write was neither accepted nor rejected by conflict, yet piece incomplete", i))
			}
			if !s.complete[i] {
				all = false
			}
		}
		if all && !s.t.Complete() {
			addVio("every piece verified but torrent not complete")
		}
		if second != nil && second.Complete() {
			// the second instance is a snapshot of the disk at its creation; whatever
			// it reports complete must be the blob
			r, err := s.cads.Cache().GetFileReader(s.mi.Digest().Hex())
			if err != nil {
				addVio("second torrent instance reports complete but the blob is not in the cache: " + err.Error())
			} else {
				b, _ := io.ReadAll(r)
				r.Close()
				if !bytes.Equal(b, s.spec.content) {
					addVio(fmt.Sprintf("second torrent instance reports complete with wrong cached bytes %q", b))
				}
			}
		}
		obs := fmt.Sprintf("%v complete=%v", results, s.t.Complete())
		sort.Strings(vio)
		if len(vio) > 0 {
			return obs, strings.Join(vio, "; ")
		}
		return obs, ""
	}}
}

func main() {
	var hs []*vrt.Harness
	for _, sc := range scenarios(true) {
		hs = append(hs, harness(sc, true), harness(sc, false))
	}
	vrt.WorkerMain(hs)

	run := evid.New("C03", "exploration")
	run.Rule = "E3: every WritePiece sequence up to depth d over {piece index -1..n} x {ok,flip,short,long,empty} on a real agentstorage.Torrent (BFS, state-deduplicated on status vector+file bytes), each step compared with a verified-pieces model; E1: every interleaving at sync/atomic points (preemption-bounded DFS) of 2-3 writer threads + observer on forced-collision scenarios. distinct = distinct BFS states + distinct outcome classes per scenario."
	run.Assume("code between two sync/atomic operations is data-race free (checked by a separate free-running -race pass)")
	run.Assume("small-scope: blobs of 2-3 pieces, piece length 2")

	depth := 4
	specs := []blobSpec{{[]byte("abc"), 2}}
	if run.Thorough() {
		depth = 6
		specs = append(specs, blobSpec{[]byte("abcde"), 2}, blobSpec{[]byte("abcd"), 2})
	}
	for _, spec := range specs {
		spec := spec
		name := fmt.Sprintf("seq len=%d pl=%d depth=%d", len(spec.content), spec.pl, depth)
		res := rep.BFS(run, name, bfs.Config{MaxDepth: depth, New: func() (bfs.System, error) { return newSys(spec) }})
		for i := 0; i < res.States; i++ {
			run.Distinct(fmt.Sprintf("%s#%d", name, i))
		}
	}
	// E3 with environment answers: the same alphabet plus "the k-th file-system
	// primitive of this WritePiece fails" (k over every primitive a write was
	// seen to perform) and "reopen from disk"; at most maxFaults faults per history.
	fdepth, maxFaults := 3, 1
	fspecs := []blobSpec{{[]byte("abc"), 2}}
	if run.Thorough() {
		fdepth = 4
		fspecs = append(fspecs, blobSpec{[]byte("abcde"), 2})
	}
	for _, spec := range fspecs {
		spec := spec
		k, err := calibrate(spec)
		if err != nil {
			run.Fatal(err)
		}
		primsPerWrite[specKey(spec)] = k
		run.Set("fs_primitives_per_write_"+fmt.Sprint(len(spec.content)), k)
		name := fmt.Sprintf("fault-seq len=%d pl=%d depth=%d faults<=%d prims=%d", len(spec.content), spec.pl, fdepth, maxFaults, k)
		res := rep.BFS(run, name, bfs.Config{MaxDepth: fdepth, New: func() (bfs.System, error) { return newFaultSys(spec, maxFaults) }})
		for i := 0; i < res.States; i++ {
			run.Distinct(fmt.Sprintf("%s#%d", name, i))
		}
	}
	type phase struct {
		fine  bool
		bound int
	}
	phases := []phase{{true, 1}, {false, 2}}
	if run.Thorough() {
		phases = []phase{{true, 2}, {false, 3}}
	}
	for _, sc := range scenarios(run.Thorough()) {
		for _, ph := range phases {
			h := harness(sc, ph.fine)
			bound := ph.bound
			// determinism proof: the default schedule twice must give the same observation
			_, o1, _ := vrt.Replay(h, nil)
			_, o2, _ := vrt.Replay(h, nil)
			if o1 != o2 {
				run.Fatal(errors.New("non-deterministic replay in " + sc.name + ": " + o1 + " vs " + o2))
			}
			maxDur := 40
			if run.Thorough() {
				maxDur = 50
			}
			rep.VRT(run, h, bound, evid.Workers(), maxDur, func(v vrt.Violation) string {
				m := strings.SplitN(v.Msg, "\n", 2)[0]
				if len(m) > 100 {
					m = m[:100]
				}
				return sc.name + ": " + m
			})
		}
	}
	run.Finish()
}
