package main

// Scheduler-level part of C16: the real event handlers of
// lib/torrent/scheduler/events.go are applied one at a time (the harness is the
// event loop) on a real, unstarted scheduler with real dispatchers over real
// agentstorage torrents. The outgoing dial started by announceResultEvent is
// the real scheduler.initializeOutgoingHandshake goroutine; it dials a closed
// loopback port, fails, and its real failedOutgoingHandshakeEvent is captured
// and delivered (or replaced by a successful outgoingConnEvent) as a BFS choice.

import (
	"fmt"
	"os"
	"sort"
	"strings"
	"time"

	"github.com/uber-go/tally"
	"github.com/uber/kraken/core"
	"github.com/uber/kraken/lib/store"
	"github.com/uber/kraken/lib/torrent/scheduler"
	"github.com/uber/kraken/lib/torrent/scheduler/conn"
	"github.com/uber/kraken/lib/torrent/scheduler/connstate"
	"github.com/uber/kraken/lib/torrent/storage/agentstorage"
	"github.com/uber/kraken/tracker/metainfoclient"
	"github.com/uber/kraken/utils/log"
	"github.com/willf/bitset"

	"verif/bfs"
	"verif/evid"
	"verif/rep"
)

var schedRequiredClasses = []string{
	"ann:dialled", "ann:skipped-blacklisted", "ann:skipped-own-peer", "ann:stopped-at-capacity", "ann:skipped-already-connected",
	"ann:dialled-after-expiry", "fail:blacklisted", "ok:active", "closed:blacklisted",
}

type sspec struct {
	name    string
	maxOpen int
	lists   [][]string // announce lists per torrent ("L" = our own peer)
	dts     []int
	depth   int
}

type ssys struct {
	sp   *sspec
	dir  string
	cads *store.CADownloadStore
	v    *scheduler.VerifSched
	cs   *connstate.State
	clk  *vclock

	conns    map[ck]*conn.Conn
	connName map[*conn.Conn]ck
	cleanups []func()
	nconn    map[pk]int

	status   map[pk]int
	active   map[pk]int
	inflight map[pk]scheduler.VerifEvent // dial results produced by the scheduler, not yet delivered
	bl       map[pk]time.Duration
	now      time.Duration
	classes  map[string]struct{}
}

func (s *ssys) class(c string) { s.classes[c] = struct{}{} }

func newSSys(sp *sspec) (*ssys, error) {
	dir, err := os.MkdirTemp("", "c16-")
	if err != nil {
		return nil, err
	}
	cads, err := store.NewCADownloadStore(store.CADownloadStoreConfig{
		DownloadDir:     dir + "/download",
		CacheDir:        dir + "/cache",
		DownloadCleanup: store.CleanupConfig{Disabled: true},
		CacheCleanup:    store.CleanupConfig{Disabled: true},
	}, tally.NoopScope)
	if err != nil {
		return nil, err
	}
	tc := metainfoclient.NewTestClient()
	for _, mi := range metas {
		if err := tc.Upload(mi); err != nil {
			return nil, err
		}
	}
	ta := agentstorage.NewTorrentArchive(tally.NoopScope, cads, tc)
	clk := newVClock()
	cfg := scheduler.Config{
		DisablePreemption: true,
		ConnState: connstate.Config{
			MaxOpenConnectionsPerTorrent: sp.maxOpen,
			MaxMutualConnections:         sp.maxOpen,
			BlacklistDuration:            blDur,
		},
		Conn:       conn.Config{HandshakeTimeout: 5 * time.Second, SenderBufferSize: 4, ReceiverBufferSize: 4},
		TorrentLog: log.Config{Disable: true},
		Log:        log.Config{Disable: true},
	}
	pctx := core.PeerContext{PeerID: localPeer, Zone: "z", IP: "127.0.0.1", Port: 1}
	v, err := scheduler.VerifNew(cfg, ta, pctx, clk)
	if err != nil {
		return nil, err
	}
	s := &ssys{sp: sp, dir: dir, cads: cads, v: v, cs: v.Conns(), clk: clk,
		conns: map[ck]*conn.Conn{}, connName: map[*conn.Conn]ck{}, nconn: map[pk]int{},
		status: map[pk]int{}, active: map[pk]int{}, inflight: map[pk]scheduler.VerifEvent{},
		bl: map[pk]time.Duration{}, classes: map[string]struct{}{}}
	for h, mi := range metas {
		t, err := ta.CreateTorrent("ns", mi.Digest())
		if err != nil {
			return nil, err
		}
		if t.Complete() || t.InfoHash() != hashes[h] {
			return nil, fmt.Errorf("torrent fixture h%d unexpected", h)
		}
		if err := v.AddTorrent("ns", t); err != nil {
			return nil, err
		}
	}
	got := s.cs.VerifConfig()
	if got.MaxOpenConnectionsPerTorrent != sp.maxOpen || got.BlacklistDuration != blDur || got.DisableBlacklist {
		return nil, fmt.Errorf("scheduler connstate config not applied: %+v", got)
	}
	return s, nil
}

func (s *ssys) Close() {
	for _, c := range s.conns {
		c.Close()
	}
	s.v.Close()
	for _, f := range s.cleanups {
		f()
	}
	s.cads.Close()
	os.RemoveAll(s.dir)
	classMu.Lock()
	for c := range s.classes {
		classAll[c] = struct{}{}
	}
	classMu.Unlock()
}

func (s *ssys) Ops() []string {
	var ops []string
	for h, ls := range s.sp.lists {
		for _, l := range ls {
			ops = append(ops, fmt.Sprintf("ann h%d %s", h, l))
		}
	}
	var ks []pk
	for k := range s.inflight {
		ks = append(ks, k)
	}
	for k, st := range s.status {
		if st == stActive {
			ks = append(ks, k)
		}
	}
	sort.Slice(ks, func(i, j int) bool {
		if ks[i].h != ks[j].h {
			return ks[i].h < ks[j].h
		}
		return ks[i].p < ks[j].p
	})
	for _, k := range ks {
		if _, ok := s.inflight[k]; ok {
			ops = append(ops, fmt.Sprintf("fail h%d %s", k.h, peerNames[k.p]))
			ops = append(ops, fmt.Sprintf("ok h%d %s", k.h, peerNames[k.p]))
		} else {
			ops = append(ops, fmt.Sprintf("closed h%d %s", k.h, peerNames[k.p]))
		}
	}
	if len(s.bl) > 0 {
		for _, d := range s.sp.dts {
			ops = append(ops, fmt.Sprintf("adv %d", d))
		}
	}
	return ops
}

func (s *ssys) count(h int) (n int) {
	for k, st := range s.status {
		if k.h == h && st != stNone {
			n++
		}
	}
	return n
}

// waitEvent waits for the next event of the given kind for pair k sent by a
// scheduler goroutine; unrelated informational events are dropped.
func (s *ssys) waitEvent(kind string) (scheduler.VerifEvent, error) {
	deadline := time.Now().Add(20 * time.Second)
	for time.Now().Before(deadline) {
		e, ok := s.v.NextEvent(time.Until(deadline))
		if !ok {
			break
		}
		if e.Kind == kind {
			return e, nil
		}
		if e.Kind == "peerRemoved" {
			continue
		}
		return e, fmt.Errorf("unexpected scheduler event %s while waiting for %s", e.Kind, kind)
	}
	return scheduler.VerifEvent{}, fmt.Errorf("timed out waiting for scheduler event %s", kind)
}

func (s *ssys) blacklistModel(k pk, op string) {
	exp, has := s.bl[k]
	switch {
	case has && s.now < exp:
		s.class("blacklist:already-blacklisted")
	case has && s.now == exp:
		// boundary: follow the implementation (entry kept or renewed)
		for _, b := range s.cs.BlacklistSnapshot() {
			if hashIndex(b.InfoHash) == k.h && peerIndex(b.PeerID) == k.p {
				s.bl[k] = s.now + b.Remaining
			}
		}
	default:
		s.bl[k] = s.now + blDur
	}
}

func (s *ssys) Apply(op string) (err error) {
	defer func() {
		if r := recover(); r != nil {
			err = bfs.Failf("panic in scheduler event handler ("+strings.Fields(op)[0]+")", "op %q panicked: %v", op, r)
		}
	}()
	// nothing may arrive between operations: every dial result was collected
	// by the operation that started the dial
	for {
		e, ok := s.v.NextEvent(0)
		if !ok {
			break
		}
		if e.Kind == "peerRemoved" {
			continue
		}
		if e.Kind == "failedOutgoingHandshake" || e.Kind == "outgoingConn" {
			return bfs.Failf("outgoing dial without a pending reservation", "before %q: stray %s for (h%d,%s)", op, e.Kind, hashIndex(e.Hash), peerNames[peerIndex(e.Peer)])
		}
		return fmt.Errorf("stray scheduler event %s before %q", e.Kind, op)
	}
	f := strings.Fields(op)
	var h, p int
	if len(f) >= 2 && strings.HasPrefix(f[1], "h") {
		fmt.Sscanf(f[1], "h%d", &h)
	}
	if len(f) >= 3 && f[0] != "ann" {
		p = pidx(f[2])
	}
	k := pk{h, p}
	switch f[0] {
	case "ann":
		var peers []*core.PeerInfo
		// expected handling per the handler's documented loop
		expect := map[int]bool{}
		cnt := s.count(h)
		stopped, strict := false, true
		for _, c := range f[2] {
			if c == 'L' {
				peers = append(peers, core.NewPeerInfo(localPeer, "127.0.0.1", 1, false, false))
				if !stopped {
					s.class("ann:skipped-own-peer")
				}
				continue
			}
			pi := pidx(string(c))
			peers = append(peers, core.NewPeerInfo(peerIDs[pi], "127.0.0.1", 1, false, false))
			if stopped {
				continue
			}
			kk := pk{h, pi}
			exp, has := s.bl[kk]
			switch {
			case has && s.now < exp:
				s.class("ann:skipped-blacklisted")
			case has && s.now == exp:
				// boundary the statement does not decide: whatever the handler
				// does with this peer is followed, the loop model is not compared
				strict = false
				s.class("ann:peer-at-exact-expiry")
			case cnt+len(expect) >= s.sp.maxOpen:
				stopped = true
				s.class("ann:stopped-at-capacity")
			case s.status[kk] != stNone || expect[pi]:
				s.class("ann:skipped-already-connected")
			default:
				expect[pi] = true
				if has {
					s.class("ann:dialled-after-expiry")
				}
			}
		}
		s.v.ApplyAnnounceResult(hashes[h], peers)
		// observe which reservations the handler made
		var added []int
		for pp, e := range s.cs.VerifDump()[hashes[h]] {
			pi := peerIndex(pp)
			if pi < 0 {
				return fmt.Errorf("unknown peer in state")
			}
			if e.Status == 1 && s.status[pk{h, pi}] == stNone {
				added = append(added, pi)
			}
		}
		sort.Ints(added)
		for _, pi := range added {
			kk := pk{h, pi}
			if exp, has := s.bl[kk]; has && s.now < exp {
				return bfs.Failf("announce path reserved and dialled a blacklisted peer before its blacklist expired", "op %q: (h%d,%s) blacklisted for another %v", op, h, peerNames[pi], exp-s.now)
			}
			if strict && !expect[pi] {
				return bfs.Failf("model-conformance: announce result handling reserved an unexpected peer", "op %q: (h%d,%s)", op, h, peerNames[pi])
			}
		}
		for pi := range expect {
			found := false
			for _, a := range added {
				if a == pi {
					found = true
				}
			}
			if strict && !found {
				return bfs.Failf("model-conformance: announce result handling did not dial an eligible peer", "op %q: (h%d,%s)", op, h, peerNames[pi])
			}
		}
		// every reservation must be followed by exactly one dial result
		for range added {
			e, err := s.waitEvent("failedOutgoingHandshake")
			if err != nil {
				return err
			}
			kk := pk{hashIndex(e.Hash), peerIndex(e.Peer)}
			ok := false
			for _, a := range added {
				if kk == (pk{h, a}) {
					ok = true
				}
			}
			if _, dup := s.inflight[kk]; dup || !ok {
				return bfs.Failf("outgoing dial without a pending reservation", "op %q: dial result for (h%d,%s)", op, kk.h, peerNames[kk.p])
			}
			s.inflight[kk] = e
			s.status[kk] = stPending
			s.class("ann:dialled")
		}
	case "fail":
		e := s.inflight[k]
		delete(s.inflight, k)
		s.v.Apply(e) // the real failedOutgoingHandshakeEvent produced by the dial goroutine
		delete(s.status, k)
		s.blacklistModel(k, op)
		s.class("fail:blacklisted")
	case "ok":
		delete(s.inflight, k) // the environment answers the dial with a completed handshake instead
		i := s.nconn[k]
		s.nconn[k]++
		info, ok := s.v.TorrentInfo(hashes[h])
		if !ok {
			return fmt.Errorf("no torrent control for h%d", h)
		}
		c, cleanup := conn.VerifNewConn(peerIDs[p], info, s.v.EventSink())
		name := ck{h, p, i}
		s.conns[name], s.connName[c] = c, name
		s.cleanups = append(s.cleanups, cleanup)
		s.v.ApplyOutgoingConn(c, bitset.New(uint(metas[h].NumPieces())), info)
		s.status[k] = stActive
		s.active[k] = i
		s.class("ok:active")
	case "closed":
		c := s.conns[ck{h, p, s.active[k]}]
		c.Close() // the real Conn reports ConnClosed to the scheduler's event loop
		e, err := s.waitEvent("connClosed")
		if err != nil {
			return err
		}
		if e.Conn != c {
			return fmt.Errorf("connClosed for another conn")
		}
		s.v.Apply(e)
		delete(s.status, k)
		delete(s.active, k)
		s.blacklistModel(k, op)
		s.class("closed:blacklisted")
	case "adv":
		var secs int
		fmt.Sscanf(f[1], "%d", &secs)
		d := time.Duration(secs) * time.Second
		s.clk.Advance(d)
		s.now += d
	default:
		return fmt.Errorf("unknown op %q", op)
	}
	return s.check(op)
}

func (s *ssys) check(op string) error {
	kind := "scheduler event " + strings.Fields(op)[0]
	dump := s.cs.VerifDump()
	seen := map[pk]bool{}
	for hh, peers := range dump {
		h := hashIndex(hh)
		if h < 0 {
			return fmt.Errorf("unknown info hash in state")
		}
		if len(peers) > s.sp.maxOpen {
			return bfs.Failf("pending+active exceeds MaxOpenConnectionsPerTorrent (scheduler events)", "after %q: torrent h%d has %d pending+active conns, max %d", op, h, len(peers), s.sp.maxOpen)
		}
		for pp, e := range peers {
			p := peerIndex(pp)
			if p < 0 {
				return bfs.Failf("model-conformance: unexpected peer in connection table (scheduler events)", "after %q: %s", op, pp)
			}
			k := pk{h, p}
			seen[k] = true
			okState := (e.Status == 1 && s.status[k] == stPending) ||
				(e.Status == 2 && s.status[k] == stActive && s.connName[e.Conn] == ck{h, p, s.active[k]})
			if !okState {
				return bfs.Failf("state differs from model after "+kind, "after %q: (h%d,%s) status %d, model %d", op, h, peerNames[p], e.Status, s.status[k])
			}
		}
	}
	for k, st := range s.status {
		if st != stNone && !seen[k] {
			return bfs.Failf("state differs from model after "+kind, "after %q: (h%d,%s) missing, model %d", op, k.h, peerNames[k.p], st)
		}
	}
	for h := range s.sp.lists {
		for p := range peerNames[:2] {
			k := pk{h, p}
			got := s.cs.Blacklisted(peerIDs[p], hashes[h])
			exp, has := s.bl[k]
			switch {
			case has && s.now < exp:
				if !got {
					return bfs.Failf("blacklisted conn not reported Blacklisted before its expiry (scheduler events)", "after %q: (h%d,%s) remaining %v", op, h, peerNames[p], exp-s.now)
				}
			case has && s.now == exp:
			default:
				if got {
					return bfs.Failf("model-conformance: conn reported Blacklisted without a live blacklist entry (scheduler events)", "after %q: (h%d,%s)", op, h, peerNames[p])
				}
			}
		}
	}
	return nil
}

func (s *ssys) Key() string {
	var keys []string
	for k, st := range s.status {
		switch st {
		case stPending:
			keys = append(keys, fmt.Sprintf("h%d%s=P", k.h, peerNames[k.p]))
		case stActive:
			keys = append(keys, fmt.Sprintf("h%d%s=A", k.h, peerNames[k.p]))
		}
	}
	for k := range s.inflight {
		keys = append(keys, fmt.Sprintf("dial:h%d%s", k.h, peerNames[k.p]))
	}
	for _, e := range s.cs.BlacklistSnapshot() {
		keys = append(keys, fmt.Sprintf("bl:h%d%s=%d", hashIndex(e.InfoHash), peerNames[peerIndex(e.PeerID)], int64(e.Remaining/time.Millisecond)))
	}
	for k, exp := range s.bl {
		keys = append(keys, fmt.Sprintf("mbl:h%d%s=%d", k.h, peerNames[k.p], int64((exp-s.now)/time.Millisecond)))
	}
	sort.Strings(keys)
	return strings.Join(keys, ";")
}

func runSched(run *evid.Run, deadline time.Time) {
	specs := []*sspec{
		{name: "events max=1", maxOpen: 1, lists: [][]string{{"p", "pq", "qLp"}, {"p"}}, dts: []int{9, 2}, depth: 6},
		{name: "events max=2", maxOpen: 2, lists: [][]string{{"p", "Lqp"}, {"pq"}}, dts: []int{9, 2}, depth: 6},
	}
	if run.Thorough() {
		specs = []*sspec{
			{name: "events max=1", maxOpen: 1, lists: [][]string{{"p", "q", "pq", "qLp"}, {"p", "pq"}}, dts: []int{9, 2, 11}, depth: 9},
			{name: "events max=2", maxOpen: 2, lists: [][]string{{"p", "pq", "Lqp"}, {"p", "pq"}}, dts: []int{9, 2}, depth: 9},
		}
	}
	for _, sp := range specs {
		sp := sp
		t0 := time.Now()
		res := rep.BFS(run, "scheduler "+sp.name, bfs.Config{MaxDepth: sp.depth, Deadline: deadline, New: func() (bfs.System, error) { return newSSys(sp) }})
		fmt.Printf("  search %-28s depth=%d states=%d transitions=%d completed=%v t=%.1fs\n", "scheduler "+sp.name, res.MaxDepth, res.States, res.Transitions, res.Completed, time.Since(t0).Seconds())
	}
}
