// Check C16: connection limits and connection states are never violated.
//
// Engine E3: explicit-state BFS over operation histories of a REAL
// connstate.State (explicit-time clock, real *conn.Conn values built by the
// conn package over net.Pipe), every transition compared with a reference model
// and the pending/active table read back through an in-package observer
// (overlay export file). A second, smaller BFS drives the real scheduler event
// handlers of lib/torrent/scheduler/events.go (announceResultEvent,
// failedOutgoingHandshakeEvent, connClosedEvent, dispatcherCompleteEvent ...)
// on a real, unstarted scheduler and monitors that the announce path never
// reserves / dials a blacklisted peer (see sched.go).
package main

import (
	"bytes"
	"fmt"
	"os"
	"sort"
	"strings"
	"sync"
	"time"

	"github.com/andres-erbsen/clock"
	"github.com/uber/kraken/core"
	"github.com/uber/kraken/lib/torrent/networkevent"
	"github.com/uber/kraken/lib/torrent/scheduler/conn"
	"github.com/uber/kraken/lib/torrent/scheduler/connstate"
	"github.com/uber/kraken/lib/torrent/storage"
	"github.com/willf/bitset"
	"go.uber.org/zap"

	"verif/bfs"
	"verif/evid"
	_ "verif/quiet"
	"verif/rep"
)

// ---------------------------------------------------------------------------
// explicit-time clock: connstate.State only calls Now(). clock.Mock.Add sleeps
// 1ms of wall time per call, so time is kept here and only the unused timer
// methods are inherited from a (never advanced) clock.Mock.

type vclock struct {
	clock.Clock
	mu  sync.Mutex
	now time.Time
}

func newVClock() *vclock { return &vclock{Clock: clock.NewMock(), now: time.Unix(1000000, 0)} }

func (c *vclock) Now() time.Time {
	c.mu.Lock()
	defer c.mu.Unlock()
	return c.now
}

func (c *vclock) Advance(d time.Duration) {
	c.mu.Lock()
	c.now = c.now.Add(d)
	c.mu.Unlock()
}

// ---------------------------------------------------------------------------
// fixed universe: torrents h0,h1; peers p,q,r,s.

var (
	peerNames = []string{"p", "q", "r", "s"}
	peerIDs   []core.PeerID
	infos     []*storage.TorrentInfo // immutable, shared read-only
	hashes    []core.InfoHash
	metas     []*core.MetaInfo
	blobs     = [][]byte{[]byte("c16-blob-zero"), []byte("c16-blob-one!")}
	localPeer core.PeerID
)

func initUniverse() error {
	for i := range peerNames {
		id, err := core.NewPeerID(strings.Repeat(fmt.Sprintf("%02x", i+1), 20))
		if err != nil {
			return err
		}
		peerIDs = append(peerIDs, id)
	}
	var err error
	if localPeer, err = core.NewPeerID(strings.Repeat("ee", 20)); err != nil {
		return err
	}
	for _, b := range blobs {
		dg, err := core.NewDigester().FromBytes(b)
		if err != nil {
			return err
		}
		mi, err := core.NewMetaInfo(dg, bytes.NewReader(b), 4)
		if err != nil {
			return err
		}
		metas = append(metas, mi)
		ti := storage.NewTorrentInfo(mi, bitset.New(uint(mi.NumPieces())))
		infos = append(infos, ti)
		hashes = append(hashes, ti.InfoHash())
	}
	if hashes[0] == hashes[1] {
		return fmt.Errorf("info hashes collide")
	}
	return nil
}

func peerIndex(id core.PeerID) int {
	for i, p := range peerIDs {
		if p == id {
			return i
		}
	}
	return -1
}

func hashIndex(h core.InfoHash) int {
	for i, x := range hashes {
		if x == h {
			return i
		}
	}
	return -1
}

// ---------------------------------------------------------------------------
// search configuration

const blDur = 10 * time.Second

type spec struct {
	name      string
	peers     [][]int // peers[h] = peer indexes usable on torrent h
	maxOpen   int
	maxMutual int
	nbr       string          // "none": nil neighbours only; "all": every subset of the other peers; "full": nil and the full set
	nconn     int             // conn objects per (torrent, peer)
	closeOps  bool            // close(conn) operations
	blOps     bool            // Blacklist / ClearBlacklist / advance operations
	dts       []time.Duration // clock advances
	depth     int
}

type pk struct{ h, p int }
type ghost struct {
	k   pk
	exp time.Duration
}
type ck struct{ h, p, i int }

const (
	stNone = iota
	stPending
	stActive
)

// csys = real connstate.State + reference model.
type csys struct {
	sp  *spec
	clk *vclock
	st  *connstate.State

	conns    map[ck]*conn.Conn
	connName map[*conn.Conn]ck
	cleanups []func()

	// model
	status map[pk]int
	active map[pk]int  // conn index of the active conn
	closed map[ck]bool // conn was closed
	was    map[ck]bool // conn has been active before (older conn once removed)
	bl     map[pk]time.Duration
	// history variables: blacklistings removed by ClearBlacklist before they
	// lapsed, with their original expiry. They change nothing in the model's
	// answers, but they are part of the state key (until one BlacklistDuration
	// after their original expiry) so that "blacklist, clear, blacklist again"
	// histories are not merged with histories that never blacklisted: an
	// implementation that keeps bookkeeping per blacklisting (expiry queue,
	// timers) has hidden state there.
	ghosts []ghost
	now    time.Duration

	// boundary: pairs for which now == expiration was reached and the
	// implementation's answer is followed.
	classes map[string]struct{}
}

var (
	classMu  sync.Mutex
	classAll = map[string]struct{}{}
)

func (s *csys) class(c string) { s.classes[c] = struct{}{} }

func newCSys(sp *spec) (*csys, error) {
	clk := newVClock()
	cfg := connstate.Config{
		MaxOpenConnectionsPerTorrent: sp.maxOpen,
		MaxMutualConnections:         sp.maxMutual,
		BlacklistDuration:            blDur,
	}
	st := connstate.New(cfg, clk, localPeer, networkevent.NewTestProducer(), zap.NewNop().Sugar())
	got := st.VerifConfig()
	if got.MaxOpenConnectionsPerTorrent != sp.maxOpen || got.MaxMutualConnections != sp.maxMutual || got.BlacklistDuration != blDur || got.DisableBlacklist {
		return nil, fmt.Errorf("config not applied as requested: %+v", got)
	}
	return &csys{sp: sp, clk: clk, st: st,
		conns: map[ck]*conn.Conn{}, connName: map[*conn.Conn]ck{},
		status: map[pk]int{}, active: map[pk]int{}, closed: map[ck]bool{}, was: map[ck]bool{},
		bl: map[pk]time.Duration{}, classes: map[string]struct{}{}}, nil
}

func (s *csys) Close() {
	for _, f := range s.cleanups {
		f()
	}
	classMu.Lock()
	for c := range s.classes {
		classAll[c] = struct{}{}
	}
	classMu.Unlock()
}

func (s *csys) conn(k ck) *conn.Conn {
	if c, ok := s.conns[k]; ok {
		return c
	}
	c, cleanup := conn.VerifNewConn(peerIDs[k.p], infos[k.h], nil)
	s.conns[k] = c
	s.connName[c] = k
	s.cleanups = append(s.cleanups, cleanup)
	return c
}

func subsets(xs []int) [][]int {
	out := [][]int{}
	for m := 0; m < 1<<uint(len(xs)); m++ {
		var sub []int
		for i, x := range xs {
			if m&(1<<uint(i)) != 0 {
				sub = append(sub, x)
			}
		}
		out = append(out, sub)
	}
	sort.SliceStable(out, func(i, j int) bool { return len(out[i]) < len(out[j]) })
	return out
}

func nbrString(n []int) string {
	if len(n) == 0 {
		return "-"
	}
	var b strings.Builder
	for _, x := range n {
		b.WriteString(peerNames[x])
	}
	return b.String()
}

func parseNbr(s string) []int {
	if s == "-" {
		return nil
	}
	var out []int
	for _, c := range s {
		for i, n := range peerNames {
			if n == string(c) {
				out = append(out, i)
			}
		}
	}
	return out
}

func (s *csys) Ops() []string {
	var ops []string
	sp := s.sp
	for h, ps := range sp.peers {
		for _, p := range ps {
			var others []int
			for _, o := range ps {
				if o != p {
					others = append(others, o)
				}
			}
			var ns [][]int
			switch sp.nbr {
			case "none":
				ns = [][]int{nil}
			case "full":
				ns = [][]int{nil}
				if len(others) > 0 {
					ns = append(ns, others)
				}
			default:
				ns = subsets(others)
			}
			for _, n := range ns {
				ops = append(ops, fmt.Sprintf("add h%d %s %s", h, peerNames[p], nbrString(n)))
			}
		}
	}
	for h, ps := range sp.peers {
		for _, p := range ps {
			for i := 0; i < sp.nconn; i++ {
				ops = append(ops, fmt.Sprintf("move h%d %s %d", h, peerNames[p], i))
			}
		}
	}
	for h, ps := range sp.peers {
		for _, p := range ps {
			ops = append(ops, fmt.Sprintf("delp h%d %s", h, peerNames[p]))
			for i := 0; i < sp.nconn; i++ {
				ops = append(ops, fmt.Sprintf("dela h%d %s %d", h, peerNames[p], i))
			}
		}
	}
	if sp.closeOps {
		for h, ps := range sp.peers {
			for _, p := range ps {
				for i := 0; i < sp.nconn; i++ {
					// closing matters for the pending->active transition only
					if s.status[pk{h, p}] == stPending && !s.closed[ck{h, p, i}] {
						ops = append(ops, fmt.Sprintf("close h%d %s %d", h, peerNames[p], i))
					}
				}
			}
		}
	}
	if sp.blOps {
		for h, ps := range sp.peers {
			for _, p := range ps {
				ops = append(ops, fmt.Sprintf("bl h%d %s", h, peerNames[p]))
			}
		}
		for h := range sp.peers {
			ops = append(ops, fmt.Sprintf("clr h%d", h))
		}
		if len(s.bl)+len(s.ghosts) > 0 { // without any blacklisting so far time is not observable
			for _, dt := range sp.dts {
				ops = append(ops, fmt.Sprintf("adv %d", int(dt/time.Second)))
			}
		}
	}
	return ops
}

func pidx(name string) int {
	for i, n := range peerNames {
		if n == name {
			return i
		}
	}
	return -1
}

func (s *csys) count(h int) (n int) {
	for k, st := range s.status {
		if k.h == h && st != stNone {
			n++
		}
	}
	return n
}

func (s *csys) Apply(op string) (err error) {
	defer func() {
		if r := recover(); r != nil {
			err = bfs.Failf("panic in connstate.State ("+strings.Fields(op)[0]+")", "op %q panicked: %v", op, r)
		}
	}()
	f := strings.Fields(op)
	var h, p, i int
	if len(f) >= 2 && strings.HasPrefix(f[1], "h") {
		fmt.Sscanf(f[1], "h%d", &h)
	}
	if len(f) >= 3 {
		p = pidx(f[2])
	}
	k := pk{h, p}
	maxOpen, maxMutual := s.sp.maxOpen, s.sp.maxMutual
	switch f[0] {
	case "add":
		nb := parseNbr(f[3])
		var ids []core.PeerID
		actN, allN := 0, 0
		for _, n := range nb {
			ids = append(ids, peerIDs[n])
			switch s.status[pk{h, n}] {
			case stActive:
				actN++
				allN++
			case stPending:
				allN++
			}
		}
		cnt, cur := s.count(h), s.status[k]
		e := s.st.AddPending(peerIDs[p], hashes[h], ids)
		if e == nil {
			if cnt >= maxOpen {
				return bfs.Failf("AddPending accepted beyond MaxOpenConnectionsPerTorrent", "op %q: torrent already had %d pending+active (max %d)", op, cnt, maxOpen)
			}
			if cur == stPending {
				return bfs.Failf("AddPending accepted for a peer that is already pending", "op %q", op)
			}
			if cur == stActive {
				return bfs.Failf("AddPending accepted for a peer that is already active (peer pending and active at once)", "op %q", op)
			}
			if actN > maxMutual {
				return bfs.Failf("AddPending accepted although more than MaxMutualConnections neighbours are connected", "op %q: %d active neighbours, max %d", op, actN, maxMutual)
			}
			s.status[k] = stPending
			s.class("add:ok")
			if allN > 0 {
				s.class(fmt.Sprintf("add:ok-with-%d-connected-neighbours", allN))
			}
		} else {
			if e == connstate.ErrTooManyMutualConns && allN <= maxMutual {
				return bfs.Failf("AddPending refused for mutual connections although connected neighbours <= MaxMutualConnections", "op %q: %d connected neighbours (pending+active), max %d", op, allN, maxMutual)
			}
			if cnt < maxOpen && cur == stNone && allN <= maxMutual {
				return bfs.Failf("model-conformance: AddPending refused below capacity for an unconnected peer", "op %q: %v", op, e)
			}
			switch {
			case e == connstate.ErrTorrentAtCapacity && cnt >= maxOpen:
				s.class("add:refused-at-capacity")
			case e == connstate.ErrTooManyMutualConns:
				s.class("add:refused-mutual")
				if actN > maxMutual {
					s.class("add:refused-mutual-active-neighbours")
				}
				if actN <= maxMutual {
					s.class("add:refused-mutual-counting-pending-neighbours")
				}
			case e == connstate.ErrConnAlreadyPending && cur == stPending:
				s.class("add:refused-already-pending")
			case e == connstate.ErrConnAlreadyActive && cur == stActive:
				s.class("add:refused-already-active")
			default:
				s.class("add:refused-other:" + e.Error())
			}
		}
	case "delp":
		s.st.DeletePending(peerIDs[p], hashes[h])
		if s.status[k] == stPending {
			delete(s.status, k)
			s.class("delp:removed")
		} else if s.status[k] == stActive {
			s.class("delp:noop-on-active")
		}
	case "move":
		fmt.Sscanf(f[3], "%d", &i)
		c := ck{h, p, i}
		cur := s.status[k]
		e := s.st.MovePendingToActive(s.conn(c))
		if e == nil {
			if cur == stActive {
				return bfs.Failf("MovePendingToActive replaced an active conn that had no pending reservation", "op %q", op)
			}
			if cur != stPending {
				return bfs.Failf("MovePendingToActive accepted a conn without pending reservation", "op %q", op)
			}
			if s.closed[c] {
				return bfs.Failf("model-conformance: MovePendingToActive accepted a closed conn", "op %q", op)
			}
			s.status[k] = stActive
			s.active[k] = i
			s.class("move:ok")
			if s.was[c] {
				s.class("move:ok-conn-reused")
			}
			for o := 0; o < s.sp.nconn; o++ {
				if o != i && s.was[ck{h, p, o}] {
					s.class("move:ok-replaces-older-conn")
				}
			}
		} else {
			if cur == stPending && !s.closed[c] {
				return bfs.Failf("model-conformance: MovePendingToActive refused an open conn with a pending reservation", "op %q: %v", op, e)
			}
			switch {
			case e == connstate.ErrConnClosed && s.closed[c]:
				s.class("move:refused-closed")
			case e == connstate.ErrInvalidActiveTransition && cur != stPending:
				s.class("move:refused-not-pending")
			default:
				s.class("move:refused-other:" + e.Error())
			}
		}
	case "dela":
		fmt.Sscanf(f[3], "%d", &i)
		c := ck{h, p, i}
		cur, curConn := s.status[k], s.active[k]
		s.st.DeleteActive(s.conn(c))
		// specific clause: a DeleteActive for another (older / replaced) conn of
		// the same torrent+peer must leave the current active conn in place.
		if cur == stActive && curConn != i {
			e, ok := s.st.VerifDump()[hashes[h]][peerIDs[p]]
			if !ok || e.Status != 2 || e.Conn != s.conn(ck{h, p, curConn}) {
				kind := "never-active"
				if s.was[c] {
					kind = "older, replaced"
				}
				return bfs.Failf("DeleteActive(conn that is not the current one) removed the current active conn", "op %q: current active conn #%d of (h%d,%s) gone after DeleteActive(%s conn #%d)", op, curConn, h, peerNames[p], kind, i)
			}
			if s.was[c] {
				s.class("dela:noop-older-replaced-conn")
			} else {
				s.class("dela:noop-never-active-conn")
			}
		}
		if cur == stActive && curConn == i {
			delete(s.status, k)
			delete(s.active, k)
			s.was[c] = true
			s.class("dela:removed")
		} else if cur == stPending {
			s.class("dela:noop-on-pending")
		}
	case "close":
		fmt.Sscanf(f[3], "%d", &i)
		c := ck{h, p, i}
		s.conn(c).Close()
		s.closed[c] = true
	case "bl":
		exp, has := s.bl[k]
		e := s.st.Blacklist(peerIDs[p], hashes[h])
		if e == nil {
			s.bl[k] = s.now + blDur
			if has && s.now < exp {
				s.class("bl:re-blacklist-extends")
			} else {
				s.class("bl:ok")
				for _, g := range s.ghosts {
					if g.k == k && s.now < g.exp {
						s.class("bl:ok-again-after-clear-before-first-expiry")
					}
				}
			}
		} else {
			if !has || s.now > exp {
				return bfs.Failf("model-conformance: Blacklist failed for a conn that is not blacklisted", "op %q: %v", op, e)
			}
			s.class("bl:refused-already-blacklisted")
		}
	case "clr":
		s.st.ClearBlacklist(hashes[h])
		for b, exp := range s.bl {
			if b.h == h {
				if s.now < exp {
					s.class("clr:removes-live-entry")
					s.ghosts = append(s.ghosts, ghost{b, exp})
				}
				delete(s.bl, b)
			} else if s.now < exp {
				s.class("clr:keeps-other-torrent-entry")
			}
		}
	case "adv":
		var secs int
		fmt.Sscanf(f[1], "%d", &secs)
		d := time.Duration(secs) * time.Second
		s.clk.Advance(d)
		s.now += d
		var keep []ghost
		for _, g := range s.ghosts {
			if s.now < g.exp+blDur {
				keep = append(keep, g)
			}
		}
		s.ghosts = keep
	default:
		return fmt.Errorf("unknown op %q", op)
	}
	return s.check(op)
}

// check compares the real object (internal table through the export observer
// and every public observer) with the model after op.
func (s *csys) check(op string) error {
	kind := strings.Fields(op)[0]
	dump := s.st.VerifDump()
	seen := map[pk]bool{}
	for hh, peers := range dump {
		h := hashIndex(hh)
		if h < 0 {
			return fmt.Errorf("unknown info hash in state: %s", hh)
		}
		if len(peers) > s.sp.maxOpen {
			return bfs.Failf("pending+active exceeds MaxOpenConnectionsPerTorrent", "after %q: torrent h%d has %d pending+active conns, max %d", op, h, len(peers), s.sp.maxOpen)
		}
		for pp, e := range peers {
			p := peerIndex(pp)
			if p < 0 {
				return fmt.Errorf("unknown peer in state: %s", pp)
			}
			k := pk{h, p}
			seen[k] = true
			switch e.Status {
			case 1:
				if s.status[k] != stPending {
					return bfs.Failf("state differs from model after "+kind, "after %q: (h%d,%s) is pending, model says %d", op, h, peerNames[p], s.status[k])
				}
			case 2:
				name, ok := s.connName[e.Conn]
				if s.status[k] != stActive || !ok || name != (ck{h, p, s.active[k]}) {
					return bfs.Failf("state differs from model after "+kind, "after %q: (h%d,%s) is active with conn %v, model says status %d conn #%d", op, h, peerNames[p], name, s.status[k], s.active[k])
				}
			default:
				return bfs.Failf("unknown connection status in state", "after %q: (h%d,%s)", op, h, peerNames[p])
			}
		}
	}
	for k, st := range s.status {
		if st != stNone && !seen[k] {
			return bfs.Failf("state differs from model after "+kind, "after %q: (h%d,%s) missing, model says %d", op, k.h, peerNames[k.p], st)
		}
	}
	// public observers
	act := map[ck]bool{}
	for _, c := range s.st.ActiveConns() {
		name, ok := s.connName[c]
		if !ok || act[name] || s.status[pk{name.h, name.p}] != stActive || s.active[pk{name.h, name.p}] != name.i {
			return bfs.Failf("ActiveConns differs from model after "+kind, "after %q: unexpected conn %v", op, name)
		}
		act[name] = true
	}
	nact := 0
	for _, st := range s.status {
		if st == stActive {
			nact++
		}
	}
	if nact != len(act) {
		return bfs.Failf("ActiveConns differs from model after "+kind, "after %q: %d returned, model has %d", op, len(act), nact)
	}
	for h := range s.sp.peers {
		a := 0
		for k, st := range s.status {
			if k.h == h && st == stActive {
				a++
			}
		}
		if got := s.st.Saturated(hashes[h]); got != (a == s.sp.maxOpen) {
			return bfs.Failf("model-conformance: Saturated differs from (active == max)", "after %q: h%d Saturated=%v active=%d max=%d", op, h, got, a, s.sp.maxOpen)
		}
	}
	// blacklist
	snap := map[pk]time.Duration{}
	for _, b := range s.st.BlacklistSnapshot() {
		h, p := hashIndex(b.InfoHash), peerIndex(b.PeerID)
		if h < 0 || p < 0 {
			return fmt.Errorf("unknown key in blacklist snapshot")
		}
		snap[pk{h, p}] = b.Remaining
	}
	for h, ps := range s.sp.peers {
		for _, p := range ps {
			k := pk{h, p}
			got := s.st.Blacklisted(peerIDs[p], hashes[h])
			exp, has := s.bl[k]
			switch {
			case has && s.now < exp:
				if !got {
					return bfs.Failf("blacklisted conn not reported Blacklisted before its expiry", "after %q: (h%d,%s) remaining %v", op, h, peerNames[p], exp-s.now)
				}
				if rem, ok := snap[k]; !ok || rem != exp-s.now {
					return bfs.Failf("model-conformance: BlacklistSnapshot differs from model", "after %q: (h%d,%s) snapshot %v (present %v), model %v", op, h, peerNames[p], rem, ok, exp-s.now)
				}
				s.class("blacklisted:true-before-expiry")
				for _, g := range s.ghosts {
					if g.k == k && g.exp <= s.now {
						s.class("blacklisted:true-past-expiry-of-cleared-earlier-blacklisting")
					}
				}
				if exp-s.now == time.Second {
					s.class("blacklisted:true-1s-before-expiry")
				}
			case has && s.now == exp:
				// boundary the statement does not decide: follow the implementation
				s.class(fmt.Sprintf("blacklisted:at-exact-expiry=%v", got))
			default:
				if got {
					return bfs.Failf("model-conformance: conn reported Blacklisted without a live blacklist entry", "after %q: (h%d,%s) has=%v", op, h, peerNames[p], has)
				}
				if has {
					s.class("blacklisted:false-after-expiry")
				}
			}
		}
	}
	return nil
}

func (s *csys) Key() string {
	var b strings.Builder
	keys := make([]string, 0, 16)
	for k, st := range s.status {
		if st == stNone {
			continue
		}
		x := fmt.Sprintf("h%d%s=P", k.h, peerNames[k.p])
		if st == stActive {
			x = fmt.Sprintf("h%d%s=A%d", k.h, peerNames[k.p], s.active[k])
		}
		keys = append(keys, x)
	}
	for c, v := range s.closed {
		if v {
			keys = append(keys, fmt.Sprintf("closed:h%d%s%d", c.h, peerNames[c.p], c.i))
		}
	}
	for c, v := range s.was {
		if v {
			keys = append(keys, fmt.Sprintf("was:h%d%s%d", c.h, peerNames[c.p], c.i))
		}
	}
	// real observable blacklist state (includes expired entries and their age)
	for _, e := range s.st.BlacklistSnapshot() {
		keys = append(keys, fmt.Sprintf("bl:h%d%s=%d", hashIndex(e.InfoHash), peerNames[peerIndex(e.PeerID)], int64(e.Remaining/time.Millisecond)))
	}
	for _, g := range s.ghosts {
		keys = append(keys, fmt.Sprintf("ghost:h%d%s=%d", g.k.h, peerNames[g.k.p], int64((g.exp-s.now)/time.Millisecond)))
	}
	for k, exp := range s.bl {
		keys = append(keys, fmt.Sprintf("mbl:h%d%s=%d", k.h, peerNames[k.p], int64((exp-s.now)/time.Millisecond)))
	}
	sort.Strings(keys)
	for _, k := range keys {
		b.WriteString(k)
		b.WriteByte(';')
	}
	return b.String()
}

// ---------------------------------------------------------------------------

func connstateSpecs(thorough bool) []*spec {
	P := func(n int) []int { return []int{0, 1, 2, 3}[:n] }
	s1, s9, s11, s2 := time.Second, 9*time.Second, 11*time.Second, 2*time.Second
	_ = s1
	if !thorough {
		return []*spec{
			// limits + conn identity over two torrents, replaced conns
			{name: "limits max=1 2x2", peers: [][]int{P(2), P(2)}, maxOpen: 1, maxMutual: 1, nbr: "none", nconn: 2, closeOps: true, depth: 7},
			{name: "limits max=2 3+2", peers: [][]int{P(3), P(2)}, maxOpen: 2, maxMutual: 1, nbr: "full", nconn: 2, depth: 6},
			// mutual-connection rule
			{name: "mutual max=3 mutual=1", peers: [][]int{P(3), P(1)}, maxOpen: 3, maxMutual: 1, nbr: "all", nconn: 1, depth: 6},
			{name: "mutual max=4 mutual=2", peers: [][]int{P(4)}, maxOpen: 4, maxMutual: 2, nbr: "full", nconn: 1, depth: 5},
			// blacklist + clock
			{name: "blacklist 2x2", peers: [][]int{P(2), P(2)}, maxOpen: 1, maxMutual: 1, nbr: "none", nconn: 1, blOps: true, dts: []time.Duration{s9, s2, s11}, depth: 6},
			// everything together, shallow
			{name: "all 3+2", peers: [][]int{P(3), P(2)}, maxOpen: 2, maxMutual: 1, nbr: "full", nconn: 2, closeOps: true, blOps: true, dts: []time.Duration{s9, s2}, depth: 4},
		}
	}
	return []*spec{
		{name: "limits max=1 2x2", peers: [][]int{P(2), P(2)}, maxOpen: 1, maxMutual: 1, nbr: "none", nconn: 2, closeOps: true, depth: 9},
		{name: "limits max=2 3+2", peers: [][]int{P(3), P(2)}, maxOpen: 2, maxMutual: 1, nbr: "full", nconn: 2, closeOps: true, depth: 8},
		{name: "mutual max=3 mutual=1", peers: [][]int{P(3), P(1)}, maxOpen: 3, maxMutual: 1, nbr: "all", nconn: 2, depth: 8},
		{name: "mutual max=4 mutual=2", peers: [][]int{P(4)}, maxOpen: 4, maxMutual: 2, nbr: "all", nconn: 1, depth: 8},
		{name: "blacklist 2x2", peers: [][]int{P(2), P(2)}, maxOpen: 1, maxMutual: 1, nbr: "none", nconn: 1, blOps: true, dts: []time.Duration{s9, s2, s11}, depth: 8},
		{name: "all 3+2", peers: [][]int{P(3), P(2)}, maxOpen: 2, maxMutual: 1, nbr: "full", nconn: 2, closeOps: true, blOps: true, dts: []time.Duration{s9, s2}, depth: 6},
	}
}

// classes every run must have exercised (vacuity guard).
var requiredClasses = []string{
	"add:ok", "add:refused-at-capacity", "add:refused-mutual", "add:refused-mutual-active-neighbours", "add:refused-already-pending", "add:refused-already-active",
	"move:ok", "move:ok-replaces-older-conn", "move:refused-closed", "move:refused-not-pending",
	"dela:removed", "dela:noop-older-replaced-conn", "dela:noop-never-active-conn", "dela:noop-on-pending",
	"delp:removed", "delp:noop-on-active",
	"bl:ok", "bl:ok-again-after-clear-before-first-expiry", "blacklisted:true-past-expiry-of-cleared-earlier-blacklisting", "bl:refused-already-blacklisted", "blacklisted:true-before-expiry", "blacklisted:true-1s-before-expiry", "blacklisted:false-after-expiry",
	"clr:removes-live-entry", "clr:keeps-other-torrent-entry",
}

func main() {
	run := evid.New("C16", "model_checking")
	if err := initUniverse(); err != nil {
		run.Fatal(err)
	}
	run.Rule = "E3: BFS over every history (up to the stated depth, state-deduplicated on model state + observable state) of AddPending(peer,torrent,neighbour subset) / DeletePending / MovePendingToActive(conn) / DeleteActive(conn: current, older replaced, never active) / Close(conn) / Blacklist / ClearBlacklist / advance(dt) on a real connstate.State with real *conn.Conn values, for several (MaxOpenConnectionsPerTorrent, MaxMutualConnections) settings over 1-2 torrents and 2-4 peers; every transition is executed on the implementation and compared with a reference model through the internal table and all public observers. Second search: every sequence of real scheduler events (announce result, failed/succeeded outgoing handshake, conn closed, torrent complete, clock advance) applied by the real handlers of events.go on an unstarted scheduler, monitoring that the announce path never reserves or dials a blacklisted peer. distinct = distinct outcome classes (operation x result kind) + distinct reachable states."
	run.Assume("small-scope: 1-2 torrents, 2-4 peers, MaxOpenConnectionsPerTorrent 1..4, MaxMutualConnections 1..2, 1-2 conn objects per (torrent, peer), BlacklistDuration 10s with advances of 2s/9s/11s")
	run.Assume("connstate.State is documented as not thread-safe and is only used from the scheduler event loop: sequential histories are the whole behaviour")
	run.Assume("in-package observers added through go build -overlay (VerifDump, VerifConfig, conn.VerifNewConn, scheduler Verif* wrappers) only read or construct; they are trusted not to change behaviour")
	run.Assume("time is an explicit clock.Clock whose Now() is advanced by the harness (clock.Mock.Add sleeps wall-clock time); the blacklist boundary now == expiration is not decided by the statement and follows the implementation")

	deadline := time.Now().Add(45 * time.Second)
	if run.Thorough() {
		deadline = time.Now().Add(11 * time.Minute)
	}
	for _, sp := range connstateSpecs(run.Thorough()) {
		sp := sp
		t0 := time.Now()
		res := rep.BFS(run, "connstate "+sp.name, bfs.Config{MaxDepth: sp.depth, Deadline: deadline, New: func() (bfs.System, error) { return newCSys(sp) }})
		run.Set("states:"+sp.name, res.States)
		fmt.Printf("  search %-28s depth=%d states=%d transitions=%d completed=%v t=%.1fs\n", sp.name, res.MaxDepth, res.States, res.Transitions, res.Completed, time.Since(t0).Seconds())
	}
	runSched(run, deadline)

	classMu.Lock()
	var cl []string
	for c := range classAll {
		cl = append(cl, c)
		run.Distinct("class:" + c)
	}
	classMu.Unlock()
	sort.Strings(cl)
	run.Set("outcome_classes", cl)
	for i := int64(0); i < run.States && i < 200000; i++ {
		run.Distinct(fmt.Sprintf("state#%d", i))
	}
	if run.NViolations() == 0 {
		var missing []string
		for _, c := range append(append([]string{}, requiredClasses...), schedRequiredClasses...) {
			if _, ok := classAll[c]; !ok {
				missing = append(missing, c)
			}
		}
		if len(missing) > 0 {
			fmt.Fprintf(os.Stderr, "HARNESS-ERROR property=C16: vacuous run, outcome classes never exercised: %v\n", missing)
			os.Exit(2)
		}
	}
	run.Finish()
}
