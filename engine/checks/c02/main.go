// C02: torrent metainfo exactly describes its blob.
// E4: small-scope exhaustive enumeration of (blob length x piece length x
// content pattern x reader behaviour) on the real core.NewMetaInfo /
// NewMetaInfoFromBytes / Serialize / DeserializeMetaInfo / metadata.TorrentMeta
// and of (piece-length table x blob size) on the real metainfogen.Generator over
// a real CAStore, each compared with an independently written reference.
package main

import (
	"bytes"
	"errors"
	"fmt"
	"io"
	"os"
	"runtime"
	"sort"
	"strings"
	"sync"
	"sync/atomic"
	"time"

	"github.com/c2h5oh/datasize"
	"github.com/uber-go/tally"
	"github.com/uber/kraken/core"
	"github.com/uber/kraken/lib/metainfogen"
	"github.com/uber/kraken/lib/store"
	"github.com/uber/kraken/lib/store/metadata"

	"verif/evid"
	_ "verif/quiet"
)

// ---------------------------------------------------------------------------
// Independent reference.

// refCRC is CRC-32/IEEE written from the polynomial (reflected 0xEDB88320),
// deliberately not using hash/crc32.
var refTable = func() (t [256]uint32) {
	for i := range t {
		c := uint32(i)
		for k := 0; k < 8; k++ {
			if c&1 == 1 {
				c = (c >> 1) ^ 0xEDB88320
			} else {
				c >>= 1
			}
		}
		t[i] = c
	}
	return
}()

func refCRC(b []byte) uint32 {
	c := ^uint32(0)
	for _, x := range b {
		c = refTable[byte(c)^x] ^ (c >> 8)
	}
	return ^c
}

type refLayout struct {
	length int64
	pl     int64
	lens   []int64
	sums   []uint32
}

// refSplit: consecutive pieces of pl bytes, only the last may be shorter, an
// empty blob has none.
func refSplit(content []byte, pl int64) refLayout {
	r := refLayout{length: int64(len(content)), pl: pl}
	rest := content
	for len(rest) > 0 {
		k := pl
		if int64(len(rest)) < k {
			k = int64(len(rest))
		}
		r.lens = append(r.lens, k)
		r.sums = append(r.sums, refCRC(rest[:k]))
		rest = rest[k:]
	}
	return r
}

// ---------------------------------------------------------------------------
// Content patterns.

var prTable = func() []byte {
	// fixed pseudo-random table (xorshift32, fixed seed): not sampling, just a
	// third byte pattern without short periods.
	b := make([]byte, 1<<14)
	x := uint32(0x9E3779B9)
	for i := range b {
		x ^= x << 13
		x ^= x >> 17
		x ^= x << 5
		b[i] = byte(x >> 11)
	}
	return b
}()

var patterns = []string{"zeros", "counter", "table"}

func content(pattern string, n int) []byte {
	b := make([]byte, n)
	switch pattern {
	case "zeros":
	case "counter":
		for i := range b {
			b[i] = byte(i + 1)
		}
	case "table":
		copy(b, prTable[:n])
	}
	return b
}

// ---------------------------------------------------------------------------
// Readers (all legal io.Reader behaviours).

type chunkReader struct {
	b       []byte
	k       int  // max bytes per Read (<=0: everything)
	eofWith bool // return io.EOF together with the final bytes
	zeroNil bool // return (0, nil) once before every chunk
	tick    bool
}

func (r *chunkReader) Read(p []byte) (int, error) {
	if len(p) == 0 {
		return 0, nil
	}
	if len(r.b) == 0 {
		return 0, io.EOF
	}
	if r.zeroNil {
		r.tick = !r.tick
		if r.tick {
			return 0, nil
		}
	}
	n := len(r.b)
	if r.k > 0 && n > r.k {
		n = r.k
	}
	if n > len(p) {
		n = len(p)
	}
	copy(p, r.b[:n])
	r.b = r.b[n:]
	if len(r.b) == 0 && r.eofWith {
		return n, io.EOF
	}
	return n, nil
}

type readerKind struct {
	name string
	mk   func(b []byte, pl int64) io.Reader
}

var readerKinds = []readerKind{
	{"bytes.Reader", func(b []byte, pl int64) io.Reader { return bytes.NewReader(b) }},
	{"one-byte", func(b []byte, pl int64) io.Reader { return &chunkReader{b: b, k: 1} }},
	{"chunk-3", func(b []byte, pl int64) io.Reader { return &chunkReader{b: b, k: 3} }},
	{"chunk-pl+1", func(b []byte, pl int64) io.Reader { return &chunkReader{b: b, k: int(pl) + 1} }},
	{"all-at-once", func(b []byte, pl int64) io.Reader { return &chunkReader{b: b} }},
	{"all+EOF", func(b []byte, pl int64) io.Reader { return &chunkReader{b: b, eofWith: true} }},
	{"chunk-2+EOF", func(b []byte, pl int64) io.Reader { return &chunkReader{b: b, k: 2, eofWith: true} }},
	{"chunk-pl+EOF", func(b []byte, pl int64) io.Reader { return &chunkReader{b: b, k: int(pl), eofWith: true} }},
	{"zero-nil+chunk-2", func(b []byte, pl int64) io.Reader { return &chunkReader{b: b, k: 2, zeroNil: true} }},
}

// ---------------------------------------------------------------------------
// Oracle on one MetaInfo.

type caseID struct {
	Len     int    `json:"blob_length"`
	PL      int64  `json:"piece_length"`
	Pattern string `json:"pattern"`
	Via     string `json:"via"`
}

type fail struct {
	fp     string
	detail map[string]interface{}
}

// describes returns the first clause of the statement mi violates w.r.t. ref.
func describes(mi *core.MetaInfo, d core.Digest, ref refLayout) (clause, msg string) {
	if mi.Length() != ref.length {
		return "records the blob's length", fmt.Sprintf("Length()=%d want %d", mi.Length(), ref.length)
	}
	if mi.PieceLength() != ref.pl {
		return "pieces of the piece length", fmt.Sprintf("PieceLength()=%d want %d", mi.PieceLength(), ref.pl)
	}
	if mi.NumPieces() != len(ref.lens) {
		return "piece count", fmt.Sprintf("NumPieces()=%d want %d", mi.NumPieces(), len(ref.lens))
	}
	var total int64
	for i := range ref.lens {
		if got := mi.GetPieceLength(i); got != ref.lens[i] {
			return "piece lengths (only the last may be shorter)", fmt.Sprintf("GetPieceLength(%d)=%d want %d", i, got, ref.lens[i])
		}
		total += mi.GetPieceLength(i)
		if got := mi.GetPieceSum(i); got != ref.sums[i] {
			return "piece checksums", fmt.Sprintf("GetPieceSum(%d)=%08x want %08x", i, got, ref.sums[i])
		}
	}
	if total != ref.length {
		return "piece lengths sum to the blob length", fmt.Sprintf("sum=%d want %d", total, ref.length)
	}
	if mi.Digest() != d {
		return "digest", fmt.Sprintf("Digest()=%s want %s", mi.Digest(), d)
	}
	return "", ""
}

func sameLayout(a, b *core.MetaInfo) string {
	if a.InfoHash() != b.InfoHash() {
		return fmt.Sprintf("info hash %s vs %s", a.InfoHash(), b.InfoHash())
	}
	if a.Digest() != b.Digest() {
		return fmt.Sprintf("digest %s vs %s", a.Digest(), b.Digest())
	}
	if a.Length() != b.Length() || a.PieceLength() != b.PieceLength() || a.NumPieces() != b.NumPieces() {
		return fmt.Sprintf("length/piece length/pieces %d/%d/%d vs %d/%d/%d", a.Length(), a.PieceLength(), a.NumPieces(), b.Length(), b.PieceLength(), b.NumPieces())
	}
	for i := 0; i < a.NumPieces(); i++ {
		if a.GetPieceSum(i) != b.GetPieceSum(i) || a.GetPieceLength(i) != b.GetPieceLength(i) {
			return fmt.Sprintf("piece %d: sum %08x len %d vs sum %08x len %d", i, a.GetPieceSum(i), a.GetPieceLength(i), b.GetPieceSum(i), b.GetPieceLength(i))
		}
	}
	return ""
}

// roundTrips checks Serialize -> DeserializeMetaInfo and the TorrentMeta
// wrapper (constructed through the metadata factory, as the stores do).
func roundTrips(mi *core.MetaInfo) (clause, msg string) {
	b, err := mi.Serialize()
	if err != nil {
		return "serialize fails", err.Error()
	}
	back, err := core.DeserializeMetaInfo(b)
	if err != nil {
		return "parse of serialized metainfo fails", err.Error()
	}
	if m := sameLayout(mi, back); m != "" {
		return "serialize/parse round trip", m
	}
	tb, err := metadata.NewTorrentMeta(mi).Serialize()
	if err != nil {
		return "TorrentMeta serialize fails", err.Error()
	}
	md := metadata.CreateFromSuffix(metadata.GetTorrentMetadataSuffix())
	tm, ok := md.(*metadata.TorrentMeta)
	if !ok {
		return "TorrentMeta factory", fmt.Sprintf("CreateFromSuffix returned %T", md)
	}
	if err := tm.Deserialize(tb); err != nil {
		return "TorrentMeta parse fails", err.Error()
	}
	if m := sameLayout(mi, tm.MetaInfo); m != "" {
		return "TorrentMeta round trip", m
	}
	return "", ""
}

// bracket turns a history context (", after ...") into a fingerprint suffix.
func bracket(ctx string) string {
	if ctx == "" {
		return ""
	}
	return " [" + strings.TrimPrefix(ctx, ", ") + "]"
}

type counters struct {
	evals, empty, exact, shortLast, multi, single, roundTrips, streamEqBytes int64
}

// digests are cached per (pattern,len): SHA-256 of the content, computed by
// kraken's Digester (the metainfo constructors take it as given).
var (
	digMu    sync.Mutex
	digCache = map[string]core.Digest{}
)

func digestOf(pattern string, b []byte) (core.Digest, error) {
	k := fmt.Sprintf("%s/%d", pattern, len(b))
	digMu.Lock()
	d, ok := digCache[k]
	digMu.Unlock()
	if ok {
		return d, nil
	}
	d, err := core.NewDigester().FromBytes(b)
	if err != nil {
		return d, err
	}
	digMu.Lock()
	digCache[k] = d
	digMu.Unlock()
	return d, nil
}

// checkCore evaluates one (length, piece length, pattern) through the bytes
// generator and the stream generator over the given reader behaviours. ctx is
// "" for an independent evaluation or names the call history that preceded it
// (it becomes part of the fingerprint); full=false skips the serialize/parse
// round trips.
func checkCore(n int, pl int64, pattern string, c *counters, readers []readerKind, ctx string, full bool) ([]fail, error) {
	var fails []fail
	data := content(pattern, n)
	d, err := digestOf(pattern, data)
	if err != nil {
		return nil, err
	}
	ref := refSplit(data, pl)
	add := func(via, clause, msg string) {
		gen := "stream"
		if via == "bytes" {
			gen = "bytes"
		}
		fails = append(fails, fail{
			fp:     fmt.Sprintf("%s [%s generator%s]", clause, gen, ctx),
			detail: map[string]interface{}{"case": caseID{n, pl, pattern, via}, "msg": msg},
		})
	}
	one := func(via string, mk func() (*core.MetaInfo, error)) *core.MetaInfo {
		atomic.AddInt64(&c.evals, 1)
		mi, err := mk()
		if err != nil {
			add(via, "generation fails for a positive piece length", err.Error())
			return nil
		}
		if clause, msg := describes(mi, d, ref); clause != "" {
			add(via, clause, msg)
			return nil
		}
		if !full {
			return mi
		}
		if clause, msg := roundTrips(mi); clause != "" {
			add(via, clause, msg)
			return nil
		}
		atomic.AddInt64(&c.roundTrips, 1)
		return mi
	}
	cp := append([]byte{}, data...)
	fromBytes := one("bytes", func() (*core.MetaInfo, error) { return core.NewMetaInfoFromBytes(d, cp, pl) })
	if !bytes.Equal(cp, data) {
		add("bytes", "generator modified its input buffer", "")
	}
	for _, rk := range readers {
		rk := rk
		mi := one(rk.name, func() (*core.MetaInfo, error) { return core.NewMetaInfo(d, rk.mk(data, pl), pl) })
		if mi != nil && fromBytes != nil {
			if m := sameLayout(fromBytes, mi); m != "" {
				fails = append(fails, fail{
					fp:     "stream and buffer metainfo differ" + bracket(ctx),
					detail: map[string]interface{}{"case": caseID{n, pl, pattern, rk.name}, "msg": m},
				})
			} else {
				atomic.AddInt64(&c.streamEqBytes, 1)
			}
		}
	}
	switch {
	case n == 0:
		atomic.AddInt64(&c.empty, 1)
	case int64(n)%pl == 0:
		atomic.AddInt64(&c.exact, 1)
	default:
		atomic.AddInt64(&c.shortLast, 1)
	}
	if len(ref.lens) > 1 {
		atomic.AddInt64(&c.multi, 1)
	} else if len(ref.lens) == 1 {
		atomic.AddInt64(&c.single, 1)
	}
	return fails, nil
}

// ---------------------------------------------------------------------------
// Call histories: the metainfo of a blob must not depend on what was generated
// before it (in particular not on an earlier generation whose stream failed).

var errInjected = errors.New("verif: injected read failure")

// failingReader delivers the first k bytes of b and then fails with a non-EOF
// error: together with the last bytes (together=true) or on the next Read.
type failingReader struct {
	b        []byte
	k        int
	together bool
	chunk    int // max bytes per Read (<=0: all k at once)
}

func (r *failingReader) Read(p []byte) (int, error) {
	if len(p) == 0 {
		return 0, nil
	}
	if r.k == 0 {
		return 0, errInjected
	}
	n := r.k
	if r.chunk > 0 && n > r.chunk {
		n = r.chunk
	}
	if n > len(p) {
		n = len(p)
	}
	copy(p, r.b[:n])
	r.b = r.b[n:]
	r.k -= n
	if r.k == 0 && r.together {
		return n, errInjected
	}
	return n, nil
}

type hcounters struct {
	failPairs, failedAsIntended, partialPiece, firstSucceeded, okPairs, seconds int64
}

var historyReaders = []readerKind{readerKinds[0], readerKinds[1], readerKinds[5]} // bytes.Reader, one-byte, all+EOF

type hcase struct {
	n       int
	pl      int64
	pattern string
}

// historyPhase runs on ONE goroutine with GOMAXPROCS(1) and the OS thread
// locked, so that any per-P cached object (sync.Pool, free lists) released by
// the first call of a pair is the one the second call picks up.
func historyPhase(run *evid.Run, thorough bool, c *counters, hc *hcounters, deadline time.Time) (fails []fail, capped bool, err error) {
	old := runtime.GOMAXPROCS(1)
	runtime.LockOSThread()
	defer func() {
		runtime.UnlockOSThread()
		runtime.GOMAXPROCS(old)
	}()
	const repeats = 3
	maxLen, maxPL := 16, int64(6)
	if thorough {
		maxLen, maxPL = 40, 12
	}
	second := func(t hcase, ctx string) error {
		fs, err := checkCore(t.n, t.pl, t.pattern, c, historyReaders, ctx, false)
		hc.seconds++
		fails = append(fails, fs...)
		return err
	}
	// (failed stream call, successful call)
	for n := 0; n <= maxLen; n++ {
		for pl := int64(1); pl <= maxPL; pl++ {
			if time.Now().After(deadline) {
				return fails, true, nil
			}
			for pi, pattern := range patterns {
				data := content(pattern, n)
				d, err := digestOf(pattern, data)
				if err != nil {
					return nil, false, err
				}
				targets := []hcase{
					{n, pl, pattern},
					{(n + 5) % (maxLen + 1), pl%maxPL + 1, patterns[(pi+1)%len(patterns)]},
				}
				for k := 0; k <= n; k++ {
					for _, together := range []bool{false, true} {
						for _, chunk := range []int{0, 1} {
							if chunk == 1 && k < 2 {
								continue
							}
							for ti, t := range targets {
								run.Distinct(fmt.Sprintf("HF%d/%d/%s/%d/%v/%d/%d", n, pl, pattern, k, together, chunk, ti))
								for rep := 0; rep < repeats; rep++ {
									hc.failPairs++
									var ferr error
									var mi *core.MetaInfo
									func() {
										defer func() {
											if r := recover(); r != nil {
												fails = append(fails, fail{fp: "panic in metainfo generation [failing stream]", detail: map[string]interface{}{"case": caseID{n, pl, pattern, "failing"}, "delivered": k, "panic": fmt.Sprint(r)}})
												ferr = errInjected
											}
										}()
										mi, ferr = core.NewMetaInfo(d, &failingReader{b: data, k: k, together: together, chunk: chunk}, pl)
									}()
									if ferr != nil {
										hc.failedAsIntended++
									} else {
										// The statement does not say what a generation over a failing
										// stream returns; it is only counted.
										_ = mi
										hc.firstSucceeded++
									}
									if int64(k)%pl != 0 {
										hc.partialPiece++
									}
									if err := second(t, ", after a failed stream call"); err != nil {
										return nil, false, err
									}
								}
							}
						}
					}
				}
			}
		}
	}
	// (successful call A, successful call B), A != B, every ordered pair.
	lens, pls := []int{0, 1, 2, 3, 4, 5, 8}, []int64{1, 2, 3, 4}
	if thorough {
		lens, pls = []int{0, 1, 2, 3, 4, 5, 6, 8, 9, 12}, []int64{1, 2, 3, 4, 6}
	}
	var cs []hcase
	for _, n := range lens {
		for _, pl := range pls {
			for _, p := range patterns {
				cs = append(cs, hcase{n, pl, p})
			}
		}
	}
	for ai, a := range cs {
		if time.Now().After(deadline) {
			return fails, true, nil
		}
		for bi, b := range cs {
			if ai == bi {
				continue
			}
			run.Distinct(fmt.Sprintf("HS%d/%d", ai, bi))
			hc.okPairs++
			if err := second(a, ""); err != nil {
				return nil, false, err
			}
			if err := second(b, ", after a successful call on another blob"); err != nil {
				return nil, false, err
			}
		}
	}
	return fails, false, nil
}

// ---------------------------------------------------------------------------
// Piece-length table.

type table struct {
	thresholds []int64
	pls        []int64
}

func (t table) String() string {
	var s []string
	for i := range t.thresholds {
		s = append(s, fmt.Sprintf("%d:%d", t.thresholds[i], t.pls[i]))
	}
	return "{" + strings.Join(s, ",") + "}"
}

// refLookup: the piece length configured for the largest threshold not above
// size; ok=false when every threshold is above size (the statement does not
// say what is chosen then).
func refLookup(t table, size int64) (pl int64, ok bool) {
	best := int64(-1)
	for i, th := range t.thresholds {
		if th <= size && th > best {
			best, pl, ok = th, t.pls[i], true
		}
	}
	return
}

func allTables(thresholds, pls []int64, maxN int) []table {
	var out []table
	var rec func(start int, cur table)
	rec = func(start int, cur table) {
		if len(cur.thresholds) > 0 {
			out = append(out, table{append([]int64{}, cur.thresholds...), append([]int64{}, cur.pls...)})
		}
		if len(cur.thresholds) == maxN {
			return
		}
		for i := start; i < len(thresholds); i++ {
			for _, p := range pls {
				rec(i+1, table{append(cur.thresholds, thresholds[i]), append(cur.pls, p)})
			}
		}
	}
	rec(0, table{})
	return out
}

type tcounters struct {
	lookups, generated, undecided, atThreshold, belowNext int64
}

func checkTable(t table, maxSize int, c *tcounters) (fails []fail, err error) {
	cfg := metainfogen.Config{PieceLengths: map[datasize.ByteSize]datasize.ByteSize{}}
	for i := range t.thresholds {
		cfg.PieceLengths[datasize.ByteSize(t.thresholds[i])] = datasize.ByteSize(t.pls[i])
	}
	dir, err := os.MkdirTemp("", "c02-")
	if err != nil {
		return nil, err
	}
	defer os.RemoveAll(dir)
	cas, err := store.NewCAStore(store.CAStoreConfig{
		UploadDir:     dir + "/upload",
		CacheDir:      dir + "/cache",
		UploadCleanup: store.CleanupConfig{Disabled: true},
		CacheCleanup:  store.CleanupConfig{Disabled: true},
	}, tally.NoopScope)
	if err != nil {
		return nil, err
	}
	defer cas.Close()
	g, err := metainfogen.New(cfg, cas)
	if err != nil {
		return nil, err
	}
	add := func(size int, clause, msg string) {
		fails = append(fails, fail{
			fp:     clause,
			detail: map[string]interface{}{"table(threshold:piece_length)": t.String(), "blob_size": size, "msg": msg},
		})
	}
	for size := 0; size <= maxSize; size++ {
		atomic.AddInt64(&c.lookups, 1)
		want, decided := refLookup(t, int64(size))
		got := g.GetPieceLength(int64(size))
		if decided {
			for _, th := range t.thresholds {
				if th == int64(size) {
					atomic.AddInt64(&c.atThreshold, 1)
				}
				if th == int64(size)+1 {
					atomic.AddInt64(&c.belowNext, 1)
				}
			}
			if got != want {
				add(size, "piece length is not the one of the largest threshold not above the size [GetPieceLength]", fmt.Sprintf("got %d want %d", got, want))
				continue
			}
		} else {
			atomic.AddInt64(&c.undecided, 1)
		}
		// Generate on the real store.
		data := content("table", size)
		d, err := digestOf("table", data)
		if err != nil {
			return nil, err
		}
		if err := cas.CreateCacheFile(d.Hex(), bytes.NewReader(data)); err != nil {
			return nil, fmt.Errorf("create cache file: %v", err)
		}
		if err := g.Generate(d); err != nil {
			if decided {
				add(size, "Generate fails", err.Error())
			} else {
				add(size, "Generate fails for a size below every threshold", err.Error())
			}
			continue
		}
		var tm metadata.TorrentMeta
		if err := cas.GetCacheFileMetadata(d.Hex(), &tm); err != nil {
			add(size, "Generate did not store readable metainfo", err.Error())
			continue
		}
		atomic.AddInt64(&c.generated, 1)
		pl := tm.MetaInfo.PieceLength()
		if decided && pl != want {
			add(size, "piece length is not the one of the largest threshold not above the size [Generate]", fmt.Sprintf("got %d want %d", pl, want))
			continue
		}
		if pl <= 0 {
			add(size, "Generate chose a non-positive piece length", fmt.Sprint(pl))
			continue
		}
		if clause, msg := describes(tm.MetaInfo, d, refSplit(data, pl)); clause != "" {
			add(size, clause+" [Generate]", msg)
		}
	}
	return fails, nil
}

// ---------------------------------------------------------------------------

type job struct {
	n       int
	pl      int64
	pattern string
	tbl     *table
}

func main() {
	run := evid.New("C02", "exploration")
	thorough := run.Thorough()

	// Domain A: blob length x piece length x pattern.
	type lp struct {
		n  int
		pl int64
	}
	seen := map[lp]bool{}
	var grid []lp
	addLP := func(n int, pl int64) {
		if n < 0 || pl < 1 || seen[lp{n, pl}] {
			return
		}
		seen[lp{n, pl}] = true
		grid = append(grid, lp{n, pl})
	}
	maxLen, maxPL := 48, int64(17)
	if thorough {
		maxLen, maxPL = 160, 40
	}
	for n := 0; n <= maxLen; n++ {
		for pl := int64(1); pl <= maxPL; pl++ {
			addLP(n, pl)
		}
	}
	// powers of two and neighbours, with lengths around their multiples.
	maxPow := 6 // 64
	if thorough {
		maxPow = 12 // 4096
	}
	nPow := 0
	for k := 1; k <= maxPow; k++ {
		for _, dpl := range []int64{-1, 0, 1} {
			pl := int64(1)<<uint(k) + dpl
			for m := int64(0); m <= 3; m++ {
				for _, dn := range []int64{-1, 0, 1} {
					before := len(grid)
					addLP(int(m*pl+dn), pl)
					nPow += len(grid) - before
				}
			}
		}
	}
	// piece length larger than any blob (single short piece) incl. huge values.
	// (2^31-1 and 2^31 only in the thorough tier and for one length: an
	// implementation that reads a piece into a piece-length buffer is legitimate
	// and would spend gigabytes on them.)
	huge := []int64{1 << 20, 1<<62 + 1, 1<<63 - 1}
	for _, pl := range huge {
		for _, n := range []int{0, 1, 2, 33} {
			addLP(n, pl)
		}
	}
	if thorough {
		for _, pl := range []int64{1<<31 - 1, 1 << 31} {
			huge = append(huge, pl)
			addLP(1, pl)
		}
	}

	var jobs []job
	for _, g := range grid {
		for _, p := range patterns {
			jobs = append(jobs, job{n: g.n, pl: g.pl, pattern: p})
		}
	}
	// Domain B: tables.
	ths, tpls, maxN, maxSize := []int64{0, 1, 5, 10}, []int64{1, 2, 4}, 3, 12
	if thorough {
		ths, tpls, maxN, maxSize = []int64{0, 1, 5, 10, 11}, []int64{1, 2, 4, 7}, 4, 24
	}
	tables := allTables(ths, tpls, maxN)
	for i := range tables {
		jobs = append(jobs, job{tbl: &tables[i]})
	}

	hLen, hPL, hPairs := 16, 6, 84
	if thorough {
		hLen, hPL, hPairs = 40, 12, 150
	}
	run.Rule = fmt.Sprintf("A: every blob length 0..%d x piece length 1..%d (plus 2^k,2^k+-1 up to 2^%d with lengths m*pl+{-1,0,1}, m<=3, plus huge piece lengths %v) x %d content patterns; each through NewMetaInfoFromBytes and NewMetaInfo over %d reader behaviours, then Serialize/DeserializeMetaInfo and TorrentMeta; a case is distinct per (length, piece length, pattern), non-trivial when the blob is non-empty. H (call histories, one goroutine, GOMAXPROCS(1), thread locked, each pair 3 times): for every length 0..%d x piece length 1..%d x pattern, a first NewMetaInfo over a stream that delivers k bytes (every k in 0..length; error with the last bytes or on the next read; whole or 1-byte reads) and then fails with a non-EOF error, followed by a successful bytes + stream (3 readers) generation of the same and of another blob; plus every ordered pair of different successful generations over %d small cases; the second call is judged by the same oracle. B: every piece-length table with 1..%d thresholds from %v and piece lengths from %v x every blob size 0..%d, GetPieceLength and Generate on a real CAStore; distinct per (table, size).",
		maxLen, maxPL, maxPow, huge, len(patterns), len(readerKinds), hLen, hPL, hPairs, maxN, ths, tpls, maxSize)
	run.Assume("call histories: metainfo must not depend on earlier generations; histories of length 2 (a failed or a successful call, then the judged call) on one P expose state kept between calls; what a generation over a failing stream itself returns is not judged")
	run.Assume("small-scope: defects in piece splitting / table lookup show on blobs of at most a few hundred bytes (4096*3+1 for power-of-two piece lengths) and tables of at most 4 thresholds")
	run.Assume("content: three byte patterns (zeros, counter, fixed xorshift table) stand for arbitrary contents; the checksum reference is an independently written CRC-32/IEEE")
	run.Assume("sizes below the smallest configured threshold are outside the statement: only 'Generate succeeds and describes the blob' is required there")
	run.Assume("readers obey the io.Reader contract (short reads, (n,EOF) together, (0,nil)); failing readers are not part of the property")

	var c counters
	var tc tcounters
	var mu sync.Mutex
	var allFails []fail
	var harnessErr error
	deadline := time.Now().Add(50 * time.Second)
	if thorough {
		deadline = time.Now().Add(13 * time.Minute)
	}
	// History phase first (single P, see historyPhase), then the independent
	// evaluations in parallel.
	var hc hcounters
	hdl := time.Now().Add(25 * time.Second)
	if thorough {
		hdl = time.Now().Add(6 * time.Minute)
	}
	hfails, hcapped, herr := historyPhase(run, thorough, &c, &hc, hdl)
	if herr != nil {
		run.Fatal(herr)
	}
	if hcapped {
		run.NotExhaustive("deadline hit in the call-history phase")
	}
	allFails = append(allFails, hfails...)
	var next, skipped int64 = -1, 0
	var wg sync.WaitGroup
	for w := 0; w < evid.Workers(); w++ {
		wg.Add(1)
		go func() {
			defer wg.Done()
			for {
				i := atomic.AddInt64(&next, 1)
				if int(i) >= len(jobs) {
					return
				}
				if time.Now().After(deadline) {
					atomic.AddInt64(&skipped, 1)
					continue
				}
				j := jobs[i]
				var fs []fail
				var err error
				func() {
					defer func() {
						if r := recover(); r != nil {
							what := fmt.Sprintf("len=%d pl=%d pattern=%s", j.n, j.pl, j.pattern)
							where := "metainfo generation"
							if j.tbl != nil {
								what, where = j.tbl.String(), "piece length table / Generate"
							}
							fs = append(fs, fail{fp: "panic in " + where, detail: map[string]interface{}{"case": what, "panic": fmt.Sprint(r)}})
						}
					}()
					if j.tbl != nil {
						fs, err = checkTable(*j.tbl, maxSize, &tc)
					} else {
						fs, err = checkCore(j.n, j.pl, j.pattern, &c, readerKinds, "", true)
					}
				}()
				mu.Lock()
				if err != nil && harnessErr == nil {
					harnessErr = err
				}
				allFails = append(allFails, fs...)
				mu.Unlock()
				if j.tbl != nil {
					for s := 0; s <= maxSize; s++ {
						run.Distinct(fmt.Sprintf("T%s/%d", j.tbl.String(), s))
					}
				} else if j.n > 0 {
					run.Distinct(fmt.Sprintf("A%d/%d/%s", j.n, j.pl, j.pattern))
				}
			}
		}()
	}
	wg.Wait()
	if harnessErr != nil {
		run.Fatal(harnessErr)
	}
	if skipped > 0 {
		run.NotExhaustive(fmt.Sprintf("deadline: %d of %d jobs not run", skipped, len(jobs)))
	}
	run.Eval(int(c.evals + tc.lookups + tc.generated))
	run.Set("core_cases(length,piece_length,pattern)", len(grid)*len(patterns))
	run.Set("core_generator_evaluations", c.evals)
	run.Set("core_round_trips_checked", c.roundTrips)
	run.Set("core_stream_equals_buffer_checked", c.streamEqBytes)
	run.Set("core_cases_empty_blob", c.empty)
	run.Set("core_cases_exact_multiple", c.exact)
	run.Set("core_cases_short_last_piece", c.shortLast)
	run.Set("core_cases_multi_piece", c.multi)
	run.Set("core_cases_single_piece", c.single)
	run.Set("core_extra_power_of_two_cases", nPow)
	run.Set("history_pairs(failed stream call, successful call) incl. 3 repeats", hc.failPairs)
	run.Set("history_first_call_returned_error", hc.failedAsIntended)
	run.Set("history_first_call_returned_no_error", hc.firstSucceeded)
	run.Set("history_first_call_failed_inside_a_piece", hc.partialPiece)
	run.Set("history_pairs(successful call A, successful call B)", hc.okPairs)
	run.Set("history_second_call_evaluations", hc.seconds)
	run.Set("tables", len(tables))
	run.Set("table_lookups", tc.lookups)
	run.Set("table_lookups_size_equals_a_threshold", tc.atThreshold)
	run.Set("table_lookups_size_one_below_a_threshold", tc.belowNext)
	run.Set("table_lookups_below_every_threshold(undecided)", tc.undecided)
	run.Set("table_generate_runs_on_real_castore", tc.generated)
	run.Sample(map[string]interface{}{"kind": "core", "blob_length": 34, "piece_length": 17, "pattern": "counter", "expect": "2 pieces of 17, sums = CRC32 of each half, same info hash from all readers and from bytes"})
	run.Sample(map[string]interface{}{"kind": "core", "blob_length": 0, "piece_length": 5, "expect": "0 pieces, length 0"})
	run.Sample(map[string]interface{}{"kind": "table", "table": "{0:1,5:2,10:4}", "size": 5, "expect": "piece length 2"})
	if c.exact == 0 || c.shortLast == 0 || c.empty == 0 || c.multi == 0 || tc.atThreshold == 0 || tc.belowNext == 0 || hc.partialPiece == 0 || hc.failedAsIntended == 0 || hc.okPairs == 0 {
		if skipped == 0 && !hcapped {
			run.Fatal(errors.New("vacuity: a boundary class was never exercised"))
		}
	}

	// Report: one violation per fingerprint, smallest case first.
	sort.SliceStable(allFails, func(i, j int) bool {
		return fmt.Sprint(allFails[i].detail) < fmt.Sprint(allFails[j].detail)
	})
	// A clause that already fails on independent evaluations is one root cause:
	// its history-context variants are not reported separately.
	plain := map[string]bool{}
	for _, f := range allFails {
		if !strings.Contains(f.fp, "after a ") {
			plain[f.fp] = true
		}
	}
	baseFP := func(fp string) string {
		if i := strings.Index(fp, ", after a "); i >= 0 {
			return fp[:i] + "]"
		}
		if i := strings.Index(fp, " [after a "); i >= 0 {
			return fp[:i]
		}
		return fp
	}
	byFP := map[string][]fail{}
	var order []string
	for _, f := range allFails {
		if b := baseFP(f.fp); b != f.fp && plain[b] {
			continue
		}
		if _, ok := byFP[f.fp]; !ok {
			order = append(order, f.fp)
		}
		byFP[f.fp] = append(byFP[f.fp], f)
	}
	sort.Strings(order)
	for _, fp := range order {
		fs := byFP[fp]
		d := map[string]interface{}{"failing_cases": len(fs), "first": fs[0].detail}
		if len(fs) > 1 {
			d["second"] = fs[1].detail
		}
		run.Violation(fp, d)
	}
	run.Finish()
}
