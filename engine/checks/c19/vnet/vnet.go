// Package vnet replaces package net in kraken's lib/torrent/scheduler/conn for
// the C19 scheduler-level swarm (overlay import rewrite): everything is the
// real net package except DialTimeout, which asks a dialer registered by the
// harness for the host part of the address. testing/synctest bubbles cannot
// use real sockets, so an outgoing connection of the real Handshaker is a
// net.Pipe whose far end is handed to the dialed peer of the closed swarm, or
// a "connection refused" error when that peer has left.
package vnet

import (
	"net"
	"sync"
	"time"
)

type (
	Conn     = net.Conn
	Listener = net.Listener
	Addr     = net.Addr
	Error    = net.Error
)

func Listen(network, address string) (net.Listener, error) { return net.Listen(network, address) }
func SplitHostPort(hostport string) (string, string, error) { return net.SplitHostPort(hostport) }
func Pipe() (net.Conn, net.Conn)                            { return net.Pipe() }

// Dialer opens a connection to address (host:port) or fails.
type Dialer func(address string, timeout time.Duration) (net.Conn, error)

var (
	mu      sync.Mutex
	dialers = map[string]Dialer{}
)

// Register routes every dial to host through d.
func Register(host string, d Dialer) { mu.Lock(); dialers[host] = d; mu.Unlock() }

// Unregister removes the dialer of host.
func Unregister(host string) { mu.Lock(); delete(dialers, host); mu.Unlock() }

func DialTimeout(network, address string, timeout time.Duration) (net.Conn, error) {
	if host, _, err := net.SplitHostPort(address); err == nil {
		mu.Lock()
		d := dialers[host]
		mu.Unlock()
		if d != nil {
			return d(address, timeout)
		}
	}
	return net.DialTimeout(network, address, timeout)
}
