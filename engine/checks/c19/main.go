//go:build go1.25

// C19: a swarm with a reachable seeder converges to the exact blob.
// Bounded, closed swarm explored exhaustively within a deviation bound: real
// dispatch.Dispatcher + real agentstorage / originstorage torrents per peer,
// wired by in-memory message links (no TCP, handshake, tracker). A transition
// delivers the head message of one directed link, connects a pair of peers,
// makes the non-seeder peer leave, or fires the piece-request timeout. One
// optional peer answers every piece request with a corrupted payload.
//
// Part 2 (swarm.go) covers the layer above: one agent is a real scheduler with
// a connection limit of 1 or 2, its tracker announces, dials and accepted
// connections are seams to an environment swarm (tracker, a seeder that stays,
// peers that join and leave at any point); the explored prefix is followed by a
// fair continuation that decides "every agent's download completes".
package main

import (
	"bytes"
	"fmt"
	"io"
	"os"
	"sort"
	"strings"
	"sync"
	"testing"
	"time"

	"github.com/andres-erbsen/clock"
	"github.com/uber-go/tally"
	"github.com/willf/bitset"
	"go.uber.org/zap"

	"github.com/uber/kraken/core"
	"github.com/uber/kraken/gen/go/proto/p2p"
	"github.com/uber/kraken/lib/store"
	"github.com/uber/kraken/lib/torrent/networkevent"
	"github.com/uber/kraken/lib/torrent/scheduler/conn"
	"github.com/uber/kraken/lib/torrent/scheduler/dispatch"
	"github.com/uber/kraken/lib/torrent/scheduler/torrentlog"
	"github.com/uber/kraken/lib/torrent/storage"
	"github.com/uber/kraken/lib/torrent/storage/agentstorage"
	"github.com/uber/kraken/lib/torrent/storage/originstorage"
	"github.com/uber/kraken/lib/torrent/storage/piecereader"
	"github.com/uber/kraken/tracker/metainfoclient"

	"verif/e1q"
	"verif/evid"
	_ "verif/quiet"
	"verif/rep"
	"verif/shim/vrand"
	"verif/vrt"
)

type config struct {
	name      string
	blob      string
	pieceLen  int64
	pipeline  int
	noEndgame bool
	origin    bool // seeder is an origin (originstorage over CAStore) instead of a complete agent
	corrupt   bool // a peer that answers every request with corrupted bytes
	leave     bool // agent 2 may leave at any point
	bound     int
}

type node struct {
	name    string
	id      core.PeerID
	origin  bool
	corrupt bool
	disp    *dispatch.Dispatcher
	torrent storage.Torrent
	cads    *store.CADownloadStore
	gone    bool
}

// end is one side of a link; it is the dispatch.Messages of its owner.
type end struct {
	mu     sync.Mutex
	owner  *node
	peer   *node
	out    *[]*conn.Message // queue towards the peer
	recv   chan *conn.Message
	closed bool
}

func (e *end) Send(m *conn.Message) error {
	e.mu.Lock()
	defer e.mu.Unlock()
	if e.closed {
		if m.Payload != nil {
			m.Payload.Close()
		}
		return fmt.Errorf("conn closed")
	}
	if m.Payload != nil {
		// the real conn streams the payload out of the sender's file now
		b, err := io.ReadAll(m.Payload)
		m.Payload.Close()
		if err != nil {
			return err
		}
		m = conn.NewPiecePayloadMessage(int(m.Message.PiecePayload.Index), piecereader.NewBuffer(b))
	}
	*e.out = append(*e.out, m)
	return nil
}
func (e *end) Receiver() <-chan *conn.Message { return e.recv }
func (e *end) Close() {
	e.mu.Lock()
	defer e.mu.Unlock()
	if !e.closed {
		e.closed = true
		close(e.recv)
	}
}
func (e *end) isClosed() bool { e.mu.Lock(); defer e.mu.Unlock(); return e.closed }

type link struct {
	a, b   *node
	ea, eb *end
	ab, ba []*conn.Message
}

type events struct{}

func (events) DispatcherComplete(*dispatch.Dispatcher)   {}
func (events) PeerRemoved(core.PeerID, core.InfoHash)    {}

func peerID(i int) core.PeerID {
	id, err := core.NewPeerID(fmt.Sprintf("%040x", i+1))
	if err != nil {
		panic(err)
	}
	return id
}

func describe(m *conn.Message) string {
	t := m.Message.Type
	switch t {
	case p2p.Message_PIECE_REQUEST:
		return fmt.Sprintf("REQ%d", m.Message.PieceRequest.Index)
	case p2p.Message_PIECE_PAYLOAD:
		return fmt.Sprintf("PAY%d", m.Message.PiecePayload.Index)
	case p2p.Message_ANNOUCE_PIECE:
		return fmt.Sprintf("ANN%d", m.Message.AnnouncePiece.Index)
	case p2p.Message_COMPLETE:
		return "COMPLETE"
	case p2p.Message_ERROR:
		return "ERR"
	}
	return t.String()
}

func harness(cf config) *vrt.Harness {
	h := e1q.HarnessOpt(cf.name, 600, false, func(c *e1q.Ctl) (string, string) {
		// piece selection draws (math/rand in the request policies) are explorer choices
		vrand.Decider = func(n int, label string) int { return c.Choose(n, label) }
		defer func() { vrand.Decider = nil }()
		blob := []byte(cf.blob)
		dir, err := os.MkdirTemp("", "c19-")
		if err != nil {
			return "", "HARNESS: " + err.Error()
		}
		defer os.RemoveAll(dir)
		dg, _ := core.NewDigester().FromBytes(blob)
		mi, _ := core.NewMetaInfo(dg, bytes.NewReader(blob), cf.pieceLen)
		n := mi.NumPieces()
		dcfg := dispatch.Config{AgentPipelineLimit: cf.pipeline, OriginPipelineLimit: cf.pipeline, DisableEndgame: cf.noEndgame}
		clk := clock.New()
		var nodes []*node
		var closers []func()
		defer func() {
			for _, f := range closers {
				f()
			}
		}()
		newAgent := func(name string, idx int, complete bool) (*node, error) {
			cads, err := store.NewCADownloadStore(store.CADownloadStoreConfig{
				DownloadDir: dir + "/" + name + "/download", CacheDir: dir + "/" + name + "/cache",
				DownloadCleanup: store.CleanupConfig{Disabled: true}, CacheCleanup: store.CleanupConfig{Disabled: true},
			}, tally.NoopScope)
			if err != nil {
				return nil, err
			}
			closers = append(closers, cads.Close)
			tc := metainfoclient.NewTestClient()
			tc.Upload(mi)
			ta := agentstorage.NewTorrentArchive(tally.NoopScope, cads, tc)
			t, err := ta.CreateTorrent("ns", dg)
			if err != nil {
				return nil, err
			}
			if complete {
				for k := 0; k < n; k++ {
					s, e := int64(k)*cf.pieceLen, min(int64(k+1)*cf.pieceLen, int64(len(blob)))
					if err := t.WritePiece(piecereader.NewBuffer(blob[s:e]), k); err != nil {
						return nil, err
					}
				}
			}
			nd := &node{name: name, id: peerID(idx), torrent: t, cads: cads}
			d, err := dispatch.New(dcfg, tally.NoopScope, clk, networkevent.NewTestProducer(), events{}, nd.id, t, zap.NewNop().Sugar(), torrentlog.NewNopLogger())
			if err != nil {
				return nil, err
			}
			nd.disp = d
			return nd, nil
		}
		var seeder *node
		if cf.origin {
			cas, err := store.NewCAStore(store.CAStoreConfig{
				UploadDir: dir + "/S/upload", CacheDir: dir + "/S/cache",
				UploadCleanup: store.CleanupConfig{Disabled: true}, CacheCleanup: store.CleanupConfig{Disabled: true},
			}, tally.NoopScope)
			if err != nil {
				return "", "HARNESS: " + err.Error()
			}
			closers = append(closers, cas.Close)
			if err := cas.CreateCacheFile(dg.Hex(), bytes.NewReader(blob)); err != nil {
				return "", "HARNESS: " + err.Error()
			}
			t, err := originstorage.NewTorrent(cas, mi)
			if err != nil {
				return "", "HARNESS: " + err.Error()
			}
			seeder = &node{name: "S", id: peerID(0), origin: true, torrent: t}
			d, err := dispatch.New(dcfg, tally.NoopScope, clk, networkevent.NewTestProducer(), events{}, seeder.id, t, zap.NewNop().Sugar(), torrentlog.NewNopLogger())
			if err != nil {
				return "", "HARNESS: " + err.Error()
			}
			seeder.disp = d
		} else {
			seeder, err = newAgent("S", 0, true)
			if err != nil {
				return "", "HARNESS: " + err.Error()
			}
		}
		a1, err := newAgent("A1", 1, false)
		if err != nil {
			return "", "HARNESS: " + err.Error()
		}
		a2, err := newAgent("A2", 2, false)
		if err != nil {
			return "", "HARNESS: " + err.Error()
		}
		nodes = []*node{seeder, a1, a2}
		var bad *node
		if cf.corrupt {
			bad = &node{name: "X", id: peerID(3), corrupt: true}
			nodes = append(nodes, bad)
		}
		type pair struct{ x, y *node }
		todo := []pair{{seeder, a1}, {a1, a2}, {seeder, a2}}
		if bad != nil {
			todo = append([]pair{{bad, a1}, {bad, a2}}, todo...)
		}
		var links []*link
		full := func() *bitset.BitSet { return bitset.New(uint(n)).Complement() }
		bf := func(x *node) *bitset.BitSet {
			if x.corrupt {
				return full()
			}
			return x.torrent.Bitfield()
		}
		connect := func(p pair) {
			l := &link{a: p.x, b: p.y}
			l.ea = &end{owner: p.x, peer: p.y, out: &l.ab, recv: make(chan *conn.Message)}
			l.eb = &end{owner: p.y, peer: p.x, out: &l.ba, recv: make(chan *conn.Message)}
			bx, by := bf(p.x), bf(p.y)
			if p.x.disp != nil {
				if err := p.x.disp.AddPeer(p.y.id, p.y.origin, by, l.ea); err != nil {
					return
				}
			}
			if p.y.disp != nil {
				if err := p.y.disp.AddPeer(p.x.id, p.x.origin, bx, l.eb); err != nil {
					l.ea.Close()
					return
				}
			}
			links = append(links, l)
		}
		var vio []string
		corruptServed := 0
		deliver := func(l *link, ab bool) {
			q, to, from := &l.ab, l.eb, l.ea
			if !ab {
				q, to, from = &l.ba, l.ea, l.eb
			}
			from.mu.Lock()
			m := (*q)[0]
			*q = (*q)[1:]
			from.mu.Unlock()
			if to.owner.corrupt {
				// the corrupting peer answers every request with a wrong payload
				if m.Message.Type == p2p.Message_PIECE_REQUEST {
					i := int(m.Message.PieceRequest.Index)
					if i >= 0 && i < n {
						b := append([]byte{}, blob[int64(i)*cf.pieceLen:min(int64(i+1)*cf.pieceLen, int64(len(blob)))]...)
						b[0] ^= 0x20
						to.mu.Lock()
						*to.out = append(*to.out, conn.NewPiecePayloadMessage(i, piecereader.NewBuffer(b)))
						to.mu.Unlock()
						corruptServed++
					}
				}
				return
			}
			if to.isClosed() {
				return
			}
			go func() {
				defer func() { recover() }()
				to.recv <- m
			}()
			c.Wait()
		}
		leave := func(x *node) {
			x.gone = true
			for _, l := range links {
				if l.a == x || l.b == x {
					l.ea.Close()
					l.eb.Close()
				}
			}
			x.disp.TearDown()
		}
		checkSafety := func() {
			for _, x := range []*node{a1, a2} {
				if x.torrent.Complete() {
					r, err := x.cads.Cache().GetFileReader(dg.Hex())
					if err != nil {
						vio = append(vio, x.name+" reports complete but has no cached blob")
						continue
					}
					b, _ := io.ReadAll(r)
					r.Close()
					if !bytes.Equal(b, blob) {
						vio = append(vio, "an agent committed bytes that differ from the blob")
					}
				}
			}
		}
		timeout := 5 * time.Second
		advanced := 0
		left := false
		actions := func() []e1q.Action {
			checkSafety()
			var a []e1q.Action
			// canonical order: connections first, then deliveries on honest links, then
			// deliveries on the corrupting peer's links (so by default its bad payloads
			// arrive late and the re-request machinery is needed)
			for i, p := range todo {
				i, p := i, p
				if p.x.gone || p.y.gone {
					continue
				}
				a = append(a, e1q.Action{Label: fmt.Sprintf("connect %s-%s", p.x.name, p.y.name), Run: func() {
					todo = append(todo[:i:i], todo[i+1:]...)
					connect(p)
				}})
			}
			for pass := 0; pass < 2; pass++ {
				for _, l := range links {
					l := l
					if (l.a.corrupt || l.b.corrupt) != (pass == 1) {
						continue
					}
					l.ea.mu.Lock()
					nab := len(l.ab)
					l.ea.mu.Unlock()
					l.eb.mu.Lock()
					nba := len(l.ba)
					l.eb.mu.Unlock()
					if nab > 0 {
						a = append(a, e1q.Action{Label: fmt.Sprintf("%s->%s %s", l.a.name, l.b.name, describe(l.ab[0])), Run: func() { deliver(l, true) }})
					}
					if nba > 0 {
						a = append(a, e1q.Action{Label: fmt.Sprintf("%s->%s %s", l.b.name, l.a.name, describe(l.ba[0])), Run: func() { deliver(l, false) }})
					}
				}
			}
			if cf.leave && !left && len(links) > 0 && len(a) > 0 { // a departure is only ever a deviation, never forced
				a = append(a, e1q.Action{Label: "A2 leaves", Run: func() { left = true; leave(a2) }})
			}
			if len(a) == 0 && advanced < 6 && !(a1.torrent.Complete() && (a2.gone || a2.torrent.Complete())) {
				a = append(a, e1q.Action{Label: "piece request timeout fires", Run: func() { advanced++; e1q.Sleep(timeout) }})
			}
			return a
		}
		for c.Step(actions) {
		}
		checkSafety()
		// terminal state: no message in flight, no connection left to make, timeouts fired
		var obs []string
		for _, x := range []*node{a1, a2} {
			if x.gone {
				obs = append(obs, x.name+":left")
				continue
			}
			if !x.torrent.Complete() {
				vio = append(vio, "an agent with a reachable seeder never completes its download")
				obs = append(obs, fmt.Sprintf("%s:incomplete%v", x.name, x.torrent.MissingPieces()))
			} else {
				obs = append(obs, x.name+":ok")
			}
		}
		for _, x := range nodes {
			if x.disp != nil && !x.gone {
				x.disp.TearDown()
			}
		}
		for _, l := range links {
			l.ea.Close()
			l.eb.Close()
		}
		c.Wait()
		sort.Strings(vio)
		if os.Getenv("C19_TRACE") != "" {
			fmt.Fprintln(os.Stderr, cf.name, "::", strings.Join(c.Trace, " | "), "=>", obs)
		}
		return strings.Join(obs, " ") + fmt.Sprintf(" timeouts=%d corrupt=%d", advanced, min(corruptServed, 3)), strings.Join(dedup(vio), "; ")
	})
	// Go map iteration inside piecerequest.Manager.GetFailedRequests is not under
	// the harness's control: tolerate (and report) the rare resulting divergence.
	h.TolerateDivergence = true
	return h
}

func dedup(s []string) []string {
	var o []string
	for i, x := range s {
		if i == 0 || s[i-1] != x {
			o = append(o, x)
		}
	}
	return o
}

func configs(thorough bool) []config {
	cs := []config{
		{name: "agent seeder, 2 pieces, pipeline 1", blob: "abc", pieceLen: 2, pipeline: 1, bound: 2},
		{name: "origin seeder, 3 pieces, pipeline 2, A2 may leave", blob: "abcde", pieceLen: 2, pipeline: 2, origin: true, leave: true, bound: 2},
		{name: "corrupting peer, 2 pieces, pipeline 1, no endgame", blob: "abc", pieceLen: 2, pipeline: 1, noEndgame: true, corrupt: true, bound: 2},
	}
	if thorough {
		cs = []config{
			{name: "agent seeder, 1 piece, pipeline 1", blob: "ab", pieceLen: 2, pipeline: 1, bound: 3},
			{name: "agent seeder, 2 pieces, pipeline 1", blob: "abc", pieceLen: 2, pipeline: 1, bound: 3},
			{name: "agent seeder, 3 pieces, pipeline 2, no endgame", blob: "abcde", pieceLen: 2, pipeline: 2, noEndgame: true, bound: 3},
			{name: "origin seeder, 3 pieces, pipeline 2, A2 may leave", blob: "abcde", pieceLen: 2, pipeline: 2, origin: true, leave: true, bound: 3},
			{name: "origin seeder, 2 pieces, pipeline 1, A2 may leave", blob: "abc", pieceLen: 2, pipeline: 1, origin: true, leave: true, bound: 3},
			{name: "corrupting peer, 2 pieces, pipeline 1, no endgame", blob: "abc", pieceLen: 2, pipeline: 1, noEndgame: true, corrupt: true, bound: 3},
			{name: "corrupting peer, 3 pieces, pipeline 2, A2 may leave", blob: "abcde", pieceLen: 2, pipeline: 2, corrupt: true, leave: true, bound: 3},
		}
	}
	return cs
}

func main() {
	e1q.Main(func(t *testing.T) {
		var hs []*vrt.Harness
		for _, th := range []bool{false, true} {
			for _, cf := range configs(th) {
				hs = append(hs, harness(cf))
			}
			for _, cf := range swarmConfigs(th) {
				hs = append(hs, swarmHarness(cf))
			}
		}
		vrt.WorkerMain(hs)
		run := evid.New("C19", "exploration")
		run.Rule = "part 1 (dispatcher swarm): closed swarm of 1 seeder (complete agent or origin), 2 agents and optionally 1 corrupting peer: real dispatch.Dispatcher + real agentstorage/originstorage per peer over in-memory links; DFS over which enabled transition happens next (deliver the head message of a directed link, connect a pair, agent 2 leaves, piece-request timeout when nothing else is enabled) with at most k deviations from the canonical order; safety checked in every state, convergence in every terminal state. " +
			"part 2 (scheduler swarm: announce / connection-slot layer): one agent is a REAL scheduler (every event handler, connstate with MaxOpenConnectionsPerTorrent 1 or 2, announce queue, announcer, handshaker, conns over net.Pipe, dispatcher, agent storage) whose every event is a pending action; the environment is a tracker (each announce request is a pending action, answered at release time with the peers that joined so far incl. departed ones, or - bounded - with an error), a seeder S that joins at any point and stays, and 1-2 further peers (leechers that take a connection slot of the agent, seeders that serve piece by piece) that join and leave at any point; DFS over the order of event applications, tracker answers, announce ticks (5 s), joins, piece deliveries, departures (and ConnTTI preemption ticks in thorough) with at most k deviations from the canonical order (pending events first, then environment actions); then a FAIR continuation (S joins, everything pending is applied and served, announce tick every 5 s, preemption tick every 30 s, 200 s of virtual time); oracle: the agent's Download returned nil and its cached copy is byte-identical to the blob. distinct = outcome classes per configuration."
		run.Assume("part 1: no TCP, handshake, tracker or connection limits; configurations are a fixed small set, not random large swarms: this check claims the bounded closed swarm only")
		run.Assume("part 1: virtual time (synctest); a piece-request timeout fires only when no message is in flight")
		run.Assume("part 2: one real scheduler per execution; the other peers are protocol-level environment peers (real wire format and handshake, no scheduler of their own), the tracker hands out every peer that joined in arrival order; connection limits 1 and 2, blobs of 1-3 pieces, at most 2 announce ticks / 1 announce error (/ 1 preemption tick) inside the adversarial prefix; piece selection draws fixed to 0 (part 1 explores them); convergence is judged after 200 s of fair virtual time (ConnTTI 30 s, blacklist 30 s, LeecherTTI 10 min)")
		maxDur := 45
		if run.Thorough() {
			maxDur = 110
		}
		part1 := configs(run.Thorough())
		if os.Getenv("C19_PART") == "2" { // development aid: only the scheduler-level part
			part1 = nil
			run.NotExhaustive("C19_PART=2: part 1 skipped")
		}
		for _, cf := range part1 {
			h := harness(cf)
			_, o1, _ := vrt.Replay(h, nil)
			_, o2, _ := vrt.Replay(h, nil)
			if o1 != o2 {
				run.Fatal(fmt.Errorf("non-deterministic replay in %q: %q vs %q", cf.name, o1, o2))
			}
			rep.VRT(run, h, cf.bound, evid.Workers(), maxDur, func(v vrt.Violation) string {
				m := strings.SplitN(v.Msg, ";", 2)[0]
				kind := "honest swarm"
				if cf.corrupt {
					kind = "swarm with a corrupting peer"
				}
				if cf.leave {
					kind += ", a peer leaving"
				}
				return m + " [" + kind + "]"
			})
		}
		// part 2: the announce / connection-slot layer (one real scheduler against
		// the most general swarm environment), see swarm.go
		for _, cf := range swarmConfigs(run.Thorough()) {
			h := swarmHarness(cf)
			_, o1, _ := vrt.Replay(h, nil)
			_, o2, _ := vrt.Replay(h, nil)
			if o1 != o2 {
				run.Fatal(fmt.Errorf("non-deterministic replay in %q: %q vs %q", cf.name, o1, o2))
			}
			res := rep.VRT(run, h, cf.bound, evid.Workers(), maxDur, func(v vrt.Violation) string {
				m := strings.SplitN(v.Msg, ";", 2)[0]
				if i := strings.Index(m, " ("); i > 0 {
					m = m[:i]
				}
				return fmt.Sprintf("%s [scheduler swarm, connection limit %d]", m, cf.maxConn)
			})
			sat, leak := 0, 0
			for k, n := range res.Outcomes {
				if strings.Contains(k, "saturatedAnswer=1") {
					sat += n
				}
				if strings.Contains(k, "LEAK") {
					leak += n
				}
			}
			run.Set("swarm:"+cf.name+":executions that left a goroutine blocked after teardown", leak)
			run.Set("swarm:"+cf.name+":executions with an announce answer applied while saturated", sat)
		}
		run.Finish()
	})
}
