//go:build go1.25

// C19, part 2: the announce / connection-slot layer of the swarm.
//
// One agent A is a REAL kraken scheduler (state + every event handler,
// connstate with MaxOpenConnectionsPerTorrent 1 or 2, announce queue,
// announcer, handshaker, conn read/write loops, dispatcher, agent storage)
// whose event loop hands every event to the explorer as a pending action. The
// rest of the swarm is the most general environment the statement allows,
// speaking kraken's wire protocol over net.Pipe connections:
//
//   - a tracker whose every announce request is a pending action (request and
//     answer are separate steps of the schedule); the answer is the list of the
//     peers that have joined so far, in arrival order, departed peers included
//     (a tracker does not know that a peer left), or, a bounded number of
//     times, an error;
//   - a seeder S that joins at any point, accepts every dial, serves each piece
//     request as a separate action and never leaves (the statement's premise);
//   - further peers, each joining at any point and leaving at any point:
//     leechers, which open a connection to A when they join (they hold nothing
//     A needs, they only take one of A's connection slots), and seeders that
//     may leave in the middle of the transfer.
//
// Every order of these actions within k deviations from the canonical order is
// executed. Then the run is continued FAIRLY (no more adversarial choices): S
// joins if it has not yet, every pending event is applied, every request is
// served, the announce interval elapses again and again with the idle-conn
// preemption tick every 30 s, for 200 s of virtual time — several times the
// longest legitimate delay (ConnTTI 30 s + preemption interval 30 s + blacklist
// 30 s + announce interval 5 s), well below LeecherTTI. Oracle, from the
// statement: A's Download has returned nil and A's cached copy is byte-identical
// to the blob.
package main

import (
	"bytes"
	"encoding/binary"
	"errors"
	"fmt"
	"io"
	"net"
	"os"
	"strings"
	"sync"
	"sync/atomic"
	"time"

	"github.com/andres-erbsen/clock"
	"github.com/golang/protobuf/proto"
	"github.com/uber-go/tally"
	"github.com/willf/bitset"

	"github.com/uber/kraken/core"
	"github.com/uber/kraken/gen/go/proto/p2p"
	"github.com/uber/kraken/lib/store"
	"github.com/uber/kraken/lib/torrent/scheduler"
	"github.com/uber/kraken/lib/torrent/scheduler/conn"
	"github.com/uber/kraken/lib/torrent/scheduler/connstate"
	"github.com/uber/kraken/lib/torrent/storage/agentstorage"
	"github.com/uber/kraken/lib/torrent/storage/piecereader"
	"github.com/uber/kraken/tracker/metainfoclient"
	klog "github.com/uber/kraken/utils/log"

	"verif/checks/c19/vnet"
	"verif/e1q"
	"verif/shim/vrand"
	"verif/vrt"
)

const (
	announceInterval = 5 * time.Second
	connTTI          = 30 * time.Second
	fairRounds       = 40 // x announceInterval = 200 s of fair virtual time
)

type peerSpec struct {
	name   string
	seeder bool // holds the whole blob and serves it; otherwise a leecher holding nothing that dials A
}

type swarmCfg struct {
	name     string
	maxConn  int
	blob     string
	pieceLen int64
	others   []peerSpec // besides the seeder S that stays
	ticks    int        // announce ticks that may happen at any point of the explored prefix
	faults   int        // announce requests the tracker may answer with an error
	preempts int        // "ConnTTI passes, preemption tick" actions in the explored prefix
	bound    int
}

type frame struct {
	m       *p2p.Message
	payload []byte
}

// hpeer is an environment peer of the swarm.
type hpeer struct {
	name    string
	id      core.PeerID
	seeder  bool
	stays   bool
	port    int
	joined  bool
	left    bool
	dialled bool
	conns   []*hconn
}

// hconn is the environment's end of one connection with A.
type hconn struct {
	p   *hpeer
	nc  net.Conn
	out chan frame

	mu     sync.Mutex
	closed bool
	reqs   []int // piece requests received from A and not served yet
}

func (hc *hconn) isClosed() bool { hc.mu.Lock(); defer hc.mu.Unlock(); return hc.closed }
func (hc *hconn) pending() []int { hc.mu.Lock(); defer hc.mu.Unlock(); return append([]int{}, hc.reqs...) }

func writeFrame(nc net.Conn, m *p2p.Message, payload []byte) error {
	data, err := proto.Marshal(m)
	if err != nil {
		return err
	}
	var l [4]byte
	binary.BigEndian.PutUint32(l[:], uint32(len(data)))
	if _, err := nc.Write(append(l[:], data...)); err != nil {
		return err
	}
	if payload != nil {
		_, err = nc.Write(payload)
	}
	return err
}

func readFrame(nc net.Conn) (*p2p.Message, error) {
	var l [4]byte
	if _, err := io.ReadFull(nc, l[:]); err != nil {
		return nil, err
	}
	data := make([]byte, binary.BigEndian.Uint32(l[:]))
	if _, err := io.ReadFull(nc, data); err != nil {
		return nil, err
	}
	m := new(p2p.Message)
	if err := proto.Unmarshal(data, m); err != nil {
		return nil, err
	}
	if m.Type == p2p.Message_PIECE_PAYLOAD && m.PiecePayload != nil {
		if _, err := io.ReadFull(nc, make([]byte, m.PiecePayload.Length)); err != nil {
			return nil, err
		}
	}
	return m, nil
}

// run is the environment peer's side of a connection: handshake (first when it
// opened the connection, second when A dialled it), then read whatever A sends;
// piece requests are queued, to be served by explorer actions.
func (hc *hconn) run(opener bool, mi *core.MetaInfo) {
	defer func() {
		hc.mu.Lock()
		hc.closed = true
		hc.reqs = nil
		hc.mu.Unlock()
		hc.nc.Close()
	}()
	n := uint(mi.NumPieces())
	bf := bitset.New(n)
	if hc.p.seeder {
		bf = bf.Complement()
	}
	b, err := bf.MarshalBinary()
	if err != nil {
		return
	}
	hs := &p2p.Message{Type: p2p.Message_BITFIELD, Bitfield: &p2p.BitfieldMessage{
		PeerID: hc.p.id.String(), Name: mi.Digest().Hex(), InfoHash: mi.InfoHash().String(),
		BitfieldBytes: b, Namespace: "ns",
	}}
	if opener {
		if writeFrame(hc.nc, hs, nil) != nil {
			return
		}
	} else {
		m, err := readFrame(hc.nc)
		if err != nil || m.Type != p2p.Message_BITFIELD {
			return
		}
		if writeFrame(hc.nc, hs, nil) != nil {
			return
		}
	}
	// one writer goroutine: two writers on a net.Pipe would queue on its mutex,
	// which is not a durable block for synctest
	go func() {
		for f := range hc.out {
			if writeFrame(hc.nc, f.m, f.payload) != nil {
				return
			}
		}
	}()
	for {
		m, err := readFrame(hc.nc)
		if err != nil {
			return
		}
		if m.Type == p2p.Message_PIECE_REQUEST && m.PieceRequest != nil && hc.p.seeder {
			hc.mu.Lock()
			hc.reqs = append(hc.reqs, int(m.PieceRequest.Index))
			hc.mu.Unlock()
		}
	}
}

// tracker is A's announceclient.Client.
type tracker struct {
	c      *e1q.Ctl
	answer func(k int) ([]*core.PeerInfo, error)
	n      atomic.Int32
}

func (t *tracker) CheckReadiness() error { return nil }

func (t *tracker) Announce(d core.Digest, h core.InfoHash, complete bool, version int) ([]*core.PeerInfo, time.Duration, error) {
	k := int(t.n.Add(1))
	t.c.Park(fmt.Sprintf("tracker answers announce #%d of A", k))
	peers, err := t.answer(k)
	return peers, announceInterval, err
}

var swarmInstance atomic.Int64

// fullName makes the harness name unique per parameter set (shard workers find
// their harness by name).
func (cf swarmCfg) fullName() string {
	return fmt.Sprintf("%s [%d announce ticks, %d announce errors, %d preemption ticks in the prefix]", cf.name, cf.ticks, cf.faults, cf.preempts)
}

func swarmHarness(cf swarmCfg) *vrt.Harness {
	h := e1q.HarnessOpt(cf.fullName(), 400, false, func(c *e1q.Ctl) (string, string) {
		// piece selection is not the subject here (part 1 explores it)
		vrand.Decider = func(n int, label string) int { return 0 }
		defer func() { vrand.Decider = nil }()
		blob := []byte(cf.blob)
		dir, err := os.MkdirTemp("", "c19s-")
		if err != nil {
			return "", "HARNESS: " + err.Error()
		}
		defer os.RemoveAll(dir)
		cads, err := store.NewCADownloadStore(store.CADownloadStoreConfig{
			DownloadDir: dir + "/download", CacheDir: dir + "/cache",
			DownloadCleanup: store.CleanupConfig{Disabled: true}, CacheCleanup: store.CleanupConfig{Disabled: true},
		}, tally.NoopScope)
		if err != nil {
			return "", "HARNESS: " + err.Error()
		}
		defer cads.Close()
		dg, _ := core.NewDigester().FromBytes(blob)
		mi, err := core.NewMetaInfo(dg, bytes.NewReader(blob), cf.pieceLen)
		if err != nil {
			return "", "HARNESS: " + err.Error()
		}
		tc := metainfoclient.NewTestClient()
		tc.Upload(mi)
		ta := agentstorage.NewTorrentArchive(tally.NoopScope, cads, tc)
		pieceBytes := func(k int) []byte {
			return blob[int64(k)*cf.pieceLen : min(int64(k+1)*cf.pieceLen, int64(len(blob)))]
		}

		host := fmt.Sprintf("c19swarm%d", swarmInstance.Add(1))
		aID := peerID(100)
		peers := []*hpeer{{name: "S", id: peerID(101), seeder: true, stays: true, port: 1}}
		for i, o := range cf.others {
			peers = append(peers, &hpeer{name: o.name, id: peerID(102 + i), seeder: o.seeder, port: 2 + i})
		}
		nameOf := func(id core.PeerID) string {
			if id == aID {
				return "A"
			}
			for _, p := range peers {
				if p.id == id {
					return p.name
				}
			}
			return "?"
		}

		var mu sync.Mutex // guards the harness state touched from kraken's goroutines
		fair := false
		var arrival []*hpeer // the tracker's list
		aAnnounced := false
		announces, failedAnnounces, refused := 0, 0, 0
		faultsLeft := cf.faults
		var allConns []*hconn

		newConn := func(p *hpeer, nc net.Conn, opener bool) {
			hc := &hconn{p: p, nc: nc, out: make(chan frame, 64)}
			mu.Lock()
			p.conns = append(p.conns, hc)
			allConns = append(allConns, hc)
			mu.Unlock()
			go hc.run(opener, mi)
		}
		vnet.Register(host, func(addr string, _ time.Duration) (net.Conn, error) {
			mu.Lock()
			var tgt *hpeer
			for _, p := range peers {
				if addr == fmt.Sprintf("%s:%d", host, p.port) {
					tgt = p
				}
			}
			ok := tgt != nil && tgt.joined && !tgt.left
			if !ok {
				refused++
			}
			mu.Unlock()
			if !ok {
				return nil, errors.New("connection refused")
			}
			local, remote := net.Pipe()
			newConn(tgt, remote, false)
			return local, nil
		})
		defer vnet.Unregister(host)

		tr := &tracker{c: c}
		tr.answer = func(k int) ([]*core.PeerInfo, error) {
			mu.Lock()
			canFail := !fair && faultsLeft > 0
			mu.Unlock()
			if canFail && c.Choose(2, "tracker answer: 0=handout 1=error") == 1 {
				mu.Lock()
				faultsLeft--
				failedAnnounces++
				mu.Unlock()
				return nil, errors.New("tracker unavailable")
			}
			mu.Lock()
			defer mu.Unlock()
			announces++
			var out []*core.PeerInfo
			for _, p := range arrival {
				out = append(out, core.NewPeerInfo(p.id, host, p.port, false, p.seeder))
			}
			if aAnnounced {
				out = append(out, core.NewPeerInfo(aID, host, 99, false, false)) // a tracker may return the requester
			}
			aAnnounced = true
			return out, nil
		}

		cfg := scheduler.Config{
			SeederTTI: 10 * time.Minute, LeecherTTI: 10 * time.Minute, ConnTTI: connTTI, DisablePreemption: true,
			ConnState:  connstate.Config{MaxOpenConnectionsPerTorrent: cf.maxConn},
			Conn:       conn.ConfigFixture(),
			TorrentLog: klog.Config{Disable: true}, Log: klog.Config{Disable: true},
		}
		pctx := core.PeerContext{PeerID: aID, Zone: "z", IP: host, Port: 99}
		v, err := scheduler.C19New(cfg, ta, pctx, clock.New(), c.Park, tr, "A", nameOf)
		if err != nil {
			return "", "HARNESS: " + err.Error()
		}

		returned, result := false, error(nil)
		go func() {
			err := v.Download("ns", dg)
			mu.Lock()
			returned, result = true, err
			mu.Unlock()
		}()
		done := func() bool { mu.Lock(); defer mu.Unlock(); return returned }

		known := func() bool { mu.Lock(); defer mu.Unlock(); return aAnnounced }
		dial := func(p *hpeer) {
			// a leecher got A from the tracker and opens a connection to it
			p.dialled = true
			local, remote := net.Pipe()
			newConn(p, remote, true)
			go v.Incoming(local)
		}
		join := func(p *hpeer) {
			mu.Lock()
			p.joined = true
			arrival = append(arrival, p)
			mu.Unlock()
			if !p.seeder && known() {
				dial(p)
			}
		}
		leave := func(p *hpeer) {
			mu.Lock()
			p.left = true
			cs := append([]*hconn{}, p.conns...)
			mu.Unlock()
			for _, hc := range cs {
				hc.nc.Close()
			}
		}
		servable := func() []*hconn {
			mu.Lock()
			defer mu.Unlock()
			var out []*hconn
			for _, hc := range allConns {
				if !hc.isClosed() && len(hc.pending()) > 0 {
					out = append(out, hc)
				}
			}
			return out
		}
		served := 0
		serve := func(hc *hconn) {
			hc.mu.Lock()
			if hc.closed || len(hc.reqs) == 0 {
				hc.mu.Unlock()
				return
			}
			k := hc.reqs[0]
			hc.reqs = hc.reqs[1:]
			hc.mu.Unlock()
			pb := pieceBytes(k)
			served++
			hc.out <- frame{conn.NewPiecePayloadMessage(k, piecereader.NewBuffer(pb)).Message, pb}
		}

		ticks, preempts := 0, 0
		prefixEnded := false
		satAtResult := 0 // announce answers applied while every slot was taken (vacuity counter)
		wasSaturated := false
		actions := func() []e1q.Action {
			if n := len(c.Trace); n > 0 && strings.HasPrefix(c.Trace[n-1], "A: announceResultEvent") && wasSaturated {
				satAtResult++
			}
			wasSaturated = v.Saturated(mi.InfoHash())
			var a []e1q.Action
			if ticks < cf.ticks {
				a = append(a, e1q.Action{Label: "announce interval elapses: announce tick", Run: func() {
					ticks++
					e1q.Sleep(announceInterval)
					go v.SendAnnounceTick()
				}})
			}
			for _, p := range peers {
				p := p
				if !p.joined {
					what := " joins"
					if !p.seeder && known() {
						what = " joins and opens a connection to A"
					}
					a = append(a, e1q.Action{Label: p.name + what, Run: func() { join(p) }})
				} else if !p.seeder && !p.dialled && !p.left && known() {
					// it joined before A's first announce and learns about A now
					a = append(a, e1q.Action{Label: p.name + " opens a connection to A", Run: func() { dial(p) }})
				}
			}
			for _, hc := range servable() {
				hc := hc
				a = append(a, e1q.Action{Label: fmt.Sprintf("%s serves piece %d", hc.p.name, hc.pending()[0]), Run: func() { serve(hc) }})
			}
			var leaves []e1q.Action
			for _, p := range peers {
				p := p
				if p.joined && !p.left && !p.stays {
					leaves = append(leaves, e1q.Action{Label: p.name + " leaves", Run: func() { leave(p) }})
				}
			}
			if len(leaves) > 0 && len(a) == 0 && len(c.Pending()) == 0 {
				// nothing else can happen: by default the remaining peers STAY for good (a
				// leecher then keeps its slot of A until A preempts the idle conn); a
				// departure is a deviation
				a = append(a, e1q.Action{Label: "the remaining peers stay", Run: func() { prefixEnded = true }})
			}
			a = append(a, leaves...)
			if preempts < cf.preempts && v.NumActive() > 0 {
				a = append(a, e1q.Action{Label: "ConnTTI passes: preemption tick", Run: func() {
					preempts++
					e1q.Sleep(connTTI + time.Second)
					go v.SendPreemptionTick()
				}})
			}
			return a
		}
		for !done() && !prefixEnded && c.Step(actions) {
		}
		c.Wait()
		prefixDone := done()

		// fair continuation
		mu.Lock()
		fair = true
		mu.Unlock()
		settle := func() {
			for {
				c.Drain()
				s := servable()
				if len(s) == 0 {
					return
				}
				serve(s[0])
			}
		}
		rounds := 0
		if !peers[0].joined {
			join(peers[0])
		}
		settle()
		for ; rounds < fairRounds && !done(); rounds++ {
			e1q.Sleep(announceInterval)
			go v.SendAnnounceTick()
			settle()
			if rounds%6 == 5 {
				go v.SendPreemptionTick()
				settle()
			}
		}

		// oracle
		var vio []string
		mu.Lock()
		ret, res := returned, result
		mu.Unlock()
		cached := "absent"
		if r, rerr := cads.Cache().GetFileReader(dg.Hex()); rerr == nil {
			b, _ := io.ReadAll(r)
			r.Close()
			cached = "blob"
			if !bytes.Equal(b, blob) {
				cached = "wrong"
			}
		}
		outcome := "ok"
		switch {
		case cached == "wrong":
			vio = append(vio, "the agent committed bytes that differ from the blob")
			outcome = "wrong bytes"
		case !ret:
			vio = append(vio, fmt.Sprintf("the agent's download never completes although a seeder stays reachable and is handed out on every announce (Download still waiting after %d s of fair virtual time)", fairRounds*int(announceInterval/time.Second)))
			outcome = "stuck"
		case res != nil:
			vio = append(vio, "the agent's download fails although a seeder stays reachable: "+res.Error())
			outcome = "error"
		case cached != "blob":
			vio = append(vio, "Download returned success but the blob is not in the agent's cache")
			outcome = "no blob"
		}
		if p := v.Loop.DidPanic(); p != "" {
			vio = append(vio, "event loop panicked while applying "+p)
		}

		// teardown
		go v.SendShutdown()
		c.Drain()
		mu.Lock()
		cs := append([]*hconn{}, allConns...)
		mu.Unlock()
		for _, hc := range cs {
			hc.nc.Close()
			close(hc.out)
		}
		c.Drain()
		c.Wait()

		if os.Getenv("C19_TRACE") != "" {
			fmt.Fprintln(os.Stderr, cf.name, "::", strings.Join(c.Trace, " | "), "=>", outcome, rounds)
		}
		// outcome class: how the download ended and which mechanisms the execution exercised
		b2 := func(b bool) int {
			if b {
				return 1
			}
			return 0
		}
		left := 0
		for _, p := range peers {
			left += b2(p.left)
		}
		obs := fmt.Sprintf("%s inPrefix=%d fairRounds=%s saturatedAnswer=%d refusedDial=%d announceErr=%d left=%d",
			outcome, b2(prefixDone), bucket(rounds), b2(satAtResult > 0), b2(refused > 0), failedAnnounces, left)
		return obs, strings.Join(vio, "; ")
	})
	h.TolerateDivergence = true
	return h
}

func bucket(r int) string {
	switch {
	case r == 0:
		return "0"
	case r <= 2:
		return "1-2"
	case r <= 8:
		return "3-8"
	case r <= 16:
		return "9-16"
	}
	return ">16"
}

func swarmConfigs(thorough bool) []swarmCfg {
	L, L2, P := peerSpec{name: "L"}, peerSpec{name: "L2"}, peerSpec{name: "P", seeder: true}
	if !thorough {
		return []swarmCfg{
			{name: "scheduler swarm: limit 1, S + leecher L, 2 pieces", maxConn: 1, blob: "abc", pieceLen: 2, others: []peerSpec{L}, ticks: 2, faults: 1, bound: 2},
			{name: "scheduler swarm: limit 1, S + leaving seeder P, 2 pieces", maxConn: 1, blob: "abc", pieceLen: 2, others: []peerSpec{P}, ticks: 2, faults: 1, bound: 2},
			{name: "scheduler swarm: limit 2, S + leechers L and L2, 1 piece", maxConn: 2, blob: "ab", pieceLen: 2, others: []peerSpec{L, L2}, ticks: 2, bound: 2},
			{name: "scheduler swarm: limit 2, S + leecher L + leaving seeder P, 2 pieces", maxConn: 2, blob: "abc", pieceLen: 2, others: []peerSpec{L, P}, ticks: 2, bound: 2},
		}
	}
	return []swarmCfg{
		{name: "scheduler swarm: limit 1, S + leecher L, 2 pieces", maxConn: 1, blob: "abc", pieceLen: 2, others: []peerSpec{L}, ticks: 2, faults: 1, preempts: 1, bound: 3},
		{name: "scheduler swarm: limit 1, S + leaving seeder P, 2 pieces", maxConn: 1, blob: "abc", pieceLen: 2, others: []peerSpec{P}, ticks: 2, faults: 1, preempts: 1, bound: 3},
		{name: "scheduler swarm: limit 1, S + leecher L + leaving seeder P, 2 pieces", maxConn: 1, blob: "abc", pieceLen: 2, others: []peerSpec{L, P}, ticks: 2, bound: 3},
		{name: "scheduler swarm: limit 2, S + leechers L and L2, 1 piece", maxConn: 2, blob: "ab", pieceLen: 2, others: []peerSpec{L, L2}, ticks: 2, bound: 3},
		{name: "scheduler swarm: limit 2, S + leecher L + leaving seeder P, 3 pieces", maxConn: 2, blob: "abcde", pieceLen: 2, others: []peerSpec{L, P}, ticks: 2, faults: 1, bound: 3},
	}
}
