//go:build go1.25

// C31, part 4 (engine E1q): write-back EXECUTIONS of one task that overlap each
// other and the deletion paths, with a backend whose Upload hangs and then
// succeeds or fails.
//
// Parts 1-3 run every write-back execution (a worker's run of a pending task,
// forced cleanup's SyncExec) as one atomic step against a backend that answers
// at once. Here the start state is "blob acknowledged, write-back task pending,
// persist flag set" and every backend Upload is a seam: the call PARKS after
// the source was read ("the upload is in flight") and the explorer decides when
// it returns and whether it stored the blob or failed without effect. Actions:
// a manager worker starts an execution of a pending task (real
// writeback.Executor.Exec; success removes the task, failure keeps it for a
// retry; one worker holds a task at a time, a later run is the retry), POST
// /forcecleanup?ttl_hr=0 on the real Server (its Find / SyncExec go to the
// manager seam; every in-place attempt of SyncExec parks before it calls the
// real Exec, as the real manager's back-off separates them), and one "advance
// 3 h + periodic cleanup pass" (real cleanup job body). EVERY order of these
// actions and parked seams with every Upload outcome is executed.
package main

import (
	"errors"
	"fmt"
	"net/http/httptest"
	"os"
	"regexp"
	"runtime"
	"sort"
	"strings"
	"sync"
	"time"

	"github.com/uber/kraken/lib/persistedretry"
	"github.com/uber/kraken/lib/persistedretry/writeback"

	"verif/bfs"
	"verif/e1q"
	"verif/evid"
	"verif/vrt"
)

type wscenario struct {
	label        string
	slots        []slotSpec // whole uploads of the start state (one acknowledged blob + pending task each)
	maxRuns      int        // worker executions in total
	maxFC        int        // forced cleanups (one at a time)
	syncAttempts int        // in-place attempts of one SyncExec (real manager default: 3)
	cleanup      bool       // one "advance 3 h + cleanup pass"
	bound        int        // deviation bound; >= decision points of any execution = every order
}

func (sc wscenario) name() string { return "overlap: " + sc.label }

func wscenarios(thorough bool) []wscenario {
	a := slotSpec{"a1", "nsa", "A"}
	b := slotSpec{"b", "nsa", "B"}
	scs := []wscenario{
		{"1 blob, 2 worker runs, 1 forced cleanup (2 attempts), cleanup pass", []slotSpec{a}, 2, 1, 2, true, 64},
	}
	if thorough {
		scs = append(scs,
			wscenario{"1 blob, 3 worker runs, 1 forced cleanup (2 attempts), cleanup pass", []slotSpec{a}, 3, 1, 2, true, wbound()},
			wscenario{"1 blob, 2 worker runs, 1 forced cleanup (3 attempts)", []slotSpec{a}, 2, 1, 3, false, wbound()},
			wscenario{"1 blob, 2 worker runs, 2 forced cleanups (2 attempts)", []slotSpec{a}, 2, 2, 2, false, wbound()},
			wscenario{"2 blobs, 2 worker runs, 1 forced cleanup (1 attempt)", []slotSpec{a, b}, 2, 1, 1, false, wbound()},
		)
	}
	return scs
}

func wbound() int {
	b := 64
	if v := os.Getenv("C31_WBOUND"); v != "" { // development knob
		fmt.Sscanf(v, "%d", &b)
	}
	return b
}

func (sc wscenario) config() config {
	return config{name: sc.name(), capacity: 1 << 20, maxActions: 99, namespaces: []string{"nsa"}, slots: sc.slots}
}

// ---------------------------------------------------------------- world

type wactor struct {
	name   string // "worker#1(nsa@A)", "forcecleanup#1"
	worker bool
	task   taskID
	done   bool
	seen   bool // its result was collected
	ok     bool // worker: Exec succeeded and the task was removed
	err    error
	rec    *httptest.ResponseRecorder
	result string
}

type wworld struct {
	c  *e1q.Ctl
	sc wscenario
	s  *sys

	mu      sync.Mutex
	byGoid  map[int64]*wactor
	actors  []*wactor
	closing bool // closing phase: the backend answers at once

	runs, fcs   int
	cleanupUsed bool

	parkedUploads map[*wactor]int // uploads in flight, by caller
	// vacuity / outcome flags
	twoUploads               bool // two Uploads were in flight together
	fcExecUnderUpload        bool // a SyncExec attempt of forced cleanup entered Exec while a worker's Upload of the same task was in flight
	failedUnderFC            bool // ... and that worker's Upload then failed
	okUnderFC                bool // ... and that worker's Upload then succeeded
	runUnderFCUpload         bool // a worker run started while forced cleanup's own Upload was in flight
	retryRun                 bool // a worker ran a task again after a failed run
	uploadsOK, uploadsFailed int
	fcDeleted, fcKept        bool
	cleanupDeleted           bool
	underFC                  map[*wactor]bool
	vio                      string
	vioTrace                 string // the order up to the quiescent point at which the oracle failed
}

var errHang = errors.New("backend upload failed after hanging (injected)")
var errTornDown = errors.New("execution torn down by the harness")

func (w *wworld) tornDown() bool {
	w.mu.Lock()
	defer w.mu.Unlock()
	return w.closing
}

func curGoid() int64 {
	var buf [64]byte
	n := runtime.Stack(buf[:], false)
	var id int64
	for _, ch := range buf[len("goroutine "):n] {
		if ch < '0' || ch > '9' {
			break
		}
		id = id*10 + int64(ch-'0')
	}
	return id
}

func (w *wworld) me() *wactor {
	w.mu.Lock()
	defer w.mu.Unlock()
	return w.byGoid[curGoid()]
}

func (w *wworld) violate(msg string) {
	w.mu.Lock()
	if w.vio == "" {
		w.vio = msg
		w.vioTrace = strings.Join(w.c.Trace, "; ")
	}
	w.mu.Unlock()
}

func (w *wworld) violated() bool {
	w.mu.Lock()
	defer w.mu.Unlock()
	return w.vio != ""
}

// uploadHook is the backend seam: the Upload hangs, then the explorer chooses
// whether it stored the blob (nil) or failed without effect.
func (w *wworld) uploadHook(id, name string) error {
	w.mu.Lock()
	if w.closing {
		w.mu.Unlock()
		return nil
	}
	a := w.byGoid[curGoid()]
	who := "a goroutine the harness did not start"
	if a != nil {
		who = a.name
	}
	w.parkedUploads[a]++
	if len(w.parkedUploads) > 1 || w.parkedUploads[a] > 1 {
		w.twoUploads = true
	}
	w.mu.Unlock()
	w.c.Park(fmt.Sprintf("Upload(%s,%s) by %s returns", id, labelOfHex(name), who))
	if w.tornDown() {
		return errTornDown // (only after a violation ended the order: no further decision point)
	}
	fail := w.c.Choose(2, "outcome of the Upload by "+who) == 1
	w.mu.Lock()
	defer w.mu.Unlock()
	if w.parkedUploads[a]--; w.parkedUploads[a] <= 0 {
		delete(w.parkedUploads, a)
	}
	under := w.underFC[a]
	delete(w.underFC, a)
	if fail {
		w.uploadsFailed++
		if under {
			w.failedUnderFC = true
		}
		return errHang
	}
	w.uploadsOK++
	if under {
		w.okUnderFC = true
	}
	return nil
}

// overlapWB is the persistedretry.Manager the server gets in part 4: the
// durable seam of part 1 with a SyncExec that makes up to syncAttempts
// in-place attempts of the real Exec and parks before each.
type overlapWB struct {
	*fakeWB
	w *wworld
}

func (m *overlapWB) SyncExec(t persistedretry.Task) error {
	wt, ok := t.(*writeback.Task)
	if !ok {
		return fmt.Errorf("overlapWB.SyncExec: %T", t)
	}
	w := m.w
	who := "a goroutine the harness did not start"
	if a := w.me(); a != nil {
		who = a.name
	}
	var err error
	for i := 1; i <= w.sc.syncAttempts; i++ {
		w.c.Park(fmt.Sprintf("SyncExec(%s,%s) of %s: attempt %d calls Exec", wt.Namespace, labelOfHex(wt.Name), who, i))
		if w.tornDown() {
			return errTornDown
		}
		w.mu.Lock()
		for a := range w.parkedUploads {
			if a != nil && a.worker && a.task.ns == wt.Namespace && a.task.name == wt.Name {
				w.fcExecUnderUpload = true
				w.underFC[a] = true
			}
		}
		w.mu.Unlock()
		if err = m.exec.Exec(t); err == nil {
			return nil
		}
	}
	return fmt.Errorf("sync task failed: %w", err)
}

func (w *wworld) start(a *wactor, f func()) {
	w.mu.Lock()
	w.actors = append(w.actors, a)
	w.mu.Unlock()
	go func() {
		id := curGoid()
		w.mu.Lock()
		w.byGoid[id] = a
		w.mu.Unlock()
		f()
		w.mu.Lock()
		a.done = true
		delete(w.byGoid, id)
		w.mu.Unlock()
	}()
}

func (w *wworld) cached(label string) bool {
	_, err := os.Stat(w.s.dataPath(blobs[label]))
	return err == nil
}

func (w *wworld) anyCached() bool {
	for _, sl := range w.sc.slots {
		if w.cached(sl.blob) {
			return true
		}
	}
	return false
}

var numRe = regexp.MustCompile(`#\d+|attempt \d+ |\([a-z]+@[A-Z]\)|\([a-z]+,[A-Z]\)`)

// stepClass names the kind of the step a violation was observed after (for the
// fingerprint: no run / attempt numbers, no task names).
func stepClass(label string) string {
	if x := strings.TrimPrefix(label, "outcome of the Upload by "); x != label {
		label = "Upload by " + strings.TrimSuffix(x, "=1") + " fails"
	}
	return strings.Join(strings.Fields(numRe.ReplaceAllString(label, "")), " ")
}

// collect runs on the explorer goroutine at a quiescent point: results that
// have arrived are read, then the statement is evaluated.
func (w *wworld) collect(last string) {
	w.mu.Lock()
	actors := append([]*wactor(nil), w.actors...)
	w.mu.Unlock()
	for _, a := range actors {
		w.mu.Lock()
		done := a.done
		w.mu.Unlock()
		if !done || a.seen {
			continue
		}
		a.seen = true
		switch {
		case a.worker && a.err != nil:
			w.violate("HARNESS: " + a.name + ": " + a.err.Error())
		case a.worker && a.ok:
			a.result = "ok"
		case a.worker:
			a.result = "failed"
		case a.rec.Code != 200:
			w.violate(fmt.Sprintf("HARNESS: %s answered %d: %s", a.name, a.rec.Code, a.rec.Body.String()))
		case strings.Contains(a.rec.Body.String(), `"deleted":["`):
			a.result, w.fcDeleted = "deleted", true
		default:
			a.result, w.fcKept = "kept", true
		}
	}
	w.oracle(last)
}

// oracle, at every quiescent point (the clauses of part 3, unchanged):
//  1. an acknowledged upload is in the backend of its namespace or a durable
//     write-back task for (namespace, blob) is recorded;
//  2. the local copy of an acknowledged blob is absent only if the backend of
//     its namespace holds it (sys.safety of part 1).
func (w *wworld) oracle(last string) {
	w.mu.Lock()
	v := w.vio
	w.mu.Unlock()
	if v != "" {
		return
	}
	s := w.s
	ts, err := s.wb.pending()
	if err != nil {
		w.violate("HARNESS: " + err.Error())
		return
	}
	for _, k := range ackedKeys(s.e) {
		x := strings.SplitN(k, "/", 2)
		ns, b := x[0], blobs[x[1]]
		if s.e.has(ns, b.d.Hex(), b.data) {
			continue
		}
		found := false
		for _, t := range ts {
			if t.ns == ns && t.name == b.d.Hex() {
				found = true
			}
		}
		if !found {
			w.violate(fmt.Sprintf("overlap: write-back task of an acknowledged upload removed although the backend of its namespace does not hold the blob (ack: %s)\nblob %s acknowledged for namespace %s; recorded tasks: %v", s.e.acked[k], b.label, ns, fmtTasks(ts)))
			return
		}
	}
	when := "with overlapping write-back executions"
	if last != "" {
		when += ", after: " + stepClass(last)
	}
	if err := s.safety(when); err != nil {
		w.failed(err)
	}
}

func (w *wworld) failed(err error) {
	if f, ok := err.(*bfs.Fail); ok {
		w.violate("overlap: " + f.Fingerprint + "\n" + f.Msg)
		return
	}
	w.violate("HARNESS: " + err.Error())
}

// actions: the harness actions enabled at this quiescent point.
func (w *wworld) actions() []e1q.Action {
	last := ""
	if n := len(w.c.Trace); n > 0 {
		last = w.c.Trace[n-1]
	}
	w.collect(last)
	w.mu.Lock()
	v := w.vio
	w.mu.Unlock()
	if v != "" {
		return nil
	}
	s := w.s
	var as []e1q.Action
	ts, err := s.wb.pending()
	if err != nil {
		w.violate("HARNESS: " + err.Error())
		return nil
	}
	fcBusy := false
	for _, a := range w.actors {
		if !a.worker && !a.seen {
			fcBusy = true
		}
	}
	if w.runs < w.sc.maxRuns {
		for _, t := range ts {
			t := t
			held, ranBefore := false, false
			for _, a := range w.actors {
				if a.worker && a.task == t {
					if a.seen {
						ranBefore = true
					} else {
						held = true
					}
				}
			}
			if held { // one worker holds a task at a time
				continue
			}
			as = append(as, e1q.Action{Label: fmt.Sprintf("worker starts run #%d of task (%s,%s)", w.runs+1, t.ns, labelOfHex(t.name)), Run: func() {
				w.runs++
				if ranBefore {
					w.retryRun = true
				}
				w.mu.Lock()
				for a := range w.parkedUploads {
					if a != nil && !a.worker {
						w.runUnderFCUpload = true
					}
				}
				w.mu.Unlock()
				a := &wactor{name: fmt.Sprintf("worker#%d(%s@%s)", w.runs, t.ns, labelOfHex(t.name)), worker: true, task: t}
				wb := s.wb
				w.start(a, func() { a.ok, a.err = wb.run(t) })
			}})
		}
	}
	if w.fcs < w.sc.maxFC && !fcBusy && w.anyCached() {
		h := s.h
		as = append(as, e1q.Action{Label: fmt.Sprintf("forcecleanup #%d ttl 0", w.fcs+1), Run: func() {
			w.fcs++
			a := &wactor{name: fmt.Sprintf("forcecleanup#%d", w.fcs)}
			w.start(a, func() { a.rec = doOn(h, "POST", "/forcecleanup?ttl_hr=0", nil, nil) })
		}})
	}
	if w.sc.cleanup && !w.cleanupUsed && w.anyCached() {
		as = append(as, e1q.Action{Label: "advance 3 h + periodic cleanup pass", Run: func() {
			w.cleanupUsed = true
			before := w.anyCached()
			s.e.clk.Add(2 * step)
			if err := s.cleanupPass(); err != nil {
				w.violate("HARNESS: cleanup pass: " + err.Error())
			}
			if before && !w.anyCached() {
				w.cleanupDeleted = true
			}
		}})
	}
	return as
}

// ---------------------------------------------------------------- one execution

func wbody(sc wscenario) func(c *e1q.Ctl) (string, string) {
	return func(c *e1q.Ctl) (obs, vio string) {
		dir, err := os.MkdirTemp("", "c31w-")
		if err != nil {
			return "", "HARNESS: " + err.Error()
		}
		defer os.RemoveAll(dir)
		st, err := os.Stat(dir)
		if err != nil {
			return "", "HARNESS: " + err.Error()
		}
		w := &wworld{c: c, sc: sc, byGoid: map[int64]*wactor{}, parkedUploads: map[*wactor]int{}, underFC: map[*wactor]bool{}}
		e := newExt(dir, false)
		e.clk.Set(st.ModTime().Add(time.Minute)) // as in part 3: mock clock anchored to the file system's clock
		e.uploadHook = w.uploadHook
		s := &sys{cfg: sc.config(), dir: dir, e: e}
		s.wrapWB = func(inner *fakeWB) persistedretry.Manager { return &overlapWB{fakeWB: inner, w: w} }
		for _, sp := range s.cfg.slots {
			s.slots = append(s.slots, &slot{slotSpec: sp})
		}
		for _, d := range []string{"wbtasks", "probe"} {
			if err := os.MkdirAll(dir+"/"+d, 0o775); err != nil {
				return "", "HARNESS: " + err.Error()
			}
		}
		if err := s.open(); err != nil {
			return "", "HARNESS: " + err.Error()
		}
		w.s = s
		// start state: every blob of the scenario uploaded and acknowledged
		// (sequentially, as in part 1), its write-back task pending
		for _, sl := range s.slots {
			if err := s.Apply("upload:" + sl.label); err != nil {
				s.Close()
				return "", "HARNESS: start state: " + err.Error()
			}
			if _, ok := e.acked[sl.ns+"/"+sl.blob]; !ok {
				s.Close()
				return "", "HARNESS: start state: upload of " + sl.label + " not acknowledged"
			}
		}
		if ts, _ := s.wb.pending(); len(ts) != len(s.slots) {
			s.Close()
			return "", fmt.Sprintf("HARNESS: start state: %d tasks pending for %d acknowledged uploads", len(ts), len(s.slots))
		}

		for !w.violated() && c.Step(w.actions) {
		}
		w.collect("")
		// (statement, "eventually"): at the end of the order nothing is in flight,
		// so an execution that has not returned never will, and the worker / the
		// forced cleanup request it belongs to is stuck for good
		if w.vio == "" {
			for _, a := range w.actors {
				if !a.seen {
					w.violate("overlap: a write-back execution never returns although no backend call is in flight\n" + a.name + " is still blocked at the end of the order")
					break
				}
			}
		}
		w.mu.Lock()
		w.closing = true
		w.mu.Unlock()
		c.ReleaseAll()
		c.Wait()

		var parts []string
		for _, a := range w.actors {
			r := a.result
			if r == "" {
				r = "unfinished"
			}
			parts = append(parts, a.name+"="+r)
		}
		ts, _ := s.wb.pending()
		var be, ca []string
		for _, sl := range s.slots {
			if s.e.has(sl.ns, blobs[sl.blob].d.Hex(), blobs[sl.blob].data) {
				be = append(be, sl.blob)
			}
			if w.cached(sl.blob) {
				ca = append(ca, sl.blob)
			}
		}
		sort.Strings(be)
		sort.Strings(ca)
		obs = fmt.Sprintf("%s tasks=%s backend=%v cache=%v two-uploads-in-flight=%v fc-exec-under-worker-upload=%v worker-upload-failed-under-fc=%v worker-upload-ok-under-fc=%v run-under-fc-upload=%v retry-run=%v upload-failed=%v fc-deleted=%v fc-kept=%v cleanup-deleted=%v",
			strings.Join(parts, " "), fmtTasks(ts), be, ca, w.twoUploads, w.fcExecUnderUpload, w.failedUnderFC, w.okUnderFC, w.runUnderFCUpload, w.retryRun, w.uploadsFailed > 0, w.fcDeleted, w.fcKept, w.cleanupDeleted)

		// closing phase (statement, first half): the backend answers at once, every
		// pending task run by the real executor, time advanced, cleanup pass: the
		// backend holds every acknowledged blob.
		if w.vio == "" {
			if err := s.closing(); err != nil {
				w.failed(err)
			}
		}
		s.Close()
		if w.vio != "" {
			vio = w.vio + "\norder: " + w.vioTrace + "\nend (after teardown): " + obs
		}
		return obs, vio
	}
}

func wharness(sc wscenario) *vrt.Harness {
	return e1q.HarnessOpt(sc.name(), 64, false, wbody(sc))
}

func allWHarnesses() []*vrt.Harness {
	var hs []*vrt.Harness
	for _, sc := range wscenarios(true) {
		hs = append(hs, wharness(sc))
	}
	return hs
}

// ---------------------------------------------------------------- driver

var wmarkers = []string{"two-uploads-in-flight=true", "fc-exec-under-worker-upload=true", "worker-upload-failed-under-fc=true", "worker-upload-ok-under-fc=true", "run-under-fc-upload=true", "retry-run=true", "upload-failed=true", "fc-deleted=true", "fc-kept=true", "cleanup-deleted=true"}

// overlapStart starts the explorations of part 4 (side by side with part 3's,
// each scenario with its own worker processes) and returns the function that
// waits for them and reports.
func overlapStart(run *evid.Run, thorough bool) (report func()) {
	fp := func(v vrt.Violation) string {
		if strings.HasPrefix(v.Msg, "HARNESS:") {
			run.Fatal(fmt.Errorf("%s (harness %s, choices %v)", v.Msg, v.Harness, v.Choices))
		}
		return strings.TrimSpace(strings.SplitN(v.Msg, "\n", 2)[0])
	}
	budget := 120
	if thorough {
		budget = 300
	}
	if v := os.Getenv("C31_WBUDGET"); v != "" {
		fmt.Sscanf(v, "%d", &budget)
	}
	scs := wscenarios(thorough)
	hs := make([]*vrt.Harness, len(scs))
	results := make([]*vrt.Result, len(scs))
	for i, sc := range scs {
		hs[i] = serialized(wharness(sc))
		// determinism: the same choices give the same observation
		for _, ch := range [][]int{nil, {0, 1, 0, 1}, {1, 0, 1, 0, 1, 1}, {0, 1, 1, 0, 1, 0, 1}, {1, 1, 0, 0, 1, 1, 1, 0, 1}} {
			_, o1, _ := vrt.Replay(hs[i], ch)
			_, o2, _ := vrt.Replay(hs[i], ch)
			if o1 != o2 {
				run.Fatal(fmt.Errorf("non-deterministic replay in %s for %v: %q vs %q", hs[i].Name, ch, o1, o2))
			}
		}
	}
	var wg sync.WaitGroup
	for i, sc := range scs {
		i, sc := i, sc
		wg.Add(1)
		go func() {
			defer wg.Done()
			results[i] = vrt.ExploreSharded(hs[i], sc.bound, evid.Workers(), time.Duration(budget)*time.Second)
		}()
	}
	return func() {
		wg.Wait()
		overlapReport(run, scs, hs, results, fp)
	}
}

func overlapReport(run *evid.Run, scs []wscenario, hs []*vrt.Harness, results []*vrt.Result, fp func(v vrt.Violation) string) {
	need := map[string]int{}
	total := 0
	for i, sc := range scs {
		h, res := hs[i], results[i]
		reportVRT(run, h, sc.bound, res, fp)
		leaks := 0
		for k, n := range res.Outcomes {
			for _, m := range wmarkers {
				if strings.Contains(k, m) {
					need[m] += n
				}
			}
			if strings.Contains(k, "LEAK") {
				leaks += n
			}
		}
		total += res.Executions
		run.Set("overlap:"+sc.label, map[string]interface{}{"orders": res.Executions, "outcome_classes": len(res.Outcomes), "max_decision_points": res.MaxPoints, "completed": res.Completed, "deviation_bound": sc.bound, "executions_with_goroutines_left_blocked": leaks})
		fmt.Printf("  %s: orders=%d outcome classes=%d max decision points=%d bound=%d completed=%v\n", h.Name, res.Executions, len(res.Outcomes), res.MaxPoints, sc.bound, res.Completed)
	}
	exs := map[string]int{}
	for _, m := range wmarkers {
		exs[m] = need[m]
	}
	run.Set("overlap_orders", total)
	run.Set("overlap_orders_by_marker", exs)
	if run.NViolations() == 0 {
		for _, m := range wmarkers {
			if need[m] == 0 {
				run.Fatal(errors.New("overlap part vacuous: no order with " + m))
			}
		}
	}
}
