//go:build go1.25

// C31, part 3 (engine E1q): OVERLAPPING requests for one blob on the real origin
// handlers, with a write-back manager whose Add can be delayed, can fail and
// can be cut off by a restart.
//
// Parts 1 and 2 execute one request at a time: the task insert of writeBack is
// only ever seen complete (or at a crash point of a single request). Here every
// HTTP request of 2-3 uploading clients of the SAME blob (same or different
// namespace) runs on its own goroutine inside a testing/synctest bubble against
// the real blobserver.Server (Handler().ServeHTTP) over the real CAStore. The
// persisted-retry manager seam PARKS every Add ("the insert is in flight"); the
// explorer decides when it proceeds and whether it then records the task or
// fails without effect (task db unavailable). Harness actions: the next request
// of a client that has none outstanding (start / patch / commit, following the
// client protocol of origin/blobclient: a 409 ends the upload as a success),
// one POST /forcecleanup?ttl_hr=0 with the backend up or in an outage (only while the blob is in the cache) and one
// restart of the origin process (only while an Add is parked: requests in
// flight die unanswered, their Add never happens). With 2 clients EVERY order of
// the enabled actions and parked Adds, with every Add outcome, is executed; with
// 3 clients (thorough) every order with <= 4 non-default choices.
package main

import (
	"errors"
	"fmt"
	"net/http/httptest"
	"os"
	"runtime"
	"sort"
	"strings"
	"sync"
	"time"

	"github.com/uber/kraken/lib/persistedretry"
	"github.com/uber/kraken/lib/persistedretry/writeback"

	"verif/bfs"
	"verif/e1q"
	"verif/evid"
	"verif/vrt"
)

type cscenario struct {
	label   string
	twoNS   bool // the second client uploads the blob for another namespace (own backend)
	clients int
	bound   int // deviation bound (non-default choices); >= decision points of any execution = every order
}

func (sc cscenario) name() string { return "concurrent: " + sc.label }

func cscenarios(thorough bool) []cscenario {
	scs := []cscenario{
		{"2 clients, one namespace", false, 2, 64},
		{"2 clients, two namespaces", true, 2, 64},
	}
	if thorough {
		scs = append(scs,
			cscenario{"3 clients, one namespace", false, 3, cbound3()},
			cscenario{"3 clients, two namespaces", true, 3, cbound3()},
		)
	}
	return scs
}

func cbound3() int {
	b := 4
	if v := os.Getenv("C31_CBOUND3"); v != "" { // development knob
		fmt.Sscanf(v, "%d", &b)
	}
	return b
}

func (sc cscenario) config() config {
	c := config{capacity: 1 << 20, maxActions: 99, namespaces: []string{"nsa"}}
	second := "nsa"
	if sc.twoNS {
		c.namespaces = []string{"nsa", "nsb"}
		second = "nsb"
	}
	c.slots = []slotSpec{{"a1", "nsa", "A"}, {"a2", second, "A"}}
	if sc.clients > 2 {
		c.slots = append(c.slots, slotSpec{"a3", "nsa", "A"})
	}
	c.name = sc.name()
	return c
}

// ---------------------------------------------------------------- world

type cclient struct {
	sl     *slot
	busy   bool // a request is outstanding
	done   bool // the upload ended (acknowledged, refused, or the process died under it)
	result *httptest.ResponseRecorder
	kind   string // start | patch | commit (of the outstanding request)
	ended  string // how the upload ended (observation)
}

type cworld struct {
	c  *e1q.Ctl
	sc cscenario
	s  *sys

	mu  sync.Mutex
	gen int    // process generation (restart increments)
	cur string // the request whose goroutine runs now (one at a time between two quiescent points)

	clients   []*cclient
	fcUsed    bool
	fcBusy    bool
	fcResult  *httptest.ResponseRecorder
	restarted bool

	parkedAdds int
	// vacuity / outcome flags
	twoParked      bool // two Adds were in flight together
	ackWhileParked bool // an upload was acknowledged while another request's Add for the same blob was in flight
	addFailed      int
	addOK          int
	fcDeleted      bool
	fcKept         bool
	diedInAdd      int
	vio            string
}

var errTaskDB = errors.New("task db unavailable (injected)")

// parkWB is the persistedretry.Manager the server gets: Add parks, then the
// explorer chooses its outcome; everything else is the durable seam of part 1.
type parkWB struct {
	*fakeWB
	w   *cworld
	gen int
}

func (m *parkWB) Add(t persistedretry.Task) error {
	wt, ok := t.(*writeback.Task)
	if !ok {
		return fmt.Errorf("parkWB.Add: %T", t)
	}
	w := m.w
	w.mu.Lock()
	who := w.cur
	w.parkedAdds++
	if w.parkedAdds > 1 {
		w.twoParked = true
	}
	w.mu.Unlock()
	w.c.Park(fmt.Sprintf("Add(%s,%s) of %s proceeds", wt.Namespace, labelOfHex(wt.Name), who))
	w.mu.Lock()
	w.parkedAdds--
	dead := w.gen != m.gen
	if dead {
		w.diedInAdd++
	}
	w.cur = who
	w.mu.Unlock()
	if dead {
		// the process this request belonged to is gone: nothing after this point happens
		runtime.Goexit()
	}
	if w.c.Choose(2, "Add outcome of "+who) == 1 {
		w.mu.Lock()
		w.addFailed++
		w.mu.Unlock()
		return errTaskDB
	}
	w.mu.Lock()
	w.addOK++
	w.mu.Unlock()
	return m.fakeWB.Add(t)
}

func (w *cworld) violate(msg string) {
	if w.vio == "" {
		w.vio = msg
	}
}

func (w *cworld) failed(prefix string, err error) {
	if err == nil {
		return
	}
	if f, ok := err.(*bfs.Fail); ok {
		w.violate(prefix + f.Fingerprint + "\n" + f.Msg)
		return
	}
	w.violate("HARNESS: " + prefix + err.Error())
}

// collect runs on the explorer goroutine at a quiescent point: the uploading
// clients read the answers that have arrived, then the statement is evaluated.
func (w *cworld) collect() {
	s := w.s
	w.mu.Lock()
	parked := w.parkedAdds
	w.mu.Unlock()
	for _, cl := range w.clients {
		w.mu.Lock()
		rec := cl.result
		cl.result = nil
		w.mu.Unlock()
		if rec == nil {
			continue
		}
		cl.busy = false
		var err error
		switch cl.kind {
		case "start":
			err = s.startResp(cl.sl, rec)
		case "patch":
			err = s.patchResp(cl.sl, rec)
		case "commit":
			err = s.commitResp(cl.sl, rec)
		}
		if err != nil {
			// 5xx: the causes the harness provides are the injected Add failure
			// and a forced cleanup that removed the blob under the request
			switch {
			case rec.Code == 500 && strings.Contains(rec.Body.String(), errTaskDB.Error()):
				cl.sl.phase, cl.sl.uid = 0, ""
				cl.done, cl.ended = true, fmt.Sprintf("500(add failed)@%s", cl.kind)
			case rec.Code == 500 && w.fcUsed:
				cl.sl.phase, cl.sl.uid = 0, ""
				cl.done, cl.ended = true, fmt.Sprintf("500(blob removed)@%s", cl.kind)
			default:
				w.violate("HARNESS: " + cl.sl.label + " " + cl.kind + ": " + err.Error())
			}
			continue
		}
		if cl.sl.phase == 0 { // the upload ended: 2xx of the commit, 409 (both acknowledged), 404
			cl.done, cl.ended = true, fmt.Sprintf("%d@%s", rec.Code, cl.kind)
			if parked > 0 && (rec.Code == 409 || rec.Code/100 == 2) {
				w.ackWhileParked = true
			}
		}
	}
	w.mu.Lock()
	fc := w.fcResult
	w.fcResult = nil
	w.mu.Unlock()
	if fc != nil {
		w.fcBusy = false
		if fc.Code != 200 {
			w.violate(fmt.Sprintf("HARNESS: forcecleanup answered %d: %s", fc.Code, fc.Body.String()))
		} else if strings.Contains(fc.Body.String(), `"deleted":["`) {
			w.fcDeleted = true
		} else {
			w.fcKept = true
		}
	}
	w.oracle()
}

// oracle, at every quiescent point:
//  1. (statement, "eventually present in the backend ... despite restarts"): an
//     acknowledged upload is either already in the backend of its namespace or
//     a durable write-back task for (namespace, blob) is recorded - otherwise
//     nothing will ever write it back;
//  2. (statement, second half) the local copy of an acknowledged blob is absent
//     only if the backend of its namespace holds it (sys.safety of part 1).
func (w *cworld) oracle() {
	if w.vio != "" {
		return
	}
	s := w.s
	ts, err := s.wb.pending()
	if err != nil {
		w.violate("HARNESS: " + err.Error())
		return
	}
	for _, k := range ackedKeys(s.e) {
		x := strings.SplitN(k, "/", 2)
		ns, b := x[0], blobs[x[1]]
		if s.e.has(ns, b.d.Hex(), b.data) {
			continue
		}
		found := false
		for _, t := range ts {
			if t.ns == ns && t.name == b.d.Hex() {
				found = true
			}
		}
		if !found && os.Getenv("C31_NO_TASK_ORACLE") == "" { // development knob: statement-level clauses only
			w.violate(fmt.Sprintf("concurrent: upload acknowledged although no write-back task is recorded for it and its backend does not hold the blob (ack: %s)\nblob %s acknowledged for namespace %s; recorded tasks: %v", s.e.acked[k], b.label, ns, fmtTasks(ts)))
			return
		}
	}
	w.failed("concurrent: ", s.safety("with overlapping requests"))
}

func fmtTasks(ts []taskID) string {
	var out []string
	for _, t := range ts {
		out = append(out, t.ns+"@"+labelOfHex(t.name))
	}
	sort.Strings(out)
	return "[" + strings.Join(out, " ") + "]"
}

func (w *cworld) cachePresent() bool {
	_, err := os.Stat(w.s.dataPath(blobs["A"]))
	return err == nil
}

// actions: the harness actions enabled at this quiescent point.
func (w *cworld) actions() []e1q.Action {
	w.collect()
	if w.vio != "" {
		return nil // stop at the first violation; parked Adds are released by teardown
	}
	s := w.s
	var as []e1q.Action
	for i, cl := range w.clients {
		if cl.busy || cl.done {
			continue
		}
		if cl.sl.phase == 0 {
			// symmetry: clients of the same (namespace, blob) are interchangeable
			// until they start; a later one starts only after the earlier ones
			blocked := false
			for _, prev := range w.clients[:i] {
				if prev.sl.ns == cl.sl.ns && prev.sl.phase == 0 && !prev.busy && !prev.done {
					blocked = true
				}
			}
			if blocked {
				continue
			}
		}
		cl := cl
		var kind string
		var req func() *httptest.ResponseRecorder
		switch cl.sl.phase {
		case 0:
			kind, req = "start", s.startReq(cl.sl)
		case 1:
			kind, req = "patch", s.patchReq(cl.sl)
		case 2:
			kind, req = "commit", s.commitReq(cl.sl)
		}
		as = append(as, e1q.Action{Label: cl.sl.label + ":" + kind, Run: func() {
			cl.busy, cl.kind = true, kind
			w.mu.Lock()
			w.cur = cl.sl.label + ":" + kind
			w.mu.Unlock()
			go func() {
				rec := req()
				w.mu.Lock()
				cl.result = rec
				w.mu.Unlock()
			}()
		}})
	}
	if !w.fcUsed && w.cachePresent() {
		// the backend is only consulted by the forced cleanup's SyncExec during
		// this phase: its state is an alternative of that action
		for _, down := range []bool{false, true} {
			h, down := s.h, down
			label := "forcecleanup ttl 0, backend up"
			if down {
				label = "forcecleanup ttl 0, backend outage"
			}
			as = append(as, e1q.Action{Label: label, Run: func() {
				w.fcUsed, w.fcBusy = true, true
				w.mu.Lock()
				w.cur = "forcecleanup"
				w.mu.Unlock()
				s.e.mu.Lock()
				s.e.down = down
				s.e.mu.Unlock()
				go func() {
					rec := doOn(h, "POST", "/forcecleanup?ttl_hr=0", nil, nil)
					w.mu.Lock()
					w.fcResult = rec
					w.mu.Unlock()
				}()
			}})
		}
	}
	w.mu.Lock()
	parked := w.parkedAdds
	w.mu.Unlock()
	if !w.restarted && parked > 0 {
		as = append(as, e1q.Action{Label: "restart (requests in flight die)", Run: func() {
			w.restarted = true
			w.mu.Lock()
			w.gen++
			w.mu.Unlock()
			for _, cl := range w.clients {
				if cl.busy {
					cl.busy, cl.done, cl.ended = false, true, "died@"+cl.kind
					cl.sl.phase, cl.sl.uid = 0, ""
				}
			}
			w.fcBusy = false
			w.c.ReleaseAll() // every parked Add sees the new generation and exits its goroutine
			w.c.Wait()
			if err := s.restart(); err != nil {
				w.violate("HARNESS: restart: " + err.Error())
			}
		}})
	}
	return as
}

// ---------------------------------------------------------------- one execution

func cbody(sc cscenario) func(c *e1q.Ctl) (string, string) {
	return func(c *e1q.Ctl) (obs, vio string) {
		dir, err := os.MkdirTemp("", "c31c-")
		if err != nil {
			return "", "HARNESS: " + err.Error()
		}
		defer os.RemoveAll(dir)
		st, err := os.Stat(dir)
		if err != nil {
			return "", "HARNESS: " + err.Error()
		}
		w := &cworld{c: c, sc: sc}
		e := newExt(dir, false)
		// inside the bubble time.Now() is virtual, file mtimes are not: anchor the
		// mock clock to the file system's clock (1 min ahead, as in part 1)
		e.clk.Set(st.ModTime().Add(time.Minute))
		s := &sys{cfg: sc.config(), dir: dir, e: e}
		s.wrapWB = func(inner *fakeWB) persistedretry.Manager {
			w.mu.Lock()
			defer w.mu.Unlock()
			return &parkWB{fakeWB: inner, w: w, gen: w.gen}
		}
		for _, sp := range s.cfg.slots {
			s.slots = append(s.slots, &slot{slotSpec: sp})
		}
		for _, d := range []string{"wbtasks", "probe"} {
			if err := os.MkdirAll(dir+"/"+d, 0o775); err != nil {
				return "", "HARNESS: " + err.Error()
			}
		}
		if err := s.open(); err != nil {
			return "", "HARNESS: " + err.Error()
		}
		w.s = s
		for _, sl := range s.slots {
			w.clients = append(w.clients, &cclient{sl: sl})
		}
		for c.Step(w.actions) {
		}
		w.collect()
		// teardown of the concurrent phase: whatever is still parked belongs to a
		// finished execution (only after a violation stopped it)
		w.mu.Lock()
		w.gen++
		w.mu.Unlock()
		c.ReleaseAll()
		c.Wait()

		var parts []string
		for _, cl := range w.clients {
			end := cl.ended
			if end == "" {
				end = "unfinished"
				if w.vio == "" {
					w.violate("HARNESS: client " + cl.sl.label + " did not finish its upload")
				}
			}
			parts = append(parts, cl.sl.label+"="+end)
		}
		ts, _ := s.wb.pending()
		var be []string
		for _, ns := range s.cfg.namespaces {
			if s.e.has(ns, blobs["A"].d.Hex(), blobs["A"].data) {
				be = append(be, ns)
			}
		}
		obs = fmt.Sprintf("%s acked=%v tasks=%s backend=%v cache=%v two-adds-in-flight=%v ack-while-add-in-flight=%v add-failed=%v fc-deleted=%v fc-kept=%v restarted=%v",
			strings.Join(parts, " "), ackedKeys(s.e), fmtTasks(ts), be, w.cachePresent(), w.twoParked, w.ackWhileParked, w.addFailed > 0, w.fcDeleted, w.fcKept, w.restarted)

		// closing phase (statement, first half): backend up, every pending task
		// run by the real executor, time advanced, cleanup pass: the backend of
		// its namespace holds every acknowledged blob.
		if w.vio == "" {
			w.failed("concurrent: ", s.closing())
		}
		s.Close()
		if w.vio != "" {
			vio = w.vio + "\norder: " + strings.Join(c.Trace, "; ") + "\nend: " + obs
		}
		return obs, vio
	}
}

func charness(sc cscenario) *vrt.Harness {
	return e1q.HarnessOpt(sc.name(), 64, false, cbody(sc))
}

func allCHarnesses() []*vrt.Harness {
	var hs []*vrt.Harness
	for _, sc := range cscenarios(true) {
		hs = append(hs, charness(sc))
	}
	return hs
}

// ---------------------------------------------------------------- driver

var cmarkers = []string{"two-adds-in-flight=true", "ack-while-add-in-flight=true", "add-failed=true", "fc-deleted=true", "fc-kept=true", "restarted=true", "500(add failed)@", "409@start", "409@patch", "409@commit", "20"}

func concurrentPart(run *evid.Run, thorough bool) {
	fp := func(v vrt.Violation) string {
		if strings.HasPrefix(v.Msg, "HARNESS:") {
			run.Fatal(fmt.Errorf("%s (harness %s, choices %v)", v.Msg, v.Harness, v.Choices))
		}
		return strings.TrimSpace(strings.SplitN(v.Msg, "\n", 2)[0])
	}
	budget := 120
	if thorough {
		budget = 240
	}
	if v := os.Getenv("C31_CBUDGET"); v != "" {
		fmt.Sscanf(v, "%d", &budget)
	}
	need := map[string]int{}
	total := 0
	scs := cscenarios(thorough)
	hs := make([]*vrt.Harness, len(scs))
	results := make([]*vrt.Result, len(scs))
	for i, sc := range scs {
		hs[i] = serialized(charness(sc))
		// determinism: the same choices give the same observation
		for _, ch := range [][]int{nil, {0, 0, 1, 1}, {0, 0, 0, 1, 0, 1, 1}, {0, 1, 0, 1, 2, 0, 1}} {
			_, o1, _ := vrt.Replay(hs[i], ch)
			_, o2, _ := vrt.Replay(hs[i], ch)
			if o1 != o2 {
				run.Fatal(fmt.Errorf("non-deterministic replay in %s for %v: %q vs %q", hs[i].Name, ch, o1, o2))
			}
		}
	}
	// The engine shards one exploration at decision depth 2, where these
	// harnesses have only 2-4 alternatives: the scenarios are explored side by
	// side (each with its own worker processes) to use the machine.
	var wg sync.WaitGroup
	for i, sc := range scs {
		i, sc := i, sc
		wg.Add(1)
		go func() {
			defer wg.Done()
			results[i] = vrt.ExploreSharded(hs[i], sc.bound, evid.Workers(), time.Duration(budget)*time.Second)
		}()
	}
	wg.Wait()
	for i, sc := range scs {
		h, res := hs[i], results[i]
		reportVRT(run, h, sc.bound, res, fp)
		leaks := 0
		for k, n := range res.Outcomes {
			for _, m := range cmarkers {
				if strings.Contains(k, m) {
					need[m] += n
				}
			}
			if strings.Contains(k, "LEAK") {
				leaks += n
			}
		}
		total += res.Executions
		run.Set("concurrent:"+sc.label, map[string]interface{}{"orders": res.Executions, "outcome_classes": len(res.Outcomes), "max_decision_points": res.MaxPoints, "completed": res.Completed, "deviation_bound": sc.bound, "executions_with_goroutines_left_blocked": leaks})
		fmt.Printf("  %s: orders=%d outcome classes=%d max decision points=%d bound=%d completed=%v\n", h.Name, res.Executions, len(res.Outcomes), res.MaxPoints, sc.bound, res.Completed)
	}
	exs := map[string]int{}
	for _, m := range cmarkers {
		exs[m] = need[m]
	}
	run.Set("concurrent_orders", total)
	run.Set("concurrent_orders_by_marker", exs)
	if run.NViolations() == 0 {
		for _, m := range cmarkers {
			if need[m] == 0 {
				run.Fatal(errors.New("concurrent part vacuous: no order with " + m))
			}
		}
	}
}

// serialized: executions of h inside THIS process take turns (the top of each
// exploration tree runs here, the subtrees in worker processes); one
// *testing.T is shared by all bubbles of the process.
var bubbleMu sync.Mutex

func serialized(h *vrt.Harness) *vrt.Harness {
	inner := h.RunOnce
	return &vrt.Harness{Name: h.Name, Horizon: h.Horizon, RunOnce: func(prefix []int) (*vrt.Exec, string, string) {
		bubbleMu.Lock()
		defer bubbleMu.Unlock()
		return inner(prefix)
	}}
}

// reportVRT is rep.VRT without the exploration call (the explorations of the
// scenarios run side by side, the reporting is sequential).
func reportVRT(run *evid.Run, h *vrt.Harness, bound int, res *vrt.Result, fingerprint func(v vrt.Violation) string) {
	if res.Err != "" {
		run.Fatal(fmt.Errorf("%s: %s", h.Name, res.Err))
	}
	run.Eval(res.Executions)
	for k := range res.Outcomes {
		run.Distinct(h.Name + "|" + k)
	}
	if !res.Completed {
		run.NotExhaustive(fmt.Sprintf("%s: time cap hit (bound %d)", h.Name, bound))
	}
	if res.Diverged > 0 {
		run.NotExhaustive(fmt.Sprintf("%s: %d replays diverged (nondeterminism inside the code under test); their subtrees were not explored", h.Name, res.Diverged))
	}
	if res.Capped > 0 {
		run.NotExhaustive(fmt.Sprintf("%s: %d executions hit the step horizon", h.Name, res.Capped))
	}
	for _, s := range res.Samples {
		run.Sample(map[string]interface{}{"harness": h.Name, "schedule": s})
	}
	for _, v := range res.Violations {
		run.Violation(fingerprint(v), v)
	}
	run.Set("harness:"+h.Name, map[string]interface{}{"executions": res.Executions, "preemption_bound": bound, "completed": res.Completed, "outcomes": len(res.Outcomes), "deadlocks": res.Deadlocks, "max_points": res.MaxPoints, "with_deviation": res.Preempted, "diverged": res.Diverged, "first_divergence": res.DivergedAt})
}
