//go:build go1.25

// C31: an acknowledged origin upload reaches the backend before local deletion.
//
// Composite harness on the REAL code: origin/blobserver.Server handlers (through
// Handler().ServeHTTP, no sockets) over a real store.CAStore (mock clock, the
// cleanup job body driven explicitly), the real metainfogen.Generator and the
// real writeback.Executor over a real backend.Manager whose clients are fakes
// with an outage switch. The persisted-retry manager is a controllable seam
// (property C30 owns its retry / restart behaviour): Add records the task
// durably (one directory per (namespace, name), like the primary key of the
// real sqlite table; a duplicate Add is a no-op), running a task is an explicit
// action that calls the REAL executor, a successful run removes the task,
// SyncExec runs the real executor once and leaves the task in place (as the
// real manager does).
//
// Part 1 (explicit-state BFS, verif/bfs): every sequence of <= N actions.
// Part 2 (crash points, verif/crash + vos): a crash before every mutating
// file-system primitive of upload histories, restart on the image.
package main

import (
	"bytes"
	"errors"
	"fmt"
	"hash/fnv"
	"io"
	"net/http"
	"net/http/httptest"
	"os"
	"path/filepath"
	"reflect"
	"sort"
	"strings"
	"sync"
	"sync/atomic"
	"testing"
	"time"

	"github.com/andres-erbsen/clock"
	"github.com/uber-go/tally"
	"github.com/uber/kraken/core"
	"github.com/uber/kraken/lib/backend"
	"github.com/uber/kraken/lib/backend/backenderrors"
	"github.com/uber/kraken/lib/metainfogen"
	"github.com/uber/kraken/lib/persistedretry"
	"github.com/uber/kraken/lib/persistedretry/writeback"
	"github.com/uber/kraken/lib/store"
	"github.com/uber/kraken/lib/store/base"
	"github.com/uber/kraken/lib/store/metadata"
	"github.com/uber/kraken/origin/blobserver"
	"github.com/uber/kraken/utils/stringset"

	"verif/bfs"
	"verif/crash"
	"verif/e1q"
	"verif/evid"
	_ "verif/quiet"
	"verif/rep"
	"verif/shim/vos"
	"verif/vrt"
)

const (
	step     = 90 * time.Minute // one "advance"
	cacheTTI = time.Hour
	cacheTTL = 2 * time.Hour
	selfAddr = "me"
)

// ---------------------------------------------------------------------------
// blobs

type blob struct {
	label string
	data  []byte
	d     core.Digest
}

func mkBlob(label, content string) *blob {
	d, err := core.NewDigester().FromBytes([]byte(content))
	if err != nil {
		panic(err)
	}
	return &blob{label: label, data: []byte(content), d: d}
}

var blobs = map[string]*blob{
	"A": mkBlob("A", "blob-A: twelve bytes and more"),
	"B": mkBlob("B", "blob-B: other content"),
}

var blobLabels = []string{"A", "B"}

func labelOfHex(hex string) string {
	for _, l := range blobLabels {
		if blobs[l].d.Hex() == hex {
			return l
		}
	}
	return "?" + hex
}

// ---------------------------------------------------------------------------
// ext: the world outside the origin process. It survives restarts and crashes:
// the storage backends (one fake client per namespace), the uploading clients'
// view (which uploads were acknowledged) and the clock.

type ext struct {
	mu       sync.Mutex
	clk      *clock.Mock
	backends map[string]map[string][]byte // backend id (== namespace) -> name -> bytes
	down     bool
	acked    map[string]string // "ns/blobLabel" -> how it was acknowledged (first time)
	// crash mode: the origin process may be dead (vos crash point reached);
	// then nothing it would have done after that point may have an effect on
	// the world either. alive() is itself a numbered primitive of the process.
	crashMode bool
	dir       string
	probes    int
	// part 4: a backend Upload that hangs and then succeeds or fails. Called
	// after the source was read and before anything is stored; a non-nil error
	// is the Upload's answer (nothing stored).
	uploadHook func(id, name string) error
}

func newExt(dir string, crashMode bool) *ext {
	clk := clock.NewMock()
	// Data-file mtimes are wall-clock (file system), everything else reads the
	// mock clock: start it one minute ahead of the wall clock so that every
	// file is "1 min + k*step" old; all thresholds are >= 30 min away.
	clk.Set(time.Now().Add(time.Minute))
	return &ext{clk: clk, backends: map[string]map[string][]byte{}, acked: map[string]string{}, crashMode: crashMode, dir: dir}
}

func (e *ext) alive() bool {
	if !e.crashMode {
		return true
	}
	e.mu.Lock()
	e.probes++
	n := e.probes
	e.mu.Unlock()
	return vos.Mkdir(filepath.Join(e.dir, "probe", fmt.Sprintf("p%04d", n)), 0o775) == nil
}

func (e *ext) has(ns, name string, want []byte) bool {
	e.mu.Lock()
	defer e.mu.Unlock()
	b, ok := e.backends[ns][name]
	return ok && bytes.Equal(b, want)
}

type fakeClient struct {
	e  *ext
	id string
}

var errOutage = errors.New("backend unavailable (outage)")
var errDeadProc = errors.New("origin process is dead")

func (c *fakeClient) Stat(namespace, name string) (*core.BlobInfo, error) {
	if !c.e.alive() {
		return nil, errDeadProc
	}
	c.e.mu.Lock()
	defer c.e.mu.Unlock()
	if c.e.down {
		return nil, errOutage
	}
	b, ok := c.e.backends[c.id][name]
	if !ok {
		return nil, backenderrors.ErrBlobNotFound
	}
	return core.NewBlobInfo(int64(len(b))), nil
}

func (c *fakeClient) Upload(namespace, name string, src io.Reader) error {
	b, err := io.ReadAll(src)
	if err != nil {
		return err
	}
	if !c.e.alive() {
		return errDeadProc
	}
	if h := c.e.uploadHook; h != nil {
		if err := h(c.id, name); err != nil {
			return err
		}
	}
	c.e.mu.Lock()
	defer c.e.mu.Unlock()
	if c.e.down {
		return errOutage
	}
	if c.e.backends[c.id] == nil {
		c.e.backends[c.id] = map[string][]byte{}
	}
	c.e.backends[c.id][name] = b
	return nil
}

func (c *fakeClient) Download(namespace, name string, dst io.Writer) error {
	c.e.mu.Lock()
	defer c.e.mu.Unlock()
	if c.e.down {
		return errOutage
	}
	b, ok := c.e.backends[c.id][name]
	if !ok {
		return backenderrors.ErrBlobNotFound
	}
	_, err := dst.Write(b)
	return err
}

func (c *fakeClient) List(string, ...backend.ListOption) (*backend.ListResult, error) {
	return nil, errors.New("not supported")
}
func (c *fakeClient) Close() error { return nil }

// ---------------------------------------------------------------------------
// seams: hash ring, write-back manager

type fakeRing struct{ owner bool }

func (r *fakeRing) Locations(core.Digest) []string {
	if r.owner {
		return []string{selfAddr}
	}
	return []string{"other-origin"}
}
func (r *fakeRing) Contains(string) bool         { return true }
func (r *fakeRing) WaitForContains(string) error { return nil }
func (r *fakeRing) Members() stringset.Set       { return stringset.New(selfAddr) }
func (r *fakeRing) Monitor(<-chan struct{})      {}
func (r *fakeRing) Refresh()                     {}

// fakeWB: durable task set = directories "<ns>@<name>" under dir (created and
// removed through vos so that in crash mode the Add is a crash point and has
// no effect once the process is dead).
type fakeWB struct {
	dir  string
	exec *writeback.Executor
}

func (m *fakeWB) path(ns, name string) string { return filepath.Join(m.dir, ns+"@"+name) }

func (m *fakeWB) Add(t persistedretry.Task) error {
	wt, ok := t.(*writeback.Task)
	if !ok {
		return fmt.Errorf("fakeWB.Add: %T", t)
	}
	err := vos.Mkdir(m.path(wt.Namespace, wt.Name), 0o775)
	if err != nil && os.IsExist(err) {
		return nil // duplicate (namespace, name): no-op, like ErrTaskExists
	}
	return err
}

func (m *fakeWB) Close() {}

type taskID struct{ ns, name string }

func (m *fakeWB) pending() ([]taskID, error) {
	es, err := os.ReadDir(m.dir)
	if err != nil {
		return nil, err
	}
	var out []taskID
	for _, e := range es {
		i := strings.Index(e.Name(), "@")
		if i < 0 {
			return nil, fmt.Errorf("fakeWB: stray entry %q", e.Name())
		}
		out = append(out, taskID{e.Name()[:i], e.Name()[i+1:]})
	}
	return out, nil
}

func (m *fakeWB) Find(q interface{}) ([]persistedretry.Task, error) {
	if _, ok := q.(*writeback.NameQuery); !ok {
		return nil, errors.New("unknown query type")
	}
	s := fmt.Sprintf("%+v", q) // &{name:<hex>}
	i := strings.Index(s, "name:")
	if i < 0 {
		return nil, fmt.Errorf("fakeWB: query %q", s)
	}
	name := strings.TrimSuffix(s[i+5:], "}")
	ts, err := m.pending()
	if err != nil {
		return nil, err
	}
	var out []persistedretry.Task
	for _, t := range ts {
		if t.name == name {
			out = append(out, writeback.NewTask(t.ns, t.name, 0))
		}
	}
	return out, nil
}

// SyncExec: the real manager retries Exec in place with a back-off and does not
// touch the store; under a fixed outage switch that is one attempt.
func (m *fakeWB) SyncExec(t persistedretry.Task) error { return m.exec.Exec(t) }

// run executes one pending task the way manager.exec does: real executor;
// success removes the task, failure keeps it (for a later retry).
func (m *fakeWB) run(t taskID) (ok bool, err error) {
	if e := m.exec.Exec(writeback.NewTask(t.ns, t.name, 0)); e != nil {
		return false, nil
	}
	if err := vos.Remove(m.path(t.ns, t.name)); err != nil {
		return false, err
	}
	return true, nil
}

// ---------------------------------------------------------------------------
// configuration of one search

type slotSpec struct{ label, ns, blob string }

type config struct {
	name       string
	namespaces []string
	capacity   int
	slots      []slotSpec
	maxActions int
}

func mkConfig(twoNS bool, capacity, maxActions int) config {
	c := config{capacity: capacity, maxActions: maxActions}
	if twoNS {
		c.namespaces = []string{"nsa", "nsb"}
		c.slots = []slotSpec{{"a1", "nsa", "A"}, {"a2", "nsb", "A"}, {"b", "nsa", "B"}}
	} else {
		c.namespaces = []string{"nsa"}
		c.slots = []slotSpec{{"a1", "nsa", "A"}, {"a2", "nsa", "A"}, {"b", "nsa", "B"}}
	}
	c.name = fmt.Sprintf("ns=%d,cap=%d", len(c.namespaces), capacity)
	return c
}

// ---------------------------------------------------------------------------
// sys: one origin process lifetime sequence on one directory

type slot struct {
	slotSpec
	phase int // 0 idle, 1 started, 2 patched
	uid   string
}

type sys struct {
	cfg    config
	dir    string
	ownDir bool
	e      *ext
	cas    *store.CAStore
	h      http.Handler
	ring   *fakeRing
	wb     *fakeWB
	slots  []*slot
	nops   int
	hist   []string
	key    string          // cached Key() of the current state ("" = stale)
	before map[string]bool // blob label -> data file present before the current action
	closed string          // non-empty: closing phase done (terminal), its outcome
	mon    *monitor
	// part 3: the manager the server is given (a parking wrapper around s.wb)
	wrapWB func(*fakeWB) persistedretry.Manager
}

func (s *sys) casConfig() store.CAStoreConfig {
	return store.CAStoreConfig{
		UploadDir:     filepath.Join(s.dir, "upload"),
		CacheDir:      filepath.Join(s.dir, "cache"),
		Capacity:      s.cfg.capacity,
		UploadCleanup: store.CleanupConfig{Disabled: true},
		CacheCleanup:  store.CleanupConfig{Disabled: true},
	}
}

// the configs the explicit "cleanup" action runs the real job body with
var (
	cacheCleanup  = store.CleanupConfig{TTI: cacheTTI, TTL: cacheTTL}
	uploadCleanup = store.CleanupConfig{TTI: cacheTTI, TTL: cacheTTL}
)

func newSys(cfg config, dir string, e *ext, mon *monitor) (*sys, error) {
	s := &sys{cfg: cfg, dir: dir, e: e, mon: mon}
	if dir == "" {
		d, err := os.MkdirTemp("", "c31-")
		if err != nil {
			return nil, err
		}
		s.dir, s.ownDir = d, true
		s.e = newExt(d, false)
	}
	for _, sp := range cfg.slots {
		s.slots = append(s.slots, &slot{slotSpec: sp})
	}
	for _, d := range []string{"wbtasks", "probe"} {
		if err := os.MkdirAll(filepath.Join(s.dir, d), 0o775); err != nil {
			return nil, err
		}
	}
	if err := s.open(); err != nil {
		return nil, err
	}
	return s, nil
}

// open starts an origin process on the directories: new CAStore, backend
// manager, executor, write-back manager seam, server.
func (s *sys) open() error {
	cas, err := store.VerifNewCAStore(s.casConfig(), s.e.clk)
	if err != nil {
		return err
	}
	bm := new(backend.Manager) // zero value = no clients (NewManager only adds a logger build)
	for _, ns := range s.cfg.namespaces {
		if err := bm.Register("^"+ns+"$", &fakeClient{e: s.e, id: ns}, false); err != nil {
			return err
		}
	}
	s.cas = cas
	s.ring = &fakeRing{owner: true}
	s.wb = &fakeWB{dir: filepath.Join(s.dir, "wbtasks"), exec: writeback.NewExecutor(tally.NoopScope, cas, bm)}
	// An executor that wants to see the other pending tasks (not in the
	// unchanged tree; see FINDINGS.md) gets the manager seam, as origin/cmd
	// would give it the real task store.
	if m := reflect.ValueOf(s.wb.exec).MethodByName("SetTaskFinder"); m.IsValid() {
		m.Call([]reflect.Value{reflect.ValueOf(s.wb)})
		finderWired.Store(true)
	}
	var mgr persistedretry.Manager = s.wb
	if s.wrapWB != nil {
		mgr = s.wrapWB(s.wb)
	}
	srv, err := blobserver.New(blobserver.Config{}, tally.NoopScope, s.e.clk, selfAddr, s.ring, cas, nil, nil,
		core.PeerContext{}, bm, nil, metainfogen.Fixture(cas, 4), mgr)
	if err != nil {
		return err
	}
	s.h = srv.Handler()
	return nil
}

func (s *sys) Close() {
	if s.cas != nil {
		s.cas.Close()
	}
	if s.ownDir {
		os.RemoveAll(s.dir)
	}
}

func (s *sys) do(method, url string, body []byte, hdr map[string]string) *httptest.ResponseRecorder {
	return doOn(s.h, method, url, body, hdr)
}

func doOn(h http.Handler, method, url string, body []byte, hdr map[string]string) *httptest.ResponseRecorder {
	var rd io.Reader
	if body != nil {
		rd = bytes.NewReader(body)
	}
	r := httptest.NewRequest(method, url, rd)
	for k, v := range hdr {
		r.Header.Set(k, v)
	}
	rec := httptest.NewRecorder()
	h.ServeHTTP(rec, r)
	return rec
}

func (s *sys) uploadsURL(sl *slot) string {
	return "/namespace/" + sl.ns + "/blobs/" + blobs[sl.blob].d.String() + "/uploads"
}

// ack records that the uploading client saw its upload succeed: a 2xx of the
// commit, or a 409 at any step (origin/blobclient runChunkedUpload treats a
// conflict as success). Only if the process was alive to send the response.
func (s *sys) ack(sl *slot, how string) {
	if !s.e.alive() {
		return
	}
	k := sl.ns + "/" + sl.blob
	if _, ok := s.e.acked[k]; !ok {
		s.e.acked[k] = how
	}
	s.mon.event("ack:"+how, s)
}

// unexpected statuses: a handler may answer 5xx only for reasons the harness
// caused (dead process in crash mode). Anything else is a harness error.
func (s *sys) status(op string, rec *httptest.ResponseRecorder, allowed ...int) error {
	for _, a := range allowed {
		if rec.Code == a {
			return nil
		}
	}
	if s.e.crashMode {
		return nil // after the crash point every mutation fails: any status
	}
	return fmt.Errorf("%s answered %d: %s", op, rec.Code, strings.TrimSpace(rec.Body.String()))
}

func (s *sys) start(sl *slot) error { return s.startResp(sl, s.startReq(sl)()) }

// startReq / patchReq / commitReq build the request of the slot's next step (the
// returned function performs it on the handler of the CURRENT process; part 3
// runs it on its own goroutine), startResp / patchResp / commitResp are the
// uploading client's reaction to the answer.
func (s *sys) startReq(sl *slot) func() *httptest.ResponseRecorder {
	h, url := s.h, s.uploadsURL(sl)
	return func() *httptest.ResponseRecorder { return doOn(h, "POST", url, nil, nil) }
}

func (s *sys) startResp(sl *slot, rec *httptest.ResponseRecorder) error {
	sl.phase, sl.uid = 0, ""
	switch {
	case rec.Code == 200:
		sl.uid = rec.Header().Get("Location")
		if sl.uid == "" {
			return errors.New("start: 200 without Location")
		}
		sl.phase = 1
	case rec.Code == 409:
		s.ack(sl, "409 at start")
	}
	return s.status("start", rec, 200, 409)
}

func (s *sys) patch(sl *slot) error { return s.patchResp(sl, s.patchReq(sl)()) }

func (s *sys) patchReq(sl *slot) func() *httptest.ResponseRecorder {
	data := blobs[sl.blob].data
	h, url := s.h, s.uploadsURL(sl)+"/"+sl.uid
	return func() *httptest.ResponseRecorder {
		return doOn(h, "PATCH", url, data, map[string]string{"Content-Range": fmt.Sprintf("0-%d", len(data))})
	}
}

func (s *sys) patchResp(sl *slot, rec *httptest.ResponseRecorder) error {
	switch {
	case rec.Code == 200:
		sl.phase = 2
	case rec.Code == 409:
		sl.phase, sl.uid = 0, ""
		s.ack(sl, "409 at patch")
	default: // 404: the upload file is gone (restart wipes uploads, upload cleanup)
		sl.phase, sl.uid = 0, ""
		s.mon.event(fmt.Sprintf("patch:%d", rec.Code), s)
	}
	return s.status("patch", rec, 200, 409, 404)
}

func (s *sys) commit(sl *slot) error { return s.commitResp(sl, s.commitReq(sl)()) }

func (s *sys) commitReq(sl *slot) func() *httptest.ResponseRecorder {
	h, url := s.h, s.uploadsURL(sl)+"/"+sl.uid
	return func() *httptest.ResponseRecorder { return doOn(h, "PUT", url, nil, nil) }
}

func (s *sys) commitResp(sl *slot, rec *httptest.ResponseRecorder) error {
	sl.phase, sl.uid = 0, ""
	switch {
	case rec.Code/100 == 2:
		s.ack(sl, "2xx of commit")
	case rec.Code == 409:
		s.ack(sl, "409 at commit")
	default:
		s.mon.event(fmt.Sprintf("commit:%d", rec.Code), s)
	}
	return s.status("commit", rec, 200, 201, 409, 404)
}

func (s *sys) forceCleanup(ttlHr int, owner bool) error {
	s.ring.owner = owner
	rec := s.do("POST", fmt.Sprintf("/forcecleanup?ttl_hr=%d", ttlHr), nil, nil)
	s.ring.owner = true
	return s.forceCleanupResp(rec)
}

func (s *sys) forceCleanupResp(rec *httptest.ResponseRecorder) error {
	if rec.Code == 200 && strings.Contains(rec.Body.String(), "writeback:") {
		s.mon.event("forcecleanup kept a blob whose write-back failed", s)
	}
	return s.status("forcecleanup", rec, 200)
}

func (s *sys) cleanupPass() error {
	cm := store.VerifNewCleanup(s.e.clk)
	defer cm.Stop()
	if _, err := cm.Tick(s.cas.VerifUploadOp(), uploadCleanup); err != nil && !s.e.crashMode {
		return fmt.Errorf("upload cleanup: %v", err)
	}
	if _, err := cm.Tick(s.cas.VerifCacheOp(), cacheCleanup); err != nil && !s.e.crashMode {
		return fmt.Errorf("cache cleanup: %v", err)
	}
	return nil
}

func (s *sys) restart() error {
	s.cas.Close()
	s.cas = nil
	return s.open()
}

func (s *sys) slotByLabel(l string) *slot {
	for _, sl := range s.slots {
		if sl.label == l {
			return sl
		}
	}
	return nil
}

// Ops: the enabled actions.
func (s *sys) Ops() []string {
	if s.closed != "" {
		return nil
	}
	if s.nops >= s.cfg.maxActions {
		return []string{"closing"}
	}
	var ops []string
	sameNS := len(s.cfg.namespaces) == 1
	for _, sl := range s.slots {
		switch sl.phase {
		case 0:
			if sameNS && sl.label == "a2" && s.slotByLabel("a1").phase == 0 {
				// a second uploader of the same (namespace, blob) differs from
				// the first only while the first is in progress (symmetry)
				continue
			}
			ops = append(ops, "upload:"+sl.label)
			if sl.label != "b" { // blob B is the LRU-pressure blob: whole uploads only
				ops = append(ops, "start:"+sl.label)
			}
		case 1:
			ops = append(ops, "patch:"+sl.label)
		case 2:
			ops = append(ops, "commit:"+sl.label)
		}
	}
	ts, _ := s.wb.pending()
	for _, t := range ts {
		ops = append(ops, "run:"+t.ns+"@"+labelOfHex(t.name))
	}
	if s.e.down {
		ops = append(ops, "backend:up")
	} else {
		ops = append(ops, "backend:down")
	}
	ops = append(ops, "advance", "cleanup", "force:ttl0:owner", "force:ttl1:nonowner", "restart", "closing")
	return ops
}

func opClass(op string) string {
	for _, p := range []string{"upload:", "start:", "patch:", "commit:", "run:"} {
		if strings.HasPrefix(op, p) {
			return strings.TrimSuffix(p, ":")
		}
	}
	return op
}

// Apply executes one action on the real system and evaluates the statement.
func (s *sys) Apply(op string) error {
	s.nops++
	s.hist = append(s.hist, op)
	s.key = ""
	var hk uint64
	replayed := false
	if s.mon != nil {
		hk = hashKey(strings.Join(s.hist, ","))
		_, replayed = s.mon.checked.Load(hk)
	}
	s.before = nil
	if !replayed && op != "closing" {
		s.before = map[string]bool{}
		for _, l := range blobLabels {
			_, err := os.Stat(s.dataPath(blobs[l]))
			s.before[l] = err == nil
		}
	}
	var err error
	switch {
	case strings.HasPrefix(op, "upload:"):
		sl := s.slotByLabel(op[7:])
		if err = s.start(sl); err == nil && sl.phase == 1 {
			if err = s.patch(sl); err == nil && sl.phase == 2 {
				err = s.commit(sl)
			}
		}
	case strings.HasPrefix(op, "start:"):
		err = s.start(s.slotByLabel(op[6:]))
	case strings.HasPrefix(op, "patch:"):
		err = s.patch(s.slotByLabel(op[6:]))
	case strings.HasPrefix(op, "commit:"):
		err = s.commit(s.slotByLabel(op[7:]))
	case strings.HasPrefix(op, "run:"):
		x := strings.SplitN(op[4:], "@", 2)
		var ok bool
		ok, err = s.wb.run(taskID{x[0], blobs[x[1]].d.Hex()})
		if err == nil && !ok {
			s.mon.event("task run failed (outage), task kept", s)
		}
	case op == "backend:down":
		s.e.down = true
	case op == "backend:up":
		s.e.down = false
	case op == "advance":
		s.e.clk.Add(step)
	case op == "cleanup":
		err = s.cleanupPass()
	case op == "force:ttl0:owner":
		err = s.forceCleanup(0, true)
	case op == "force:ttl1:nonowner":
		err = s.forceCleanup(1, false)
	case op == "restart":
		if ts, _ := s.wb.pending(); len(ts) > 0 {
			s.mon.event("restart with pending tasks", s)
		}
		err = s.restart()
	case op == "closing":
		return s.closing()
	default:
		err = fmt.Errorf("unknown op %q", op)
	}
	if err != nil {
		return fmt.Errorf("%s: %v", op, err)
	}
	// The run is deterministic: a history prefix whose end state was already
	// checked once (and passed) is not checked again when it is replayed.
	if replayed {
		return nil
	}
	if err := s.safety("after " + opClass(op)); err != nil {
		return err
	}
	if s.mon != nil {
		if len(s.e.acked) > 0 {
			s.mon.state(s)
		}
		s.mon.checked.Store(hk, struct{}{})
	}
	return nil
}

// local is what is on disk for one blob (plain os reads: no LAT / LRU effects).
type local struct {
	exists  bool
	dataOK  bool
	persist string
	age     int // (now - mtime) / step, capped
	lat     int // -1: no LAT sidecar; else (now - LAT) / step, capped
	meta    bool
}

var casFactory = base.NewCASFileEntryFactory()

var finderWired atomic.Bool
var retryAcked, retryRefused atomic.Int64

func (s *sys) dataPath(b *blob) string {
	return filepath.Join(s.dir, "cache", casFactory.GetRelativePath(b.d.Hex()))
}

func (s *sys) observe(b *blob) (local, error) {
	var l local
	p := s.dataPath(b)
	st, err := os.Stat(p)
	if os.IsNotExist(err) {
		return l, nil
	} else if err != nil {
		return l, err
	}
	l.exists = true
	data, err := os.ReadFile(p)
	if err != nil {
		return l, err
	}
	l.dataOK = bytes.Equal(data, b.data)
	l.age = bucket(s.e.clk.Now().Sub(st.ModTime()), 2)
	l.lat = -1
	side := func(suffix string) ([]byte, bool, error) {
		x, err := os.ReadFile(filepath.Join(filepath.Dir(p), suffix))
		if os.IsNotExist(err) {
			return nil, false, nil
		}
		return x, err == nil, err
	}
	if x, ok, err := side("_persist"); err != nil {
		return l, err
	} else if ok {
		l.persist = string(x)
	}
	if x, ok, err := side("_last_access_time"); err != nil {
		return l, err
	} else if ok {
		var lat metadata.LastAccessTime
		if err := lat.Deserialize(x); err != nil {
			l.lat = 9 // unreadable sidecar
		} else {
			l.lat = bucket(s.e.clk.Now().Sub(lat.Time), 1)
		}
	}
	_, l.meta, err = side("_torrentmeta")
	return l, err
}

func bucket(d time.Duration, capAt int) int {
	if d < 0 {
		return 0
	}
	n := int(d / step)
	if n > capAt {
		n = capAt
	}
	return n
}

func ackedKeys(e *ext) []string {
	var ks []string
	for k := range e.acked {
		ks = append(ks, k)
	}
	sort.Strings(ks)
	return ks
}

// whereElse: is the blob in a backend of ANOTHER namespace (root-cause marker
// for the fingerprint: the persist flag is one bit per blob, tasks are per
// (namespace, blob))?
func (s *sys) whereElse(ns string, b *blob) string {
	for _, o := range s.cfg.namespaces {
		if o != ns && s.e.has(o, b.d.Hex(), b.data) {
			return otherNS
		}
	}
	return "blob in no backend"
}

const otherNS = "blob written back for another namespace only"

// safety: whenever the local cache copy of an acknowledged blob is absent, the
// backend of its namespace already holds its bytes.
func (s *sys) safety(when string) error {
	for _, k := range ackedKeys(s.e) {
		x := strings.SplitN(k, "/", 2)
		ns, b := x[0], blobs[x[1]]
		l, err := s.observe(b)
		if err != nil {
			return fmt.Errorf("observe: %v", err)
		}
		if l.exists && l.dataOK {
			continue
		}
		if s.e.has(ns, b.d.Hex(), b.data) {
			if s.before[b.label] {
				s.mon.event("acknowledged blob deleted locally after its write-back: "+when, s)
			}
			continue
		}
		what := "absent"
		if l.exists {
			what = "corrupt"
		}
		msg := fmt.Sprintf("%s: blob %s acknowledged for namespace %s (%s) is %s in the origin cache and the backend of %s does not hold it; %s",
			when, b.label, ns, s.e.acked[k], what, ns, s.whereElse(ns, b))
		if s.whereElse(ns, b) == otherNS {
			// one root cause, whatever the deletion path: one fingerprint
			return bfs.Failf("local copy of an acknowledged blob deleted before its write-back: protection lost when the write-back for another namespace completed", "%s", msg)
		}
		return bfs.Failf(fmt.Sprintf("local copy of an acknowledged blob %s before its write-back, %s (ack: %s)", what, when, s.e.acked[k]), "%s", msg)
	}
	return nil
}

// closing phase: no more faults. Backend up, every pending task run (real
// executor) until none is left, time advanced, cleanup pass: the backend of its
// namespace holds every acknowledged blob.
func (s *sys) closing() error {
	s.e.down = false
	for round := 0; round < 4; round++ {
		ts, err := s.wb.pending()
		if err != nil {
			return err
		}
		if len(ts) == 0 {
			break
		}
		for _, t := range ts {
			if _, err := s.wb.run(t); err != nil {
				return err
			}
		}
		s.e.clk.Add(step)
	}
	if ts, _ := s.wb.pending(); len(ts) > 0 {
		return bfs.Failf("closing phase: write-back tasks keep failing with the backend up", "%v", ts)
	}
	s.e.clk.Add(step)
	if err := s.cleanupPass(); err != nil {
		return err
	}
	var out []string
	for _, k := range ackedKeys(s.e) {
		x := strings.SplitN(k, "/", 2)
		ns, b := x[0], blobs[x[1]]
		if !s.e.has(ns, b.d.Hex(), b.data) {
			msg := fmt.Sprintf("blob %s acknowledged for namespace %s (%s): backend up, all tasks run, time advanced; backend of %s does not hold it; %s",
				b.label, ns, s.e.acked[k], ns, s.whereElse(ns, b))
			if s.whereElse(ns, b) == otherNS {
				return bfs.Failf("closing phase: acknowledged blob never reaches the backend of its namespace: protection lost when the write-back for another namespace completed", "%s", msg)
			}
			return bfs.Failf(fmt.Sprintf("closing phase: acknowledged blob never reaches the backend of its namespace (ack: %s)", s.e.acked[k]), "%s", msg)
		}
		out = append(out, k)
	}
	s.closed = "ok:" + strings.Join(out, ",")
	if len(out) > 0 {
		s.mon.event("closing phase with acknowledged blobs", s)
	}
	return nil
}

// Key: model state (acknowledged set) + everything that decides future
// behaviour: disk state of both blobs, in-memory LRU map, pending tasks,
// backend contents and switch, upload slots.
func (s *sys) Key() string {
	if s.closed != "" {
		return "closed|" + s.closed
	}
	if s.key == "" {
		s.key = s.computeKey()
	}
	return s.key
}

func (s *sys) computeKey() string {
	var b strings.Builder
	fmt.Fprintf(&b, "ack=%v|down=%v|", ackedKeys(s.e), s.e.down)
	for _, ns := range s.cfg.namespaces {
		var names []string
		for n := range s.e.backends[ns] {
			names = append(names, labelOfHex(n))
		}
		sort.Strings(names)
		fmt.Fprintf(&b, "be[%s]=%v|", ns, names)
	}
	ts, _ := s.wb.pending()
	for _, t := range ts {
		fmt.Fprintf(&b, "task=%s@%s|", t.ns, labelOfHex(t.name))
	}
	for _, l := range blobLabels {
		o, err := s.observe(blobs[l])
		if err != nil {
			fmt.Fprintf(&b, "%s=ERR %v|", l, err)
			continue
		}
		fmt.Fprintf(&b, "%s=%+v|", l, o)
	}
	if s.cas != nil {
		for _, m := range s.cas.VerifCacheMapState() {
			fmt.Fprintf(&b, "map:%s/%d|", labelOfHex(m.Name), bucket(s.e.clk.Now().Sub(m.LAT), 1))
		}
	}
	for _, sl := range s.slots {
		up := "-"
		if sl.uid != "" {
			if st, err := os.Stat(filepath.Join(s.dir, "upload", sl.uid, "data")); err == nil {
				up = fmt.Sprintf("file/%d", bucket(s.e.clk.Now().Sub(st.ModTime()), 2))
			} else if st, err := os.Stat(filepath.Join(s.dir, "upload", sl.uid)); err == nil {
				up = fmt.Sprintf("file/%d", bucket(s.e.clk.Now().Sub(st.ModTime()), 2))
			} else {
				up = "gone"
			}
		}
		fmt.Fprintf(&b, "slot:%s=%d/%s|", sl.label, sl.phase, up)
	}
	return b.String()
}

// ---------------------------------------------------------------------------
// monitor: distinct non-trivial states and vacuity counters (sets of state
// hashes: histories are replayed many times, counts must not depend on that).

type monitor struct {
	mu      sync.Mutex
	run     *evid.Run
	name    string
	events  map[string]map[uint64]struct{}
	checked sync.Map // history hash -> safety evaluated and held
}

func newMonitor(run *evid.Run, name string) *monitor {
	return &monitor{run: run, name: name, events: map[string]map[uint64]struct{}{}}
}

func hashKey(k string) uint64 {
	h := fnv.New64a()
	h.Write([]byte(k))
	return h.Sum64()
}

func (m *monitor) event(ev string, s *sys) {
	if m == nil {
		return
	}
	k := hashKey(strings.Join(s.hist, ","))
	m.mu.Lock()
	if m.events[ev] == nil {
		m.events[ev] = map[uint64]struct{}{}
	}
	m.events[ev][k] = struct{}{}
	m.mu.Unlock()
}

func (m *monitor) state(s *sys) {
	if m == nil {
		return
	}
	m.run.Distinct(fmt.Sprintf("%s|%016x", m.name, hashKey(s.Key())))
}

func (m *monitor) counts() map[string]int {
	m.mu.Lock()
	defer m.mu.Unlock()
	out := map[string]int{}
	for k, v := range m.events {
		out[k] = len(v)
	}
	return out
}

// ---------------------------------------------------------------------------
// part 2: crash points

var (
	regMu sync.Mutex
	reg   = map[string]*ext{}
)

type crashHist struct {
	name  string
	cfg   config
	ops   []string
	retry string // slot whose upload the client retries after the restart
}

func crashHistories(thorough bool) []crashHist {
	one := mkConfig(false, 1<<20, 99)
	oneCap1 := mkConfig(false, 1, 99)
	two := mkConfig(true, 1<<20, 99)
	hs := []crashHist{
		{"B acknowledged (task pending), then upload of A", one, []string{"upload:b", "start:a1", "patch:a1", "commit:a1"}, "a1"},
		{"B acknowledged, LRU capacity 1, then upload of A", oneCap1, []string{"upload:b", "start:a1", "patch:a1", "commit:a1"}, "a1"},
		{"A acknowledged and written back, then second upload of A (conflict path)", one, []string{"upload:a1", "run:nsa@A", "upload:a1"}, "a1"},
		{"two uploaders of A, second commit conflicts", one, []string{"start:a1", "start:a2", "patch:a1", "patch:a2", "commit:a1", "commit:a2"}, "a2"},
	}
	if thorough {
		hs = append(hs,
			crashHist{"B acknowledged, write-back failed in an outage, then upload of A", one, []string{"upload:b", "backend:down", "run:nsa@B", "start:a1", "patch:a1", "commit:a1"}, "a1"},
			crashHist{"A acknowledged, forced cleanup (write-back first), upload of B", one, []string{"upload:a1", "force:ttl0:owner", "upload:b"}, "b"},
			crashHist{"A acknowledged for nsa, conflict upload for nsb", two, []string{"upload:a1", "start:a2"}, "a2"},
			crashHist{"B acknowledged, restart, then upload of A, LRU capacity 1", oneCap1, []string{"upload:b", "restart", "start:a1", "patch:a1", "commit:a1"}, "a1"},
		)
	}
	return hs
}

func runCrashHistory(dir string, h crashHist) error {
	e := newExt(dir, true)
	regMu.Lock()
	reg[dir] = e
	regMu.Unlock()
	s, err := newSys(h.cfg, dir, e, nil)
	if err != nil {
		return err
	}
	defer s.Close()
	for _, op := range h.ops {
		if err := s.Apply(op); err != nil {
			return err // *bfs.Fail: the oracle fails inside the history
		}
	}
	return nil
}

// crashFreeRun executes the history and the recovery check once without any
// crash point.
func crashFreeRun(h crashHist) (fp, msg string) {
	dir, err := os.MkdirTemp("", "c31-ref-")
	if err != nil {
		return "harness: mkdtemp", err.Error()
	}
	defer os.RemoveAll(dir)
	if err := runCrashHistory(dir, h); err != nil {
		if f, ok := err.(*bfs.Fail); ok {
			return f.Fingerprint, f.Msg
		}
		return "harness: history fails without any crash", err.Error()
	}
	return recoverCrash(dir, h, true, nil)
}

// recoverCrash: restart on the image (+ closing phase); with assert the
// statement's clauses are evaluated.
func recoverCrash(dir string, h crashHist, assert bool, nAcked *int) (string, string) {
	regMu.Lock()
	e := reg[dir]
	if assert {
		delete(reg, dir)
	}
	regMu.Unlock()
	if e == nil {
		return "harness: no world for directory", dir
	}
	s, err := newSys(h.cfg, dir, e, nil)
	if err != nil {
		if !assert {
			return "", ""
		}
		return "crash: origin store does not reopen on the crash image", err.Error()
	}
	defer s.Close()
	if nAcked != nil {
		*nAcked = len(e.acked)
	}
	if err := s.safety("after crash + restart"); err != nil && assert {
		if f, ok := err.(*bfs.Fail); ok {
			return "crash: " + f.Fingerprint, f.Msg
		}
		return "harness: observe on the crash image", err.Error()
	}
	// The client whose upload was interrupted by the crash retries it on the
	// restarted origin: whatever the answer (2xx, or 409 because the blob had
	// already reached the cache), an acknowledgement binds the origin.
	if h.retry != "" {
		// (alive() stays in force: when a second crash is being enumerated
		// inside this recovery, a dead process acknowledges nothing)
		if err := s.Apply("upload:" + h.retry); err != nil && assert {
			if f, ok := err.(*bfs.Fail); ok {
				return "crash: retried upload: " + f.Fingerprint, f.Msg
			}
			return "crash: retried upload fails on the restarted origin", err.Error()
		}
		if assert {
			sl := s.slotByLabel(h.retry)
			if _, ok := e.acked[sl.ns+"/"+sl.blob]; ok {
				retryAcked.Add(1)
			} else {
				retryRefused.Add(1)
			}
		}
	}
	if err := s.closing(); err != nil && assert {
		if f, ok := err.(*bfs.Fail); ok {
			return "crash: " + f.Fingerprint, f.Msg
		}
		return "crash: closing phase fails on the crash image", err.Error()
	}
	return "", ""
}

// ---------------------------------------------------------------------------

func main() {
	args := os.Args // e1q.Main truncates os.Args for the testing package; evid.New needs the tier argument
	e1q.Main(func(t *testing.T) {
		os.Args = args
		mainT()
	})
}

func mainT() {
	vrt.WorkerMain(append(allCHarnesses(), allWHarnesses()...))
	run := evid.New("C31", "exploration")
	run.Rule = "Part 1: explicit-state BFS over all sequences of <= N actions {start/patch/commit (and whole upload) of blob A by two uploaders and of blob B, run a pending write-back task (real executor), backend down/up, advance 90 min (TTI 1h, TTL 2h), cleanup pass (real job body, upload + cache), POST /forcecleanup ttl 0 as owner / ttl 1h as non-owner, restart, closing phase} on a real blobserver.Server + CAStore, per configuration (1 or 2 namespaces with separate backends) x (LRU capacity 1 or unbounded); states deduplicated on disk state + LRU map + tasks + backend + acknowledged set. Oracle after every action: acknowledged blob absent locally => backend of its namespace holds its bytes; closing phase from every state: backend holds every acknowledged blob. distinct = distinct reached states with >= 1 acknowledged upload. Part 2: crash before every mutating FS primitive (and every backend call / task insert) of upload histories, restart on the image, same oracle for the uploads acknowledged before the crash. Part 3 (E1q, testing/synctest bubble): 2 (thorough: also 3) clients upload the SAME blob (same namespace, or two namespaces with separate backends); every HTTP request (start/patch/commit, client protocol of origin/blobclient: a 409 ends the upload as success) runs on its own goroutine against the real Server + CAStore; the write-back manager seam parks every Add (insert in flight) and the explorer chooses when it proceeds and whether it records the task or fails without effect; further actions: one POST /forcecleanup?ttl_hr=0 with the backend up or in an outage (while the blob is cached) and one restart of the origin (while an Add is parked: requests in flight die unanswered, their Add never happens). With 2 clients EVERY order of the enabled requests / parked Adds / forcecleanup / restart with every Add outcome is executed (no deviation bound); with 3 clients (thorough) every order with <= 4 choices that differ from the canonical run-to-completion order. Oracle at every quiescent point: (a) an acknowledged upload has a recorded (namespace, blob) task or its backend holds the blob (otherwise a restart at this point leaves nothing that would ever write it back), (b) acknowledged blob absent locally => backend of its namespace holds it; at the end of every order the closing phase of part 1. distinct (part 3) = outcome classes (how each upload ended, acknowledged set, tasks, backend, cache, overlap/failure flags). Part 4 (E1q): write-back EXECUTIONS that overlap each other and the deletion paths. Start state: 1 blob (thorough: also 2 blobs) uploaded and acknowledged, its write-back task pending, persist flag set. Every backend Upload is a seam: it parks after the source was read (upload in flight) and the explorer decides when it returns and whether it stored the blob or failed without effect. Actions: a manager worker starts an execution of a pending task (real writeback.Executor.Exec; success removes the task, failure keeps it; one worker holds a task at a time, a later run is the retry; <= 2 runs, thorough <= 3), POST /forcecleanup?ttl_hr=0 on the real Server, whose SyncExec makes <= 2 (thorough <= 3) in-place attempts, each parked before it calls the real Exec (<= 1 forced cleanup, thorough <= 2 one after the other), and one 'advance 3 h + periodic cleanup pass' (real job body). EVERY order of the enabled actions and parked seams (Upload returns, SyncExec attempt proceeds) with every Upload outcome is executed (no deviation bound): a worker's upload in flight while forced cleanup's SyncExec executes the same task, two uploads of one blob in flight, a retry run while forced cleanup's own upload is in flight, cleanup pass with uploads in flight. Oracle at every quiescent point = clauses (a) and (b) of part 3; at the end of every order every execution that was started has returned (nothing is in flight any more, so one that has not never will: its worker never writes anything back again) and the closing phase of part 1 holds. distinct (part 4) = outcome classes (result of every worker run / forced cleanup, tasks, backend, cache, overlap/failure flags)."
	run.Assume("small-scope: 2 blobs, <= 3 upload slots, single-chunk uploads, write-back delay 0, every namespace has a backend")
	run.Assume("the persisted-retry manager is a seam: durable task set keyed (namespace, name), explicit task execution by the real writeback.Executor (retry/restart behaviour of the real manager is C30)")
	run.Assume("acknowledgement = 2xx of the commit or 409 at start/patch/commit (origin/blobclient treats a conflict as success)")
	run.Assume("parts 1 and 2: sequential histories (no action concurrent with a handler); process-crash model for part 2 (no torn writes)")
	run.Assume("part 3: one blob, 2-3 clients, scheduling granularity = request boundaries + the Add seam (code between two seams runs atomically; forced cleanup is one atomic step, its Find/SyncExec are not parked); an Add fails only without effect; a restart kills the requests in flight (their goroutines end inside Add) and their clients do not retry; no task is run during the concurrent phase (tasks run in the closing phase and inside forced cleanup's SyncExec)")

	run.Assume("part 4: one namespace, 1-2 blobs, scheduling granularity = action starts + the backend Upload seam + the start of every SyncExec attempt (code between two seams runs atomically); Stat answers at once from the backend contents; an Upload fails only without effect; a task is executed by at most one worker at a time (as the real manager guarantees: pending -> one queue) but any number of forced-cleanup SyncExec attempts may overlap it; SyncExec = <= 2 (thorough <= 3) in-place attempts without the task store being touched (real default: 3); no restart, no LRU pressure and no client request during the overlap phase (parts 1-3)")
	thorough := run.Thorough()
	depth := 5
	budget := 150 * time.Second
	if thorough {
		depth = 7
		budget = 11 * time.Minute
	}
	type plan struct {
		twoNS bool
		cap   int
	}
	plans := []plan{{false, 1 << 20}, {false, 1}, {true, 1 << 20}, {true, 1}}
	if v := os.Getenv("C31_ONLY"); v != "" { // development knob: one search only
		var sel []plan
		for _, p := range plans {
			if mkConfig(p.twoNS, p.cap, 0).name == v {
				sel = append(sel, p)
			}
		}
		plans = sel
	}
	if v := os.Getenv("C31_BUDGET"); v != "" {
		if d, err := time.ParseDuration(v); err == nil {
			budget = d
		}
	}
	if v := os.Getenv("C31_DEPTH"); v != "" {
		fmt.Sscanf(v, "%d", &depth)
	}
	start := time.Now()
	for i, p := range plans {
		cfg := mkConfig(p.twoNS, p.cap, depth)
		mon := newMonitor(run, cfg.name)
		// share the remaining budget evenly between the remaining searches
		remaining := budget - time.Since(start)
		if remaining < time.Second {
			remaining = time.Second
		}
		deadline := time.Now().Add(remaining / time.Duration(len(plans)-i))
		res := rep.BFS(run, cfg.name, bfs.Config{
			MaxDepth: depth + 1, // + the closing phase
			Deadline: deadline,
			New:      func() (bfs.System, error) { return newSys(cfg, "", nil, mon) },
		})
		c := mon.counts()
		run.Set("events:"+cfg.name, c) // event -> number of distinct histories (prefixes) in which it occurred
		run.Set("bound:"+cfg.name, fmt.Sprintf("<= %d actions + closing phase (a reported fixpoint only means that every closing outcome had been seen before)", depth))
		if res.Completed && len(res.Fails) == 0 {
			need := []string{"ack:2xx of commit", "ack:409 at start", "ack:409 at patch", "ack:409 at commit",
				"task run failed (outage), task kept", "restart with pending tasks", "closing phase with acknowledged blobs",
				"forcecleanup kept a blob whose write-back failed",
				"acknowledged blob deleted locally after its write-back: after cleanup",
				"acknowledged blob deleted locally after its write-back: after force:ttl0:owner",
				"acknowledged blob deleted locally after its write-back: after force:ttl1:nonowner"}
			if p.cap == 1 {
				need = append(need, "acknowledged blob deleted locally after its write-back: after upload") // LRU eviction
			}
			for _, n := range need {
				if c[n] == 0 {
					run.Fatal(fmt.Errorf("%s: vacuous, no history with event %q (%v)", cfg.name, n, c))
				}
			}
		}
	}

	total := 0
	withAck := 0
	hists := crashHistories(thorough)
	if os.Getenv("C31_ONLY") == "concurrent" { // development knob: part 3 only
		hists = nil
	}
	for _, h := range hists {
		h := h
		var mu sync.Mutex
		c := crash.Case{
			Name: h.name + " [" + h.cfg.name + "] " + strings.Join(h.ops, ", "),
			Run:  func(dir string) error { return runCrashHistory(dir, h) },
			Check: func(dir string) (string, string) {
				n := 0
				fp, msg := recoverCrash(dir, h, true, &n)
				if n > 0 {
					mu.Lock()
					withAck++
					mu.Unlock()
				}
				return fp, msg
			},
			Recover: func(dir string) { recoverCrash(dir, h, false, nil) },
		}
		// The history itself (no crash) must satisfy the statement; if it does
		// not, that is a violation of its own and there is nothing to enumerate.
		if fp, msg := crashFreeRun(h); fp != "" {
			if strings.HasPrefix(fp, "harness:") {
				run.Fatal(fmt.Errorf("%s: %s: %s", c.Name, fp, msg))
			}
			run.Violation("crash history without any crash: "+fp, map[string]interface{}{"history": c.Name, "msg": msg})
			continue
		}
		st, err := crash.Enumerate(run, c, thorough, evid.Workers())
		if err != nil {
			run.Fatal(err)
		}
		for k := 0; k < st.CrashPoints+st.DoubleCases; k++ {
			run.Distinct(fmt.Sprintf("crash|%s#%d", c.Name, k))
		}
		total += st.CrashPoints
		run.Set("crash:"+h.name, map[string]interface{}{"config": h.cfg.name, "ops": h.ops, "primitives": st.Primitives, "crash_points": st.CrashPoints, "double_crash_cases": st.DoubleCases})
		if len(h.ops) <= 4 {
			run.Sample(map[string]interface{}{"crash_history": c.Name, "primitives": st.Log})
		}
	}
	overlapReport := overlapStart(run, thorough)
	concurrentPart(run, thorough)
	overlapReport()

	run.Set("executor_task_finder_wired", finderWired.Load())
	run.Set("crash_images_retry_acknowledged", retryAcked.Load())
	run.Set("crash_images_retry_not_acknowledged", retryRefused.Load())
	run.Set("crash_points", total)
	run.Set("crash_images_with_acknowledged_upload", withAck)
	if total > 0 && withAck == 0 && run.NViolations() == 0 {
		run.Fatal(errors.New("crash part vacuous: no crash image had an acknowledged upload"))
	}
	run.Finish()
}
