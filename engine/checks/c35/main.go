// C35: a successful cluster blob download delivers the blob exactly once.
//
// The real ClusterClient.DownloadBlob -> Poll -> HTTPClient.DownloadBlob ->
// httputil.Get runs over the real net/http client against 1-3 loopback
// httptest origins whose per-origin behaviour is enumerated exhaustively
// (plain nested loops: the full product of the behaviour alphabet over the
// resolved origins, for every blob size), including a disconnect after every
// possible number of body bytes.
package main

import (
	"bytes"
	"context"
	"encoding/json"
	"errors"
	"fmt"
	"io"
	"net/http"
	"net/http/httptest"
	"os"
	"regexp"
	"sort"
	"strconv"
	"strings"
	"sync"
	"sync/atomic"
	"time"

	"github.com/uber/kraken/core"
	"github.com/uber/kraken/origin/blobclient"

	"verif/checks/c35/vtime"
	"verif/evid"
	_ "verif/quiet"
)

// Origin behaviours (what an origin does with the download requests of one call):
//
//	full/cl        200, Content-Length, whole blob
//	full/ch        200, chunked, whole blob, terminating chunk
//	cut/cl@k       200, Content-Length: N, k body bytes, connection closed      (k = 0..N)
//	cut/ch@k       200, chunked, one chunk declared N, k bytes of it, closed    (k = 0..N; k=N: chunk complete, no terminator)
//	drop           connection closed without any response byte
//	500 503 404    status with a small body
//	202xJ+B        J times 202, then behaviour B
//	202*           202 forever
//
// ClusterClient.DownloadBlob hard-codes its Poll back-off (1 s growing to 5 s,
// 15 minutes in total, backoff.SystemClock); there is no parameter to shorten
// it. overlay.spec.json therefore redirects the `time` and `backoff` imports of
// cluster_client.go to checks/c35/vtime and vbackoff: time.Sleep advances a
// per-goroutine virtual clock which backoff.SystemClock reads. Kraken's source
// is unchanged; "202 forever" times out after 15 virtual minutes (~190 polls).

// Case is one enumerated case.
type Case struct {
	Blob    int      `json:"blob_len"`
	Origins []string `json:"origins"`
	Dst     string   `json:"dst"` // writer: append-only recording io.Writer; bytes.Buffer: a *bytes.Buffer already holding "P:"
}

func (c Case) String() string {
	return fmt.Sprintf("N=%d ->%s [%s]", c.Blob, c.Dst, strings.Join(c.Origins, " | "))
}

// OriginObs is what one origin saw and did.
type OriginObs struct {
	Requests  int    `json:"requests"`
	BodySent  int    `json:"body_bytes_sent"` // by the last non-202 answer
	Delivered string `json:"delivered"`       // yes | no | ambiguous (all bytes but no chunked terminator)
}

// Obs is the observation of one execution.
type Obs struct {
	Err     string      `json:"err,omitempty"`
	Dst     string      `json:"dst"`
	Writes  int         `json:"dst_writes"`
	Origins []OriginObs `json:"origin_obs"`
	Sleeps  int         `json:"poll_sleeps"`     // back-off sleeps Poll made (virtual)
	Slept   float64     `json:"virtual_seconds"` // virtual time they added up to
}

type originState struct {
	mu       sync.Mutex
	beh      string
	requests int
	sent     int
	deliv    string
}

type caseState struct {
	blob    []byte
	path    string
	origins [3]originState
}

type worker struct {
	srvs    [3]*httptest.Server
	clients [3]blobclient.Client
	cur     atomic.Pointer[caseState]
	stray   atomic.Int64
}

func newWorker() *worker {
	w := &worker{}
	for i := range w.srvs {
		i := i
		s := httptest.NewUnstartedServer(http.HandlerFunc(func(rw http.ResponseWriter, r *http.Request) { w.handle(i, rw, r) }))
		s.Config.ErrorLog = nil
		s.Start()
		w.srvs[i] = s
		w.clients[i] = blobclient.New(s.Listener.Addr().String())
	}
	return w
}

func (w *worker) close() {
	for _, s := range w.srvs {
		s.CloseClientConnections()
		s.Close()
	}
}

func hijack(rw http.ResponseWriter) (io.WriteCloser, bool) {
	hj, ok := rw.(http.Hijacker)
	if !ok {
		return nil, false
	}
	c, _, err := hj.Hijack()
	if err != nil {
		return nil, false
	}
	return c, true
}

func (w *worker) handle(i int, rw http.ResponseWriter, r *http.Request) {
	cs := w.cur.Load()
	if cs == nil || r.Method != "GET" || r.URL.EscapedPath() != cs.path {
		w.stray.Add(1)
		if c, ok := hijack(rw); ok {
			c.Close()
		}
		return
	}
	o := &cs.origins[i]
	o.mu.Lock()
	idx := o.requests
	o.requests++
	beh := o.beh
	o.mu.Unlock()
	if strings.HasPrefix(beh, "202") {
		if beh == "202*" {
			rw.WriteHeader(202)
			return
		}
		p := strings.SplitN(beh, "+", 2)
		j, _ := strconv.Atoi(strings.TrimPrefix(p[0], "202x"))
		if idx < j {
			rw.WriteHeader(202)
			return
		}
		beh = p[1]
	}
	blob := cs.blob
	n := len(blob)
	set := func(sent int, d string) {
		o.mu.Lock()
		o.sent, o.deliv = sent, d
		o.mu.Unlock()
	}
	switch {
	case beh == "full/cl":
		set(n, "yes")
		rw.Header().Set("Content-Type", "application/octet-stream")
		rw.Header().Set("Content-Length", strconv.Itoa(n))
		rw.WriteHeader(200)
		rw.Write(blob)
	case beh == "full/ch":
		set(n, "yes")
		rw.Header().Set("Content-Type", "application/octet-stream")
		rw.WriteHeader(200)
		rw.(http.Flusher).Flush() // forces chunked framing
		rw.Write(blob)
	case strings.HasPrefix(beh, "cut/"):
		k, _ := strconv.Atoi(beh[strings.Index(beh, "@")+1:])
		c, ok := hijack(rw)
		if !ok {
			w.stray.Add(1)
			return
		}
		var raw bytes.Buffer
		if strings.HasPrefix(beh, "cut/cl@") {
			d := "no"
			if k == n {
				d = "yes" // the declared length was delivered before the close
			}
			set(k, d)
			fmt.Fprintf(&raw, "HTTP/1.1 200 OK\r\nContent-Type: application/octet-stream\r\nContent-Length: %d\r\n\r\n", n)
			raw.Write(blob[:k])
		} else {
			d := "no"
			if k == n {
				d = "ambiguous" // every byte was delivered but the chunked stream was never terminated
			}
			set(k, d)
			fmt.Fprintf(&raw, "HTTP/1.1 200 OK\r\nContent-Type: application/octet-stream\r\nTransfer-Encoding: chunked\r\n\r\n")
			if n > 0 {
				fmt.Fprintf(&raw, "%x\r\n", n)
				raw.Write(blob[:k])
				if k == n {
					raw.WriteString("\r\n")
				}
			}
		}
		c.Write(raw.Bytes())
		c.Close()
	case beh == "drop":
		set(0, "no")
		if c, ok := hijack(rw); ok {
			c.Close()
		}
	case beh == "500" || beh == "503" || beh == "404":
		set(0, "no")
		code, _ := strconv.Atoi(beh)
		rw.WriteHeader(code)
		io.WriteString(rw, "origin says "+beh)
	default:
		w.stray.Add(1)
	}
}

type resolver struct{ clients []blobclient.Client }

func (r resolver) Resolve(d core.Digest) ([]blobclient.Client, error) { return r.clients, nil }

type recWriter struct {
	buf    bytes.Buffer
	writes int
}

func (w *recWriter) Write(p []byte) (int, error) {
	w.writes++
	return w.buf.Write(p)
}

func blobOf(n int) []byte {
	b := make([]byte, n)
	for i := range b {
		b[i] = byte('0' + i%10)
	}
	return b
}

const namespace = "ns/repo x"
const prefill = "P:"

var reAddr = regexp.MustCompile(`127\.0\.0\.1:[0-9]+(->127\.0\.0\.1:[0-9]+)?`)

func (w *worker) exec(c Case) (*Obs, error) {
	blob := blobOf(c.Blob)
	d, err := core.NewDigester().FromBytes(blob)
	if err != nil {
		return nil, err
	}
	cs := &caseState{blob: blob, path: "/namespace/ns%2Frepo%20x/blobs/" + d.String()}
	for i, b := range c.Origins {
		cs.origins[i].beh = b
		cs.origins[i].deliv = "no"
	}
	w.cur.Store(cs)
	res := resolver{w.clients[:len(c.Origins)]}
	rec := &recWriter{}
	var dst io.Writer = rec
	if c.Dst == "bytes.Buffer" {
		dst = &rec.buf
		rec.buf.WriteString(prefill)
	} else if c.Dst != "writer" {
		return nil, fmt.Errorf("unknown dst %q", c.Dst)
	}
	ctx := context.Background()
	vtime.Reset()
	derr := blobclient.NewClusterClient(res).DownloadBlob(ctx, namespace, d, dst)
	slept, sleeps := vtime.Reset()
	w.cur.Store(nil)
	o := &Obs{Dst: rec.buf.String(), Writes: rec.writes, Sleeps: sleeps, Slept: slept.Seconds()}
	if derr != nil {
		o.Err = reAddr.ReplaceAllString(derr.Error(), "ADDR")
		if strings.Contains(o.Err, "Client.Timeout") {
			return nil, fmt.Errorf("%v: client timeout: %v", c, derr)
		}
	}
	for i := range c.Origins {
		s := &cs.origins[i]
		s.mu.Lock()
		o.Origins = append(o.Origins, OriginObs{Requests: s.requests, BodySent: s.sent, Delivered: s.deliv})
		s.mu.Unlock()
	}
	if n := w.stray.Load(); n > 0 {
		return nil, fmt.Errorf("%v: %d unexpected requests reached an origin", c, n)
	}
	return o, nil
}

type vio struct{ fp, msg string }

func check(c Case, o *Obs) []vio {
	var vs []vio
	if o.Err != "" {
		return nil // a failed call promises nothing about the destination
	}
	blob := string(blobOf(c.Blob))
	pre := ""
	if c.Dst == "bytes.Buffer" {
		pre = prefill
	}
	if o.Dst != pre+blob {
		// what the failed origins left behind, in contact order
		// (Poll returns at the first success, so every contacted origin but the last one failed)
		stale, last := "", -1
		for i, oo := range o.Origins {
			if oo.Requests > 0 {
				last = i
			}
		}
		for i, oo := range o.Origins {
			if oo.Requests > 0 && i < last {
				stale += blob[:oo.BodySent]
			}
		}
		fp := "DownloadBlob returned nil but the destination is not the blob"
		if stale != "" && o.Dst == pre+stale+blob {
			fp = "DownloadBlob returned nil but the destination holds the partial transfer of a failed origin followed by the blob"
		}
		vs = append(vs, vio{fp, fmt.Sprintf("destination %q, expected %q", o.Dst, pre+blob)})
	}
	delivered := false
	for _, oo := range o.Origins {
		if oo.Delivered != "no" {
			delivered = true
		}
	}
	if !delivered {
		vs = append(vs, vio{"DownloadBlob returned nil although no origin delivered the whole blob", fmt.Sprintf("origin observations %+v", o.Origins)})
	}
	return vs
}

func alphabet(n int, thorough bool) []string {
	al := []string{"full/cl", "full/ch", "drop", "500", "503", "404"}
	for k := 0; k <= n; k++ {
		al = append(al, fmt.Sprintf("cut/cl@%d", k))
	}
	for k := 0; k <= n; k++ {
		al = append(al, fmt.Sprintf("cut/ch@%d", k))
	}
	al = append(al, "202x1+full/cl", "202x2+full/cl", "202*")
	if n > 0 {
		al = append(al, fmt.Sprintf("202x1+cut/cl@%d", n/2))
		if thorough {
			al = append(al, fmt.Sprintf("202x2+cut/ch@%d", (n+1)/2), "202x1+503")
		}
	} else if thorough {
		al = append(al, "202x1+503")
	}
	return al
}

func tuples(al []string, m int) [][]string {
	out := [][]string{{}}
	for i := 0; i < m; i++ {
		var next [][]string
		for _, t := range out {
			for _, a := range al {
				next = append(next, append(append([]string(nil), t...), a))
			}
		}
		out = next
	}
	return out
}

func has202(t []string) bool {
	for _, b := range t {
		if strings.HasPrefix(b, "202") {
			return true
		}
	}
	return false
}

type stats struct {
	mu       sync.Mutex
	counters map[string]int64
	vios     map[string]*vioRec
}

type vioRec struct {
	size   int
	key    string
	count  int64
	detail interface{}
}

func (s *stats) add(k string, d int64) {
	s.mu.Lock()
	s.counters[k] += d
	s.mu.Unlock()
}

func (s *stats) violation(v vio, c Case, o *Obs) {
	size := len(c.Origins)*1000 + c.Blob*10
	if c.Dst != "writer" {
		size += 2
	}
	for _, b := range c.Origins {
		if strings.HasPrefix(b, "202") {
			size += 3
		}
	}
	for _, oo := range o.Origins {
		if oo.Delivered == "ambiguous" {
			size += 5000 // prefer a representative whose failed transfer is unambiguously partial
		}
	}
	key := c.String()
	s.mu.Lock()
	defer s.mu.Unlock()
	r := s.vios[v.fp]
	if r == nil {
		r = &vioRec{size: size + 1}
		s.vios[v.fp] = r
	}
	r.count++
	if size < r.size || (size == r.size && key < r.key) {
		r.size, r.key = size, key
		r.detail = map[string]interface{}{"case": c, "msg": v.msg, "observed": o}
	}
}

func report(run *evid.Run, st *stats, c Case, o *Obs) {
	run.Eval(1)
	contactedFailed, partial := 0, 0
	for _, oo := range o.Origins {
		if oo.Requests > 0 && oo.Delivered == "no" {
			contactedFailed++
			if oo.BodySent > 0 {
				partial++
			}
		}
	}
	if contactedFailed > 0 {
		// non-trivial: at least one contacted origin failed to deliver
		run.Distinct(c.String())
		st.add("cases_with_failed_origin", 1)
		run.Sample(map[string]interface{}{"case": c, "observed": o})
	}
	if partial > 0 {
		st.add("cases_with_partial_transfer", 1)
		if o.Err == "" {
			st.add("cases_success_after_partial_transfer", 1)
		}
	}
	if o.Sleeps > 0 {
		st.add("cases_with_poll_sleep", 1)
	}
	if o.Slept >= 15*60 {
		st.add("cases_with_poll_timeout", 1)
	}
	if o.Err == "" {
		st.add("cases_success", 1)
		if contactedFailed > 0 {
			st.add("cases_success_after_failed_origin", 1)
		}
	} else {
		st.add("cases_error", 1)
	}
	for _, v := range check(c, o) {
		st.add("violating_case_clauses", 1)
		st.violation(v, c, o)
	}
}

func replay(run *evid.Run, path string) {
	b, err := os.ReadFile(path)
	if err != nil {
		run.Fatal(err)
	}
	var f struct {
		Case struct {
			Case Case `json:"case"`
		} `json:"case"`
	}
	if err := json.Unmarshal(b, &f); err != nil {
		run.Fatal(err)
	}
	c := f.Case.Case
	if len(c.Origins) == 0 || len(c.Origins) > 3 {
		run.Fatal(errors.New("replay file has no case"))
	}
	w := newWorker()
	defer w.close()
	o, err := w.exec(c)
	if err != nil {
		run.Fatal(err)
	}
	out, _ := json.MarshalIndent(o, "", " ")
	fmt.Printf("replay %v\n%s\n", c, out)
	for _, v := range check(c, o) {
		run.Violation(v.fp, map[string]interface{}{"case": c, "msg": v.msg, "observed": o})
	}
	// no run.Finish(): a replay must not overwrite the tier's evidence file
	if run.NViolations() > 0 {
		os.Exit(1)
	}
	os.Exit(0)
}

func main() {
	run := evid.New("C35", "exploration")
	run.Rule = "Plain nested loops (no vrt.Choose): for every blob length N and every number m of resolved origins, EVERY m-tuple over the per-origin behaviour alphabet {whole blob with Content-Length / chunked framing, connection dropped before any response, 500, 503, 404, declared length N but closed after k body bytes for every k in 0..N (Content-Length and chunked framing), 202 once/twice then the blob, 202 forever, 202 then a cut transfer} is executed once per destination kind {append-only recording io.Writer, pre-filled *bytes.Buffer} against the real ClusterClient.DownloadBlob (-> Poll -> HTTPClient.DownloadBlob -> httputil.Get) over real net/http on loopback httptest origins. Oracle: nil error => destination bytes == (previous content +) blob exactly, and some contacted origin delivered the whole blob. distinct = distinct cases in which at least one contacted origin failed to deliver."
	run.Assume("small-scope: blob lengths and origin counts as listed under 'domains'; origins answer each request independently of timing; no wall-clock oracle")
	run.Assume("ClusterClient's Poll back-off is hard-coded (no configuration): the build overlay redirects the time/backoff imports of cluster_client.go to a per-goroutine virtual clock (time.Sleep advances it, backoff.SystemClock reads it); kraken's source is unchanged and the import rewrite is trusted to preserve semantics")
	run.Assume("a response whose body is delimited by connection close (HTTP/1.0 style, no Content-Length, not chunked) is outside the alphabet: truncation is undetectable there by protocol")
	run.Assume("the destination is an append-only writer (what io.Writer offers); the state of the destination after a failed call is not constrained by the statement")
	if p := run.ReplayPath(); p != "" {
		replay(run, p)
		return
	}
	thorough := run.Thorough()
	type dom struct {
		n, m int
		al   []string // nil: the full alphabet of the tier
	}
	slim := []string{"full/cl", "503", "cut/cl@1", "cut/ch@1", "202x1+full/cl", "202*"}
	doms := []dom{{0, 1, nil}, {1, 1, nil}, {5, 1, nil}, {0, 2, nil}, {1, 2, nil}, {5, 2, nil}, {2, 3, slim}}
	if thorough {
		doms = []dom{{0, 1, nil}, {1, 1, nil}, {2, 1, nil}, {5, 1, nil}, {9, 1, nil}, {0, 2, nil}, {1, 2, nil}, {2, 2, nil}, {5, 2, nil}, {9, 2, nil}, {0, 3, nil}, {1, 3, nil}, {2, 3, nil}, {5, 3, nil}}
	}
	var cases []Case
	var domDesc []string
	for _, d := range doms {
		al := d.al
		if al == nil {
			al = alphabet(d.n, thorough)
		}
		domDesc = append(domDesc, fmt.Sprintf("N=%d origins=%d alphabet=%d", d.n, d.m, len(al)))
		for _, t := range tuples(al, d.m) {
			for _, dst := range []string{"writer", "bytes.Buffer"} {
				cases = append(cases, Case{Blob: d.n, Origins: t, Dst: dst})
			}
		}
	}
	run.Set("domains", domDesc)
	st := &stats{counters: map[string]int64{}, vios: map[string]*vioRec{}}
	budget := 50 * time.Second
	if thorough {
		budget = 13 * time.Minute
	}
	deadline := time.Now().Add(budget)
	var firstErr atomic.Pointer[error]
	var wg sync.WaitGroup
	ch := make(chan Case, 64)
	for i := 0; i < evid.Workers(); i++ {
		wg.Add(1)
		go func() {
			defer wg.Done()
			w := newWorker()
			defer w.close()
			for c := range ch {
				if firstErr.Load() != nil {
					continue
				}
				if time.Now().After(deadline) {
					run.NotExhaustive("time cap hit")
					continue
				}
				o, err := w.exec(c)
				if err != nil {
					firstErr.CompareAndSwap(nil, &err)
					continue
				}
				report(run, st, c, o)
			}
		}()
	}
	for _, c := range cases {
		ch <- c
	}
	close(ch)
	wg.Wait()
	if e := firstErr.Load(); e != nil {
		run.Fatal(*e)
	}
	var fps []string
	for fp := range st.vios {
		fps = append(fps, fp)
	}
	sort.Strings(fps)
	byFP := map[string]int64{}
	for _, fp := range fps {
		byFP[fp] = st.vios[fp].count
		run.Violation(fp, st.vios[fp].detail)
	}
	if len(fps) > 0 {
		run.Set("violating_cases_by_fingerprint", byFP)
	}
	for k, v := range st.counters {
		run.Set(k, v)
	}
	for _, k := range []string{"cases_with_failed_origin", "cases_with_partial_transfer", "cases_success_after_failed_origin", "cases_error", "cases_with_poll_sleep", "cases_with_poll_timeout"} {
		if st.counters[k] == 0 && run.NViolations() == 0 {
			run.Fatal(errors.New("vacuous: counter " + k + " is zero"))
		}
	}
	run.Finish()
}
