// Package vtime stands in for package time inside origin/blobclient's
// cluster_client.go (build-overlay import rewrite, kraken's source is not
// edited): ClusterClient hard-codes its Poll back-off (1 s .. 5 s, 15 minutes
// in total), so Sleep here advances a virtual clock instead of blocking. The
// clock is per goroutine: Poll runs synchronously on the goroutine that called
// DownloadBlob, and concurrent harness workers must not see each other's time.
package vtime

import (
	"runtime"
	"strconv"
	"sync"
	"time"
)

type Duration = time.Duration

const (
	Second = time.Second
	Minute = time.Minute
	Hour   = time.Hour
)

var base = time.Date(2000, 1, 1, 0, 0, 0, 0, time.UTC)

type clock struct {
	elapsed time.Duration
	sleeps  int
}

var clocks sync.Map // goroutine id -> *clock

func goid() uint64 {
	var buf [64]byte
	n := runtime.Stack(buf[:], false)
	// "goroutine 123 [running]:..."
	s := buf[len("goroutine "):n]
	i := 0
	for i < len(s) && s[i] >= '0' && s[i] <= '9' {
		i++
	}
	id, _ := strconv.ParseUint(string(s[:i]), 10, 64)
	return id
}

func cur() *clock {
	id := goid()
	if c, ok := clocks.Load(id); ok {
		return c.(*clock)
	}
	c, _ := clocks.LoadOrStore(id, &clock{})
	return c.(*clock)
}

// Sleep advances the calling goroutine's virtual clock.
func Sleep(d Duration) {
	c := cur()
	if d > 0 {
		c.elapsed += d
	}
	c.sleeps++
}

// Now is the calling goroutine's virtual time.
func Now() time.Time { return base.Add(cur().elapsed) }

// Reset restarts the calling goroutine's clock and returns what it had
// accumulated (virtual time slept, number of sleeps).
func Reset() (time.Duration, int) {
	c := cur()
	e, n := c.elapsed, c.sleeps
	c.elapsed, c.sleeps = 0, 0
	return e, n
}
