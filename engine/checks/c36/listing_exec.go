//go:build !c36small

package main

// Child side of part C (see listing.go): the real backend clients over the
// in-memory stores. Not compiled into the small binary that runs the pather
// histories of parts A/B (build tag c36small, see smallChild in main.go):
// linking the backend clients, the AWS / GCS SDKs and kraken's logger costs
// every process start 3-4x the start-up of a binary that links only namepath.

import (
	"bytes"
	"fmt"
	"net"
	"net/http"
	"os"
	"path"
	"sort"
	"strings"
	"sync/atomic"

	"github.com/uber-go/tally"
	"github.com/uber/kraken/lib/backend"
	"github.com/uber/kraken/lib/backend/gcsbackend"
	"github.com/uber/kraken/lib/backend/hdfsbackend"
	"github.com/uber/kraken/lib/backend/namepath"
	"github.com/uber/kraken/lib/backend/s3backend"
	"github.com/uber/kraken/lib/backend/testfs"
	"github.com/uber/kraken/utils/httputil"

	// the backend clients log a path they cannot convert and skip it:
	// kraken's logger is silenced
	_ "verif/quiet"
)

const haveListing = true

// testfsHost: one loopback listener per child process; the handler (a fresh
// testfs.Server on a fresh directory) is swapped per uploaded set.
type testfsHost struct {
	ln  net.Listener
	srv *http.Server
	h   atomic.Value
}

type handlerBox struct{ h http.Handler }

func (t *testfsHost) ServeHTTP(w http.ResponseWriter, r *http.Request) {
	t.h.Load().(handlerBox).h.ServeHTTP(w, r)
}

func newTestfsHost() (*testfsHost, error) {
	ln, err := net.Listen("tcp", "127.0.0.1:0")
	if err != nil {
		return nil, err
	}
	t := &testfsHost{ln: ln}
	t.h.Store(handlerBox{http.NotFoundHandler()})
	t.srv = &http.Server{Handler: t}
	go t.srv.Serve(ln)
	return t, nil
}

type listEnv struct {
	c       backend.Client
	cleanup func()
}

// buildListEnv: a fresh store and a real client built by the backend's public
// constructor. rejected != "": the constructor refused the configuration.
func buildListEnv(b, scheme, root string, host *testfsHost) (env *listEnv, rejected string, err error) {
	switch b {
	case bHDFS:
		c, e := hdfsbackend.NewClient(hdfsbackend.Config{
			NameNodes: []string{"namenode.invalid:50070"}, RootDirectory: root, NamePath: scheme,
		}, tally.NoopScope, hdfsbackend.WithWebHDFS(newFakeHDFS()))
		if e != nil {
			return nil, e.Error(), nil
		}
		return &listEnv{c: c, cleanup: func() { c.Close() }}, "", nil
	case bS3:
		c, e := s3backend.NewClient(s3backend.Config{
			Username: "u", Region: "us-east-1", Bucket: "bkt", RootDirectory: root, NamePath: scheme,
		}, s3backend.UserAuthConfig{"u": s3backend.AuthConfig{}}, tally.NoopScope, s3backend.WithS3(newFakeS3("bkt")))
		if e != nil {
			return nil, e.Error(), nil
		}
		return &listEnv{c: c, cleanup: func() { c.Close() }}, "", nil
	case bGCS:
		c, e := gcsbackend.NewClient(gcsbackend.Config{
			Username: "u", Bucket: "bkt", RootDirectory: root, NamePath: scheme,
		}, gcsbackend.UserAuthConfig{"u": gcsbackend.AuthConfig{}}, tally.NoopScope, gcsbackend.WithGCS(newFakeGCS()))
		if e != nil {
			return nil, e.Error(), nil
		}
		return &listEnv{c: c, cleanup: func() { c.Close() }}, "", nil
	case bTestfs:
		c, e := testfs.NewClient(testfs.Config{Addr: host.ln.Addr().String(), Root: root, NamePath: scheme}, tally.NoopScope)
		if e != nil {
			return nil, e.Error(), nil
		}
		dir, e := os.MkdirTemp("", "c36-testfs-")
		if e != nil {
			return nil, "", e
		}
		host.h.Store(handlerBox{testfs.VerifNewServerAt(dir).Handler()})
		return &listEnv{c: c, cleanup: func() {
			c.Close()
			host.h.Store(handlerBox{http.NotFoundHandler()})
			os.RemoveAll(dir)
		}}, "", nil
	}
	return nil, "", fmt.Errorf("unknown backend %q", b)
}

// relPaths: the storage path of every name relative to the scheme's base
// directory, as the REAL pather lays it out (the layout is the
// implementation's choice; the root "/" is used only to read the layout off).
// ok=false: the layout could not be read off; only the empty prefix is used.
func relPaths(scheme string, names []string) (map[string]string, bool) {
	out := map[string]string{}
	ok := true
	func() {
		defer func() {
			if r := recover(); r != nil {
				ok = false
			}
		}()
		p, err := namepath.New("/", scheme)
		if err != nil {
			ok = false
			return
		}
		base := path.Clean(p.BasePath())
		if !strings.HasSuffix(base, "/") {
			base += "/"
		}
		for _, n := range names {
			bp, err := p.BlobPath(n)
			if err != nil || !strings.HasPrefix(bp, base) || len(bp) == len(base) {
				ok = false
				return
			}
			out[n] = bp[len(base):]
		}
	}()
	return out, ok
}

// listPrefixes: every directory prefix of the relative storage paths and the
// storage paths themselves (listing exactly a stored path: HDFS, S3 and GCS
// report that one name, testfs reports nothing -- the statement does not
// decide, the oracle accepts both, see list below).
func listPrefixes(set []string, rel map[string]string) []string {
	seen := map[string]bool{}
	for _, n := range set {
		parts := strings.Split(rel[n], "/")
		for i := 1; i <= len(parts); i++ {
			seen[strings.Join(parts[:i], "/")] = true
		}
	}
	var out []string
	for p := range seen {
		out = append(out, p)
	}
	sort.Strings(out)
	return out
}

// placeholderRepo: hdfsbackend's catalog listing (documented in its List: it
// stops at every <repository>/_manifests directory and reports the single
// entry <repository>:dummy instead of walking the tags) -- for docker_tag on
// HDFS a reported name R:dummy stands for the uploaded tags of repository R.
func placeholderRepo(b, scheme, listed string) (string, bool) {
	if b != bHDFS || scheme != namepath.DockerTag || !strings.HasSuffix(listed, ":dummy") {
		return "", false
	}
	return strings.TrimSuffix(listed, ":dummy"), true
}

func repoOf(name string) string {
	if i := strings.LastIndex(name, ":"); i >= 0 {
		return name[:i]
	}
	return name
}

// execListing runs the listing space of one (backend, scheme) over the given
// roots in THIS process (the child).
func execListing(ls listSpec) listReport {
	var host *testfsHost
	if ls.Backend == bTestfs {
		var err error
		if host, err = newTestfsHost(); err != nil {
			fmt.Fprintf(os.Stderr, "child: testfs listener: %v\n", err)
			os.Exit(3)
		}
		defer host.srv.Close()
	}
	var universe []string
	for _, n := range listUniverse(ls.Scheme) {
		if listNameOK(ls.Backend, ls.Scheme, n) {
			universe = append(universe, n)
		}
	}
	sets := ls.Sets
	if sets == nil {
		sets = subsets(universe, ls.MaxSet)
	}
	var all []string
	for _, s := range sets {
		all = append(all, s...)
	}
	rel, relOK := relPaths(ls.Scheme, all)

	var rep listReport
	for _, root := range ls.Roots {
		rr := listRootReport{Root: root}
		worst := map[string]int{}
		fail := func(f listFail) {
			kind := "empty"
			if f.Prefix != "" {
				kind = "non-empty"
			}
			key := f.Clause + "|" + kind
			ord := func(x listFail) string {
				return fmt.Sprintf("%02d|%03d|%03d|%s\x00%s", len(x.Uploaded), len(x.Prefix), len(strings.Join(x.Uploaded, ",")), strings.Join(x.Uploaded, "\x00"), x.Prefix)
			}
			if k, ok := worst[key]; ok {
				n := rr.Fails[k].Count + 1
				if ord(f) < ord(rr.Fails[k]) {
					rr.Fails[k] = f
				}
				rr.Fails[k].Count = n
				return
			}
			f.Count = 1
			worst[key] = len(rr.Fails)
			rr.Fails = append(rr.Fails, f)
		}
		for _, set := range sets {
			env, rejected, err := buildListEnv(ls.Backend, ls.Scheme, root, host)
			if err != nil {
				fmt.Fprintf(os.Stderr, "child: %v\n", err)
				os.Exit(3)
			}
			if rejected != "" {
				rr.Rejected = rejected
				break
			}
			rr.Sets++
			// list: one observation of List(prefix) against the names uploaded so far
			list := func(uploaded []string, prefix string) {
				rr.Lists++
				if prefix != "" {
					rr.PrefixLists++
				}
				var atLeast, atMost []string
				for _, n := range uploaded {
					if prefix == "" {
						atLeast, atMost = append(atLeast, n), append(atMost, n)
						continue
					}
					if strings.HasPrefix(rel[n], prefix+"/") {
						atLeast = append(atLeast, n)
					}
					if strings.HasPrefix(rel[n], prefix) {
						atMost = append(atMost, n)
					}
				}
				base := listFail{Root: root, Uploaded: append([]string(nil), uploaded...), Prefix: prefix, Expected: atLeast}
				var names []string
				var lerr error
				panicked := ""
				func() {
					defer func() {
						if r := recover(); r != nil {
							panicked = fmt.Sprint(r)
						}
					}()
					res, e := env.c.List(prefix)
					if e != nil {
						lerr = e
						return
					}
					names = append(names, res.Names...)
				}()
				if panicked != "" {
					f := base
					f.Clause, f.Error = "List panics", panicked
					fail(f)
					return
				}
				if lerr != nil {
					if httputil.IsNetworkError(lerr) {
						fmt.Fprintf(os.Stderr, "child: List(%q) on %s %s root %q: network error: %v\n", prefix, ls.Backend, ls.Scheme, root, lerr)
						os.Exit(3)
					}
					f := base
					f.Clause, f.Error = "List fails", lerr.Error()
					fail(f)
					return
				}
				sort.Strings(names)
				base.Listed = names
				rr.Reported += int64(len(names))
				in := func(xs []string, x string) bool {
					for _, y := range xs {
						if x == y {
							return true
						}
					}
					return false
				}
				covered := map[string]bool{} // repositories covered by a placeholder
				for i, r := range names {
					if i > 0 && names[i-1] == r {
						f := base
						f.Clause, f.Subject = "List reports a name twice", r
						fail(f)
						continue
					}
					if in(atMost, r) {
						continue
					}
					if repo, ok := placeholderRepo(ls.Backend, ls.Scheme, r); ok {
						has := false
						for _, n := range atMost {
							if repoOf(n) == repo {
								has = true
							}
						}
						if has {
							covered[repo] = true
							rr.Placeholders++
							continue
						}
					}
					f := base
					f.Subject = r
					if in(uploaded, r) {
						f.Clause = "List reports an uploaded name that is not under the prefix"
					} else {
						f.Clause = "List reports a name that was not uploaded"
					}
					fail(f)
				}
				for _, n := range atLeast {
					if !in(names, n) && !covered[repoOf(n)] {
						f := base
						f.Clause, f.Subject = "List omits an uploaded name", n
						fail(f)
					}
				}
			}
			uploadOK := true
			for i, n := range set {
				var uerr error
				panicked := ""
				func() {
					defer func() {
						if r := recover(); r != nil {
							panicked = fmt.Sprint(r)
						}
					}()
					uerr = env.c.Upload("ns", n, bytes.NewReader([]byte("content of "+n)))
				}()
				rr.Uploads++
				if panicked != "" || uerr != nil {
					if uerr != nil && httputil.IsNetworkError(uerr) {
						fmt.Fprintf(os.Stderr, "child: Upload(%q) on %s %s root %q: network error: %v\n", n, ls.Backend, ls.Scheme, root, uerr)
						os.Exit(3)
					}
					f := listFail{Root: root, Uploaded: append([]string(nil), set[:i+1]...), Subject: n, Clause: "Upload of a valid name fails"}
					if panicked != "" {
						f.Clause, f.Error = "Upload of a valid name panics", panicked
					} else {
						f.Error = uerr.Error()
					}
					fail(f)
					uploadOK = false
					break
				}
				list(set[:i+1], "")
			}
			if uploadOK && relOK {
				for _, p := range listPrefixes(set, rel) {
					list(set, p)
				}
			}
			env.cleanup()
		}
		rep.Roots = append(rep.Roots, rr)
	}
	return rep
}
