// C36: backend name/path mapping round-trips for every name.
// E4: small-scope exhaustive enumeration on the real namepath pathers.
// Law: NameFromBlobPath(BlobPath(name)) == name for every valid name of the
// scheme and every configurable root (with / without a trailing slash,
// including the filesystem root).
//
// Two parts, both executed in CHILD PROCESSES of this binary (one fresh process
// per history), because the law quantifies over pathers a deployment creates
// and uses one after the other inside one process: whatever package-level state
// the implementation keeps is process state, and the order of uses matters.
//
//	A. single use: every (scheme, root, name) of the bounded name domain, each
//	   (scheme, root, chunk of names) in its own fresh process;
//	B. histories: ordered pairs (thorough: also triples) of uses (scheme, root)
//	   over a root alphabet of near-colliding spellings, plus the cyclic
//	   rotations of the history that uses a whole alphabet once (long-lived
//	   process); probe names per scheme; after every use the round trip is
//	   checked for the use just made AND again for every earlier use of the
//	   history (both for the path stored when it was first produced -- a later
//	   listing -- and for a freshly produced path).
//
//	C. listing (listing.go): the clause "so listings report the names that were
//	   uploaded" on the real backend clients that list by storage path (hdfs,
//	   s3, gcs over in-memory stores, testfs over its real server handler):
//	   backend x scheme x root spelling x every small SET of uploaded names x
//	   every list prefix; List must report exactly what was uploaded.
//
// A process start costs ~0.1-0.3 CPU-seconds in the sandbox (about twice that
// since the backend clients, and with them the AWS / GCS SDKs, are linked for
// part C), which is what bounds the number of histories (quick ~160, thorough
// ~1850 processes).
// The parent process never calls namepath itself.
package main

import (
	"bytes"
	"context"
	"encoding/json"
	"fmt"
	"os"
	"os/exec"
	"path"
	"path/filepath"
	"regexp"
	"sort"
	"strings"
	"sync"
	"sync/atomic"
	"syscall"
	"time"

	"github.com/uber/kraken/lib/backend/namepath"

	"verif/evid"
	// verif/quiet is not imported here (listing_exec.go imports it for part C):
	// namepath does not log, and linking kraken's logger (zap, otel, net/http)
	// triples the start-up cost of every child process of parts A/B.
)

// ---------------------------------------------------------------------------
// Domain (written from the Docker reference grammar and the property text,
// independent of pather.go).

// Docker distribution reference grammar.
var (
	reRepoComponent = regexp.MustCompile(`^[a-z0-9]+(?:(?:[._]|__|[-]*)[a-z0-9]+)*$`)
	reTag           = regexp.MustCompile(`^[\w][\w.-]{0,127}$`)
	reHex64         = regexp.MustCompile(`^[0-9a-f]{64}$`)
)

// Repository path components: ordinary names plus every word of the registry
// layout that is a legal component.
var repoWords = []string{
	"a", "library", "ubuntu", "a-b", "a.b", "a_b", "a__b", "0",
	"tags", "current", "link", "data", "sha256", "repositories", "blobs",
	"docker", "registry", "v2", "index", "revisions",
}

// Tags, including layout words and the separators the grammar allows.
var tagWords = []string{
	"latest", "current", "link", "tags", "v1.0", "_x", "a-b", "_manifests",
	"0", "data", "sha256", "A.B-c_d",
}

func repos(maxComponents int) []string {
	var out []string
	var rec func(prefix string, depth int)
	rec = func(prefix string, depth int) {
		for _, w := range repoWords {
			r := w
			if prefix != "" {
				r = prefix + "/" + w
			}
			out = append(out, r)
			if depth+1 < maxComponents {
				rec(r, depth+1)
			}
		}
	}
	rec("", 0)
	return out
}

func validRepo(r string) bool {
	if r == "" {
		return false
	}
	for _, c := range strings.Split(r, "/") {
		if !reRepoComponent.MatchString(c) {
			return false
		}
	}
	return true
}

func dockerTagNames(maxComponents int) []string {
	var out []string
	for _, r := range repos(maxComponents) {
		for _, t := range tagWords {
			out = append(out, r+":"+t)
		}
	}
	return out
}

func validDockerTagName(n string) bool {
	i := strings.LastIndex(n, ":")
	if i < 0 || strings.Count(n, ":") != 1 {
		return false
	}
	return validRepo(n[:i]) && reTag.MatchString(n[i+1:])
}

const hexDigits = "0123456789abcdef"

// hexNames: 64-hex digests; the first `lead` characters and the last character
// take every hex value, the middle is a fixed filler.
func hexNames(lead int) []string {
	filler := strings.Repeat("0123456789abcdef", 4)
	var out []string
	n := 1
	for i := 0; i < lead; i++ {
		n *= 16
	}
	for v := 0; v < n; v++ {
		head := make([]byte, lead)
		x := v
		for i := lead - 1; i >= 0; i-- {
			head[i] = hexDigits[x%16]
			x /= 16
		}
		for l := 0; l < 16; l++ {
			out = append(out, string(head)+filler[lead:63]+string(hexDigits[l]))
		}
	}
	return out
}

// validIdentityName: a clean relative path — non-empty components separated by
// single slashes, no "." / ".." component. (The property does not say what an
// identity name is; this is the conservative reading: names that a path join
// cannot normalise away.)
func validIdentityName(n string) bool {
	if n == "" {
		return false
	}
	for _, c := range strings.Split(n, "/") {
		if c == "" || c == "." || c == ".." {
			return false
		}
	}
	return true
}

func identityNames(maxLen int) []string {
	alphabet := []byte{'a', 'b', '/', '.', ':', '-', '_'}
	var out []string
	var rec func(cur []byte)
	rec = func(cur []byte) {
		if len(cur) > 0 && validIdentityName(string(cur)) {
			out = append(out, string(cur))
		}
		if len(cur) == maxLen {
			return
		}
		for _, c := range alphabet {
			rec(append(cur, c))
		}
	}
	rec(nil)
	out = append(out,
		"foo/bar", "repo:tag", "library/ubuntu:latest", "tags", "blobs", "0",
		"docker/registry/v2/blobs/sha256/ff/ff00/data",
		"ff85ceb9734a3c2fbb886e0f7cfc66b046eeeae953d8cb430dc5a7ace544b0e9",
		"a-b_c/0", "a-b_c", "x/a/b",
	)
	return out
}

// ---------------------------------------------------------------------------
// Roots.

// soloRoots (part A, every name of the bounded domain): absolute roots of
// depth 0..2 with and without trailing slash and the relative roots the
// shipped helm / devcluster configs use for testfs.
var soloRoots = []string{
	"/", "/a", "/a/", "/a/b", "/a/b/", "/a-b_c/0", "/a-b_c/0/",
	"tags", "tags/", "blobs/x",
}

// extraSoloRoots (part A, reduced name domain: these roots vary how the ROOT is
// handled, the name handling is covered by soloRoots): the empty root
// (namepath.New("", ...) is what lib/dockerregistry/transfer/testing.go builds
// and what an unset root_directory yields), a doubled slash, a relative root
// with a trailing slash, and roots with characters that are special in regular
// expressions ('.', '+', '(').
var extraSoloRoots = []string{"", "//", "a/", "a.b", "/a+b/", "/a(b"}

// historyRoots (part B): spellings that a lossy normalisation (trim / clean /
// base / lower-case / quote) could identify although they name different
// directories, next to spellings that do name the same directory.
var historyRoots = []string{
	"", "/", "//", "a", "a/", "/a", "/a/", "a/b", "/a/b/", "a.b", "A", "/a+b",
}

// Quick tier: pairs over quickPairRoots, per-scheme rotations over
// quickHistoryRoots.
var quickPairRoots = []string{"", "/", "a", "a/", "/a", "A"}
var quickHistoryRoots = []string{"", "/", "a", "a/", "/a", "A", "a/b", "a.b"}

// quickCrossSchemeRoots: roots of the quick tier's two-scheme pairs.
var quickCrossSchemeRoots = []string{"", "a/"}

// coreHistoryRoots: the sub-alphabet explored one step deeper (thorough).
var coreHistoryRoots = []string{"", "/", "a", "/a"}

var schemes = []string{namepath.DockerTag, namepath.ShardedDockerBlob, namepath.Identity}

func rootClass(root string) string {
	if strings.ContainsAny(root, `\+*?()|[]{}^$`) {
		return "root contains a regexp operator character"
	}
	if strings.Contains(root, ".") {
		return "root contains '.'"
	}
	if strings.HasSuffix(root, "/") {
		return "root ends with '/'"
	}
	return "root without trailing slash"
}

// underRoot: rel below root, written without package path (empty components of
// the root dropped, a leading slash kept).
func underRoot(root, rel string) string {
	var parts []string
	for _, c := range strings.Split(root, "/") {
		if c != "" {
			parts = append(parts, c)
		}
	}
	s := strings.Join(append(parts, rel), "/")
	if strings.HasPrefix(root, "/") {
		s = "/" + s
	}
	return s
}

// refPath: the storage layout written independently of pather.go (used only as
// a recorded diagnostic: the property states the round trip, not the layout).
func refPath(scheme, root, name string) string {
	switch scheme {
	case namepath.DockerTag:
		i := strings.LastIndex(name, ":")
		return underRoot(root, "docker/registry/v2/repositories/"+name[:i]+"/_manifests/tags/"+name[i+1:]+"/current/link")
	case namepath.ShardedDockerBlob:
		return underRoot(root, "docker/registry/v2/blobs/sha256/"+name[:2]+"/"+name+"/data")
	default:
		return underRoot(root, name)
	}
}

// Probe names of part B: a few valid names per scheme; the identity probes
// include the root-relative storage paths of the other schemes' probes and a
// pair (a, b/a) that maps to one path under the roots a/b and a.
const (
	probeHexA = "00112233445566778899aabbccddeeff00112233445566778899aabbccddeeff"
	probeHexB = "ff85ceb9734a3c2fbb886e0f7cfc66b046eeeae953d8cb430dc5a7ace544b0e9"
)

func probeNames(scheme string) []string {
	switch scheme {
	case namepath.DockerTag:
		return []string{"a:latest", "library/ubuntu:v1.0", "tags/current:link"}
	case namepath.ShardedDockerBlob:
		return []string{probeHexA, probeHexB}
	default:
		return []string{
			"a", "b/a", "library/ubuntu:latest",
			refPath(namepath.DockerTag, "", "a:latest"),
			refPath(namepath.ShardedDockerBlob, "", probeHexB),
		}
	}
}

func validName(scheme, n string) bool {
	switch scheme {
	case namepath.DockerTag:
		return validDockerTagName(n)
	case namepath.ShardedDockerBlob:
		return reHex64.MatchString(n)
	default:
		return validIdentityName(n)
	}
}

// ---------------------------------------------------------------------------
// Child protocol: a history specification on stdin, a report on stdout.

const childEnvVar = "VERIF_C36_CHILD"

type tcase struct {
	Scheme string `json:"scheme"`
	Root   string `json:"root"`
	Name   string `json:"name"`
}

type use struct {
	Scheme string `json:"scheme"`
	Root   string `json:"root"`
}

func (u use) String() string { return u.Scheme + "@" + u.Root }

func histKey(h []use) string {
	s := make([]string, len(h))
	for i, u := range h {
		s[i] = u.String()
	}
	return strings.Join(s, " ; ")
}

// step: one use of a pather. Set "probe" (default): probeNames; "full": names
// [Lo,Hi) of the scheme's bounded domain; "names": the listed names (replay).
type step struct {
	Scheme string   `json:"scheme"`
	Root   string   `json:"root"`
	Set    string   `json:"set,omitempty"`
	Lo     int      `json:"lo,omitempty"`
	Hi     int      `json:"hi,omitempty"`
	Names  []string `json:"names,omitempty"`
}

type spec struct {
	Steps   []step `json:"steps"`
	MaxComp int    `json:"max_comp"`
	Lead    int    `json:"lead"`
	IDLen   int    `json:"id_len"`
	// Listing != nil: the process runs part C for one (backend, scheme) over
	// some roots instead of a history of pather uses.
	Listing *listSpec `json:"listing,omitempty"`
}

// failure: the round trip of use Victim (a step index) did not hold when
// observed after step Step. Mode: "fresh" (path produced by the step itself),
// "stored" (path produced when the victim was first used, converted back now),
// "fresh-again" (an earlier use converts the name both ways again).
type failure struct {
	Step   int                    `json:"step"`
	Victim int                    `json:"victim"`
	Clause string                 `json:"clause"`
	Name   string                 `json:"name"`
	Mode   string                 `json:"mode"`
	Detail map[string]interface{} `json:"detail"`
	Count  int64                  `json:"count,omitempty"` // "full" sets: failing names of this clause
}

type stepReport struct {
	Evals         int64                  `json:"evals"`
	Fails         []failure              `json:"fails,omitempty"`
	Agree         int64                  `json:"agree"`
	Disagree      int64                  `json:"disagree"`
	FirstDisagree *tcase                 `json:"first_disagree,omitempty"`
	Sample        map[string]interface{} `json:"sample,omitempty"`
}

type report struct {
	Steps   []stepReport `json:"steps"`
	Listing *listReport  `json:"listing,omitempty"`
}

func domainNames(scheme string, sp spec) []string {
	switch scheme {
	case namepath.DockerTag:
		return dockerTagNames(sp.MaxComp)
	case namepath.ShardedDockerBlob:
		return hexNames(sp.Lead)
	default:
		return identityNames(sp.IDLen)
	}
}

func stepNames(st step, sp spec) []string {
	switch st.Set {
	case "full":
		ns := domainNames(st.Scheme, sp)
		if st.Lo < 0 || st.Hi > len(ns) || st.Lo > st.Hi {
			fmt.Fprintf(os.Stderr, "child: range [%d,%d) outside the %d names of %s\n", st.Lo, st.Hi, len(ns), st.Scheme)
			os.Exit(3)
		}
		return ns[st.Lo:st.Hi]
	case "names":
		return st.Names
	default:
		return probeNames(st.Scheme)
	}
}

// caseKey orders failing cases: smallest first.
func caseKey(root, name string) string {
	return fmt.Sprintf("%04d|%s|%s", len(root)+len(name), root, name)
}

// observe executes one round trip on the real pather p (nil: namepath.New
// failed with newErr). haveStored: the path was produced earlier and only the
// way back is executed.
func observe(p namepath.Pather, newErr string, c tcase, stored string, haveStored bool) (clause string, detail map[string]interface{}, bp string, produced bool) {
	detail = map[string]interface{}{"scheme": c.Scheme, "root": c.Root, "name": c.Name}
	defer func() {
		if r := recover(); r != nil {
			detail["panic"] = fmt.Sprint(r)
			clause = "round trip panics"
		}
	}()
	if p == nil {
		detail["error"] = newErr
		return "namepath.New rejects root", detail, "", false
	}
	if haveStored {
		bp = stored
	} else {
		var err error
		bp, err = p.BlobPath(c.Name)
		if err != nil {
			detail["error"] = err.Error()
			return "BlobPath rejects a valid name", detail, "", false
		}
		produced = true
	}
	detail["blob_path"] = bp
	got, err := p.NameFromBlobPath(bp)
	if err != nil {
		detail["error"] = err.Error()
		return "NameFromBlobPath rejects the path BlobPath produced", detail, bp, produced
	}
	if got != c.Name {
		detail["name_from_blob_path"] = got
		return "NameFromBlobPath(BlobPath(name)) != name", detail, bp, produced
	}
	return "", detail, bp, produced
}

// execHistory runs the history in THIS process (the child).
func execHistory(sp spec) report {
	type used struct {
		st     step
		p      namepath.Pather
		newErr string
		names  []string
		stored map[string]string
		probe  bool
	}
	var hist []*used
	var rep report
	for i, st := range sp.Steps {
		var sr stepReport
		u := &used{st: st, names: stepNames(st, sp), stored: map[string]string{}, probe: st.Set != "full"}
		func() {
			defer func() {
				if r := recover(); r != nil {
					u.newErr = "panic: " + fmt.Sprint(r)
				}
			}()
			p, err := namepath.New(st.Root, st.Scheme)
			if err != nil {
				u.newErr = err.Error()
				return
			}
			u.p = p
		}()
		hist = append(hist, u)
		worst := map[string]int{} // "full": clause -> index in sr.Fails
		rec := func(victim int, mode, name, stored string, haveStored bool) {
			v := hist[victim]
			c := tcase{v.st.Scheme, v.st.Root, name}
			clause, detail, bp, produced := observe(v.p, v.newErr, c, stored, haveStored)
			sr.Evals++
			if mode == "fresh" {
				if produced {
					v.stored[name] = bp
					if bp == refPath(c.Scheme, c.Root, name) {
						sr.Agree++
					} else {
						sr.Disagree++
						if sr.FirstDisagree == nil {
							cc := c
							sr.FirstDisagree = &cc
						}
					}
					if sr.Sample == nil {
						sr.Sample = map[string]interface{}{"scheme": c.Scheme, "root": c.Root, "name": name, "blob_path": bp}
					}
				}
			}
			if clause == "" {
				return
			}
			f := failure{Step: i, Victim: victim, Clause: clause, Name: name, Mode: mode, Detail: detail}
			if v.probe {
				sr.Fails = append(sr.Fails, f)
				return
			}
			if k, ok := worst[clause]; ok {
				cur := &sr.Fails[k]
				n := cur.Count + 1
				if caseKey(c.Root, name) < caseKey(c.Root, cur.Name) {
					*cur = f
				}
				cur.Count = n
			} else {
				f.Count = 1
				worst[clause] = len(sr.Fails)
				sr.Fails = append(sr.Fails, f)
			}
		}
		for _, n := range u.names {
			rec(i, "fresh", n, "", false)
		}
		if u.probe {
			// a listing after this use: every path stored so far is converted back
			for j := 0; j <= i; j++ {
				if !hist[j].probe {
					continue
				}
				for _, n := range hist[j].names {
					if bp, ok := hist[j].stored[n]; ok {
						rec(j, "stored", n, bp, true)
					}
				}
			}
			// every earlier use converts its names both ways again
			for j := 0; j < i; j++ {
				if !hist[j].probe {
					continue
				}
				for _, n := range hist[j].names {
					rec(j, "fresh-again", n, "", false)
				}
			}
		}
		rep.Steps = append(rep.Steps, sr)
	}
	return rep
}

func childMain() {
	var sp spec
	if err := json.NewDecoder(os.Stdin).Decode(&sp); err != nil {
		fmt.Fprintf(os.Stderr, "child: bad spec: %v\n", err)
		os.Exit(3)
	}
	var rep report
	if sp.Listing != nil {
		lr := execListing(*sp.Listing)
		rep.Listing = &lr
	} else {
		rep = execHistory(sp)
	}
	if err := json.NewEncoder(os.Stdout).Encode(rep); err != nil {
		fmt.Fprintf(os.Stderr, "child: %v\n", err)
		os.Exit(3)
	}
}

// ---------------------------------------------------------------------------
// Parent.

var (
	selfExe  string
	childEnv []string

	smallOnce sync.Once
	smallExe  string // "" = the children of parts A/B run selfExe
	smallNote string
)

// patherExe: the binary that runs the children of parts A/B (pather
// histories). Part C links the backend clients with the AWS / GCS SDKs and
// kraken's logger into this check, which makes every process start 3-4x as
// expensive as that of a binary that links only namepath -- and parts A/B are
// ~150 (thorough ~1800) process starts. So the parent builds the SAME package
// once more with the tag c36small (listing_exec.go and the in-memory stores
// left out, listing_small.go in), through the same build overlay run.sh used
// (so a patch under test is in it as well), and runs the pather children from
// that binary. If that build is not possible (no overlay / go not found) the
// children run this binary: slower, same results.
func patherExe() string {
	smallOnce.Do(func() { smallExe, smallNote = buildSmallChild() })
	if smallExe == "" {
		return selfExe
	}
	return smallExe
}

func buildSmallChild() (exe, note string) {
	if !haveListing {
		return "", "this binary (it is the small one)"
	}
	if os.Getenv("VERIF_C36_ONE_BINARY") != "" {
		return "", "this binary (VERIF_C36_ONE_BINARY set)"
	}
	scratch := os.Getenv("VERIF_SCRATCH")
	ov := filepath.Join(scratch, "ov", "overlay.json")
	if _, err := os.Stat(ov); scratch == "" || err != nil {
		return "", "this binary (no build overlay of run.sh found)"
	}
	out := filepath.Join(scratch, "check-c36-small")
	cmd := exec.Command("go", "build", "-overlay", ov, "-tags", "verif,c36small", "-o", out, "./checks/c36")
	cmd.Dir = filepath.Join(evid.Root, "engine")
	if b, err := cmd.CombinedOutput(); err != nil {
		return "", fmt.Sprintf("this binary (building the small one failed: %v: %.300s)", err, b)
	}
	return out, "small binary (same package, build tag c36small: without part C and the backend clients)"
}

func runChild(sp spec, timeout time.Duration) (*report, error) {
	in, _ := json.Marshal(sp)
	exe := selfExe
	if sp.Listing == nil {
		exe = patherExe()
	}
	ctx, cancel := context.WithTimeout(context.Background(), timeout)
	defer cancel()
	cmd := exec.CommandContext(ctx, exe)
	cmd.Env = childEnv
	cmd.Stdin = bytes.NewReader(in)
	var out, errb bytes.Buffer
	cmd.Stdout, cmd.Stderr = &out, &errb
	if err := cmd.Run(); err != nil {
		return nil, fmt.Errorf("child process for %s: %v: %s", in, err, errb.String())
	}
	var r report
	if err := json.Unmarshal(out.Bytes(), &r); err != nil {
		return nil, fmt.Errorf("child process for %s: bad report: %v", in, err)
	}
	if len(r.Steps) != len(sp.Steps) {
		return nil, fmt.Errorf("child process for %s: %d step reports", in, len(r.Steps))
	}
	if sp.Listing != nil && (r.Listing == nil || len(r.Listing.Roots) != len(sp.Listing.Roots)) {
		return nil, fmt.Errorf("child process for %s: listing report missing or short", in)
	}
	return &r, nil
}

func soloFP(scheme, clause, root string) string {
	return fmt.Sprintf("%s: %s [%s]", scheme, clause, rootClass(root))
}

// Relation of another use o of the history to the victim v, strongest first.
var relationText = []string{
	"a repeated use of the same (scheme, root)",
	"a use of the same scheme with the same directory spelled differently",
	"a use of the same scheme with a different root directory",
	"a use of another scheme with the same root",
	"a use of another scheme with a different root",
}

func relation(v, o use) int {
	switch {
	case v == o:
		return 0
	case v.Scheme == o.Scheme && path.Clean(v.Root) == path.Clean(o.Root):
		return 1
	case v.Scheme == o.Scheme:
		return 2
	case v.Root == o.Root:
		return 3
	}
	return 4
}

type verdict struct {
	fp     string
	detail map[string]interface{}
	order  string
}

func inherentKey(name, clause string) string { return name + "\x00" + clause }

// judgeHistory applies the oracle to the report of one history. A failure that
// the victim use shows in a fresh process of its own (inherent) belongs to the
// single-use class and does not end the history; the first step with any other
// failure ends it (violating transitions are not expanded).
func judgeHistory(uses []use, rep *report, inherent map[use]map[string]bool) []verdict {
	for i, sr := range rep.Steps {
		byFP := map[string]verdict{}
		for _, f := range sr.Fails {
			v := uses[f.Victim]
			if inherent[v][inherentKey(f.Name, f.Clause)] {
				continue
			}
			rel := -1
			for k := 0; k <= i; k++ {
				if k == f.Victim {
					continue
				}
				if r := relation(v, uses[k]); rel < 0 || r < rel {
					rel = r
				}
			}
			relS := "no other use (the same use holds in another fresh process: not deterministic)"
			if rel >= 0 {
				relS = relationText[rel]
			}
			fp := fmt.Sprintf("%s: %s [history-dependent: holds in a fresh process, fails after %s]", v.Scheme, f.Clause, relS)
			ord := fmt.Sprintf("%02d|%s|%02d|%s|%s", i+1, histKey(uses[:i+1]), f.Victim, f.Name, f.Mode)
			if cur, ok := byFP[fp]; ok && cur.order <= ord {
				continue
			}
			byFP[fp] = verdict{fp: fp, order: ord, detail: map[string]interface{}{
				"history": uses[:i+1], "failing_step": i, "victim_step": f.Victim, "victim": v,
				"name": f.Name, "clause": f.Clause, "mode": f.Mode, "observation": f.Detail,
			}}
		}
		if len(byFP) > 0 {
			var out []verdict
			for _, v := range byFP {
				out = append(out, v)
			}
			sort.Slice(out, func(a, b int) bool { return out[a].fp < out[b].fp })
			return out
		}
	}
	return nil
}

func historySpec(h []use, base spec) spec {
	sp := base
	sp.Steps = nil
	for _, u := range h {
		sp.Steps = append(sp.Steps, step{Scheme: u.Scheme, Root: u.Root})
	}
	return sp
}

// sequences: every sequence of exactly depth uses over alpha.
func sequences(alpha []use, depth int) [][]use {
	out := [][]use{nil}
	for d := 0; d < depth; d++ {
		var next [][]use
		for _, h := range out {
			for _, u := range alpha {
				next = append(next, append(append([]use(nil), h...), u))
			}
		}
		out = next
	}
	return out
}

func usesOver(roots []string) []use {
	var out []use
	for _, s := range schemes {
		for _, r := range roots {
			out = append(out, use{s, r})
		}
	}
	return out
}

func replay(run *evid.Run, rp string, base spec) {
	b, err := os.ReadFile(rp)
	if err != nil {
		run.Fatal(err)
	}
	var f struct {
		Case json.RawMessage `json:"case"`
	}
	if err := json.Unmarshal(b, &f); err != nil {
		run.Fatal(err)
	}
	var h struct {
		History []use `json:"history"`
	}
	var c tcase
	if err := json.Unmarshal(f.Case, &h); err != nil {
		run.Fatal(err)
	}
	if err := json.Unmarshal(f.Case, &c); err != nil {
		run.Fatal(err)
	}
	var lc struct {
		Backend  string   `json:"backend"`
		Scheme   string   `json:"scheme"`
		Root     string   `json:"root"`
		Uploaded []string `json:"uploaded"`
		Class    string   `json:"root_class_of_fingerprint"`
	}
	if err := json.Unmarshal(f.Case, &lc); err != nil {
		run.Fatal(err)
	}
	if lc.Backend != "" {
		sp := base
		sp.Listing = &listSpec{Backend: lc.Backend, Scheme: lc.Scheme, Roots: []string{lc.Root}, Sets: [][]string{lc.Uploaded}}
		r, err := runChild(sp, time.Minute)
		if err != nil {
			run.Fatal(err)
		}
		rr := r.Listing.Roots[0]
		run.Eval(int(rr.Lists))
		run.Distinct("replay")
		run.Distinct("replay2")
		run.Sample(lc)
		for _, fl := range rr.Fails {
			class := lc.Class // the class the full run gave this (backend, scheme, clause)
			if class == "" {
				class = listRootClass(fl.Root)
			}
			d := listDetail(lc.Backend, lc.Scheme, fl)
			d["root_class_of_fingerprint"] = class
			run.Violation(listFP(lc.Backend, lc.Scheme, fl, class), d)
		}
		run.Finish()
		return
	}
	if len(h.History) > 0 {
		inherent := map[use]map[string]bool{}
		for _, u := range h.History {
			if inherent[u] != nil {
				continue
			}
			inherent[u] = map[string]bool{}
			r, err := runChild(historySpec([]use{u}, base), time.Minute)
			if err != nil {
				run.Fatal(err)
			}
			for _, fl := range r.Steps[0].Fails {
				inherent[u][inherentKey(fl.Name, fl.Clause)] = true
				run.Violation(soloFP(u.Scheme, fl.Clause, u.Root), fl.Detail)
			}
			run.Eval(int(r.Steps[0].Evals))
		}
		r, err := runChild(historySpec(h.History, base), time.Minute)
		if err != nil {
			run.Fatal(err)
		}
		for i := range h.History {
			run.Eval(int(r.Steps[i].Evals))
			run.Distinct("H|" + histKey(h.History[:i+1]))
		}
		run.Distinct("replay")
		run.Sample(h)
		for _, v := range judgeHistory(h.History, r, inherent) {
			run.Violation(v.fp, v.detail)
		}
		run.Finish()
		return
	}
	sp := base
	sp.Steps = []step{{Scheme: c.Scheme, Root: c.Root, Set: "names", Names: []string{c.Name}}}
	r, err := runChild(sp, time.Minute)
	if err != nil {
		run.Fatal(err)
	}
	run.Eval(int(r.Steps[0].Evals))
	run.Distinct("replay")
	run.Distinct("replay2")
	run.Sample(c)
	for _, fl := range r.Steps[0].Fails {
		run.Violation(soloFP(c.Scheme, fl.Clause, c.Root), fl.Detail)
	}
	run.Finish()
}

func main() {
	if os.Getenv(childEnvVar) != "" {
		childMain()
		return
	}
	run := evid.New("C36", "exploration")
	run.Rule = "Every case runs in a fresh child process of the check (package-level state of the implementation is process state; one process per history). " +
		"Part A, single use: every (scheme, root, name): scheme in {docker_tag, sharded_docker_blob, identity}; root in 10 roots (depth 0-2, with/without trailing slash, '/', relative roots as shipped in helm config) x names: docker_tag = every repo of 1..k components over 20 words (incl. layout words) x 12 tags, each checked against the Docker reference grammar; sharded = 64-hex digests with the first 2/3 and the last character over all hex values; identity = every clean relative path of length <= L over {a,b,/,.,:,-,_} plus realistic names; plus 6 more roots ('', '//', 'a/', 'a.b', '/a+b/', '/a(b') x the same name domain one size smaller (k-1, first 1/2 hex characters, L-1). " +
		"Part B, histories of uses (scheme, root) inside one process. quick: every ordered pair (incl. the repeated use) of uses of one scheme over the root spellings {'', '/', a, a/, /a, A}; every ordered pair of two different schemes on the roots '' and 'a/'; per scheme the 8 cyclic rotations of the history that uses all of {'', '/', a, a/, /a, A, a/b, a.b} once. thorough: every ordered pair over 3 schemes x 12 spellings ('', '/', '//', a, a/, /a, /a/, a/b, /a/b/, a.b, A, /a+b); every triple over {docker_tag, sharded_docker_blob} x {'', '/', a, /a}; the 36 cyclic rotations of the history that uses all 36 uses once. Each use creates a pather and round-trips 2-5 probe names; after EVERY use the paths stored by all uses so far are converted back (a later listing) and every earlier use round-trips its names again; every prefix of a history is judged. " +
		"Oracle of parts A and B: NameFromBlobPath(BlobPath(name)) must equal name. A failure inside a history that the same use also shows as the first use of a fresh process belongs to the single-use class; any other failure is history-dependent and ends the history. " +
		"Part C, listing ('so listings report the names that were uploaded'): for every listing backend in {hdfs, s3, gcs, testfs} x scheme x root spelling of the 20 roots of parts A/B plus '/a.b' (hdfs/s3/gcs: the roots their real constructor accepts, i.e. the 12 absolute ones, hdfs also the empty root = its default; testfs: the 9 roots without a leading slash) x every non-empty set of <= 3 (thorough: all sets) of a 6-name universe per scheme (4 for sharded; names sharing directories / repositories / shards, nested repositories, layout words as repository component and as tag): a FRESH store and a FRESH real client built by the backend's public constructor (hdfsbackend.NewClient+WithWebHDFS over an in-memory name node, s3backend.NewClient+WithS3 over an in-memory S3, gcsbackend.NewClient+WithGCS over an in-memory GCS paged by the real iterator.Pager, testfs.NewClient against the real testfs.Server handler over loopback HTTP); the names are uploaded through Client.Upload one by one, Client.List(\"\") is called after every upload and, after the last one, Client.List(P) for EVERY directory prefix P of the storage paths (relative to the scheme's base directory, read off the real pather) and every storage path itself. Oracle: List(\"\") reports exactly the uploaded names; List(P) reports every uploaded name stored below directory P, only uploaded names whose storage path starts with P as a string, and nothing twice; List and Upload neither fail nor panic. One process per (backend, scheme) (thorough: per 4 roots). " +
		"distinct = distinct (scheme, root, name) triples of part A + distinct histories (every judged prefix is one) of part B + distinct (backend, scheme, root, uploaded set) of part C."
	run.Assume("small-scope: roots of depth <= 2 over [a-zA-Z0-9_.+(-], repository names of <= 3 components over a 20-word vocabulary, identity names of <= 5 characters over a 7-character alphabet")
	run.Assume("valid identity name = clean relative path (non-empty components, no '.'/'..' component, no leading/trailing slash); roots with '.' or '..' COMPONENTS are outside the domain")
	run.Assume("docker_tag names are repo:tag by the Docker reference grammar without registry host (a host:port prefix is rejected by the scheme itself)")
	run.Assume("listing part, trusted base: the in-memory stores of checks/c36/fake_hdfs.go (WebHDFS name node: every path normalised as HDFS and kraken's webhdfs client do, LISTSTATUS of a file answers one entry with an empty pathSuffix, of a missing path 404, RENAME without effect when the target exists or its parent is missing), fake_s3.go (sorted keys, string prefix, MaxKeys pages, leading and repeated slashes of a key dropped as the SDK's URI cleaning does) and fake_gcs.go (opaque object names, string prefix, pages through the real iterator.Pager); testfs runs its real server handler on a scratch directory")
	run.Assume("listing part, domain: a root is a root of hdfs/s3/gcs iff the backend's constructor accepts it (relative roots are rejected: counted, not run); testfs.Server answers paths relative to its own directory, so roots with a leading slash are not roots of testfs (every shipped testfs configuration uses a relative root; with an absolute root every List fails -- observed, not counted as a violation); testfs maps ':' to '/' (documented), so identity names with ':' are not uploaded to it; hdfsbackend's documented catalog shortcut (a listing that passes a <repository>/_manifests directory reports <repository>:dummy instead of the tags) is accepted for docker_tag as standing for the uploaded tags of that repository; identity names that spell the registry layout (.../repositories/<r>/_manifests/...) are not uploaded to hdfs for the same reason; where directory-style and string-prefix matching of a non-empty prefix differ both answers are accepted; unpaginated listings only (pagination: C37)")
	run.Assume("histories: sequential uses inside one process, 2-3 uses exhaustively and one use of every alphabet member in cyclic order, one pather object per use, probe names only; concurrent uses and state shared through anything but the process (files, environment) are not explored")

	var err error
	if selfExe, err = os.Executable(); err != nil {
		run.Fatal(err)
	}
	// AWS_CA_BUNDLE makes every session.NewSession inside s3backend.NewClient
	// parse the system's CA bundle (tens of ms per client): no connection is
	// ever made, so it is taken out of the children's environment.
	for _, kv := range os.Environ() {
		if !strings.HasPrefix(kv, "AWS_CA_BUNDLE=") {
			childEnv = append(childEnv, kv)
		}
	}
	childEnv = append(childEnv, childEnvVar+"=1", "GOMAXPROCS=1")

	maxComp, lead, idLen, budget := 2, 2, 4, 150*time.Second // measured (with part C) 70-100 s wall with 4 workers at machine load ~60; the budget only cuts under heavier load
	if run.Thorough() {
		maxComp, lead, idLen, budget = 3, 3, 5, 800*time.Second
	}
	base := spec{MaxComp: maxComp, Lead: lead, IDLen: idLen}

	if rp := run.ReplayPath(); rp != "" {
		replay(run, rp, base)
		return
	}

	names := map[string][]string{}
	for _, s := range schemes {
		names[s] = domainNames(s, base)
		// Domain self-check: every generated name is valid by the independent grammar.
		for _, n := range names[s] {
			if !validName(s, n) {
				run.Fatal(fmt.Errorf("generator produced invalid %s name %q", s, n))
			}
		}
		for _, n := range probeNames(s) {
			if !validName(s, n) {
				run.Fatal(fmt.Errorf("invalid %s probe name %q", s, n))
			}
		}
	}

	const (
		kindA = iota
		kindHist
		kindList
	)
	type job struct {
		kind    int
		sp      spec
		uses    []use
		names   []string
		rep     *report
		skipped bool
	}
	var jobs []*job

	// Part A: one fresh process per (scheme, root, chunk of names).
	const chunk = 16384
	reduced := spec{MaxComp: maxComp - 1, Lead: lead - 1, IDLen: idLen - 1}
	partA := func(roots []string, dom spec) {
		for _, s := range schemes {
			ns := domainNames(s, dom)
			for _, n := range ns {
				if !validName(s, n) {
					run.Fatal(fmt.Errorf("generator produced invalid %s name %q", s, n))
				}
			}
			for _, r := range roots {
				for i := 0; i < len(ns); i += chunk {
					e := i + chunk
					if e > len(ns) {
						e = len(ns)
					}
					sp := dom
					sp.Steps = []step{{Scheme: s, Root: r, Set: "full", Lo: i, Hi: e}}
					jobs = append(jobs, &job{kind: kindA, sp: sp, uses: []use{{s, r}}, names: ns[i:e]})
				}
			}
		}
	}
	partA(soloRoots, base)
	partA(extraSoloRoots, reduced)

	// Part C: one fresh process per (listing backend, scheme, chunk of roots);
	// inside it a fresh store and a fresh real client per (root, uploaded set).
	// (quick: all roots of a (backend, scheme) in one process -- a process start
	// of the full binary costs about as much as the listings of 5 roots)
	maxSet, rootsPerChild := 3, 1000
	if run.Thorough() {
		maxSet, rootsPerChild = 0, 4
	}
	for _, s := range schemes {
		u := listUniverse(s)
		for i, n := range u {
			if !validName(s, n) {
				run.Fatal(fmt.Errorf("invalid %s listing name %q", s, n))
			}
			for k, o := range u {
				if i != k && (n == o || strings.HasPrefix(refPath(s, "", o), refPath(s, "", n)+"/")) {
					run.Fatal(fmt.Errorf("listing names %q and %q of %s cannot be stored side by side", n, o, s))
				}
			}
		}
	}
	var ljobs []*job
	listDomainSkipped := map[string][]string{}
	for _, b := range listBackends {
		var roots []string
		for _, r := range listRoots() {
			if inListDomain(b, r) {
				roots = append(roots, r)
			} else {
				listDomainSkipped[b] = append(listDomainSkipped[b], r)
			}
		}
		for _, s := range schemes {
			for i := 0; i < len(roots); i += rootsPerChild {
				e := i + rootsPerChild
				if e > len(roots) {
					e = len(roots)
				}
				sp := base
				sp.Listing = &listSpec{Backend: b, Scheme: s, Roots: roots[i:e], MaxSet: maxSet}
				ljobs = append(ljobs, &job{kind: kindList, sp: sp})
			}
		}
	}

	// Part B: one fresh process per maximal history (a history that is a proper
	// prefix of another one is covered by the longer one's process, which is
	// judged after every step).
	maximal := map[string][]use{}
	add := func(h []use) { maximal[histKey(h)] = append([]use(nil), h...) }
	hroots := quickHistoryRoots
	if run.Thorough() {
		hroots = historyRoots
	}
	alphabet := usesOver(hroots)
	if run.Thorough() {
		// every ordered pair of uses; every triple over the regexp schemes x core roots
		for _, h := range sequences(alphabet, 2) {
			add(h)
		}
		for _, h := range sequences(usesOver(coreHistoryRoots)[:2*len(coreHistoryRoots)], 3) {
			add(h)
		}
	} else {
		// every ordered pair of uses of one scheme (incl. the repeated use), and
		// every ordered pair of two schemes on one root (two roots)
		for _, s := range schemes {
			for _, r1 := range quickPairRoots {
				for _, r2 := range quickPairRoots {
					add([]use{{s, r1}, {s, r2}})
				}
			}
		}
		for _, s1 := range schemes {
			for _, s2 := range schemes {
				for _, r := range quickCrossSchemeRoots {
					if s1 != s2 {
						add([]use{{s1, r}, {s2, r}})
					}
				}
			}
		}
	}
	// long-lived process: a whole alphabet used once, from every starting point
	// of its cyclic order -- thorough: all uses (scheme-major); quick: per scheme
	rotations := func(alpha []use) {
		for i := range alpha {
			add(append(append([]use(nil), alpha[i:]...), alpha[:i]...))
		}
	}
	if run.Thorough() {
		rotations(alphabet)
	} else {
		for i := range schemes {
			rotations(alphabet[i*len(hroots) : (i+1)*len(hroots)])
		}
	}
	nodes := map[string]bool{}
	for _, h := range maximal {
		for i := 1; i <= len(h); i++ {
			nodes[histKey(h[:i])] = true
		}
	}
	for _, h := range maximal {
		for i := 1; i < len(h); i++ {
			delete(maximal, histKey(h[:i]))
		}
	}
	var hkeys []string
	for k := range maximal {
		hkeys = append(hkeys, k)
	}
	sort.Strings(hkeys)
	var hjobs []*job
	for _, k := range hkeys {
		hjobs = append(hjobs, &job{kind: kindHist, sp: historySpec(maximal[k], base), uses: maximal[k]})
	}
	// Job order: the listing processes, the long-lived histories (they also give their first use its
	// fresh-process reference), the reduced-domain part A jobs, then the full
	// part A jobs (long) interleaved with the short histories, so that a time
	// budget hit under heavy machine load cuts a tail of both parts.
	sort.SliceStable(hjobs, func(a, b int) bool { return len(hjobs[a].uses) > len(hjobs[b].uses) })
	nlong := 0
	for nlong < len(hjobs) && len(hjobs[nlong].uses) > 3 {
		nlong++
	}
	ajobs, short := jobs, hjobs[nlong:]
	jobs = append([]*job(nil), ljobs...) // first: they do not wait for the small binary
	jobs = append(jobs, hjobs[:nlong]...)
	var fullA []*job
	for _, j := range ajobs {
		if j.sp.MaxComp == reduced.MaxComp {
			jobs = append(jobs, j)
		} else {
			fullA = append(fullA, j)
		}
	}
	per := 1
	if len(fullA) > 0 {
		per = (len(short) + len(fullA) - 1) / len(fullA)
	}
	for len(fullA) > 0 || len(short) > 0 {
		if len(fullA) > 0 {
			jobs, fullA = append(jobs, fullA[0]), fullA[1:]
		}
		for k := 0; k < per && len(short) > 0; k++ {
			jobs, short = append(jobs, short[0]), short[1:]
		}
	}

	go patherExe() // built while the first listing processes run
	deadline := time.Now().Add(budget)
	var next int64 = -1
	var wg sync.WaitGroup
	for w := 0; w < evid.Workers(); w++ {
		wg.Add(1)
		go func() {
			defer wg.Done()
			for {
				i := int(atomic.AddInt64(&next, 1))
				if i >= len(jobs) {
					return
				}
				j := jobs[i]
				if time.Now().After(deadline) {
					j.skipped = true
					continue
				}
				t0 := time.Now()
				r, err := runChild(j.sp, 5*time.Minute)
				if err != nil {
					run.Fatal(err)
				}
				j.rep = r
				if os.Getenv("VERIF_C36_TIMING") != "" {
					what := "A/B " + histKey(j.uses)
					if j.sp.Listing != nil {
						what = fmt.Sprintf("C %s %s %v", j.sp.Listing.Backend, j.sp.Listing.Scheme, j.sp.Listing.Roots)
					}
					fmt.Fprintf(os.Stderr, "timing: %6.2fs (at %5.1fs) %.90s\n", time.Since(t0).Seconds(), time.Since(deadline.Add(-budget)).Seconds(), what)
				}
			}
		}()
	}
	wg.Wait()

	// ---- aggregation (sequential, in job order: deterministic) ----
	type worstCase struct {
		detail map[string]interface{}
		order  string
	}
	worst := map[string]worstCase{} // minimal failing case per fingerprint
	nPerFp := map[string]int64{}
	note := func(fp, order string, detail map[string]interface{}, n int64) {
		nPerFp[fp] += n
		if cur, ok := worst[fp]; !ok || order < cur.order {
			worst[fp] = worstCase{detail, order}
		}
	}
	perScheme := map[string]int64{}
	perRootClass := map[string]int64{}
	var layoutAgree, layoutDisagree, failing, skippedCases, skippedHist, skippedList int64
	var firstDisagree *tcase
	inherent := map[use]map[string]bool{}
	// part C counters, per backend
	type listCount struct {
		Accepted     int64 `json:"configurations_accepted_by_constructor"`
		Rejected     int64 `json:"configurations_rejected_by_constructor"`
		Sets         int64 `json:"uploaded_sets"`
		Uploads      int64 `json:"uploads"`
		Lists        int64 `json:"listings"`
		PrefixLists  int64 `json:"listings_with_non_empty_prefix"`
		Reported     int64 `json:"names_reported"`
		Placeholders int64 `json:"hdfs_catalog_placeholders_accepted"`
		Failing      int64 `json:"failing_observations"`
	}
	listCounts := map[string]*listCount{}
	listsPerRootClass := map[string]int64{}
	listRejected := map[string]map[string]string{}
	type listFailAt struct {
		backend, scheme string
		f               listFail
	}
	var listFails []listFailAt
	listClassesRun := map[string]map[string]bool{} // "backend scheme" -> root classes listed under
	for _, j := range jobs {
		if j.skipped {
			switch j.kind {
			case kindA:
				skippedCases += int64(len(j.names))
			case kindHist:
				skippedHist++
			default:
				skippedList++
			}
			continue
		}
		if j.kind == kindList {
			ls := j.sp.Listing
			lc := listCounts[ls.Backend]
			if lc == nil {
				lc = &listCount{}
				listCounts[ls.Backend] = lc
			}
			for _, rr := range j.rep.Listing.Roots {
				if rr.Rejected != "" {
					lc.Rejected++
					if listRejected[ls.Backend] == nil {
						listRejected[ls.Backend] = map[string]string{}
					}
					listRejected[ls.Backend][rr.Root] = rr.Rejected
					continue
				}
				lc.Accepted++
				lc.Sets += rr.Sets
				lc.Uploads += rr.Uploads
				lc.Lists += rr.Lists
				lc.PrefixLists += rr.PrefixLists
				lc.Reported += rr.Reported
				lc.Placeholders += rr.Placeholders
				listsPerRootClass[listRootClass(rr.Root)] += rr.Lists
				run.Eval(int(rr.Lists))
				for i := int64(0); i < rr.Sets; i++ {
					run.Distinct(fmt.Sprintf("L|%s|%s|%s|%d", ls.Backend, ls.Scheme, rr.Root, i))
				}
				bs := ls.Backend + " " + ls.Scheme
				if listClassesRun[bs] == nil {
					listClassesRun[bs] = map[string]bool{}
				}
				listClassesRun[bs][listRootClass(rr.Root)] = true
				for _, f := range rr.Fails {
					lc.Failing += f.Count
					failing += f.Count
					listFails = append(listFails, listFailAt{ls.Backend, ls.Scheme, f})
				}
			}
			continue
		}
		sr := j.rep.Steps[0]
		u := j.uses[0]
		switch j.kind {
		case kindA:
			if sr.Evals != int64(len(j.names)) {
				run.Fatal(fmt.Errorf("child for %v evaluated %d of %d names", j.sp.Steps, sr.Evals, len(j.names)))
			}
			run.Eval(int(sr.Evals))
			for _, n := range j.names {
				run.Distinct(u.Scheme + "|" + u.Root + "|" + n)
			}
			perScheme[u.Scheme] += sr.Evals
			perRootClass[rootClass(u.Root)] += sr.Evals
			layoutAgree += sr.Agree
			layoutDisagree += sr.Disagree
			if firstDisagree == nil && sr.FirstDisagree != nil {
				firstDisagree = sr.FirstDisagree
			}
			for _, f := range sr.Fails {
				failing += f.Count
				note(soloFP(u.Scheme, f.Clause, u.Root), "A|"+caseKey(u.Root, f.Name), f.Detail, f.Count)
			}
			if j.sp.Steps[0].Lo == 0 && (u.Root == "/" || (u.Root == "/a/b/" && u.Scheme == namepath.DockerTag)) && sr.Sample != nil {
				run.Sample(sr.Sample)
			}
		}
	}
	// Part C fingerprints: clause x prefix kind x root class -- unless the clause
	// fails under EVERY root class the (backend, scheme) was listed under (a
	// failure that does not depend on the root spelling): one fingerprint.
	{
		classesFailing := map[string]map[string]bool{}
		key := func(x listFailAt) string {
			return listFP(x.backend, x.scheme, x.f, "")
		}
		for _, x := range listFails {
			k := key(x)
			if classesFailing[k] == nil {
				classesFailing[k] = map[string]bool{}
			}
			classesFailing[k][listRootClass(x.f.Root)] = true
		}
		for _, x := range listFails {
			f := x.f
			class := listRootClass(f.Root)
			if ran := listClassesRun[x.backend+" "+x.scheme]; len(ran) > 1 && len(classesFailing[key(x)]) == len(ran) {
				class = "every root spelling"
			}
			d := listDetail(x.backend, x.scheme, f)
			d["root_class_of_fingerprint"] = class
			note(listFP(x.backend, x.scheme, f, class),
				fmt.Sprintf("L|%02d|%03d|%03d|%s\x00%s\x00%s", len(f.Uploaded), len(f.Root)+len(f.Prefix), len(strings.Join(f.Uploaded, ",")), f.Root, strings.Join(f.Uploaded, "\x00"), f.Prefix),
				d, f.Count)
		}
	}
	// Failures of the FIRST use of a history are failures of that use in a fresh
	// process: the single-use class (reported once per use).
	firstFails := map[use]string{}
	for _, j := range jobs {
		if j.kind != kindHist || j.skipped {
			continue
		}
		u := j.uses[0]
		var sig []string
		for _, f := range j.rep.Steps[0].Fails {
			sig = append(sig, f.Mode+"\x00"+inherentKey(f.Name, f.Clause))
		}
		sort.Strings(sig)
		sg := strings.Join(sig, "\x01")
		if prev, seen := firstFails[u]; seen {
			if prev != sg {
				note(fmt.Sprintf("%s: the round trips of one first use differ between two fresh processes [not deterministic]", u.Scheme),
					"N|"+histKey(j.uses), map[string]interface{}{"history": j.uses[:1], "fails": j.rep.Steps[0].Fails}, 1)
			}
			continue
		}
		firstFails[u] = sg
		inherent[u] = map[string]bool{}
		for _, f := range j.rep.Steps[0].Fails {
			inherent[u][inherentKey(f.Name, f.Clause)] = true
			failing++
			note(soloFP(u.Scheme, f.Clause, u.Root), "B|"+caseKey(u.Root, f.Name), f.Detail, 1)
		}
	}
	var histExecuted, histNodes, histFailing, inherentSeen int64
	relPairs := make([]int64, len(relationText))
	var slashOnly int64
	stripSlashes := func(s string) string { return strings.ReplaceAll(s, "/", "") }
	for _, j := range jobs {
		if j.kind != kindHist || j.skipped {
			continue
		}
		unjudged := false
		for _, u := range j.uses {
			if inherent[u] == nil {
				if skippedHist == 0 {
					run.Fatal(fmt.Errorf("no history starts with use %v", u))
				}
				unjudged = true // its fresh-process reference was cut by the time budget
			}
		}
		if unjudged {
			skippedHist++
			continue
		}
		histExecuted++
		for i := range j.uses {
			run.Eval(int(j.rep.Steps[i].Evals))
			run.Distinct("H|" + histKey(j.uses[:i+1]))
			for _, f := range j.rep.Steps[i].Fails {
				if inherent[j.uses[f.Victim]][inherentKey(f.Name, f.Clause)] {
					inherentSeen++
				}
			}
		}
		near := false
		for a := 0; a < len(j.uses); a++ {
			for b := a + 1; b < len(j.uses); b++ {
				relPairs[relation(j.uses[b], j.uses[a])]++
				x, y := j.uses[a], j.uses[b]
				if x.Scheme == y.Scheme && path.Clean(x.Root) != path.Clean(y.Root) && stripSlashes(x.Root) == stripSlashes(y.Root) {
					near = true
				}
			}
		}
		if near {
			slashOnly++
		}
		vs := judgeHistory(j.uses, j.rep, inherent)
		if len(vs) > 0 {
			histFailing++
		}
		for _, v := range vs {
			note(v.fp, "H|"+v.order, v.detail, 1)
		}
	}
	histNodes = int64(len(nodes))

	var fps []string
	for fp := range worst {
		fps = append(fps, fp)
	}
	sort.Strings(fps)
	for _, fp := range fps {
		w := worst[fp]
		w.detail["failing_cases_in_class"] = nPerFp[fp]
		run.Violation(fp, w.detail)
	}
	if skippedCases > 0 || skippedHist > 0 || skippedList > 0 {
		run.NotExhaustive(fmt.Sprintf("time budget hit: %d single-use cases, %d histories and %d listing processes not executed", skippedCases, skippedHist, skippedList))
	}
	if skippedList == 0 {
		for _, b := range listBackends {
			if lc := listCounts[b]; lc == nil || lc.Accepted == 0 || lc.PrefixLists == 0 {
				run.Fatal(fmt.Errorf("listing part is vacuous for backend %s: %+v", b, lc))
			}
		}
		if listsPerRootClass["root is the filesystem root"] == 0 || listsPerRootClass["empty root"] == 0 {
			run.Fatal(fmt.Errorf("listing part never listed under the filesystem root / the empty root: %v", listsPerRootClass))
		}
	}
	run.Sample(map[string]interface{}{"listing": ljobs[0].sp.Listing, "universe": listUniverse(ljobs[0].sp.Listing.Scheme)})
	run.Set("listing_per_backend", listCounts)
	run.Set("listing_observations_per_root_class", listsPerRootClass)
	run.Set("listing_roots", listRoots())
	run.Set("listing_roots_outside_backend_domain", listDomainSkipped)
	run.Set("listing_roots_rejected_by_constructor", listRejected)
	run.Set("listing_processes", len(ljobs))
	run.Set("pather_children_run", smallNote)
	nsample := 0
	for _, j := range jobs {
		if j.kind == kindHist && !j.skipped && nsample < 2 && len(j.uses) >= 2 &&
			j.uses[0].Scheme == j.uses[1].Scheme && j.uses[0].Root == "" && j.uses[1].Root == "/" {
			run.Sample(map[string]interface{}{"history": j.uses, "probe_names": probeNames(j.uses[0].Scheme)})
			nsample++
		}
	}
	run.Set("cases_per_scheme", perScheme)
	run.Set("cases_per_root_class", perRootClass)
	run.Set("names_per_scheme", map[string]int{
		namepath.DockerTag:         len(names[namepath.DockerTag]),
		namepath.ShardedDockerBlob: len(names[namepath.ShardedDockerBlob]),
		namepath.Identity:          len(names[namepath.Identity]),
	})
	run.Set("roots", soloRoots)
	run.Set("roots_with_reduced_name_domain", extraSoloRoots)
	run.Set("history_roots", hroots)
	run.Set("failing_cases", failing)
	run.Set("child_processes", len(jobs))
	run.Set("histories_explored", histNodes)
	run.Set("history_processes", histExecuted)
	run.Set("histories_with_history_dependent_failure", histFailing)
	run.Set("history_observations_matching_a_single_use_failure", inherentSeen)
	run.Set("histories_with_two_roots_of_one_scheme_differing_only_in_slashes_but_not_in_directory", slashOnly)
	rp := map[string]int64{}
	for i, n := range relPairs {
		rp[relationText[i]] = n
	}
	run.Set("ordered_use_pairs_per_relation", rp)
	// Diagnostic only (the statement is the round trip, not the layout).
	run.Set("blobpath_equals_reference_layout", layoutAgree)
	run.Set("blobpath_differs_from_reference_layout", layoutDisagree)
	if firstDisagree != nil {
		run.Set("first_layout_difference", firstDisagree)
	}
	cpu := 0.0
	for _, who := range []int{syscall.RUSAGE_SELF, syscall.RUSAGE_CHILDREN} {
		var ru syscall.Rusage
		if syscall.Getrusage(who, &ru) == nil {
			cpu += float64(ru.Utime.Sec+ru.Stime.Sec) + float64(ru.Utime.Usec+ru.Stime.Usec)/1e6
		}
	}
	run.Set("cpu_s", cpu)
	run.Finish()
}
