// C36: backend name/path mapping round-trips for every name.
// E4: small-scope exhaustive enumeration of (scheme, root, name) on the real
// namepath pathers. Law: NameFromBlobPath(BlobPath(name)) == name for every
// valid name of the scheme and every configurable root (with / without a
// trailing slash, including the filesystem root).
package main

import (
	"encoding/json"
	"fmt"
	"os"
	"regexp"
	"runtime"
	"sort"
	"strings"
	"sync"
	"sync/atomic"
	"syscall"
	"time"

	"github.com/uber/kraken/lib/backend/namepath"

	"verif/evid"
	_ "verif/quiet"
)

// ---------------------------------------------------------------------------
// Domain (written from the Docker reference grammar and the property text,
// independent of pather.go).

// Docker distribution reference grammar.
var (
	reRepoComponent = regexp.MustCompile(`^[a-z0-9]+(?:(?:[._]|__|[-]*)[a-z0-9]+)*$`)
	reTag           = regexp.MustCompile(`^[\w][\w.-]{0,127}$`)
	reHex64         = regexp.MustCompile(`^[0-9a-f]{64}$`)
)

// Repository path components: ordinary names plus every word of the registry
// layout that is a legal component.
var repoWords = []string{
	"a", "library", "ubuntu", "a-b", "a.b", "a_b", "a__b", "0",
	"tags", "current", "link", "data", "sha256", "repositories", "blobs",
	"docker", "registry", "v2", "index", "revisions",
}

// Tags, including layout words and the separators the grammar allows.
var tagWords = []string{
	"latest", "current", "link", "tags", "v1.0", "_x", "a-b", "_manifests",
	"0", "data", "sha256", "A.B-c_d",
}

func repos(maxComponents int) []string {
	var out []string
	var rec func(prefix string, depth int)
	rec = func(prefix string, depth int) {
		for _, w := range repoWords {
			r := w
			if prefix != "" {
				r = prefix + "/" + w
			}
			out = append(out, r)
			if depth+1 < maxComponents {
				rec(r, depth+1)
			}
		}
	}
	rec("", 0)
	return out
}

func validRepo(r string) bool {
	if r == "" {
		return false
	}
	for _, c := range strings.Split(r, "/") {
		if !reRepoComponent.MatchString(c) {
			return false
		}
	}
	return true
}

func dockerTagNames(maxComponents int) []string {
	var out []string
	for _, r := range repos(maxComponents) {
		for _, t := range tagWords {
			out = append(out, r+":"+t)
		}
	}
	return out
}

func validDockerTagName(n string) bool {
	i := strings.LastIndex(n, ":")
	if i < 0 || strings.Count(n, ":") != 1 {
		return false
	}
	return validRepo(n[:i]) && reTag.MatchString(n[i+1:])
}

const hexDigits = "0123456789abcdef"

// hexNames: 64-hex digests; the first `lead` characters and the last character
// take every hex value, the middle is a fixed filler.
func hexNames(lead int) []string {
	filler := strings.Repeat("0123456789abcdef", 4)
	var out []string
	n := 1
	for i := 0; i < lead; i++ {
		n *= 16
	}
	for v := 0; v < n; v++ {
		head := make([]byte, lead)
		x := v
		for i := lead - 1; i >= 0; i-- {
			head[i] = hexDigits[x%16]
			x /= 16
		}
		for l := 0; l < 16; l++ {
			out = append(out, string(head)+filler[lead:63]+string(hexDigits[l]))
		}
	}
	return out
}

// validIdentityName: a clean relative path — non-empty components separated by
// single slashes, no "." / ".." component. (The property does not say what an
// identity name is; this is the conservative reading: names that a path join
// cannot normalise away.)
func validIdentityName(n string) bool {
	if n == "" {
		return false
	}
	for _, c := range strings.Split(n, "/") {
		if c == "" || c == "." || c == ".." {
			return false
		}
	}
	return true
}

func identityNames(maxLen int) []string {
	alphabet := []byte{'a', 'b', '/', '.', ':', '-', '_'}
	var out []string
	var rec func(cur []byte)
	rec = func(cur []byte) {
		if len(cur) > 0 && validIdentityName(string(cur)) {
			out = append(out, string(cur))
		}
		if len(cur) == maxLen {
			return
		}
		for _, c := range alphabet {
			rec(append(cur, c))
		}
	}
	rec(nil)
	out = append(out,
		"foo/bar", "repo:tag", "library/ubuntu:latest", "tags", "blobs", "0",
		"docker/registry/v2/blobs/sha256/ff/ff00/data",
		"ff85ceb9734a3c2fbb886e0f7cfc66b046eeeae953d8cb430dc5a7ace544b0e9",
		"a-b_c/0", "a-b_c", "x/a/b",
	)
	return out
}

// Roots: absolute, clean up to one trailing slash, depth 0..2, plus the
// relative roots the shipped helm / devcluster configs use for testfs.
var roots = []string{
	"/", "/a", "/a/", "/a/b", "/a/b/", "/a-b_c/0", "/a-b_c/0/",
	"tags", "tags/", "blobs/x",
}

func rootClass(root string) string {
	if strings.HasSuffix(root, "/") {
		return "root ends with '/'"
	}
	return "root without trailing slash"
}

// refPath: the storage layout written independently of pather.go (used only as
// a recorded diagnostic: the property states the round trip, not the layout).
func refPath(scheme, root, name string) string {
	r := strings.TrimSuffix(root, "/") // "/" -> "", "/a/" -> "/a", "tags/" -> "tags"
	switch scheme {
	case namepath.DockerTag:
		i := strings.LastIndex(name, ":")
		return r + "/docker/registry/v2/repositories/" + name[:i] + "/_manifests/tags/" + name[i+1:] + "/current/link"
	case namepath.ShardedDockerBlob:
		return r + "/docker/registry/v2/blobs/sha256/" + name[:2] + "/" + name + "/data"
	default:
		return r + "/" + name
	}
}

// ---------------------------------------------------------------------------

type tcase struct {
	Scheme string `json:"scheme"`
	Root   string `json:"root"`
	Name   string `json:"name"`
}

type outcome struct {
	fp     string
	detail map[string]interface{}
	path   string
}

// caseKey orders failing cases: smallest first.
func caseKey(root, name string) string {
	return fmt.Sprintf("%04d|%s|%s", len(root)+len(name), root, name)
}

// roundTrip executes one case on the real pather.
func roundTrip(c tcase) (o outcome) {
	detail := map[string]interface{}{"scheme": c.Scheme, "root": c.Root, "name": c.Name}
	fail := func(clause string) outcome {
		return outcome{fp: fmt.Sprintf("%s: %s [%s]", c.Scheme, clause, rootClass(c.Root)), detail: detail, path: o.path}
	}
	defer func() {
		if r := recover(); r != nil {
			detail["panic"] = fmt.Sprint(r)
			o = fail("round trip panics")
		}
	}()
	p, err := namepath.New(c.Root, c.Scheme)
	if err != nil {
		detail["error"] = err.Error()
		return fail("namepath.New rejects root")
	}
	bp, err := p.BlobPath(c.Name)
	if err != nil {
		detail["error"] = err.Error()
		return fail("BlobPath rejects a valid name")
	}
	o.path = bp
	detail["blob_path"] = bp
	got, err := p.NameFromBlobPath(bp)
	if err != nil {
		detail["error"] = err.Error()
		return fail("NameFromBlobPath rejects the path BlobPath produced")
	}
	if got != c.Name {
		detail["name_from_blob_path"] = got
		return fail("NameFromBlobPath(BlobPath(name)) != name")
	}
	return o
}

func main() {
	run := evid.New("C36", "exploration")
	run.Rule = "every (scheme, root, name): scheme in {docker_tag, sharded_docker_blob, identity}; root in 10 roots (depth 0-2, with/without trailing slash, '/', relative roots as shipped in helm config); names: docker_tag = every repo of 1..k components over 20 words (incl. layout words) x 12 tags, each checked against the Docker reference grammar; sharded = 64-hex digests with the first 2/3 and the last character over all hex values; identity = every clean relative path of length <= L over {a,b,/,.,:,-,_} plus realistic names. Executed on the real pather: NameFromBlobPath(BlobPath(name)) must equal name. distinct = distinct (scheme, root, name) triples executed (all non-trivial: each is a different input to the law)."
	run.Assume("small-scope: roots of depth <= 2 over [a-z0-9_-], repository names of <= 3 components over a 20-word vocabulary, identity names of <= 5 characters over a 7-character alphabet")
	run.Assume("valid identity name = clean relative path (non-empty components, no '.'/'..' component, no leading/trailing slash); empty, relative-with-dots and '//' roots are outside the domain")
	run.Assume("docker_tag names are repo:tag by the Docker reference grammar without registry host (a host:port prefix is rejected by the scheme itself)")

	if rp := run.ReplayPath(); rp != "" {
		b, err := os.ReadFile(rp)
		if err != nil {
			run.Fatal(err)
		}
		var f struct {
			Case tcase `json:"case"`
		}
		if err := json.Unmarshal(b, &f); err != nil {
			run.Fatal(err)
		}
		o := roundTrip(f.Case)
		run.Eval(1)
		run.Distinct("replay")
		run.Distinct("replay2")
		run.Sample(f.Case)
		if o.fp != "" {
			run.Violation(o.fp, o.detail)
		}
		run.Finish()
		return
	}

	runtime.GOMAXPROCS(evid.Workers())
	maxComp, lead, idLen, budget := 2, 2, 4, 50*time.Second
	if run.Thorough() {
		maxComp, lead, idLen, budget = 3, 3, 5, 800*time.Second
	}
	names := map[string][]string{
		namepath.DockerTag:         dockerTagNames(maxComp),
		namepath.ShardedDockerBlob: hexNames(lead),
		namepath.Identity:          identityNames(idLen),
	}
	// Domain self-check: every generated name is valid by the independent grammar.
	for _, n := range names[namepath.DockerTag] {
		if !validDockerTagName(n) {
			run.Fatal(fmt.Errorf("generator produced invalid docker_tag name %q", n))
		}
	}
	for _, n := range names[namepath.ShardedDockerBlob] {
		if !reHex64.MatchString(n) {
			run.Fatal(fmt.Errorf("generator produced invalid hex digest %q", n))
		}
	}
	for _, n := range names[namepath.Identity] {
		if !validIdentityName(n) {
			run.Fatal(fmt.Errorf("generator produced invalid identity name %q", n))
		}
	}

	type job struct {
		scheme, root string
		names        []string
	}
	var jobs []job
	const chunk = 4096
	schemes := []string{namepath.DockerTag, namepath.ShardedDockerBlob, namepath.Identity}
	for _, s := range schemes {
		for _, r := range roots {
			ns := names[s]
			for i := 0; i < len(ns); i += chunk {
				e := i + chunk
				if e > len(ns) {
					e = len(ns)
				}
				jobs = append(jobs, job{s, r, ns[i:e]})
			}
		}
	}

	deadline := time.Now().Add(budget)
	var next int64 = -1
	var skipped int64
	var mu sync.Mutex
	perScheme := map[string]int64{}
	perRootClass := map[string]int64{}
	var layoutAgree, layoutDisagree, failing int64
	var firstDisagree *tcase
	worst := map[string]outcome{} // minimal failing case per fingerprint (deterministic)
	nPerFp := map[string]int64{}
	var wg sync.WaitGroup
	for w := 0; w < evid.Workers(); w++ {
		wg.Add(1)
		go func() {
			defer wg.Done()
			for {
				i := int(atomic.AddInt64(&next, 1))
				if i >= len(jobs) {
					return
				}
				j := jobs[i]
				if time.Now().After(deadline) {
					atomic.AddInt64(&skipped, int64(len(j.names)))
					continue
				}
				var agree, disagree, bad int64
				var dis *tcase
				for _, n := range j.names {
					c := tcase{j.scheme, j.root, n}
					o := roundTrip(c)
					run.Distinct(j.scheme + "|" + j.root + "|" + n)
					if o.fp != "" {
						bad++
						mu.Lock()
						cur, ok := worst[o.fp]
						if !ok || caseKey(j.root, n) < caseKey(cur.detail["root"].(string), cur.detail["name"].(string)) {
							worst[o.fp] = o
						}
						nPerFp[o.fp]++
						mu.Unlock()
					}
					if o.path != "" {
						if o.path == refPath(j.scheme, j.root, n) {
							agree++
						} else {
							disagree++
							if dis == nil {
								cc := c
								dis = &cc
							}
						}
					}
				}
				run.Eval(len(j.names))
				mu.Lock()
				perScheme[j.scheme] += int64(len(j.names))
				perRootClass[rootClass(j.root)] += int64(len(j.names))
				layoutAgree += agree
				layoutDisagree += disagree
				failing += bad
				if firstDisagree == nil && dis != nil {
					firstDisagree = dis
				}
				mu.Unlock()
			}
		}()
	}
	wg.Wait()
	var fps []string
	for fp := range worst {
		fps = append(fps, fp)
	}
	sort.Strings(fps)
	for _, fp := range fps {
		o := worst[fp]
		o.detail["failing_cases_in_class"] = nPerFp[fp]
		run.Violation(fp, o.detail)
	}
	if skipped > 0 {
		run.NotExhaustive(fmt.Sprintf("time budget hit: %d cases not executed", skipped))
	}
	for _, s := range schemes {
		for _, r := range []string{"/", "/a/b/"} {
			n := names[s][len(names[s])/3]
			p, _ := namepath.New(r, s)
			bp, _ := p.BlobPath(n)
			run.Sample(map[string]interface{}{"scheme": s, "root": r, "name": n, "blob_path": bp})
		}
	}
	run.Set("cases_per_scheme", perScheme)
	run.Set("cases_per_root_class", perRootClass)
	run.Set("names_per_scheme", map[string]int{
		namepath.DockerTag:         len(names[namepath.DockerTag]),
		namepath.ShardedDockerBlob: len(names[namepath.ShardedDockerBlob]),
		namepath.Identity:          len(names[namepath.Identity]),
	})
	run.Set("roots", roots)
	run.Set("failing_cases", failing)
	// Diagnostic only (the statement is the round trip, not the layout).
	run.Set("blobpath_equals_reference_layout", layoutAgree)
	run.Set("blobpath_differs_from_reference_layout", layoutDisagree)
	if firstDisagree != nil {
		run.Set("first_layout_difference", firstDisagree)
	}
	var ru syscall.Rusage
	if syscall.Getrusage(syscall.RUSAGE_SELF, &ru) == nil {
		run.Set("cpu_s", float64(ru.Utime.Sec+ru.Stime.Sec)+float64(ru.Utime.Usec+ru.Stime.Usec)/1e6)
	}
	run.Finish()
}
