//go:build !c36small

package main

// In-memory implementation of gcsbackend.GCS (TRUSTED BASE of the listing
// part).
//
// What it models of GCS + cloud.google.com/go/storage, and nothing more:
//   - objects live in a map keyed by the object name exactly as given (GCS
//     object names are opaque strings: "/a/b" and "a/b" are two objects);
//   - ObjectAttrs / Download of a missing object: storage.ErrObjectNotExist;
//   - Objects(query{Prefix}) iterates the names with the given STRING prefix in
//     lexicographic order; pages are produced through the real
//     google.golang.org/api/iterator PageInfo / Pager machinery (page token =
//     hex of the last name of the previous page), which is what
//     gcsbackend.GCSImpl.NextPage drives.

import (
	"encoding/hex"
	"io"
	"sort"
	"strings"
	"sync"

	"cloud.google.com/go/storage"
	"google.golang.org/api/iterator"
)

type fakeGCS struct {
	mu    sync.Mutex
	objs  map[string][]byte
	pages int
}

func newFakeGCS() *fakeGCS { return &fakeGCS{objs: map[string][]byte{}} }

func (g *fakeGCS) ObjectAttrs(name string) (*storage.ObjectAttrs, error) {
	g.mu.Lock()
	defer g.mu.Unlock()
	b, ok := g.objs[name]
	if !ok {
		return nil, storage.ErrObjectNotExist
	}
	return &storage.ObjectAttrs{Name: name, Size: int64(len(b))}, nil
}

func (g *fakeGCS) Download(name string, w io.Writer) (int64, error) {
	g.mu.Lock()
	b, ok := g.objs[name]
	g.mu.Unlock()
	if !ok {
		return 0, storage.ErrObjectNotExist
	}
	n, err := w.Write(b)
	return int64(n), err
}

func (g *fakeGCS) Upload(name string, r io.Reader) (int64, error) {
	b, err := io.ReadAll(r)
	if err != nil {
		return 0, err
	}
	g.mu.Lock()
	defer g.mu.Unlock()
	g.objs[name] = b
	return int64(len(b)), nil
}

type gcsIter struct {
	g      *fakeGCS
	prefix string
	pi     *iterator.PageInfo
	buf    []string
}

func (it *gcsIter) PageInfo() *iterator.PageInfo { return it.pi }

func (it *gcsIter) fetch(pageSize int, pageToken string) (string, error) {
	it.g.mu.Lock()
	defer it.g.mu.Unlock()
	it.g.pages++
	after, hasAfter := "", false
	if pageToken != "" {
		raw, err := hex.DecodeString(pageToken)
		if err != nil {
			return "", err
		}
		after, hasAfter = string(raw), true
	}
	var names []string
	for n := range it.g.objs {
		if strings.HasPrefix(n, it.prefix) && (!hasAfter || n > after) {
			names = append(names, n)
		}
	}
	sort.Strings(names)
	if pageSize <= 0 {
		pageSize = 1000
	}
	next := ""
	if len(names) > pageSize {
		names = names[:pageSize]
		next = hex.EncodeToString([]byte(names[pageSize-1]))
	}
	it.buf = append(it.buf, names...)
	return next, nil
}

func (g *fakeGCS) GetObjectIterator(prefix string) iterator.Pageable {
	it := &gcsIter{g: g, prefix: prefix}
	it.pi, _ = iterator.NewPageInfo(
		it.fetch,
		func() int { return len(it.buf) },
		func() interface{} { b := it.buf; it.buf = nil; return b })
	return it
}

// NextPage: as gcsbackend.GCSImpl.NextPage (which collects ObjectAttrs and
// returns their names).
func (g *fakeGCS) NextPage(pager *iterator.Pager) ([]string, string, error) {
	var names []string
	tok, err := pager.NextPage(&names)
	if err != nil {
		return nil, "", err
	}
	return names, tok, nil
}
