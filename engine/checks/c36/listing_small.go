//go:build c36small

package main

// The small binary (parts A/B children only, see smallChild in main.go) does
// not link the backend clients.

import (
	"fmt"
	"os"
)

const haveListing = false

func execListing(ls listSpec) listReport {
	fmt.Fprintln(os.Stderr, "child: this binary was built without the listing part")
	os.Exit(3)
	return listReport{}
}
