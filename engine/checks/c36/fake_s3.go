//go:build !c36small

package main

// In-memory implementation of s3backend.S3 (TRUSTED BASE of the listing part;
// the same model as checks/c37/fake_s3.go without the transfer faults).
//
// What it models of S3 + aws-sdk-go, and nothing more:
//   - objects live in a map keyed by object key; a leading "/" of a key is
//     dropped and runs of slashes collapse (the SDK's REST path cleaning turns
//     "/bucket//root/x" into "/bucket/root/x"; kraken's own List relies on
//     that: it strips the "/" of the root from the prefix and re-adds it to
//     every returned key);
//   - HeadObject on a missing key fails with code "NotFound" (HTTP 404),
//     GetObject (Download) with s3.ErrCodeNoSuchKey;
//   - ListObjectsV2 returns keys in lexicographic order, only keys with the
//     given STRING prefix, at most MaxKeys per page, IsTruncated +
//     NextContinuationToken when keys remain, and resumes strictly after the
//     last key of the page that issued the token;
//   - ListObjectsV2Pages behaves like the SDK paginator: feeds pages to fn
//     until fn returns false or the listing is exhausted.

import (
	"encoding/hex"
	"fmt"
	"io"
	"sort"
	"strings"
	"sync"

	"github.com/aws/aws-sdk-go/aws"
	"github.com/aws/aws-sdk-go/aws/awserr"
	"github.com/aws/aws-sdk-go/service/s3"
	"github.com/aws/aws-sdk-go/service/s3/s3manager"
)

type fakeS3 struct {
	mu     sync.Mutex
	bucket string
	objs   map[string][]byte
	pages  int // number of ListObjectsV2 page requests served
}

func newFakeS3(bucket string) *fakeS3 {
	return &fakeS3{bucket: bucket, objs: map[string][]byte{}}
}

// normKey: the key S3 stores for a key handed to the SDK (rest.cleanPath
// collapses every run of slashes of the request path "/{Bucket}/{Key+}").
func normKey(k string) string {
	for strings.Contains(k, "//") {
		k = strings.ReplaceAll(k, "//", "/")
	}
	return strings.TrimPrefix(k, "/")
}

func (f *fakeS3) checkBucket(b *string) error {
	if b == nil || *b != f.bucket {
		return awserr.NewRequestFailure(awserr.New(s3.ErrCodeNoSuchBucket, "no such bucket", nil), 404, "fake")
	}
	return nil
}

func (f *fakeS3) HeadObject(in *s3.HeadObjectInput) (*s3.HeadObjectOutput, error) {
	f.mu.Lock()
	defer f.mu.Unlock()
	if err := f.checkBucket(in.Bucket); err != nil {
		return nil, err
	}
	b, ok := f.objs[normKey(aws.StringValue(in.Key))]
	if !ok {
		return nil, awserr.NewRequestFailure(awserr.New("NotFound", "Not Found", nil), 404, "fake")
	}
	return &s3.HeadObjectOutput{ContentLength: aws.Int64(int64(len(b)))}, nil
}

func (f *fakeS3) Download(w io.WriterAt, in *s3.GetObjectInput, _ ...func(*s3manager.Downloader)) (int64, error) {
	f.mu.Lock()
	defer f.mu.Unlock()
	if err := f.checkBucket(in.Bucket); err != nil {
		return 0, err
	}
	b, ok := f.objs[normKey(aws.StringValue(in.Key))]
	if !ok {
		return 0, awserr.NewRequestFailure(awserr.New(s3.ErrCodeNoSuchKey, "The specified key does not exist.", nil), 404, "fake")
	}
	n, err := w.WriteAt(b, 0)
	return int64(n), err
}

func (f *fakeS3) Upload(in *s3manager.UploadInput, _ ...func(*s3manager.Uploader)) (*s3manager.UploadOutput, error) {
	if err := f.checkBucket(in.Bucket); err != nil {
		return nil, err
	}
	var b []byte
	if in.Body != nil {
		var err error
		if b, err = io.ReadAll(in.Body); err != nil {
			return nil, err
		}
	}
	f.mu.Lock()
	defer f.mu.Unlock()
	f.objs[normKey(aws.StringValue(in.Key))] = b
	return &s3manager.UploadOutput{Location: aws.StringValue(in.Key)}, nil
}

const tokPrefix = "tok-"

func (f *fakeS3) listPage(in *s3.ListObjectsV2Input, token *string) (*s3.ListObjectsV2Output, error) {
	f.mu.Lock()
	defer f.mu.Unlock()
	f.pages++
	if err := f.checkBucket(in.Bucket); err != nil {
		return nil, err
	}
	limit := int64(1000)
	if in.MaxKeys != nil {
		limit = *in.MaxKeys
	}
	if limit <= 0 {
		return nil, awserr.NewRequestFailure(awserr.New("InvalidArgument", fmt.Sprintf("fake S3: MaxKeys %d outside the modelled domain", limit), nil), 400, "fake")
	}
	after := ""
	hasAfter := false
	if token != nil {
		if !strings.HasPrefix(*token, tokPrefix) {
			return nil, awserr.NewRequestFailure(awserr.New("InvalidArgument", "The continuation token provided is incorrect", nil), 400, "fake")
		}
		raw, err := hex.DecodeString((*token)[len(tokPrefix):])
		if err != nil {
			return nil, awserr.NewRequestFailure(awserr.New("InvalidArgument", "The continuation token provided is incorrect", nil), 400, "fake")
		}
		after, hasAfter = string(raw), true
	}
	prefix := aws.StringValue(in.Prefix)
	var keys []string
	for k := range f.objs {
		if strings.HasPrefix(k, prefix) && (!hasAfter || k > after) {
			keys = append(keys, k)
		}
	}
	sort.Strings(keys)
	out := &s3.ListObjectsV2Output{
		Name:              in.Bucket,
		Prefix:            in.Prefix,
		MaxKeys:           in.MaxKeys,
		ContinuationToken: token,
		IsTruncated:       aws.Bool(false),
	}
	n := int64(len(keys))
	if n > limit {
		n = limit
		out.IsTruncated = aws.Bool(true)
		out.NextContinuationToken = aws.String(tokPrefix + hex.EncodeToString([]byte(keys[n-1])))
	}
	for _, k := range keys[:n] {
		out.Contents = append(out.Contents, &s3.Object{Key: aws.String(k), Size: aws.Int64(int64(len(f.objs[k])))})
	}
	out.KeyCount = aws.Int64(n)
	return out, nil
}

func (f *fakeS3) ListObjectsV2Pages(in *s3.ListObjectsV2Input, fn func(*s3.ListObjectsV2Output, bool) bool) error {
	token := in.ContinuationToken
	for {
		page, err := f.listPage(in, token)
		if err != nil {
			return err
		}
		last := !aws.BoolValue(page.IsTruncated)
		if !fn(page, last) || last {
			return nil
		}
		token = page.NextContinuationToken
	}
}

func (f *fakeS3) pageRequests() int {
	f.mu.Lock()
	defer f.mu.Unlock()
	return f.pages
}
