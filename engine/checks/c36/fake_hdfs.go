//go:build !c36small

package main

// In-memory webhdfs.Client (a WebHDFS name node + data nodes): TRUSTED BASE of
// the listing part of the check.
//
// What it models of WebHDFS / HDFS, and nothing more:
//   - every path it is given is normalised (path.Clean of "/"+p): HDFS resolves
//     "//a", "/a/" and "/a" to one inode, and kraken's real webhdfs client joins
//     the path into the URL with path.Join, which cleans it as well;
//   - CREATE (overwrite=true) creates the parent directories and the file;
//   - MKDIRS creates the directory and its parents;
//   - RENAME moves a file; when the source is missing, the destination exists
//     or the destination's parent is missing the name node answers 200 with
//     {"boolean": false}, which kraken's client does not look at: no effect and
//     no error here either;
//   - OPEN / GETFILESTATUS of a missing path: kraken's webhdfs client maps the
//     404 to backenderrors.ErrBlobNotFound;
//   - LISTSTATUS of a directory: one entry per child (pathSuffix = child's base
//     name, type FILE / DIRECTORY), sorted by name; of a FILE: one entry with an
//     EMPTY pathSuffix; of a missing path: 404 (httputil.StatusError).

import (
	"io"
	"net/http"
	"path"
	"sort"
	"sync"

	"github.com/uber/kraken/lib/backend/backenderrors"
	"github.com/uber/kraken/lib/backend/hdfsbackend/webhdfs"
	"github.com/uber/kraken/utils/httputil"
)

type fakeHDFS struct {
	mu    sync.Mutex
	files map[string][]byte
	dirs  map[string]bool
	lists int64 // LISTSTATUS requests served
}

func newFakeHDFS() *fakeHDFS {
	return &fakeHDFS{files: map[string][]byte{}, dirs: map[string]bool{"/": true}}
}

func hdfsClean(p string) string { return path.Clean("/" + p) }

// mkdirs creates p and its parents; false when a component is a file.
func (f *fakeHDFS) mkdirs(p string) bool {
	for d := p; ; d = path.Dir(d) {
		if _, isFile := f.files[d]; isFile {
			return false
		}
		if d == "/" {
			break
		}
	}
	for d := p; ; d = path.Dir(d) {
		f.dirs[d] = true
		if d == "/" {
			return true
		}
	}
}

func (f *fakeHDFS) Create(p string, src io.Reader) error {
	b, err := io.ReadAll(src)
	if err != nil {
		return err
	}
	f.mu.Lock()
	defer f.mu.Unlock()
	p = hdfsClean(p)
	if f.dirs[p] || !f.mkdirs(path.Dir(p)) {
		return httputil.StatusError{Method: "PUT", URL: p, Status: http.StatusForbidden}
	}
	f.files[p] = b
	return nil
}

func (f *fakeHDFS) Mkdirs(p string) error {
	f.mu.Lock()
	defer f.mu.Unlock()
	if !f.mkdirs(hdfsClean(p)) {
		return httputil.StatusError{Method: "PUT", URL: p, Status: http.StatusForbidden}
	}
	return nil
}

func (f *fakeHDFS) Rename(from, to string) error {
	f.mu.Lock()
	defer f.mu.Unlock()
	from, to = hdfsClean(from), hdfsClean(to)
	b, ok := f.files[from]
	if !ok {
		return nil // {"boolean": false}
	}
	if _, exists := f.files[to]; exists || f.dirs[to] || !f.dirs[path.Dir(to)] {
		return nil // {"boolean": false}
	}
	delete(f.files, from)
	f.files[to] = b
	return nil
}

func (f *fakeHDFS) Open(p string, dst io.Writer) error {
	f.mu.Lock()
	b, ok := f.files[hdfsClean(p)]
	f.mu.Unlock()
	if !ok {
		return backenderrors.ErrBlobNotFound
	}
	_, err := dst.Write(b)
	return err
}

func (f *fakeHDFS) GetFileStatus(p string) (webhdfs.FileStatus, error) {
	f.mu.Lock()
	defer f.mu.Unlock()
	p = hdfsClean(p)
	if b, ok := f.files[p]; ok {
		return webhdfs.FileStatus{Type: "FILE", Length: int64(len(b))}, nil
	}
	if f.dirs[p] {
		return webhdfs.FileStatus{Type: "DIRECTORY"}, nil
	}
	return webhdfs.FileStatus{}, backenderrors.ErrBlobNotFound
}

func (f *fakeHDFS) ListFileStatus(p string) ([]webhdfs.FileStatus, error) {
	f.mu.Lock()
	defer f.mu.Unlock()
	f.lists++
	p = hdfsClean(p)
	if b, ok := f.files[p]; ok {
		return []webhdfs.FileStatus{{PathSuffix: "", Type: "FILE", Length: int64(len(b))}}, nil
	}
	if !f.dirs[p] {
		return nil, httputil.StatusError{Method: "GET", URL: p, Status: http.StatusNotFound}
	}
	children := map[string]webhdfs.FileStatus{}
	for q, b := range f.files {
		if path.Dir(q) == p {
			children[path.Base(q)] = webhdfs.FileStatus{PathSuffix: path.Base(q), Type: "FILE", Length: int64(len(b))}
		}
	}
	for d := range f.dirs {
		if d != "/" && path.Dir(d) == p {
			children[path.Base(d)] = webhdfs.FileStatus{PathSuffix: path.Base(d), Type: "DIRECTORY"}
		}
	}
	var names []string
	for n := range children {
		names = append(names, n)
	}
	sort.Strings(names)
	out := make([]webhdfs.FileStatus, 0, len(names))
	for _, n := range names {
		out = append(out, children[n])
	}
	return out, nil
}

var _ webhdfs.Client = (*fakeHDFS)(nil)
