package main

// Part C: the LISTING clause of C36 ("... so listings report the names that
// were uploaded"), decided on the backends that list by storage path.
//
// The pather round trip of parts A/B hands NameFromBlobPath the very string
// BlobPath produced. A backend's List does not: it rebuilds storage paths from
// what the store answers (HDFS: listed directory + pathSuffix of every entry;
// S3: "/" + object key after the root's "/" was cut from the prefix; GCS:
// object names under the joined prefix; testfs: paths relative to the server
// directory) and converts THOSE back. Whether the rebuilt path is the path
// BlobPath produced depends on the root spelling (the filesystem root is the
// only clean path that ends with a slash; an empty root has no separator to
// strip; a trailing slash disappears in path.Join) and on the name. So the
// space is: listing backend x path scheme x root spelling x SET of uploaded
// names x list prefix, on the real clients built by their real constructors
// over in-memory stores (fake_hdfs.go, fake_s3.go, fake_gcs.go) and, for
// testfs, the real testfs.Server handler over loopback HTTP.
//
// Oracle (from the statement): after uploading the set S through
// Client.Upload, Client.List("") reports exactly S, each name once; for a
// non-empty prefix P (a directory prefix of the storage path of some uploaded
// name, relative to the scheme's base directory, or such a storage path
// itself) List(P) reports every name of S stored below the directory P,
// reports nothing that was not uploaded, nothing whose storage path does not
// even start with P as a string (S3 and GCS match string prefixes, HDFS and
// testfs directories, and a listing of exactly a stored path reports that name
// on HDFS / S3 / GCS and nothing on testfs: the statement does not decide
// between these, all are accepted), and nothing twice.

import (
	"fmt"
	"path"
	"strings"

	"github.com/uber/kraken/lib/backend/namepath"
)

const (
	bHDFS   = "hdfs"
	bS3     = "s3"
	bGCS    = "gcs"
	bTestfs = "testfs"
)

var listBackends = []string{bHDFS, bS3, bGCS, bTestfs}

// listRoots: every root spelling of parts A and B, plus an absolute root with
// a '.'. Which of them a backend accepts is decided by its real constructor
// (hdfs / s3 / gcs reject relative roots; hdfs replaces the empty root by its
// default /infra/dockerRegistry/).
func listRoots() []string {
	seen := map[string]bool{}
	var out []string
	for _, rs := range [][]string{soloRoots, extraSoloRoots, historyRoots, {"/a.b"}} {
		for _, r := range rs {
			if !seen[r] {
				seen[r] = true
				out = append(out, r)
			}
		}
	}
	return out
}

// inListDomain: testfs.Server answers listed paths RELATIVE to its directory
// (its protocol), so a root with a leading slash can never be echoed back by
// it: such roots are not roots of that backend (every shipped testfs
// configuration uses a relative root). All other (backend, root) pairs are
// left to the backend's constructor.
func inListDomain(backend, root string) bool {
	if backend == bTestfs {
		return !strings.HasPrefix(root, "/")
	}
	return true
}

const (
	probeHexA2 = "00" + "85ceb9734a3c2fbb886e0f7cfc66b046eeeae953d8cb430dc5a7ace544b0e9" // shard of probeHexA
	probeHexB2 = "ff" + "112233445566778899aabbccddeeff00112233445566778899aabbccddeeff" // shard of probeHexB
)

// listUniverse: the names uploaded in part C. No name is a directory prefix of
// another one's storage path (a file system cannot hold both), identity names
// share directories with each other and with root components ("a", "b/a",
// "a.b/a" under the roots a, a/b, a.b), docker_tag names share repositories and
// nest them (a, a/b) and use registry-layout words as repository component and
// as tag (as part A does: _layers and _manifests are valid tags), sharded
// names share shards.
func listUniverse(scheme string) []string {
	switch scheme {
	case namepath.DockerTag:
		return []string{"a:latest", "a:_layers", "a/b:latest", "library/ubuntu:v1.0", "tags/current:link", "0:_manifests"}
	case namepath.ShardedDockerBlob:
		return []string{probeHexA, probeHexA2, probeHexB, probeHexB2}
	default:
		return []string{"a", "b/a", "b/c", "a.b/a", "x:y", "tags/a/b"}
	}
}

// listNameOK: testfs.Server maps ':' in a path to '/' ("allows listing tags by
// repo", its documented behaviour), so an identity name with a ':' is not a
// name of that backend.
func listNameOK(backend, scheme, name string) bool {
	if backend == bTestfs && scheme == namepath.Identity && strings.Contains(name, ":") {
		return false
	}
	return true
}

// subsets of names with 1..max elements (max <= 0: all), by size, then in
// universe order.
func subsets(names []string, max int) [][]string {
	if max <= 0 || max > len(names) {
		max = len(names)
	}
	var out [][]string
	for size := 1; size <= max; size++ {
		var rec func(start int, cur []string)
		rec = func(start int, cur []string) {
			if len(cur) == size {
				out = append(out, append([]string(nil), cur...))
				return
			}
			for i := start; i < len(names); i++ {
				rec(i+1, append(cur, names[i]))
			}
		}
		rec(0, nil)
	}
	return out
}

// ---------------------------------------------------------------------------
// Child side.

type listSpec struct {
	Backend string     `json:"backend"`
	Scheme  string     `json:"scheme"`
	Roots   []string   `json:"roots"`
	MaxSet  int        `json:"max_set"`
	Sets    [][]string `json:"sets,omitempty"` // replay: exactly these sets
}

type listFail struct {
	Clause   string   `json:"clause"`
	Root     string   `json:"root"`
	Uploaded []string `json:"uploaded"`
	Prefix   string   `json:"prefix"`
	Listed   []string `json:"listed"`
	Expected []string `json:"expected_at_least"`
	Subject  string   `json:"subject,omitempty"` // the name the clause is about
	Error    string   `json:"error,omitempty"`
	Count    int64    `json:"count"`
}

type listRootReport struct {
	Root         string     `json:"root"`
	Rejected     string     `json:"rejected,omitempty"` // the constructor's error
	Sets         int64      `json:"sets"`
	Uploads      int64      `json:"uploads"`
	Lists        int64      `json:"lists"`
	PrefixLists  int64      `json:"prefix_lists"`
	Reported     int64      `json:"reported"`
	Placeholders int64      `json:"placeholders"`
	Fails        []listFail `json:"fails,omitempty"`
}

type listReport struct {
	Roots []listRootReport `json:"roots"`
}

// ---------------------------------------------------------------------------
// Parent side.

func listRootClass(root string) string {
	if root != "" && path.Clean(root) == "/" {
		return "root is the filesystem root"
	}
	if root == "" {
		return "empty root"
	}
	return rootClass(root)
}

func listFP(b, scheme string, f listFail, class string) string {
	kind := "empty"
	if f.Prefix != "" {
		kind = "non-empty"
	}
	return fmt.Sprintf("listing %s %s: %s [%s; %s prefix]", b, scheme, f.Clause, class, kind)
}

func listDetail(b, scheme string, f listFail) map[string]interface{} {
	d := map[string]interface{}{
		"backend": b, "scheme": scheme, "root": f.Root, "uploaded": f.Uploaded, "prefix": f.Prefix,
		"listed": f.Listed, "expected_at_least": f.Expected, "clause": f.Clause,
	}
	if f.Subject != "" {
		d["subject"] = f.Subject
	}
	if f.Error != "" {
		d["error"] = f.Error
	}
	return d
}
