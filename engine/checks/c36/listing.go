package main

// Part C: the LISTING clause of C36 ("... so listings report the names that
// were uploaded"), decided on the backends that list by storage path.
//
// The pather round trip of parts A/B hands NameFromBlobPath the very string
// BlobPath produced. A backend's List does not: it rebuilds storage paths from
// what the store answers (HDFS: listed directory + pathSuffix of every entry;
// S3: "/" + object key after the root's "/" was cut from the prefix; GCS:
// object names under the joined prefix; testfs: paths relative to the server
// directory) and converts THOSE back. Whether the rebuilt path is the path
// BlobPath produced depends on the root spelling (the filesystem root is the
// only clean path that ends with a slash; an empty root has no separator to
// strip; a trailing slash disappears in path.Join) and on the name. So the
// space is: listing backend x path scheme x root spelling x SET of uploaded
// names x list prefix, on the real clients built by their real constructors
// over in-memory stores (fake_hdfs.go, fake_s3.go, fake_gcs.go) and, for
// testfs, the real testfs.Server handler over loopback HTTP.
//
// Oracle (from the statement): after uploading the set S through
// Client.Upload, Client.List("") reports exactly S, each name once; for a
// non-empty prefix P (a proper directory prefix of the storage path of some
// uploaded name, relative to the scheme's base directory) List(P) reports
// every name of S stored below the directory P, reports nothing that was not
// uploaded, nothing that does not even start with P as a string (S3 and GCS
// match string prefixes, HDFS and testfs directories: the statement does not
// decide between the two, both are accepted), and nothing twice.

import (
	"bytes"
	"fmt"
	"net"
	"net/http"
	"os"
	"path"
	"sort"
	"strings"
	"sync/atomic"

	"github.com/uber-go/tally"
	"github.com/uber/kraken/lib/backend"
	"github.com/uber/kraken/lib/backend/gcsbackend"
	"github.com/uber/kraken/lib/backend/hdfsbackend"
	"github.com/uber/kraken/lib/backend/namepath"
	"github.com/uber/kraken/lib/backend/s3backend"
	"github.com/uber/kraken/lib/backend/testfs"
	"github.com/uber/kraken/utils/httputil"
)

const (
	bHDFS   = "hdfs"
	bS3     = "s3"
	bGCS    = "gcs"
	bTestfs = "testfs"
)

var listBackends = []string{bHDFS, bS3, bGCS, bTestfs}

// listRoots: every root spelling of parts A and B, plus an absolute root with
// a '.'. Which of them a backend accepts is decided by its real constructor
// (hdfs / s3 / gcs reject relative roots; hdfs replaces the empty root by its
// default /infra/dockerRegistry/).
func listRoots() []string {
	seen := map[string]bool{}
	var out []string
	for _, rs := range [][]string{soloRoots, extraSoloRoots, historyRoots, {"/a.b"}} {
		for _, r := range rs {
			if !seen[r] {
				seen[r] = true
				out = append(out, r)
			}
		}
	}
	return out
}

// inListDomain: testfs.Server answers listed paths RELATIVE to its directory
// (its protocol), so a root with a leading slash can never be echoed back by
// it: such roots are not roots of that backend (every shipped testfs
// configuration uses a relative root). All other (backend, root) pairs are
// left to the backend's constructor.
func inListDomain(backend, root string) bool {
	if backend == bTestfs {
		return !strings.HasPrefix(root, "/")
	}
	return true
}

const (
	probeHexA2 = "00" + "85ceb9734a3c2fbb886e0f7cfc66b046eeeae953d8cb430dc5a7ace544b0e9" // shard of probeHexA
	probeHexB2 = "ff" + "112233445566778899aabbccddeeff00112233445566778899aabbccddeeff" // shard of probeHexB
)

// listUniverse: the names uploaded in part C. No name is a directory prefix of
// another one's storage path (a file system cannot hold both), identity names
// share directories with each other and with root components ("a", "b/a",
// "a.b/a" under the roots a, a/b, a.b), docker_tag names share repositories and
// nest them (a, a/b), sharded names share shards.
func listUniverse(scheme string) []string {
	switch scheme {
	case namepath.DockerTag:
		return []string{"a:latest", "a:v1.0", "a/b:latest", "library/ubuntu:latest", "tags/current:link", "0:_x"}
	case namepath.ShardedDockerBlob:
		return []string{probeHexA, probeHexA2, probeHexB, probeHexB2}
	default:
		return []string{"a", "b/a", "b/c", "a.b/a", "x:y", "tags/a/b"}
	}
}

// listNameOK: testfs.Server maps ':' in a path to '/' ("allows listing tags by
// repo", its documented behaviour), so an identity name with a ':' is not a
// name of that backend.
func listNameOK(backend, scheme, name string) bool {
	if backend == bTestfs && scheme == namepath.Identity && strings.Contains(name, ":") {
		return false
	}
	return true
}

// subsets of names with 1..max elements (max <= 0: all), by size, then in
// universe order.
func subsets(names []string, max int) [][]string {
	if max <= 0 || max > len(names) {
		max = len(names)
	}
	var out [][]string
	for size := 1; size <= max; size++ {
		var rec func(start int, cur []string)
		rec = func(start int, cur []string) {
			if len(cur) == size {
				out = append(out, append([]string(nil), cur...))
				return
			}
			for i := start; i < len(names); i++ {
				rec(i+1, append(cur, names[i]))
			}
		}
		rec(0, nil)
	}
	return out
}

// ---------------------------------------------------------------------------
// Child side.

type listSpec struct {
	Backend string     `json:"backend"`
	Scheme  string     `json:"scheme"`
	Roots   []string   `json:"roots"`
	MaxSet  int        `json:"max_set"`
	Sets    [][]string `json:"sets,omitempty"` // replay: exactly these sets
}

type listFail struct {
	Clause   string   `json:"clause"`
	Root     string   `json:"root"`
	Uploaded []string `json:"uploaded"`
	Prefix   string   `json:"prefix"`
	Listed   []string `json:"listed"`
	Expected []string `json:"expected_at_least"`
	Subject  string   `json:"subject,omitempty"` // the name the clause is about
	Error    string   `json:"error,omitempty"`
	Count    int64    `json:"count"`
}

type listRootReport struct {
	Root         string     `json:"root"`
	Rejected     string     `json:"rejected,omitempty"` // the constructor's error
	Sets         int64      `json:"sets"`
	Uploads      int64      `json:"uploads"`
	Lists        int64      `json:"lists"`
	PrefixLists  int64      `json:"prefix_lists"`
	Reported     int64      `json:"reported"`
	Placeholders int64      `json:"placeholders"`
	Fails        []listFail `json:"fails,omitempty"`
}

type listReport struct {
	Roots []listRootReport `json:"roots"`
}

// testfsHost: one loopback listener per child process; the handler (a fresh
// testfs.Server on a fresh directory) is swapped per uploaded set.
type testfsHost struct {
	ln  net.Listener
	srv *http.Server
	h   atomic.Value
}

type handlerBox struct{ h http.Handler }

func (t *testfsHost) ServeHTTP(w http.ResponseWriter, r *http.Request) {
	t.h.Load().(handlerBox).h.ServeHTTP(w, r)
}

func newTestfsHost() (*testfsHost, error) {
	ln, err := net.Listen("tcp", "127.0.0.1:0")
	if err != nil {
		return nil, err
	}
	t := &testfsHost{ln: ln}
	t.h.Store(handlerBox{http.NotFoundHandler()})
	t.srv = &http.Server{Handler: t}
	go t.srv.Serve(ln)
	return t, nil
}

type listEnv struct {
	c       backend.Client
	cleanup func()
}

// buildListEnv: a fresh store and a real client built by the backend's public
// constructor. rejected != "": the constructor refused the configuration.
func buildListEnv(b, scheme, root string, host *testfsHost) (env *listEnv, rejected string, err error) {
	switch b {
	case bHDFS:
		c, e := hdfsbackend.NewClient(hdfsbackend.Config{
			NameNodes: []string{"namenode.invalid:50070"}, RootDirectory: root, NamePath: scheme,
		}, tally.NoopScope, hdfsbackend.WithWebHDFS(newFakeHDFS()))
		if e != nil {
			return nil, e.Error(), nil
		}
		return &listEnv{c: c, cleanup: func() { c.Close() }}, "", nil
	case bS3:
		c, e := s3backend.NewClient(s3backend.Config{
			Username: "u", Region: "us-east-1", Bucket: "bkt", RootDirectory: root, NamePath: scheme,
		}, s3backend.UserAuthConfig{"u": s3backend.AuthConfig{}}, tally.NoopScope, s3backend.WithS3(newFakeS3("bkt")))
		if e != nil {
			return nil, e.Error(), nil
		}
		return &listEnv{c: c, cleanup: func() { c.Close() }}, "", nil
	case bGCS:
		c, e := gcsbackend.NewClient(gcsbackend.Config{
			Username: "u", Bucket: "bkt", RootDirectory: root, NamePath: scheme,
		}, gcsbackend.UserAuthConfig{"u": gcsbackend.AuthConfig{}}, tally.NoopScope, gcsbackend.WithGCS(newFakeGCS()))
		if e != nil {
			return nil, e.Error(), nil
		}
		return &listEnv{c: c, cleanup: func() { c.Close() }}, "", nil
	case bTestfs:
		c, e := testfs.NewClient(testfs.Config{Addr: host.ln.Addr().String(), Root: root, NamePath: scheme}, tally.NoopScope)
		if e != nil {
			return nil, e.Error(), nil
		}
		dir, e := os.MkdirTemp("", "c36-testfs-")
		if e != nil {
			return nil, "", e
		}
		host.h.Store(handlerBox{testfs.VerifNewServerAt(dir).Handler()})
		return &listEnv{c: c, cleanup: func() {
			c.Close()
			host.h.Store(handlerBox{http.NotFoundHandler()})
			os.RemoveAll(dir)
		}}, "", nil
	}
	return nil, "", fmt.Errorf("unknown backend %q", b)
}

// relPaths: the storage path of every name relative to the scheme's base
// directory, as the REAL pather lays it out (the layout is the
// implementation's choice; the root "/" is used only to read the layout off).
// ok=false: the layout could not be read off; only the empty prefix is used.
func relPaths(scheme string, names []string) (map[string]string, bool) {
	out := map[string]string{}
	ok := true
	func() {
		defer func() {
			if r := recover(); r != nil {
				ok = false
			}
		}()
		p, err := namepath.New("/", scheme)
		if err != nil {
			ok = false
			return
		}
		base := path.Clean(p.BasePath())
		if !strings.HasSuffix(base, "/") {
			base += "/"
		}
		for _, n := range names {
			bp, err := p.BlobPath(n)
			if err != nil || !strings.HasPrefix(bp, base) || len(bp) == len(base) {
				ok = false
				return
			}
			out[n] = bp[len(base):]
		}
	}()
	return out, ok
}

// dirPrefixes: every proper directory prefix of the relative storage paths.
func dirPrefixes(set []string, rel map[string]string) []string {
	seen := map[string]bool{}
	for _, n := range set {
		parts := strings.Split(rel[n], "/")
		for i := 1; i < len(parts); i++ {
			seen[strings.Join(parts[:i], "/")] = true
		}
	}
	var out []string
	for p := range seen {
		out = append(out, p)
	}
	sort.Strings(out)
	return out
}

// placeholderRepo: hdfsbackend's catalog listing (documented in its List: it
// stops at every <repository>/_manifests directory and reports the single
// entry <repository>:dummy instead of walking the tags) -- for docker_tag on
// HDFS a reported name R:dummy stands for the uploaded tags of repository R.
func placeholderRepo(b, scheme, listed string) (string, bool) {
	if b != bHDFS || scheme != namepath.DockerTag || !strings.HasSuffix(listed, ":dummy") {
		return "", false
	}
	return strings.TrimSuffix(listed, ":dummy"), true
}

func repoOf(name string) string {
	if i := strings.LastIndex(name, ":"); i >= 0 {
		return name[:i]
	}
	return name
}

// execListing runs the listing space of one (backend, scheme) over the given
// roots in THIS process (the child).
func execListing(ls listSpec) listReport {
	var host *testfsHost
	if ls.Backend == bTestfs {
		var err error
		if host, err = newTestfsHost(); err != nil {
			fmt.Fprintf(os.Stderr, "child: testfs listener: %v\n", err)
			os.Exit(3)
		}
		defer host.srv.Close()
	}
	var universe []string
	for _, n := range listUniverse(ls.Scheme) {
		if listNameOK(ls.Backend, ls.Scheme, n) {
			universe = append(universe, n)
		}
	}
	sets := ls.Sets
	if sets == nil {
		sets = subsets(universe, ls.MaxSet)
	}
	var all []string
	for _, s := range sets {
		all = append(all, s...)
	}
	rel, relOK := relPaths(ls.Scheme, all)

	var rep listReport
	for _, root := range ls.Roots {
		rr := listRootReport{Root: root}
		worst := map[string]int{}
		fail := func(f listFail) {
			kind := "empty"
			if f.Prefix != "" {
				kind = "non-empty"
			}
			key := f.Clause + "|" + kind
			ord := func(x listFail) string {
				return fmt.Sprintf("%02d|%03d|%s|%s", len(x.Uploaded), len(x.Prefix), strings.Join(x.Uploaded, ","), x.Prefix)
			}
			if k, ok := worst[key]; ok {
				n := rr.Fails[k].Count + 1
				if ord(f) < ord(rr.Fails[k]) {
					rr.Fails[k] = f
				}
				rr.Fails[k].Count = n
				return
			}
			f.Count = 1
			worst[key] = len(rr.Fails)
			rr.Fails = append(rr.Fails, f)
		}
		for _, set := range sets {
			env, rejected, err := buildListEnv(ls.Backend, ls.Scheme, root, host)
			if err != nil {
				fmt.Fprintf(os.Stderr, "child: %v\n", err)
				os.Exit(3)
			}
			if rejected != "" {
				rr.Rejected = rejected
				break
			}
			rr.Sets++
			// list: one observation of List(prefix) against the names uploaded so far
			list := func(uploaded []string, prefix string) {
				rr.Lists++
				if prefix != "" {
					rr.PrefixLists++
				}
				var atLeast, atMost []string
				for _, n := range uploaded {
					if prefix == "" {
						atLeast, atMost = append(atLeast, n), append(atMost, n)
						continue
					}
					if strings.HasPrefix(rel[n], prefix+"/") {
						atLeast = append(atLeast, n)
					}
					if strings.HasPrefix(rel[n], prefix) {
						atMost = append(atMost, n)
					}
				}
				base := listFail{Root: root, Uploaded: append([]string(nil), uploaded...), Prefix: prefix, Expected: atLeast}
				var names []string
				var lerr error
				panicked := ""
				func() {
					defer func() {
						if r := recover(); r != nil {
							panicked = fmt.Sprint(r)
						}
					}()
					res, e := env.c.List(prefix)
					if e != nil {
						lerr = e
						return
					}
					names = append(names, res.Names...)
				}()
				if panicked != "" {
					f := base
					f.Clause, f.Error = "List panics", panicked
					fail(f)
					return
				}
				if lerr != nil {
					if httputil.IsNetworkError(lerr) {
						fmt.Fprintf(os.Stderr, "child: List(%q) on %s %s root %q: network error: %v\n", prefix, ls.Backend, ls.Scheme, root, lerr)
						os.Exit(3)
					}
					f := base
					f.Clause, f.Error = "List fails", lerr.Error()
					fail(f)
					return
				}
				sort.Strings(names)
				base.Listed = names
				rr.Reported += int64(len(names))
				in := func(xs []string, x string) bool {
					for _, y := range xs {
						if x == y {
							return true
						}
					}
					return false
				}
				covered := map[string]bool{} // repositories covered by a placeholder
				for i, r := range names {
					if i > 0 && names[i-1] == r {
						f := base
						f.Clause, f.Subject = "List reports a name twice", r
						fail(f)
						continue
					}
					if in(atMost, r) {
						continue
					}
					if repo, ok := placeholderRepo(ls.Backend, ls.Scheme, r); ok {
						has := false
						for _, n := range atMost {
							if repoOf(n) == repo {
								has = true
							}
						}
						if has {
							covered[repo] = true
							rr.Placeholders++
							continue
						}
					}
					f := base
					f.Subject = r
					if in(uploaded, r) {
						f.Clause = "List reports an uploaded name that is not under the prefix"
					} else {
						f.Clause = "List reports a name that was not uploaded"
					}
					fail(f)
				}
				for _, n := range atLeast {
					if !in(names, n) && !covered[repoOf(n)] {
						f := base
						f.Clause, f.Subject = "List omits an uploaded name", n
						fail(f)
					}
				}
			}
			uploadOK := true
			for i, n := range set {
				var uerr error
				panicked := ""
				func() {
					defer func() {
						if r := recover(); r != nil {
							panicked = fmt.Sprint(r)
						}
					}()
					uerr = env.c.Upload("ns", n, bytes.NewReader([]byte("content of "+n)))
				}()
				rr.Uploads++
				if panicked != "" || uerr != nil {
					if uerr != nil && httputil.IsNetworkError(uerr) {
						fmt.Fprintf(os.Stderr, "child: Upload(%q) on %s %s root %q: network error: %v\n", n, ls.Backend, ls.Scheme, root, uerr)
						os.Exit(3)
					}
					f := listFail{Root: root, Uploaded: append([]string(nil), set[:i+1]...), Subject: n, Clause: "Upload of a valid name fails"}
					if panicked != "" {
						f.Clause, f.Error = "Upload of a valid name panics", panicked
					} else {
						f.Error = uerr.Error()
					}
					fail(f)
					uploadOK = false
					break
				}
				list(set[:i+1], "")
			}
			if uploadOK && relOK {
				for _, p := range dirPrefixes(set, rel) {
					list(set, p)
				}
			}
			env.cleanup()
		}
		rep.Roots = append(rep.Roots, rr)
	}
	return rep
}

// ---------------------------------------------------------------------------
// Parent side.

func listRootClass(root string) string {
	if root != "" && path.Clean(root) == "/" {
		return "root is the filesystem root"
	}
	if root == "" {
		return "empty root"
	}
	return rootClass(root)
}

func listFP(b, scheme string, f listFail) string {
	kind := "empty"
	if f.Prefix != "" {
		kind = "non-empty"
	}
	return fmt.Sprintf("listing %s %s: %s [%s; %s prefix]", b, scheme, f.Clause, listRootClass(f.Root), kind)
}

func listDetail(b, scheme string, f listFail) map[string]interface{} {
	d := map[string]interface{}{
		"backend": b, "scheme": scheme, "root": f.Root, "uploaded": f.Uploaded, "prefix": f.Prefix,
		"listed": f.Listed, "expected_at_least": f.Expected, "clause": f.Clause,
	}
	if f.Subject != "" {
		d["subject"] = f.Subject
	}
	if f.Error != "" {
		d["error"] = f.Error
	}
	return d
}
