//go:build go1.25

// C30: every task accepted by the persisted retry manager is executed until an
// execution succeeds, across executor failures, full queues and restarts; it
// leaves the persistent store only after a successful execution; adding a task
// that is already stored has no further effect.
//
// Engine E1q: the REAL persistedretry.manager (its own worker / poller
// goroutines, channels, ticker) over the REAL writeback.Store and the REAL
// tagreplication.Store (opened, at every start, through its real constructor
// with the REAL Remotes validator of a remotes configuration: remotes.go) on a
// sqlite file opened through localdb.New, inside a
// testing/synctest bubble. The seams are the two interfaces the manager is
// built from: a harness Store wrapper (every call of a manager goroutine parks
// = one pending action; crash switch) and a harness Executor (Exec parks, the
// explorer chooses success or failure). The explorer enumerates every order of
// the pending actions and of the harness actions Add / advance / restart.
//
// Two-seam configurations (config.parkRet, names ending in "pr dr"): a Store
// call parks twice, before its effect on the table and again before its result
// returns to the manager goroutine. With one seam the in-memory code that
// follows a Store call runs fused with that call's effect, so "the poller read
// an empty failed set, a worker's MarkFailed commits, THEN the poller acts on
// its stale result" is not among the enumerated orders; with two seams it is,
// for every Store call of the poller, the workers and start-up.
package main

import (
	"encoding/json"
	"errors"
	"fmt"
	"os"
	"path/filepath"
	"regexp"
	"sort"
	"strings"
	"sync"
	"testing"
	"time"

	"github.com/jmoiron/sqlx"
	"github.com/pressly/goose"
	"github.com/uber-go/tally"
	"github.com/uber/kraken/core"
	"github.com/uber/kraken/lib/persistedretry"
	"github.com/uber/kraken/lib/persistedretry/tagreplication"
	"github.com/uber/kraken/lib/persistedretry/writeback"
	"github.com/uber/kraken/localdb"

	"verif/e1q"
	"verif/evid"
	_ "verif/quiet"
	"verif/rep"
	"verif/vrt"
)

// ---------------------------------------------------------------------------
// configuration of one harness

type config struct {
	kind          string // "wb" (writeback.Store) | "tr" (tagreplication.Store)
	inBuf, reBuf  int    // IncomingBuffer / RetryBuffer (0 => Testing flag, unbuffered)
	retryInterval time.Duration
	t2Delay       time.Duration // Delay of task t2 (0 = ready at once; >0 = AddFailed path)
	maxActions    int           // Add / Exec outcome / advance / restart
	maxRestarts   int
	maxAdvances   int
	parkAdd       bool   // AddPending/AddFailed park too (else they run in the step of the Add action)
	parkRet       bool   // every parked Store call is TWO pending actions: its effect on the store, and its return to the manager goroutine
	drain         bool   // after the last budgeted action the still parked Store calls are released one by one in every order (else all at once)
	scen          string // "" | "q" | "t": the first choice of an execution is a start-up scenario (remotes configuration x task identities) of that scope (remotes.go); kind tr only
	chg           bool   // a restart may also come up with a remotes configuration that lacks one (address, pattern) entry
	cap           int    // wall-clock cap of the exploration in seconds (not part of the name)
}

func (c config) name() string {
	s := fmt.Sprintf("%s in%d re%d ri%ds d%ds a%d r%d t%d", c.kind, c.inBuf, c.reBuf,
		int(c.retryInterval/time.Second), int(c.t2Delay/time.Second), c.maxActions, c.maxRestarts, c.maxAdvances)
	if c.parkAdd {
		s += " pa"
	}
	if c.parkRet {
		s += " pr"
	}
	if c.drain {
		s += " dr"
	}
	if c.scen != "" {
		s += " scn-" + c.scen
	}
	if c.chg {
		s += " chg"
	}
	return s
}

const (
	pollInterval = 10 * time.Second
	throttle     = time.Millisecond     // MaxTaskThroughput (a worker sleeps 2x this after a task)
	microAdvance = 3 * time.Millisecond // elapsed after every step: lets the throttle sleep end
	maxSteps     = 80
	closingMax   = 12
)

// ---------------------------------------------------------------------------
// the two real stores behind one small adapter

type storeKind struct {
	table      string
	cola, colb string // primary key columns
}

var kinds = map[string]storeKind{
	"wb": {"writeback_task", "namespace", "name"},
	"tr": {"replicate_tag_task", "tag", "destination"},
}

// newRealStore is what a starting process does with its database: the real
// constructor of the store. writeback.NewStore does nothing at start-up;
// tagreplication.NewStore runs deleteInvalidTasks with the real Remotes built
// from the process's remotes configuration.
func newRealStore(kind string, db *sqlx.DB, rc remotesCfg) (persistedretry.Store, error) {
	if kind == "wb" {
		return writeback.NewStore(db), nil
	}
	rs, err := rc.build()
	if err != nil {
		return nil, err
	}
	return tagreplication.NewStore(db, rs)
}

// default identities / configuration of the configurations without scenario choice
var (
	defaultIDs = map[string]map[string]ident{
		"wb": {"t1": {"ns", "t1"}, "t2": {"ns", "t2"}},
		"tr": {"t1": {"t1", "dest"}, "t2": {"t2", "dest"}},
	}
	defaultRC = remotesCfg{order: []string{"dest"}, pats: map[string][]string{"dest": {".*"}}}
)

var fixedDigest = func() core.Digest {
	d, err := core.NewDigester().FromBytes([]byte("c30"))
	if err != nil {
		panic(err)
	}
	return d
}()

func newTask(kind string, id ident, delay time.Duration) persistedretry.Task {
	if kind == "wb" {
		return writeback.NewTask(id.a, id.b, delay)
	}
	return tagreplication.NewTask(id.a, fixedDigest, core.DigestList{fixedDigest}, id.b, delay)
}

// keyOf maps a task (built by the harness or read back from the table by the
// real store) to its harness name t1 / t2 through its primary key.
func (w *world) keyOf(t persistedretry.Task) string {
	var id ident
	switch x := t.(type) {
	case *writeback.Task:
		id = ident{x.Namespace, x.Name}
	case *tagreplication.Task:
		id = ident{x.Tag, x.Destination}
	default:
		return fmt.Sprintf("?%T", t)
	}
	if n, ok := w.names[id]; ok {
		return n
	}
	return "?" + id.String()
}

// ---------------------------------------------------------------------------
// migrated database template (goose runs once per process; every execution
// works on a copy and still opens it through localdb.New)

var (
	scratch  string
	template []byte
)

type nopLogger struct{}

func (nopLogger) Fatal(v ...interface{})                 {}
func (nopLogger) Fatalf(format string, v ...interface{}) {}
func (nopLogger) Print(v ...interface{})                 {}
func (nopLogger) Println(v ...interface{})               {}
func (nopLogger) Printf(format string, v ...interface{}) {}

func initTemplate() error {
	goose.SetLogger(nopLogger{})
	var err error
	scratch, err = os.MkdirTemp("", "c30-")
	if err != nil {
		return err
	}
	p := filepath.Join(scratch, "template.db")
	db, err := localdb.New(localdb.Config{Source: p})
	if err != nil {
		return err
	}
	if err := db.Close(); err != nil {
		return err
	}
	template, err = os.ReadFile(p)
	return err
}

// ---------------------------------------------------------------------------
// world: one execution

var errCrashed = errors.New("c30: process crashed (store unreachable)")
var errExec = errors.New("c30: executor failure chosen by the explorer")

type row struct {
	Key         string `db:"-"`
	KA          string `db:"ka"`
	KB          string `db:"kb"`
	Status      string `db:"status"`
	Failures    int    `db:"failures"`
	LastAttempt string `db:"la"`
	CreatedAt   string `db:"ca"`
}

type pexec struct {
	gen int
	key string
	seq int
	ch  chan bool
}

type addCall struct {
	key      string
	task     persistedretry.Task
	dup      bool // the row existed when the Add reached the store
	reached  bool // the Add reached the store
	done     bool
	err      error
	reported bool
}

type world struct {
	cfg config
	c   *e1q.Ctl
	sk  storeKind
	dir string

	mu          sync.Mutex // harness bookkeeping
	dbmu        sync.Mutex // one store operation (+ re-stamp) at a time
	db          *sqlx.DB
	gen         int
	crashed     map[int]bool
	passthrough bool
	closing     bool
	mgr         persistedretry.Manager
	t0          time.Time // start of the current manager (its ticker's origin)
	execs       []*pexec
	execSeq     int
	addCalls    map[persistedretry.Task]*addCall
	adds        []*addCall
	nAdd        map[string]int

	// identities of t1 / t2, the remotes configuration of the running process
	ids         map[string]ident
	names       map[ident]string
	rc          remotesCfg
	scn         string          // chosen scenario (description; "" = default)
	invalidated map[string]bool // deleted at a start-up whose configuration no longer declares the task valid

	// budgets used
	nActions, restarts, advances int

	// monitors
	succSinceInsert map[string]int
	succTotal       map[string]int
	accepted        map[string]bool
	prev            map[string]row
	vio             string
	herr            string

	// Store calls of manager goroutines whose effect has happened but which have
	// not returned yet (parkRet): op -> number of such calls (vacuity counters only)
	inflight map[string]int

	// vacuity flags / counters (exploration phase only)
	fl map[string]int
}

func (w *world) flag(k string) { w.fl[k]++ }

// closingTag marks verdicts reached in the free-running closing phase.
const closingTag = "[closing phase] "

func (w *world) violate(format string, a ...interface{}) {
	if w.vio == "" {
		w.vio = fmt.Sprintf(format, a...)
		if w.closing {
			w.vio = closingTag + w.vio
		}
	}
}

func (w *world) harnessErr(format string, a ...interface{}) {
	if w.herr == "" {
		w.herr = fmt.Sprintf(format, a...)
	}
}

func (w *world) openDB() error {
	db, err := localdb.New(localdb.Config{Source: filepath.Join(w.dir, "kraken.db")})
	if err != nil {
		return err
	}
	// speed only (tmpfs, crashes are modelled at statement boundaries by the seam)
	if _, err := db.Exec(`PRAGMA journal_mode=MEMORY; PRAGMA synchronous=OFF`); err != nil {
		return err
	}
	w.db = db
	return nil
}

func (w *world) snapshot() map[string]row {
	w.dbmu.Lock()
	defer w.dbmu.Unlock()
	var rows []row
	q := fmt.Sprintf(`SELECT %s AS ka, %s AS kb, status, failures, CAST(last_attempt AS TEXT) AS la, CAST(created_at AS TEXT) AS ca FROM %s`, w.sk.cola, w.sk.colb, w.sk.table)
	if err := w.db.Select(&rows, q); err != nil {
		w.mu.Lock()
		w.harnessErr("snapshot: %v", err)
		w.mu.Unlock()
		return nil
	}
	m := map[string]row{}
	for _, r := range rows {
		id := ident{r.KA, r.KB}
		r.Key = "?" + id.String()
		if n, ok := w.names[id]; ok {
			r.Key = n
		}
		if _, dup := m[r.Key]; dup {
			w.mu.Lock()
			w.violate("two rows for task %s in the store", r.Key)
			w.mu.Unlock()
		}
		m[r.Key] = r
	}
	return m
}

func (w *world) rowExists(key string) bool {
	var n int
	id := w.ids[key]
	if err := w.db.Get(&n, fmt.Sprintf(`SELECT COUNT(*) FROM %s WHERE %s=? AND %s=?`, w.sk.table, w.sk.cola, w.sk.colb), id.a, id.b); err != nil {
		w.mu.Lock()
		w.harnessErr("rowExists: %v", err)
		w.mu.Unlock()
	}
	return n > 0
}

func (w *world) stamp(col, key string) {
	id := w.ids[key]
	if _, err := w.db.Exec(fmt.Sprintf(`UPDATE %s SET %s=? WHERE %s=? AND %s=?`, w.sk.table, col, w.sk.cola, w.sk.colb), time.Now().UTC(), id.a, id.b); err != nil {
		w.mu.Lock()
		w.harnessErr("re-stamp %s: %v", col, err)
		w.mu.Unlock()
	}
}

// ---------------------------------------------------------------------------
// Store seam

type hstore struct {
	w     *world
	gen   int
	inner persistedretry.Store
}

// gate parks the calling manager goroutine (a pending action) and reports
// whether the process of this manager generation is still alive.
func (s *hstore) gate(op, key string, park bool) error {
	w := s.w
	w.mu.Lock()
	dead, pass := w.crashed[s.gen], w.passthrough
	w.mu.Unlock()
	if dead {
		return errCrashed
	}
	if park && !pass {
		l := fmt.Sprintf("S g%d %s", s.gen, op)
		if key != "" {
			l += " " + key
		}
		w.c.Park(l)
		w.mu.Lock()
		dead = w.crashed[s.gen]
		w.mu.Unlock()
		if dead {
			return errCrashed
		}
	}
	return nil
}

// ret is the second seam of a Store call (cfg.parkRet): the real operation has
// taken effect on the sqlite table, the calling manager goroutine parks again
// before it sees the result. Everything the goroutine does in memory with the
// result (flags, channel sends, its next decision) is thereby a step of its own,
// schedulable after any number of other goroutines' Store effects. A crash
// while parked here: the effect stays, the goroutine never sees the result.
func (s *hstore) ret(op, key string, parked bool, n int) error {
	w := s.w
	if !w.cfg.parkRet {
		return nil
	}
	w.mu.Lock()
	dead, pass := w.crashed[s.gen], w.passthrough
	if !dead && !pass && !w.closing {
		// which effects landed inside the window of another call (vacuity counters)
		if op == "MarkFailed" || op == "AddFailed" {
			if w.inflight["GetFailed"] > 0 {
				w.flag("failWriteInsideGetFailedWindow")
			}
			if w.inflight["GetFailed/empty"] > 0 {
				w.flag("failWriteInsideEmptyGetFailedWindow")
			}
		}
		if op == "GetFailed" && (w.inflight["MarkFailed"] > 0 || w.inflight["AddFailed"] > 0) {
			w.flag("getFailedInsideFailWriteWindow")
		}
		for o, c := range w.inflight {
			if c > 0 && !strings.Contains(o, "/") {
				w.flag("effectInsideWindowOfAnotherCall")
				break
			}
		}
	}
	w.mu.Unlock()
	if dead {
		return errCrashed
	}
	if pass || !parked {
		return nil
	}
	l := fmt.Sprintf("S g%d %s.ret", s.gen, op)
	if key != "" {
		l += " " + key
	}
	w.mu.Lock()
	w.inflight[op]++
	if op == "GetFailed" && n == 0 {
		w.inflight["GetFailed/empty"]++
	}
	w.mu.Unlock()
	w.c.Park(l)
	w.mu.Lock()
	w.inflight[op]--
	if op == "GetFailed" && n == 0 {
		w.inflight["GetFailed/empty"]--
	}
	dead = w.crashed[s.gen]
	w.mu.Unlock()
	if dead {
		return errCrashed
	}
	return nil
}

func (s *hstore) unexpected(op string, err error) {
	if err == nil || err == persistedretry.ErrTaskExists || err == persistedretry.ErrTaskNotFound {
		return
	}
	s.w.mu.Lock()
	s.w.harnessErr("store %s: %v", op, err)
	s.w.mu.Unlock()
}

func (s *hstore) add(op string, t persistedretry.Task, f func(persistedretry.Task) error) error {
	w, k := s.w, s.w.keyOf(t)
	// Unless cfg.parkAdd, the first store call of an Add is not a separate pending
	// action: all an Add does before it is local (closed flag, clock read).
	if err := s.gate(op, k, w.cfg.parkAdd); err != nil {
		return err
	}
	err := s.addEffect(op, t, f)
	if e := s.ret(op, k, w.cfg.parkAdd, 0); e != nil {
		return e
	}
	return err
}

func (s *hstore) addEffect(op string, t persistedretry.Task, f func(persistedretry.Task) error) error {
	w, k := s.w, s.w.keyOf(t)
	w.dbmu.Lock()
	defer w.dbmu.Unlock()
	existed := w.rowExists(k)
	err := f(t)
	s.unexpected(op, err)
	if err == nil {
		w.stamp("created_at", k)
	}
	w.mu.Lock()
	if op == "AddFailed" && !w.closing {
		w.flag("addFailed")
	}
	if ac := w.addCalls[t]; ac != nil {
		ac.reached = true
		ac.dup = existed
	}
	if err == nil {
		w.succSinceInsert[k] = 0
		if existed {
			w.violate("a second insert of stored task %s succeeded", k)
		}
	} else if err == persistedretry.ErrTaskExists && !existed {
		w.harnessErr("ErrTaskExists for %s but no row", k)
	}
	w.mu.Unlock()
	return err
}

func (s *hstore) AddPending(t persistedretry.Task) error {
	return s.add("AddPending", t, s.inner.AddPending)
}
func (s *hstore) AddFailed(t persistedretry.Task) error {
	return s.add("AddFailed", t, s.inner.AddFailed)
}

func (s *hstore) MarkPending(t persistedretry.Task) error {
	if err := s.gate("MarkPending", s.w.keyOf(t), true); err != nil {
		return err
	}
	err := func() error {
		s.w.dbmu.Lock()
		defer s.w.dbmu.Unlock()
		err := s.inner.MarkPending(t)
		s.unexpected("MarkPending", err)
		return err
	}()
	if e := s.ret("MarkPending", s.w.keyOf(t), true, 0); e != nil {
		return e
	}
	return err
}

func (s *hstore) MarkFailed(t persistedretry.Task) error {
	k := s.w.keyOf(t)
	if err := s.gate("MarkFailed", k, true); err != nil {
		return err
	}
	err := func() error {
		s.w.dbmu.Lock()
		defer s.w.dbmu.Unlock()
		err := s.inner.MarkFailed(t)
		s.unexpected("MarkFailed", err)
		if err == nil {
			s.w.stamp("last_attempt", k)
		}
		return err
	}()
	if e := s.ret("MarkFailed", k, true, 0); e != nil {
		return e
	}
	return err
}

func (s *hstore) Remove(t persistedretry.Task) error {
	k := s.w.keyOf(t)
	if err := s.gate("Remove", k, true); err != nil {
		return err
	}
	w := s.w
	err := func() error {
		w.dbmu.Lock()
		defer w.dbmu.Unlock()
		existed := w.rowExists(k)
		err := s.inner.Remove(t)
		s.unexpected("Remove", err)
		if err == nil && existed {
			w.mu.Lock()
			if w.succSinceInsert[k] == 0 {
				w.violate("task %s left the store (Remove) although no Exec of it returned nil since it was stored", k)
			}
			w.mu.Unlock()
		}
		return err
	}()
	if e := s.ret("Remove", k, true, 0); e != nil {
		return e
	}
	return err
}

func (s *hstore) GetPending() ([]persistedretry.Task, error) {
	if err := s.gate("GetPending", "", true); err != nil {
		return nil, err
	}
	ts, err := func() ([]persistedretry.Task, error) {
		s.w.dbmu.Lock()
		defer s.w.dbmu.Unlock()
		ts, err := s.inner.GetPending()
		s.unexpected("GetPending", err)
		return ts, err
	}()
	if e := s.ret("GetPending", "", true, len(ts)); e != nil {
		return nil, e
	}
	return ts, err
}

func (s *hstore) GetFailed() ([]persistedretry.Task, error) {
	if err := s.gate("GetFailed", "", true); err != nil {
		return nil, err
	}
	ts, err := func() ([]persistedretry.Task, error) {
		s.w.dbmu.Lock()
		defer s.w.dbmu.Unlock()
		ts, err := s.inner.GetFailed()
		s.unexpected("GetFailed", err)
		return ts, err
	}()
	if e := s.ret("GetFailed", "", true, len(ts)); e != nil {
		return nil, e
	}
	return ts, err
}

func (s *hstore) Find(q interface{}) ([]persistedretry.Task, error) { return s.inner.Find(q) }

// ---------------------------------------------------------------------------
// Executor seam

type hexec struct {
	w   *world
	gen int
}

func (e *hexec) Name() string { return "c30" }

func (e *hexec) Exec(t persistedretry.Task) error {
	w, k := e.w, e.w.keyOf(t)
	w.mu.Lock()
	if w.crashed[e.gen] {
		w.mu.Unlock()
		return errCrashed
	}
	if w.closing {
		w.succSinceInsert[k]++
		w.succTotal[k]++
		w.mu.Unlock()
		return nil
	}
	p := &pexec{gen: e.gen, key: k, seq: w.execSeq, ch: make(chan bool, 1)}
	w.execSeq++
	w.execs = append(w.execs, p)
	w.flag("exec")
	w.mu.Unlock()
	if <-p.ch { // success was recorded by whoever released us
		return nil
	}
	return errExec
}

func (w *world) releaseExec(p *pexec, ok bool) {
	w.mu.Lock()
	for i, q := range w.execs {
		if q == p {
			w.execs = append(w.execs[:i], w.execs[i+1:]...)
			break
		}
	}
	if ok {
		w.succSinceInsert[p.key]++
		w.succTotal[p.key]++
	}
	w.mu.Unlock()
	p.ch <- ok
}

// ---------------------------------------------------------------------------
// manager life cycle

func (w *world) mgrConfig() persistedretry.Config {
	return persistedretry.Config{
		IncomingBuffer:               w.cfg.inBuf,
		RetryBuffer:                  w.cfg.reBuf,
		NumIncomingWorkers:           1,
		NumRetryWorkers:              1,
		MaxTaskThroughput:            throttle,
		RetryInterval:                w.cfg.retryInterval,
		PollRetriesInterval:          pollInterval,
		WorkqueueMetricsEmitInterval: 100000 * time.Hour,
		Testing:                      true,
	}
}

// startManager builds the next manager generation on the current database.
// async: NewManager runs on its own goroutine and its store calls park.
func (w *world) startManager(async bool) {
	w.mu.Lock()
	w.gen++
	gen := w.gen
	w.mgr = nil
	w.mu.Unlock()
	inner, err := newRealStore(w.cfg.kind, w.db, w.rc)
	if err != nil {
		w.harnessErr("NewStore: %v", err)
		return
	}
	st := &hstore{w: w, gen: gen, inner: inner}
	ex := &hexec{w: w, gen: gen}
	build := func() {
		m, err := persistedretry.NewManager(w.mgrConfig(), tally.NoopScope, st, ex)
		w.mu.Lock()
		defer w.mu.Unlock()
		if w.crashed[gen] {
			if m != nil {
				w.harnessErr("manager generation %d started although its process had crashed", gen)
			}
			return
		}
		if err != nil {
			w.harnessErr("NewManager: %v", err)
			return
		}
		w.mgr = m
		w.t0 = time.Now()
	}
	if async {
		go build()
	} else {
		build()
	}
}

// restart: the process dies and a new one starts on the same database file with
// the remotes configuration rc (the real store constructor runs before the new
// manager is built, as in kraken's start-up).
func (w *world) restart(rc remotesCfg, changed bool) {
	w.mu.Lock()
	// what the new process's store constructor finds in the table (vacuity counters)
	if w.cfg.kind == "tr" {
		same := map[string]int{}
		for k := range w.prev {
			id, ok := w.ids[k]
			if !ok {
				continue
			}
			same[id.a]++
			for _, c := range posClass(rc, id) {
				if changed {
					w.flag("restartChangedCfgWithStored:" + c)
				} else {
					w.flag("restartWithStored:" + c)
				}
			}
		}
		for _, n := range same {
			if n > 1 {
				w.flag("restartWithStored:sameTagTwoDestinations")
			}
		}
	}
	w.rc = rc
	old := w.mgr
	w.crashed[w.gen] = true
	execs := w.execs
	w.execs = nil
	// what the crash interrupts (vacuity counters)
	for _, l := range w.c.Pending() {
		f := strings.Fields(l)
		w.flag("crash@" + f[2])
		if f[2] == "Remove" {
			w.flag("crashBetweenExecOkAndRemove")
		}
	}
	if len(execs) > 0 {
		w.flag("crash@Exec")
	}
	if old == nil {
		w.flag("crashDuringStartup")
	}
	w.mu.Unlock()
	for _, p := range execs {
		p.ch <- false
	}
	w.c.ReleaseAll()
	if old != nil {
		old.Close()
	}
	w.c.Wait()
	if err := w.db.Close(); err != nil {
		w.harnessErr("db close: %v", err)
	}
	if err := w.openDB(); err != nil {
		w.harnessErr("reopen db: %v", err)
		return
	}
	w.startManager(true)
}

func (w *world) untilNextTick() time.Duration {
	el := time.Since(w.t0)
	return pollInterval - el%pollInterval
}

func (w *world) doAdd(key string) {
	var delay time.Duration
	if key == "t2" {
		delay = w.cfg.t2Delay
	}
	t := newTask(w.cfg.kind, w.ids[key], delay)
	ac := &addCall{key: key, task: t}
	w.mu.Lock()
	w.addCalls[t] = ac
	w.adds = append(w.adds, ac)
	w.nAdd[key]++
	m := w.mgr
	w.mu.Unlock()
	go func() {
		err := m.Add(t)
		w.mu.Lock()
		ac.done, ac.err = true, err
		w.mu.Unlock()
	}()
}

// actions returns the harness actions enabled in the current quiescent state.
func (w *world) actions() []e1q.Action {
	w.mu.Lock()
	defer w.mu.Unlock()
	var out []e1q.Action
	if w.vio != "" || w.herr != "" || w.nActions >= w.cfg.maxActions {
		return nil
	}
	if w.mgr != nil {
		_, t1Stored := w.prev["t1"]
		// the second Add(t1) is the duplicate case: only while t1 is stored
		// (a task is only ever created for a destination the running process's
		// configuration declares valid for its tag — tagserver uses Remotes.Match)
		_, hasT2 := w.ids["t2"]
		if !w.rc.valid(w.ids["t1"]) && w.cfg.kind == "tr" {
			// not offered
		} else if w.nAdd["t1"] == 0 || (w.nAdd["t1"] < 2 && t1Stored) {
			out = append(out, e1q.Action{Label: "A t1", Run: func() { w.doAdd("t1") }})
		}
		if w.nAdd["t1"] > 0 && w.nAdd["t2"] < 1 && hasT2 && (w.cfg.kind != "tr" || w.rc.valid(w.ids["t2"])) {
			out = append(out, e1q.Action{Label: "A t2", Run: func() { w.doAdd("t2") }})
		}
		ex := append([]*pexec(nil), w.execs...)
		sort.Slice(ex, func(i, j int) bool {
			if ex[i].key != ex[j].key {
				return ex[i].key < ex[j].key
			}
			return ex[i].seq < ex[j].seq
		})
		for _, p := range ex {
			p := p
			out = append(out, e1q.Action{Label: fmt.Sprintf("X g%d %s ok", p.gen, p.key), Run: func() { w.releaseExec(p, true) }})
			out = append(out, e1q.Action{Label: fmt.Sprintf("X g%d %s fail", p.gen, p.key), Run: func() { w.flag("execFail"); w.releaseExec(p, false) }})
		}
		pollerBusy := false
		for _, l := range w.c.Pending() {
			if strings.Contains(l, " GetFailed") {
				pollerBusy = true // the previous tick has not even been looked at yet
			}
		}
		if w.advances < w.cfg.maxAdvances && !pollerBusy {
			out = append(out, e1q.Action{Label: "T poll", Run: func() { e1q.Sleep(w.untilNextTick() + time.Second) }})
		}
	}
	// a crash is interesting when it interrupts something: a parked Store call,
	// a running Exec, or tasks waiting in a queue (channel contents are lost)
	queued := 0
	if w.mgr != nil {
		qi, qr := persistedretry.VerifQueueLens(w.mgr)
		queued = qi + qr
	}
	// (scenario configurations: also when a task is merely stored — the store's
	// start-up path looks at every stored row)
	if w.restarts < w.cfg.maxRestarts && (queued > 0 || len(w.execs) > 0 || len(w.c.Pending()) > 0 || (w.cfg.scen != "" && len(w.prev) > 0)) {
		rc := w.rc
		out = append(out, e1q.Action{Label: "R restart", Run: func() { w.restart(rc, false) }})
		if w.cfg.chg {
			// the new process's remotes configuration lacks one (address, pattern) entry
			for _, e := range rc.entries() {
				n := rc.without(e.addr, e.i)
				if len(n.order) == 0 {
					continue // (RemotesConfig with no remote at all: tag replication is switched off)
				}
				out = append(out, e1q.Action{Label: fmt.Sprintf("R restart-without %s:%s", e.addr, rc.pats[e.addr][e.i]), Run: func() { w.restart(n, true) }})
			}
		}
	}
	return out
}

type quiescent struct {
	rows   map[string]row
	parked string
	execs  string
	qi, qr int
}

func (w *world) observe() quiescent {
	q := quiescent{rows: w.snapshot(), parked: strings.Join(w.c.Pending(), ","), qi: -1, qr: -1}
	w.mu.Lock()
	var ex []string
	for _, p := range w.execs {
		ex = append(ex, p.key)
	}
	m := w.mgr
	w.mu.Unlock()
	sort.Strings(ex)
	q.execs = strings.Join(ex, ",")
	if m != nil {
		q.qi, q.qr = persistedretry.VerifQueueLens(m)
	}
	return q
}

func rowsEqual(a, b map[string]row) bool {
	if len(a) != len(b) {
		return false
	}
	for k, v := range a {
		if b[k] != v {
			return false
		}
	}
	return true
}

// afterStep runs the monitors on the quiescent state reached by one step.
func (w *world) afterStep(label string, before quiescent) quiescent {
	now := w.observe()
	w.mu.Lock()
	defer w.mu.Unlock()
	cls := stepClass(label)
	// clause 1: a task leaves the store only after an Exec of it returned nil
	for k := range before.rows {
		if _, still := now.rows[k]; !still && w.succSinceInsert[k] == 0 {
			if id, ok := w.ids[k]; ok && cls == "R" && w.cfg.kind == "tr" && !w.rc.valid(id) {
				// the one documented exception: the process came up with a remotes
				// configuration that no longer declares the task's destination valid for its tag
				w.invalidated[k] = true
				w.flag("deletedAtStartAsInvalid")
				continue
			}
			fresh := w.vio == ""
			w.violate("task %s left the store during [%s] although no Exec of it returned nil since it was stored", k, cls)
			if fresh && w.scn != "" {
				w.vio += "\nscenario: " + w.scn + "; remotes configuration of the running process: " + w.rc.String()
			}
		}
	}
	// clause 3: adding a stored task has no further effect
	for _, ac := range w.adds {
		if !ac.done || ac.reported {
			continue
		}
		ac.reported = true
		if ac.err == nil {
			w.accepted[ac.key] = true
		}
		if ac.reached && ac.dup {
			w.flag("dupAdd")
			if ac.err != nil && strings.Contains(ac.err.Error(), errCrashed.Error()) {
				// (parkRet) the process crashed while the Add was between its Store call's
				// effect and its return: no caller is left to see a result
				w.flag("crashInsideDupAdd")
			} else if ac.err != nil {
				w.violate("Add of the already stored task %s returned an error: %v", ac.key, ac.err)
			} else if cls == "A" || cls == "S AddPending" || cls == "S AddFailed" || cls == "S AddPending.ret" || cls == "S AddFailed.ret" {
				// the Add's store call and return ran inside this step and nothing
				// else was released: compare the quiescent states around it
				if strings.HasPrefix(cls, "S") { // its own parked call is gone, nothing else
					var rest []string
					for _, l := range strings.Split(before.parked, ",") {
						if l == label {
							label = "\x00"
							continue
						}
						rest = append(rest, l)
					}
					before.parked = strings.Join(rest, ",")
				}
				if !rowsEqual(before.rows, now.rows) {
					w.violate("Add of the already stored task %s changed the store: %v -> %v", ac.key, before.rows, now.rows)
				} else if before.parked != now.parked || before.execs != now.execs || before.qi != now.qi || before.qr != now.qr {
					w.violate("Add of the already stored task %s had a further effect: parked [%s]->[%s] execs [%s]->[%s] queues %d/%d->%d/%d",
						ac.key, before.parked, now.parked, before.execs, now.execs, before.qi, before.qr, now.qi, now.qr)
				}
			}
		} else if ac.err != nil && !w.closing {
			// only a crash may make a non-duplicate Add fail
			if !strings.Contains(ac.err.Error(), errCrashed.Error()) && ac.err != persistedretry.ErrManagerClosed {
				w.harnessErr("Add(%s): %v", ac.key, ac.err)
			}
		}
	}
	w.prev = now.rows
	return now
}

func stepClass(label string) string {
	f := strings.Fields(label)
	switch f[0] {
	case "S":
		return "S " + f[2]
	case "X":
		return "X " + f[3]
	}
	return f[0]
}

// ---------------------------------------------------------------------------
// one execution

func body(cfg config) func(c *e1q.Ctl) (string, string) {
	return func(c *e1q.Ctl) (obs, vio string) {
		w := &world{cfg: cfg, c: c, sk: kinds[cfg.kind], crashed: map[int]bool{}, addCalls: map[persistedretry.Task]*addCall{},
			nAdd: map[string]int{}, succSinceInsert: map[string]int{}, succTotal: map[string]int{}, accepted: map[string]bool{},
			prev: map[string]row{}, fl: map[string]int{}, inflight: map[string]int{}, invalidated: map[string]bool{},
			ids: map[string]ident{}, names: map[ident]string{}, rc: defaultRC}
		for k, id := range defaultIDs[cfg.kind] {
			w.ids[k] = id
		}
		if cfg.scen != "" {
			// first choice of the execution: the start-up scenario
			l := scenarios(cfg.scen)
			var acts []e1q.Action
			for i := range l {
				sc := l[i]
				acts = append(acts, e1q.Action{Label: "C " + sc.String(), Run: func() {
					w.scn, w.rc = sc.String(), sc.rc
					w.ids = map[string]ident{"t1": sc.t1}
					if sc.hasT2 {
						w.ids["t2"] = sc.t2
					}
				}})
			}
			if !c.Step(func() []e1q.Action { return acts }) || w.scn == "" {
				return "", "HARNESS-ERROR no scenario chosen"
			}
		}
		for k, id := range w.ids {
			w.names[id] = k
		}
		var err error
		w.dir, err = os.MkdirTemp(scratch, "x")
		if err != nil {
			return "", "HARNESS-ERROR mkdir: " + err.Error()
		}
		defer os.RemoveAll(w.dir)
		if err := os.WriteFile(filepath.Join(w.dir, "kraken.db"), template, 0o644); err != nil {
			return "", "HARNESS-ERROR copy template: " + err.Error()
		}
		if err := w.openDB(); err != nil {
			return "", "HARNESS-ERROR open db: " + err.Error()
		}
		w.passthrough = true
		w.startManager(false)
		w.passthrough = false

		// exploration phase
		q := w.observe()
		// (cfg.drain: after the last budgeted action w.actions offers nothing more and
		// the loop goes on until no Store call is parked any more: every order of
		// the remaining effects / returns is enumerated too)
		for w.vio == "" && w.herr == "" && (w.nActions < cfg.maxActions || cfg.drain) {
			if !c.Step(w.actions) {
				break
			}
			label := c.Trace[len(c.Trace)-1]
			w.mu.Lock()
			switch label[0] {
			case 'A':
				w.nActions++
			case 'X':
				w.nActions++
			case 'T':
				w.nActions++
				w.advances++
			case 'R':
				w.nActions++
				w.restarts++
			}
			w.mu.Unlock()
			e1q.Sleep(microAdvance)
			q = w.afterStep(label, q)
		}

		// closing phase: no more faults, executor always succeeds, time advances
		rounds := 0
		if w.vio == "" && w.herr == "" {
			w.mu.Lock()
			w.closing, w.passthrough = true, true
			execs := append([]*pexec(nil), w.execs...)
			w.mu.Unlock()
			for _, p := range execs {
				w.releaseExec(p, true)
			}
			c.ReleaseAll()
			e1q.Sleep(microAdvance)
			q = w.afterStep("C release", q)
			for ; rounds < closingMax && w.vio == "" && w.herr == ""; rounds++ {
				w.mu.Lock()
				m, pendingAdds := w.mgr, 0
				for _, ac := range w.adds {
					if !ac.done {
						pendingAdds++
					}
				}
				w.mu.Unlock()
				if m == nil {
					w.harnessErr("no running manager in the closing phase")
					break
				}
				if len(q.rows) == 0 && pendingAdds == 0 {
					break
				}
				e1q.Sleep(w.untilNextTick() + time.Second)
				q = w.afterStep("C advance", q)
			}
			w.mu.Lock()
			if w.vio == "" && w.herr == "" {
				var left, never []string
				for k := range q.rows {
					s := k
					if w.accepted[k] {
						s += "(accepted)"
					}
					left = append(left, s)
				}
				for k := range w.accepted {
					if w.succTotal[k] == 0 && !w.invalidated[k] {
						never = append(never, k)
					}
				}
				sort.Strings(left)
				sort.Strings(never)
				for _, ac := range w.adds {
					if !ac.done {
						w.violate("an Add(%s) call never returned", ac.key)
					}
				}
				if len(never) > 0 {
					w.violate("accepted task(s) %v never executed successfully in the closing phase (%d poll rounds, executor always succeeds)", never, rounds)
				} else if len(left) > 0 {
					w.violate("store not empty after the closing phase (%d poll rounds, executor always succeeds): %v", rounds, left)
				}
			}
			w.mu.Unlock()
		}

		// teardown
		w.mu.Lock()
		w.closing, w.passthrough = true, true
		execs := append([]*pexec(nil), w.execs...)
		m := w.mgr
		w.mu.Unlock()
		for _, p := range execs {
			w.releaseExec(p, true)
		}
		c.ReleaseAll()
		c.Wait()
		w.mu.Lock()
		if w.mgr != nil {
			m = w.mgr
		}
		w.mu.Unlock()
		if m != nil {
			m.Close()
		}
		c.Wait()
		w.db.Close()

		if w.herr != "" {
			return "harness-error", "HARNESS-ERROR " + w.herr + " trace=" + strings.Join(c.Trace, " | ")
		}
		// observation: outcome class of the exploration phase
		var fk []string
		for k := range w.fl {
			fk = append(fk, k)
		}
		sort.Strings(fk)
		var sb strings.Builder
		for _, k := range fk {
			fmt.Fprintf(&sb, "%s=%d;", k, w.fl[k])
		}
		var acc []string
		for k := range w.accepted {
			acc = append(acc, k)
		}
		sort.Strings(acc)
		fmt.Fprintf(&sb, "acc=%s;restarts=%d", strings.Join(acc, "+"), w.restarts)
		return sb.String(), w.vio
	}
}

// ---------------------------------------------------------------------------

func configs(thorough bool) []config {
	if v := os.Getenv("C30_CFG"); v != "" { // development only: "kind in re ri delay actions restarts advances parkAdd parkRet drain [scenarioScope|- [chg]]"
		var c config
		var ri, d int
		var pa, pr, dr, chg int
		scen := "-"
		fmt.Sscanf(v, "%s %d %d %d %d %d %d %d %d %d %d %s %d", &c.kind, &c.inBuf, &c.reBuf, &ri, &d, &c.maxActions, &c.maxRestarts, &c.maxAdvances, &pa, &pr, &dr, &scen, &chg)
		c.parkAdd, c.parkRet, c.drain, c.cap = pa == 1, pr == 1, dr == 1, 280
		if scen != "-" {
			c.scen = scen
		}
		c.chg = chg == 1
		c.retryInterval, c.t2Delay = time.Duration(ri)*time.Second, time.Duration(d)*time.Second
		return []config{c}
	}
	s5 := 5 * time.Second
	if !thorough {
		return []config{
			{kind: "wb", inBuf: 0, reBuf: 0, retryInterval: s5, maxActions: 6, maxRestarts: 1, maxAdvances: 2, cap: 28},
			{kind: "wb", inBuf: 1, reBuf: 1, retryInterval: s5, maxActions: 6, maxRestarts: 1, maxAdvances: 2, cap: 28},
			// two seams per Store call (effect / return to the manager goroutine): what a
			// manager goroutine does in memory with a Store result is a step of its own,
			// ordered in every way against the other goroutines' Store effects; the calls
			// still parked after the last action are drained in every order
			{kind: "wb", inBuf: 0, reBuf: 0, retryInterval: s5, maxActions: 4, maxRestarts: 1, maxAdvances: 2, parkRet: true, drain: true, cap: 40},
			{kind: "wb", inBuf: 1, reBuf: 1, retryInterval: s5, maxActions: 4, maxRestarts: 1, maxAdvances: 2, parkRet: true, drain: true, cap: 20},
			// start-up path of the real tagreplication.Store with the real Remotes: the first
			// choice is a scenario (remotes configuration x address order x identities of
			// t1/t2, scope "q" of remotes.go); a restart comes up with the same configuration
			// or with one that lacks one (address, pattern) entry
			{kind: "tr", inBuf: 0, reBuf: 0, retryInterval: s5, maxActions: 3, maxRestarts: 1, maxAdvances: 1, scen: "q", chg: true, cap: 30},
		}
	}
	return []config{
		// depth 7, two restarts, both buffer settings, write-back store
		{kind: "wb", inBuf: 0, reBuf: 0, retryInterval: s5, maxActions: 7, maxRestarts: 2, maxAdvances: 3, cap: 250},
		{kind: "wb", inBuf: 1, reBuf: 1, retryInterval: s5, maxActions: 7, maxRestarts: 2, maxAdvances: 3, cap: 160},
		// tag replication store
		{kind: "tr", inBuf: 0, reBuf: 0, retryInterval: s5, maxActions: 6, maxRestarts: 2, maxAdvances: 2, cap: 45},
		{kind: "tr", inBuf: 1, reBuf: 1, retryInterval: s5, maxActions: 6, maxRestarts: 2, maxAdvances: 2, cap: 45},
		// mixed buffers
		{kind: "wb", inBuf: 0, reBuf: 1, retryInterval: s5, maxActions: 6, maxRestarts: 1, maxAdvances: 2, cap: 45},
		{kind: "wb", inBuf: 1, reBuf: 0, retryInterval: s5, maxActions: 6, maxRestarts: 1, maxAdvances: 2, cap: 45},
		// RetryInterval longer than the poll interval: a failed task is not yet due at the first tick
		{kind: "wb", inBuf: 0, reBuf: 0, retryInterval: 15 * time.Second, maxActions: 6, maxRestarts: 1, maxAdvances: 3, cap: 45},
		// t2 is a delayed task (Delay 15s): Add stores it as failed, the poller runs it once it is ready
		{kind: "wb", inBuf: 0, reBuf: 0, retryInterval: s5, t2Delay: 15 * time.Second, maxActions: 6, maxRestarts: 1, maxAdvances: 3, cap: 45},
		// AddPending / AddFailed are separate pending actions too (crash / interleaving before the insert)
		{kind: "wb", inBuf: 0, reBuf: 0, retryInterval: s5, maxActions: 5, maxRestarts: 1, maxAdvances: 2, parkAdd: true, cap: 45},
		// depth 8 (time-capped: not expected to complete)
		{kind: "wb", inBuf: 0, reBuf: 0, retryInterval: s5, maxActions: 8, maxRestarts: 2, maxAdvances: 3, cap: 45},
		// two seams per Store call (effect / return) + drain of the parked calls in every order:
		// both buffer settings, both stores, a delayed t2 (AddFailed path), Add's own Store call
		// with both seams, and one deeper (time-capped) layer
		{kind: "wb", inBuf: 0, reBuf: 0, retryInterval: s5, maxActions: 4, maxRestarts: 1, maxAdvances: 2, parkRet: true, drain: true, cap: 40},
		{kind: "wb", inBuf: 1, reBuf: 1, retryInterval: s5, maxActions: 4, maxRestarts: 1, maxAdvances: 2, parkRet: true, drain: true, cap: 20},
		{kind: "tr", inBuf: 0, reBuf: 0, retryInterval: s5, maxActions: 4, maxRestarts: 1, maxAdvances: 2, parkRet: true, drain: true, cap: 40},
		{kind: "wb", inBuf: 0, reBuf: 0, retryInterval: s5, t2Delay: 15 * time.Second, maxActions: 4, maxRestarts: 1, maxAdvances: 3, parkRet: true, drain: true, cap: 40},
		{kind: "wb", inBuf: 0, reBuf: 0, retryInterval: s5, maxActions: 3, maxRestarts: 1, maxAdvances: 2, parkAdd: true, parkRet: true, drain: true, cap: 40},
		{kind: "wb", inBuf: 0, reBuf: 0, retryInterval: s5, maxActions: 5, maxRestarts: 1, maxAdvances: 2, parkRet: true, drain: true, cap: 60},
		// start-up scenarios (remotes.go): the wider scope "t" (E also with a single pattern,
		// ordered pairs of tasks) with configuration changes at 3 actions; scope "q" with a
		// fixed configuration one action deeper; scope "q" with buffered queues
		{kind: "tr", inBuf: 0, reBuf: 0, retryInterval: s5, maxActions: 3, maxRestarts: 1, maxAdvances: 1, scen: "t", chg: true, cap: 110},
		{kind: "tr", inBuf: 0, reBuf: 0, retryInterval: s5, maxActions: 4, maxRestarts: 1, maxAdvances: 1, scen: "q", cap: 90},
		{kind: "tr", inBuf: 1, reBuf: 1, retryInterval: s5, maxActions: 3, maxRestarts: 1, maxAdvances: 1, scen: "q", chg: true, cap: 45},
	}
}

// harnessFor builds the harness of one configuration. Determinism self-test:
// every 25th execution is run a second time with exactly the same choices and
// must show the same sequence of (label, number enabled), the same observation
// and the same verdict; a difference is reported as replay divergence (exit 2).
func harnessFor(cfg config) *vrt.Harness {
	h := e1q.Harness(cfg.name(), maxSteps, body(cfg))
	inner := h.RunOnce
	n := 0
	sig := func(x *vrt.Exec) string {
		var sb strings.Builder
		for _, p := range x.Points {
			fmt.Fprintf(&sb, "%s/%d;", p.Label, p.NEnabled)
		}
		return sb.String()
	}
	h.RunOnce = func(prefix []int) (*vrt.Exec, string, string) {
		x, obs, vio := inner(prefix)
		n++
		if n%25 == 1 && x.Diverged == "" && x.Panic == "" {
			x2, obs2, vio2 := inner(x.Choices())
			// (the closing phase is free-running under the Go scheduler: with a racy,
			// broken manager its verdict may differ between two runs, so only the
			// verdicts of the exploration phase are compared)
			if sig(x) != sig(x2) || obs != obs2 || explVerdict(vio) != explVerdict(vio2) {
				x.Diverged = fmt.Sprintf("same choices %v, different run: [%s] %q %q vs [%s] %q %q", x.Choices(), sig(x), obs, vio, sig(x2), obs2, vio2)
			}
		}
		return x, obs, vio
	}
	return h
}

var flagRe = func(obs string) map[string]int {
	m := map[string]int{}
	for _, kv := range strings.Split(obs, ";") {
		var k string
		var v int
		if i := strings.Index(kv, "="); i > 0 {
			k = kv[:i]
			fmt.Sscanf(kv[i+1:], "%d", &v)
			m[k] = v
		}
	}
	return m
}

func explVerdict(vio string) bool { return vio != "" && !strings.HasPrefix(vio, closingTag) }

var taskListRe = regexp.MustCompile(`\[t[12]( t[12])*\]`)

func fingerprint(v vrt.Violation) string {
	m := strings.TrimPrefix(strings.SplitN(v.Msg, "\n", 2)[0], closingTag)
	// failure class: drop task names, generations, counts
	m = taskListRe.ReplaceAllString(m, "<tasks>")
	for _, t := range []string{"t1", "t2"} {
		m = strings.ReplaceAll(m, " "+t+" ", " <task> ")
		m = strings.ReplaceAll(m, "("+t+")", "(<task>)")
	}
	if i := strings.Index(m, " ("); i > 0 && strings.Contains(m, "poll rounds") {
		m = m[:i]
	}
	if i := strings.Index(m, ": "); i > 0 && (strings.HasPrefix(m, "Add of") || strings.HasPrefix(m, "store not empty")) {
		m = m[:i]
	}
	if len(m) > 160 {
		m = m[:160]
	}
	kind := strings.Fields(v.Harness)[0]
	return kind + ": " + m
}

func main() {
	args := os.Args // e1q.Main truncates os.Args for the testing package; evid.New needs the tier argument
	e1q.Main(func(t *testing.T) {
		os.Args = args
		if err := initTemplate(); err != nil {
			fmt.Fprintln(os.Stderr, "HARNESS-ERROR property=C30:", err)
			os.Exit(2)
		}
		var hs []*vrt.Harness
		for _, th := range []bool{false, true} {
			for _, cfg := range configs(th) {
				hs = append(hs, harnessFor(cfg))
			}
		}
		vrt.WorkerMain(hs)

		run := evid.New("C30", "exploration")
		run.Rule = "E1q: every order of the pending actions of the real persistedretry.manager goroutines (each Store call of a worker / the retry poller / manager start-up parks; each Exec parks and is released with success or failure) and of the harness actions Add(t1) x2, Add(t2), advance past the next poll tick, restart (crash switch + new manager on the same sqlite file), up to the action / restart budget; then a closing phase (executor succeeds, time advances tick by tick for up to 12 poll rounds). Every restart runs the real start-up path: localdb.New (migrations) on the same file, then the real store constructor — writeback.NewStore, or tagreplication.NewStore with the REAL Remotes validator built by RemotesConfig.Build from the process's remotes configuration (its deleteInvalidTasks runs inside the restart step), then NewManager. Configurations marked 'scn-q'/'scn-t': the first choice of an execution is a start-up scenario = remotes configuration (address D with 1..3 patterns incl. overlapping ones, optional second address E, both address orders) x identities (tag, address) of t1 and t2 among all tasks the configuration declares valid (tag matching the 1st / 2nd / 3rd / several patterns of its address, valid at one or both addresses, same tag to two destinations); restart is also offered when a task is merely stored; with 'chg' a restart also enumerates every configuration that lacks one (address, pattern) entry — only a task the new configuration no longer declares valid may then leave the store without a successful Exec. Configurations marked 'pr dr': every Store call is TWO pending actions, its effect on the sqlite table and ('.ret') the return of its result to the manager goroutine, so each in-memory section of the poller / a worker / start-up between two Store effects is a step of its own and any number of Store effects of the other goroutines can land between a read (GetFailed, GetPending) or write (MarkFailed, MarkPending, Remove) and what its caller does next; after the last budgeted action the still parked effects / returns are released one at a time in every order. distinct = distinct outcome classes (which crash points / overflow / duplicate / retry paths / effect-inside-window collisions an execution took) per configuration."
		run.Assume("single clock: sqlite CURRENT_TIMESTAMP (wall clock) is replaced by the bubble's virtual time for created_at / last_attempt (the Store seam re-stamps the row right after the real statement): DB host clock == process clock")
		run.Assume("a crash is modelled at Store-call boundaries: the pending call and every later Store call of the old manager fail without effect; a pending Exec of the old manager did not succeed; sqlite statements are atomic")
		run.Assume("the workers' throttle sleep (MaxTaskThroughput) elapses between two steps (3ms of virtual time after every step)")
		run.Assume("the first Store call of an Add (AddPending/AddFailed) is executed in the same step as the Add action: everything an Add does before it is local")
		run.Assume("small scope: tasks t1,t2 (t2 only after t1: symmetric), 1 incoming + 1 retry worker, PollRetriesInterval 10s, RetryInterval 5s (one thorough configuration 15s), advance = to the next poll tick + 1s")
		run.Assume("alphabet restrictions: the second Add(t1) is offered only while t1 is stored (the duplicate case); advance is not offered while a GetFailed of the poller is still parked; restart is offered when it interrupts something (a parked Store call, a running Exec, a queued task); the exploration ends with the last budgeted action (calls still parked then are released at the start of the closing phase)")
		run.Assume("two-seam configurations (pr dr): <=4 actions and <=1 restart (thorough: one time-capped 5-action layer; 3 actions where Add's own Store call has both seams too); a crash between effect and return keeps the effect and the caller never sees the result (an Add interrupted that way has no caller left and is not judged); Execs still running after the last budgeted action are answered (success) at the start of the closing phase; two in-memory sections of different manager goroutines with no Store call between them are not interleaved at statement level")
		run.Assume("start-up scenarios (configurations 'scn-q' / 'scn-t', tagreplication.Store): addresses D (pattern lists [a/.*], [a/.* b/.*], [a/.* b/.* c/.*], [a/x.* a/.*], [a/.* a/x.*], [b/.* a/x.* a/.*]) and optionally E ([b/.* a/.*]; scope t also [a/.*]) in both address orders (RemotesConfig.Build ranges over a map: the harness builds the real Remotes per address with the real Build and concatenates them in the scenario's order); tags a/x:1, a/y:1 (only with a/x.* configured), b/x:1, c/x:1; t1, t2 = two distinct tasks (tag, address) the configuration declares valid (scope q: unordered pairs, scope t: ordered pairs); an Add is offered only for a task the running process's configuration declares valid (kraken creates tasks from Remotes.Match); 'chg': a restarted process may lack exactly one (address, pattern) entry of its predecessor's configuration (never all of them); a stored task that the new configuration no longer declares valid MAY be deleted by the start-up (documented exception; not required), every other stored task must survive the restart")
		run.Assume("tr configurations without scenario choice: one remote 'dest' with pattern .*, tasks (t1, dest), (t2, dest); writeback.NewStore has no start-up work (it is called on every restart all the same)")

		if p := run.ReplayPath(); p != "" {
			replay(run, p)
			return
		}

		agg := map[string]int{}
		for _, cfg := range configs(run.Thorough()) {
			h := harnessFor(cfg)
			maxDur := cfg.cap
			if v := os.Getenv("C30_MAXDUR"); v != "" { // development only
				fmt.Sscanf(v, "%d", &maxDur)
			}
			_, o1, v1 := vrt.Replay(h, nil)
			_, o2, v2 := vrt.Replay(h, nil)
			if o1 != o2 || explVerdict(v1) != explVerdict(v2) {
				run.Fatal(fmt.Errorf("non-deterministic replay in %s: %q/%q vs %q/%q", cfg.name(), o1, v1, o2, v2))
			}
			res := rep.VRT(run, h, maxSteps+1, evid.Workers(), maxDur, func(v vrt.Violation) string {
				if strings.HasPrefix(v.Msg, "HARNESS-ERROR") {
					run.Fatal(fmt.Errorf("%s: %s (choices %v)", v.Harness, v.Msg, v.Choices))
				}
				return fingerprint(v)
			})
			for obs, n := range res.Outcomes {
				for k, v := range flagRe(obs) {
					if v > 0 {
						agg[k] += n
					}
				}
			}
		}
		for k, v := range agg {
			run.Set("executions_with:"+k, v)
		}
		// (the last four: a failing write landed between the effect and the return of the
		// poller's read / a read landed inside a failing write's window / a crash hit a
		// call between effect and return — the collisions the two-seam part exists for)
		// (from "restartWithStored" on: the start-up scenarios — a restart with an unchanged remotes
		// configuration found a stored task that is valid through the 2nd / 3rd / several patterns of its
		// address, whose tag is also valid at an address configured earlier, two stored tasks with one tag
		// and two destinations; a restart with a changed configuration found a still valid task, and one
		// deleted an invalidated task)
		for _, need := range []string{"crashBetweenExecOkAndRemove", "crash@Exec", "dupAdd", "execFail", "crash@MarkFailed",
			"failWriteInsideEmptyGetFailedWindow", "failWriteInsideGetFailedWindow", "getFailedInsideFailWriteWindow", "crash@MarkFailed.ret",
			"restartWithStored:firstPatternOnly", "restartWithStored:secondPatternOnly", "restartWithStored:thirdPatternOnly", "restartWithStored:severalPatterns",
			"restartWithStored:tagValidAtEarlierAddressToo", "restartWithStored:tagValidAtLaterAddressToo", "restartWithStored:sameTagTwoDestinations",
			"restartChangedCfgWithStored:secondPatternOnly", "restartChangedCfgWithStored:invalid", "deletedAtStartAsInvalid"} {
			if agg[need] == 0 && run.NViolations() == 0 && os.Getenv("C30_CFG") == "" {
				run.Fatal(fmt.Errorf("vacuous: no execution with %s", need))
			}
		}
		run.Finish()
	})
}

func replay(run *evid.Run, path string) {
	b, err := os.ReadFile(path)
	if err != nil {
		run.Fatal(err)
	}
	var f struct {
		Case struct {
			Harness string
			Choices []int
		} `json:"case"`
	}
	if err := json.Unmarshal(b, &f); err != nil {
		run.Fatal(err)
	}
	for _, th := range []bool{false, true} {
		for _, cfg := range configs(th) {
			if cfg.name() != f.Case.Harness {
				continue
			}
			x, obs, vio := vrt.Replay(harnessFor(cfg), f.Case.Choices)
			for i, p := range x.Points {
				fmt.Printf("  %2d: %s (choice %d of %d)\n", i, p.Label, p.Chosen, p.NEnabled)
			}
			fmt.Printf("observation: %s\nviolation: %s\n", obs, vio)
			if vio != "" {
				os.Exit(1)
			}
			os.Exit(0)
		}
	}
	run.Fatal(fmt.Errorf("unknown harness %q", f.Case.Harness))
}
