//go:build go1.25

// Start-up scenarios of the real stores: the remotes configuration the real
// tagreplication.Store is opened with (tagreplication.NewStore deletes, at every
// process start, the stored tasks its RemoteValidator calls invalid) and the
// identities (tag, destination) of the two tasks of a history.
//
// The validator is the REAL tagreplication.Remotes, built by the real
// RemotesConfig.Build. Build ranges over a Go map, so the order of the
// addresses in the result is not determined; the harness makes that order a
// dimension of its own: it calls Build once per address and concatenates the
// results in the order of the scenario (every Remotes value Build can return
// for the whole configuration is one of these concatenations).
//
// The oracle's notion of "valid" is computed here from the configuration text
// alone (some pattern configured for the address matches the tag), never by the
// code under test.
package main

import (
	"fmt"
	"regexp"
	"sort"
	"strings"
	"sync"

	"github.com/uber/kraken/lib/persistedretry/tagreplication"
)

// ident is the primary key of a task in its table: writeback (namespace, name),
// tagreplication (tag, destination).
type ident struct{ a, b string }

func (i ident) String() string { return i.a + "@" + i.b }

// remotesCfg is a RemotesConfig with an explicit address order.
type remotesCfg struct {
	order []string
	pats  map[string][]string
}

var (
	reMu    sync.Mutex
	reCache = map[string]*regexp.Regexp{}
)

func compiled(p string) *regexp.Regexp {
	reMu.Lock()
	defer reMu.Unlock()
	r := reCache[p]
	if r == nil {
		r = regexp.MustCompile(p)
		reCache[p] = r
	}
	return r
}

// positions returns the (1-based) positions of the patterns configured for addr
// that match tag. Oracle side: the task (tag, addr) is valid iff it is non-empty.
func (rc remotesCfg) positions(tag, addr string) []int {
	var out []int
	for i, p := range rc.pats[addr] {
		if compiled(p).MatchString(tag) {
			out = append(out, i+1)
		}
	}
	return out
}

func (rc remotesCfg) valid(id ident) bool { return len(rc.positions(id.a, id.b)) > 0 }

// addrsOf returns, in configuration order, the addresses tag is valid for.
func (rc remotesCfg) addrsOf(tag string) []string {
	var out []string
	for _, a := range rc.order {
		if len(rc.positions(tag, a)) > 0 {
			out = append(out, a)
		}
	}
	return out
}

func (rc remotesCfg) String() string {
	var parts []string
	for _, a := range rc.order {
		parts = append(parts, a+"["+strings.Join(rc.pats[a], " ")+"]")
	}
	return strings.Join(parts, "")
}

// build makes the real validator: RemotesConfig.Build per address, concatenated
// in rc.order.
func (rc remotesCfg) build() (tagreplication.Remotes, error) {
	var all tagreplication.Remotes
	for _, a := range rc.order {
		rs, err := tagreplication.RemotesConfig{a: rc.pats[a]}.Build()
		if err != nil {
			return nil, err
		}
		all = append(all, rs...)
	}
	return all, nil
}

// without returns the configuration with the i-th (0-based) pattern of addr
// removed; an address left without patterns disappears.
func (rc remotesCfg) without(addr string, i int) remotesCfg {
	n := remotesCfg{pats: map[string][]string{}}
	for _, a := range rc.order {
		ps := append([]string(nil), rc.pats[a]...)
		if a == addr {
			ps = append(ps[:i], ps[i+1:]...)
		}
		if len(ps) == 0 {
			continue
		}
		n.order = append(n.order, a)
		n.pats[a] = ps
	}
	return n
}

// entries lists every (address, pattern index) of the configuration.
func (rc remotesCfg) entries() (out []struct {
	addr string
	i    int
}) {
	for _, a := range rc.order {
		for i := range rc.pats[a] {
			out = append(out, struct {
				addr string
				i    int
			}{a, i})
		}
	}
	return out
}

// scenario: the remotes configuration of the first process and the two tasks.
type scenario struct {
	rc     remotesCfg
	t1, t2 ident
	hasT2  bool
}

func (s scenario) String() string {
	out := fmt.Sprintf("%s t1=%s", s.rc, s.t1)
	if s.hasT2 {
		out += " t2=" + s.t2.String()
	}
	return out
}

const (
	pa  = "a/.*"
	pax = "a/x.*" // overlaps pa: every tag it matches, pa matches too
	pb  = "b/.*"
	pc  = "c/.*"
)

// the tags: a/x:1 matches pa and pax, a/y:1 matches pa only, b/x:1 pb, c/x:1 pc.
// (The patterns are used unanchored by kraken; no tag of the alphabet contains a
// pattern's prefix anywhere but at its start, so anchoring makes no difference.)
var tagAlphabet = []string{"a/x:1", "a/y:1", "b/x:1", "c/x:1"}

// pattern lists of address D: 1..3 patterns; [pax pa] / [pa pax] / [pb pax pa]
// overlap. Pattern lists of the optional second address E.
var (
	dLists = [][]string{{pa}, {pa, pb}, {pa, pb, pc}, {pax, pa}, {pa, pax}, {pb, pax, pa}}
	eLists = map[string][][]string{
		"q": {nil, {pb, pa}},
		"t": {nil, {pa}, {pb, pa}},
	}
)

func hasPat(rc remotesCfg, p string) bool {
	for _, ps := range rc.pats {
		for _, q := range ps {
			if q == p {
				return true
			}
		}
	}
	return false
}

// validTasks: every (tag, address) of the alphabet that the configuration
// declares valid, ordered by tag then configuration order of the address. The
// tag a/y:1 is only used with configurations that contain pax (elsewhere it is
// indistinguishable from a/x:1).
func validTasks(rc remotesCfg) []ident {
	var out []ident
	for _, tag := range tagAlphabet {
		if tag == "a/y:1" && !hasPat(rc, pax) {
			continue
		}
		for _, a := range rc.addrsOf(tag) {
			out = append(out, ident{tag, a})
		}
	}
	return out
}

func remoteConfigs(scope string) []remotesCfg {
	var out []remotesCfg
	for _, dl := range dLists {
		for _, el := range eLists[scope] {
			if el == nil {
				out = append(out, remotesCfg{order: []string{"D"}, pats: map[string][]string{"D": dl}})
				continue
			}
			for _, order := range [][]string{{"D", "E"}, {"E", "D"}} {
				out = append(out, remotesCfg{order: order, pats: map[string][]string{"D": dl, "E": el}})
			}
		}
	}
	return out
}

var (
	scnMu    sync.Mutex
	scnCache = map[string][]scenario{}
)

// scenarios enumerates the scenario space of a scope:
//
//	"q": every configuration of remoteConfigs("q") x every unordered pair {t1,t2}
//	     of distinct valid tasks (t1 before t2 in validTasks order); a configuration
//	     with a single valid task gives one scenario without t2
//	"t": every configuration of remoteConfigs("t") x every ordered pair
func scenarios(scope string) []scenario {
	scnMu.Lock()
	defer scnMu.Unlock()
	if l, ok := scnCache[scope]; ok {
		return l
	}
	var out []scenario
	for _, rc := range remoteConfigs(scope) {
		ts := validTasks(rc)
		if len(ts) == 1 {
			out = append(out, scenario{rc: rc, t1: ts[0]})
			continue
		}
		for i, t1 := range ts {
			for j, t2 := range ts {
				if i == j || (scope == "q" && j < i) {
					continue
				}
				out = append(out, scenario{rc: rc, t1: t1, t2: t2, hasT2: true})
			}
		}
	}
	scnCache[scope] = out
	return out
}

// posClass names how a stored task is valid under a configuration (vacuity
// counters: which start-up cases the exploration reached).
func posClass(rc remotesCfg, id ident) []string {
	pos := rc.positions(id.a, id.b)
	var out []string
	switch {
	case len(pos) == 0:
		return []string{"invalid"}
	case len(pos) > 1:
		out = append(out, "severalPatterns")
	case pos[0] == 1:
		out = append(out, "firstPatternOnly")
	case pos[0] == 2:
		out = append(out, "secondPatternOnly")
	default:
		out = append(out, "thirdPatternOnly")
	}
	as := rc.addrsOf(id.a)
	if len(as) > 1 {
		if as[0] == id.b {
			out = append(out, "tagValidAtLaterAddressToo")
		} else {
			out = append(out, "tagValidAtEarlierAddressToo")
		}
	}
	sort.Strings(out)
	return out
}
