// C23: active health checks follow the documented hysteresis.
// E3: explicit-state BFS over all round histories (host list = any subset of
// {x,y,z}, one scripted pass/fail outcome per listed host) on the real
// healthcheck.NewFilter with a scripted Checker, compared after every round
// with a reference model that is the literal predicate of the statement.
// A second search gives slow check outcomes (timeouts, late answers) under
// testing/synctest; a third one (monitor.go) runs the same rounds through a
// real healthcheck.Monitor's timer loop in virtual time and applies the same
// oracle to Monitor.Resolve.
package main

import (
	"context"
	"errors"
	"fmt"
	"sort"
	"strings"
	"sync"
	"testing"
	"testing/synctest"
	"time"

	"github.com/uber/kraken/lib/healthcheck"
	"github.com/uber/kraken/utils/stringset"

	"verif/bfs"
	"verif/e1q"
	"verif/evid"
	_ "verif/quiet"
	"verif/rep"
)

// ---------------------------------------------------------------- scripted checker

type scripted struct {
	mu    sync.Mutex
	out   map[string]bool // host -> passes in the current round
	slow  map[string]byte // host -> 't' (blocks until the deadline, returns ctx.Err()) or 'L' (ignores ctx, passes after 2x Timeout)
	calls []string
}

const checkTimeout = time.Hour // virtual inside the synctest bubble of the timeout search

var errScripted = errors.New("scripted check failure")

func (c *scripted) Check(ctx context.Context, addr string) error {
	c.mu.Lock()
	c.calls = append(c.calls, addr)
	pass, ok := c.out[addr]
	slow := c.slow[addr]
	c.mu.Unlock()
	switch slow {
	case 't':
		<-ctx.Done()
		return ctx.Err()
	case 'L':
		time.Sleep(2 * checkTimeout)
		return nil
	}
	if ok && pass {
		return nil
	}
	return errScripted
}

func (c *scripted) round(out map[string]bool, slow map[string]byte) {
	c.mu.Lock()
	c.out = out
	c.slow = slow
	c.calls = nil
	c.mu.Unlock()
}

func (c *scripted) taken() []string {
	c.mu.Lock()
	defer c.mu.Unlock()
	r := append([]string{}, c.calls...)
	sort.Strings(r)
	return r
}

// ---------------------------------------------------------------- vacuity / coverage events

type eventSet struct {
	mu sync.Mutex
	m  map[string]map[string]struct{}
}

var events = &eventSet{m: map[string]map[string]struct{}{}}

// record notes that the transition id (config|pre-state|op) exhibited event ev;
// replays of the same transition are counted once.
func (e *eventSet) record(ev, id string) {
	e.mu.Lock()
	if e.m[ev] == nil {
		e.m[ev] = map[string]struct{}{}
	}
	e.m[ev][id] = struct{}{}
	e.mu.Unlock()
}

// ---------------------------------------------------------------- model

// hostModel is the statement, word for word: a host that appears (first time
// or after an absence) starts healthy with no check history; it becomes
// unhealthy when it is healthy and its last Fails checks all failed; it becomes
// healthy again when it is unhealthy and its last Passes checks all passed.
type hostModel struct {
	seen      bool   // was in some list before
	present   bool   // was in the list of the latest round
	healthy   bool   // meaningful while present
	checks    []bool // check outcomes since it (re)appeared
	rejoin    string // "", "sync", "single": how its latest absence looked (fingerprint only)
	absSynced bool   // during the current absence some round had a list of size != 1
	fresh     bool   // appeared (first time ever) in the latest round
	flipped   bool   // changed health in the latest round
}

func lastAll(cs []bool, n int, v bool) bool {
	if n <= 0 || len(cs) < n {
		return false
	}
	for _, c := range cs[len(cs)-n:] {
		if c != v {
			return false
		}
	}
	return true
}

type sys struct {
	name          string
	hosts         []string
	fails, passes int
	chk           *scripted
	f             healthcheck.Filter
	m             map[string]*hostModel
	run           *evid.Run
	timeouts      bool // outcome alphabet also has t (timed out) and L (answers OK after the deadline)
	mon           *monDriver // non-nil: the rounds are run by a real Monitor's timer loop (see monitor.go)
	where         string     // fingerprint prefix naming the observation point ("" = Filter.Run)
}

func newTimeoutSys(run *evid.Run, hosts []string, fails, passes int) *sys {
	s := newSys(run, hosts, fails, passes)
	s.timeouts = true
	s.name = "T" + s.name
	return s
}

func newSys(run *evid.Run, hosts []string, fails, passes int) *sys {
	chk := &scripted{}
	s := &sys{
		name:   fmt.Sprintf("F%dP%d", fails, passes),
		hosts:  hosts,
		fails:  fails,
		passes: passes,
		chk:    chk,
		// Timeout far beyond any run: the scripted checker answers immediately,
		// the per-check timeout never decides an outcome.
		f:   healthcheck.NewFilter(healthcheck.FilterConfig{Fails: fails, Passes: passes, Timeout: time.Hour}, chk),
		m:   map[string]*hostModel{},
		run: run,
	}
	for _, h := range hosts {
		s.m[h] = &hostModel{}
	}
	return s
}

func (s *sys) Close() {
	if s.mon != nil {
		s.mon.close()
	}
}

// Ops: every subset of the hosts as the list of the round (including the empty
// list) x every pass(+)/fail(-) outcome per listed host; fewest hosts first.
func (s *sys) Ops() []string {
	if s.mon != nil && !s.mon.started {
		return s.initOps()
	}
	n := len(s.hosts)
	var masks []int
	for m := 0; m < 1<<n; m++ {
		masks = append(masks, m)
	}
	sort.SliceStable(masks, func(i, j int) bool { return popcount(masks[i]) < popcount(masks[j]) })
	var ops []string
	for _, m := range masks {
		var listed []string
		for i, h := range s.hosts {
			if m&(1<<i) != 0 {
				listed = append(listed, h)
			}
		}
		if len(listed) == 0 {
			ops = append(ops, "none")
			continue
		}
		for o := (1 << len(listed)) - 1; o >= 0; o-- { // all-pass first
			var toks []string
			for i, h := range listed {
				if o&(1<<i) != 0 {
					toks = append(toks, h+"+")
				} else {
					toks = append(toks, h+"-")
				}
			}
			ops = append(ops, strings.Join(toks, " "))
		}
		if s.timeouts {
			// every outcome vector over {+,-,t,L} with at least one slow check
			sym := []string{"+", "-", "t", "L"}
			total := 1
			for range listed {
				total *= 4
			}
			for o := 0; o < total; o++ {
				var toks []string
				anySlow := false
				x := o
				for _, h := range listed {
					toks = append(toks, h+sym[x%4])
					anySlow = anySlow || x%4 >= 2
					x /= 4
				}
				if anySlow {
					ops = append(ops, strings.Join(toks, " "))
				}
			}
		}
	}
	return ops
}

func popcount(m int) int {
	c := 0
	for ; m != 0; m &= m - 1 {
		c++
	}
	return c
}

func parseOp(op string) (list []string, out map[string]bool, slow map[string]byte, err error) {
	out = map[string]bool{}
	slow = map[string]byte{}
	if op == "none" {
		return nil, out, slow, nil
	}
	for _, t := range strings.Fields(op) {
		if len(t) < 2 {
			return nil, nil, nil, fmt.Errorf("bad op token %q", t)
		}
		h, o := t[:len(t)-1], t[len(t)-1]
		if !strings.ContainsRune("+-tL", rune(o)) {
			return nil, nil, nil, fmt.Errorf("bad op token %q", t)
		}
		list = append(list, h)
		// a check that has not answered when the timeout expires is a failed
		// check, whatever it answers later
		out[h] = o == '+'
		if o == 't' || o == 'L' {
			slow[h] = o
		}
	}
	return list, out, slow, nil
}

func (s *sys) Apply(op string) error {
	isInit := strings.HasPrefix(op, "init:")
	var list []string
	var out map[string]bool
	var slow map[string]byte
	var err error
	if isInit {
		if s.mon == nil || s.mon.started {
			return fmt.Errorf("op %q outside the start of a monitor history", op)
		}
		list, out, slow = strings.Fields(strings.TrimPrefix(op, "init:")), map[string]bool{}, map[string]byte{}
	} else if list, out, slow, err = parseOp(op); err != nil {
		return err
	}
	id := s.name + "|" + s.modelKey() + "|" + op
	inList := map[string]bool{}
	for _, h := range list {
		inList[h] = true
	}

	// 1. membership, as the statement words it.
	for _, h := range s.hosts {
		hm := s.m[h]
		hm.fresh, hm.flipped = false, false
		if !inList[h] {
			if hm.present {
				hm.present = false
				hm.absSynced = false
			}
			if hm.seen && len(list) != 1 {
				hm.absSynced = true
			}
			continue
		}
		if !hm.present {
			if hm.seen {
				hm.rejoin = "single"
				if hm.absSynced {
					hm.rejoin = "sync"
				}
				events.record("rejoin_"+hm.rejoin, id)
			} else {
				hm.fresh = true
				hm.rejoin = ""
			}
			hm.seen, hm.present, hm.healthy, hm.checks = true, true, true, nil
		}
	}

	// 2. the real filter runs the round.
	s.chk.round(out, slow)
	var got stringset.Set
	if s.mon != nil {
		// the real Monitor runs the round from its timer loop (virtual time);
		// got is what Monitor.Resolve reports once the round has been published.
		// The initial op constructs the Monitor on the given list (NewMonitor
		// resolves it once and publishes it without a filter round: to the model
		// a round in which no host was checked).
		if got, err = s.mon.step(s, isInit, list); err != nil {
			return err
		}
		events.record("monitor_round_list_size_"+fmt.Sprint(min(len(list), 2)), id)
	} else if s.timeouts {
		// virtual time: the round, its timeout and every late answer happen
		// inside one bubble, which ends only when all its goroutines are gone
		synctest.Test(e1q.T(), func(*testing.T) {
			got = s.f.Run(stringset.New(list...))
			// bubble time stops when this function returns: let the late answers
			// (2x Timeout) arrive and be handled first
			time.Sleep(3 * checkTimeout)
			synctest.Wait()
		})
		if len(slow) > 0 {
			events.record("round_with_timed_out_check", id)
		}
	} else {
		got = s.f.Run(stringset.New(list...))
	}
	calls := s.chk.taken()

	// 3. every check the implementation actually performed on a listed host
	// feeds the hysteresis (the statement does not say which rounds check which
	// hosts: the model follows the observed choice, e.g. no check in a
	// single-host round).
	for _, h := range calls {
		hm, ok := s.m[h]
		if !ok || !inList[h] {
			continue
		}
		events.record("check_executed", id+"|"+h)
		if hm.rejoin != "" && len(hm.checks) >= s.fails && len(hm.checks) >= s.passes {
			// max(Fails,Passes) checks since it rejoined: from here on its health
			// is decided by those checks alone; a later mismatch is a hysteresis
			// failure, not a rejoin failure (label only, the oracle is unchanged).
			hm.rejoin = ""
		}
		hm.checks = append(hm.checks, out[h])
		if hm.healthy && lastAll(hm.checks, s.fails, false) {
			hm.healthy, hm.flipped = false, true
			events.record("became_unhealthy", id+"|"+h)
		} else if !hm.healthy && lastAll(hm.checks, s.passes, true) {
			hm.healthy, hm.flipped = true, true
			events.record("became_healthy_again", id+"|"+h)
		}
	}

	// 4. oracle: Run result == the set the statement describes.
	for a := range got {
		if !inList[a] {
			return bfs.Failf(s.where+"Run result contains a host that is not in the list", "%s op %q: result %v", s.name, op, sorted(got))
		}
	}
	if len(list) == 1 {
		if !s.m[list[0]].healthy {
			events.record("single_host_override", id)
		}
		if !got.Has(list[0]) {
			return bfs.Failf(s.where+"single-host list not reported healthy", "%s op %q: result %v", s.name, op, sorted(got))
		}
	} else {
		for _, h := range list {
			hm := s.m[h]
			if got.Has(h) == hm.healthy {
				continue
			}
			return bfs.Failf(s.where+s.fingerprint(hm, got.Has(h)),
				"%s op %q: host %s reported healthy=%v, statement says healthy=%v (checks since it appeared: %s); result %v; filter state %s",
				s.name, op, h, got.Has(h), hm.healthy, outcomes(hm.checks), sorted(got), s.filterDump())
		}
	}
	if s.nontrivial() {
		s.run.Distinct(s.name + "|" + s.modelKey())
	}
	return nil
}

func (s *sys) fingerprint(hm *hostModel, gotHealthy bool) string {
	switch {
	case gotHealthy && hm.flipped:
		// decided by the latest Fails checks alone, however the host got here
		return "host still reported healthy after its last Fails checks failed"
	case hm.rejoin == "sync" && s.mon != nil:
		return "host that left and rejoined is not treated as a new healthy host (a list of 0 or >=2 hosts was resolved during its absence)"
	case hm.rejoin == "single" && s.mon != nil:
		return "host that left and rejoined is not treated as a new healthy host (only single-host lists were resolved during its absence)"
	case hm.rejoin == "sync":
		return "host that left and rejoined is not treated as a new healthy host (a list of 0 or >=2 hosts was filtered during its absence)"
	case hm.rejoin == "single":
		return "host that left and rejoined is not treated as a new healthy host (only single-host lists were filtered during its absence)"
	case hm.fresh:
		return "host listed for the first time does not start healthy"
	case gotHealthy:
		return "host reported healthy again before Passes consecutive passed checks"
	case hm.flipped:
		return "host still reported unhealthy after Passes consecutive passed checks"
	default:
		return "host reported unhealthy although its last Fails checks did not all fail"
	}
}

func (s *sys) nontrivial() bool {
	for _, h := range s.hosts {
		hm := s.m[h]
		if hm.seen && (!hm.present || !hm.healthy || hm.rejoin != "") {
			return true
		}
	}
	return false
}

func outcomes(cs []bool) string {
	var b strings.Builder
	for _, c := range cs {
		if c {
			b.WriteByte('+')
		} else {
			b.WriteByte('-')
		}
	}
	if b.Len() == 0 {
		return "(none)"
	}
	return b.String()
}

func sorted(s stringset.Set) []string {
	r := s.ToSlice()
	sort.Strings(r)
	return r
}

// modelKey: per host everything the model's future depends on -- present,
// healthy and the trailing run of equal outcomes (capped at max(Fails,Passes),
// longer runs behave identically in the model) -- plus the fingerprint tags.
func (s *sys) modelKey() string {
	capN := s.fails
	if s.passes > capN {
		capN = s.passes
	}
	var b strings.Builder
	for _, h := range s.hosts {
		hm := s.m[h]
		switch {
		case !hm.seen:
			b.WriteString(h + ":new ")
		case !hm.present:
			fmt.Fprintf(&b, "%s:gone(sync=%v) ", h, hm.absSynced)
		default:
			n, v := 0, false
			if len(hm.checks) > 0 {
				v = hm.checks[len(hm.checks)-1]
				for i := len(hm.checks) - 1; i >= 0 && hm.checks[i] == v && n < capN; i-- {
					n++
				}
			}
			sign := "+"
			if !v {
				sign = "-"
			}
			fmt.Fprintf(&b, "%s:h%v,%s%d,%s ", h, hm.healthy, sign, n, hm.rejoin)
		}
	}
	return b.String()
}

// Key = model state + the implementation's internal state (never coarser than
// what Run can observe later).
func (s *sys) Key() string {
	if s.mon != nil {
		// + what the Monitor currently publishes (it persists between rounds)
		return s.modelKey() + "#" + s.filterDump() + "#" + s.mon.published()
	}
	return s.modelKey() + "#" + s.filterDump()
}

func (s *sys) filterDump() string {
	if s.f == nil {
		return "(no filter yet)"
	}
	return healthcheck.VerifFilterDump(s.f)
}

// ---------------------------------------------------------------- main

func main() { e1q.Main(func(*testing.T) { realMain() }) }

func realMain() {
	run := evid.New("C23", "model_checking")
	run.Rule = "E3: per (Fails,Passes) configuration, BFS over all histories of health-check rounds; one round = host list (any subset of the hosts, hosts leave and rejoin, including the empty and single-host lists) x pass/fail per listed host; after every round the reported set is compared with the literal predicate of the statement. Three searches: (1) Filter: rounds are Filter.Run calls on a real healthcheck.NewFilter with a scripted Checker, states deduplicated on model state + internal filter state (membership, healthy set, trend counters); (2) timeouts: same with slow check outcomes, each round in a synctest bubble; (3) Monitor: a real healthcheck.NewMonitor (real NewFilter, scripted hostlist.List and Checker) lives in one synctest bubble per history, the first op is the list it is constructed on (any subset), every further op scripts the list and the outcomes and advances virtual time by one Interval so that the Monitor's own time.After loop resolves, filters and publishes; observed is Monitor.Resolve after construction and after every round; states deduplicated on model state + filter state + published set. distinct = distinct (search, configuration, model state) triples in which some host is unhealthy, absent after having been listed, or has rejoined."
	run.Assume("small-scope: hosts {x,y,z} (thorough also a 2-host universe), Fails/Passes in 1..3")
	run.Assume("a check outcome is pass, fail, t (the Checker honours the context and returns its error when the 1h Timeout expires) or L (the Checker ignores the context and answers OK after 2x Timeout); t and L are failed checks; the slow outcomes are explored in a separate 2-host search in which every round runs in a testing/synctest bubble (virtual time; the bubble ends when the late answer has been delivered)")
	run.Assume("the statement does not say in which rounds a listed host is checked; the model applies exactly the checks the filter performed (none in single-host rounds, none for the list a Monitor is constructed on)")
	run.Assume("Filter.Run's per-host goroutines update disjoint hosts under one mutex, so a round's result does not depend on their order (not enumerated here)")
	run.Assume("Monitor search: 2 hosts x up to 5 rounds and 3 hosts x up to 3 rounds after construction (thorough 9 / 5), checks answer immediately (pass/fail only), Interval 1 virtual minute, Monitor.Resolve is read half an Interval after every tick; the Monitor resolving its list exactly once per Interval (and once in NewMonitor) is a harness assumption (harness error otherwise); Monitor.Stop is only used for teardown")

	type universe struct {
		hosts []string
		depth int
	}
	us := []universe{{[]string{"x", "y", "z"}, 4}}
	budget := 50 * time.Second
	if run.Thorough() {
		us = []universe{{[]string{"x", "y"}, 10}, {[]string{"x", "y", "z"}, 6}}
		budget = 11 * time.Minute
	}
	deadline := time.Now().Add(budget)
	for _, u := range us {
		for fails := 1; fails <= 3; fails++ {
			for passes := 1; passes <= 3; passes++ {
				u, fails, passes := u, fails, passes
				name := fmt.Sprintf("hosts=%d Fails=%d Passes=%d depth=%d", len(u.hosts), fails, passes, u.depth)
				res := rep.BFS(run, name, bfs.Config{MaxDepth: u.depth, Deadline: deadline, New: func() (bfs.System, error) {
					return newSys(run, u.hosts, fails, passes), nil
				}})
				fmt.Printf("  %s: states=%d transitions=%d reached_depth=%d fixpoint=%v completed=%v\n", name, res.States, res.Transitions, res.MaxDepth, res.Fixpoint, res.Completed)
			}
		}
	}
	// timeout search: 2 hosts, outcome alphabet {+,-,t,L}
	tdepth := 4
	if run.Thorough() {
		tdepth = 6
	}
	for fails := 1; fails <= 3; fails++ {
		for passes := 1; passes <= 3; passes++ {
			fails, passes := fails, passes
			name := fmt.Sprintf("timeouts hosts=2 Fails=%d Passes=%d depth=%d", fails, passes, tdepth)
			res := rep.BFS(run, name, bfs.Config{MaxDepth: tdepth, Deadline: deadline, Workers: 1, New: func() (bfs.System, error) {
				return newTimeoutSys(run, []string{"x", "y"}, fails, passes), nil
			}})
			fmt.Printf("  %s: states=%d transitions=%d reached_depth=%d fixpoint=%v completed=%v\n", name, res.States, res.Transitions, res.MaxDepth, res.Fixpoint, res.Completed)
		}
	}
	// monitor search: the rounds are run by a real Monitor's timer loop
	type muniverse struct {
		hosts  []string
		rounds int
	}
	mus := []muniverse{{[]string{"x", "y"}, 5}, {[]string{"x", "y", "z"}, 3}}
	if run.Thorough() {
		mus = []muniverse{{[]string{"x", "y"}, 9}, {[]string{"x", "y", "z"}, 5}}
	}
	// own budget, so that a slow machine that used up the budget above still
	// runs this search
	mbudget := 40 * time.Second
	if run.Thorough() {
		mbudget = 4 * time.Minute
	}
	if d := time.Now().Add(mbudget); d.After(deadline) {
		deadline = d
	}
	for _, u := range mus {
		for fails := 1; fails <= 3; fails++ {
			for passes := 1; passes <= 3; passes++ {
				u, fails, passes := u, fails, passes
				name := fmt.Sprintf("monitor hosts=%d Fails=%d Passes=%d rounds=%d", len(u.hosts), fails, passes, u.rounds)
				t0 := time.Now()
				res := rep.BFS(run, name, bfs.Config{MaxDepth: 1 + u.rounds, Deadline: deadline, New: func() (bfs.System, error) {
					return newMonSys(run, u.hosts, fails, passes), nil
				}})
				fmt.Printf("  %s: states=%d transitions=%d reached_depth=%d fixpoint=%v completed=%v (%.1fs)\n", name, res.States, res.Transitions, res.MaxDepth, res.Fixpoint, res.Completed, time.Since(t0).Seconds())
			}
		}
	}
	events.mu.Lock()
	for ev, ids := range events.m {
		run.Set("transitions_with_"+ev, len(ids))
	}
	events.mu.Unlock()
	run.Finish()
}
