// Monitor search of C23: the same round alphabet and the same oracle as the
// Filter search, but the rounds are run by a real healthcheck.Monitor (real
// NewFilter inside) from its own time.After loop, and the observation point is
// Monitor.Resolve after every round.
//
// One BFS system = one testing/synctest bubble that lives as long as the
// system: the bubble's root goroutine executes closures handed to it over an
// UNBUBBLED channel (a goroutine waiting on such a channel is not durably
// blocked, so virtual time never moves on its own); the Monitor, its loop
// goroutine, its timers, the Filter and the Filter's per-host goroutines are
// all created inside the bubble. A round = script the host list and the check
// outcomes, time.Sleep(Interval), synctest.Wait(): the Monitor's timer fires,
// it resolves the scripted list, runs its round and publishes; Wait returns
// when the loop is blocked in its next time.After.
package main

import (
	"fmt"
	"sort"
	"strings"
	"sync"
	"testing"
	"testing/synctest"
	"time"

	"github.com/uber/kraken/lib/healthcheck"
	"github.com/uber/kraken/utils/stringset"

	"verif/e1q"
	"verif/evid"
)

const monInterval = time.Minute // virtual

// scriptedList is the hostlist.List the Monitor resolves.
type scriptedList struct {
	mu    sync.Mutex
	cur   []string
	calls int
}

func (l *scriptedList) set(hosts []string) {
	l.mu.Lock()
	l.cur = append([]string{}, hosts...)
	l.mu.Unlock()
}

// Resolve returns a fresh set every time (as the real host lists do).
func (l *scriptedList) Resolve() stringset.Set {
	l.mu.Lock()
	defer l.mu.Unlock()
	l.calls++
	return stringset.New(l.cur...)
}

func (l *scriptedList) resolves() int {
	l.mu.Lock()
	defer l.mu.Unlock()
	return l.calls
}

// monDriver owns the bubble of one system.
type monDriver struct {
	cmd     chan func() // unbubbled
	done    chan struct{}
	failed  string // panic inside the bubble
	started bool   // the Monitor exists
	list    *scriptedList
	mon     *healthcheck.Monitor
}

func newMonDriver() *monDriver {
	d := &monDriver{cmd: make(chan func()), done: make(chan struct{}), list: &scriptedList{}}
	go func() {
		defer close(d.done)
		defer func() {
			if r := recover(); r != nil {
				d.failed = fmt.Sprint(r)
			}
		}()
		synctest.Test(e1q.T(), func(*testing.T) {
			for f := range d.cmd {
				f()
			}
		})
	}()
	return d
}

// do runs f on the bubble's root goroutine and waits for it.
func (d *monDriver) do(f func()) error {
	ack := make(chan struct{})
	select {
	case d.cmd <- func() { defer close(ack); f() }:
	case <-d.done:
		return fmt.Errorf("monitor bubble ended early: %s", d.failed)
	}
	select {
	case <-ack:
		return nil
	case <-d.done:
		return fmt.Errorf("monitor bubble ended early: %s", d.failed)
	}
}

// step runs one op through the Monitor and returns what Monitor.Resolve
// reports afterwards.
func (d *monDriver) step(s *sys, isInit bool, list []string) (stringset.Set, error) {
	var got stringset.Set
	var herr error
	err := d.do(func() {
		d.list.set(list)
		before := d.list.resolves()
		if isInit {
			s.f = healthcheck.NewFilter(healthcheck.FilterConfig{Fails: s.fails, Passes: s.passes, Timeout: time.Hour}, s.chk)
			d.mon = healthcheck.NewMonitor(healthcheck.MonitorConfig{Interval: monInterval}, d.list, s.f)
			d.started = true
			// observe between two ticks from now on: the harness clock and the
			// Monitor's timers never expire at the same instant
			time.Sleep(monInterval / 2)
		} else {
			time.Sleep(monInterval)
		}
		synctest.Wait()
		if n := d.list.resolves() - before; n != 1 {
			herr = fmt.Errorf("harness assumption broken: the Monitor resolved the host list %d times (expected once: NewMonitor once, then once per Interval)", n)
			return
		}
		got = d.mon.Resolve().Copy()
	})
	if err != nil {
		return nil, err
	}
	return got, herr
}

// published renders what Monitor.Resolve reports now.
func (d *monDriver) published() string {
	if !d.started {
		return "(no monitor yet)"
	}
	var r []string
	if err := d.do(func() { r = d.mon.Resolve().ToSlice() }); err != nil {
		return "?" + err.Error()
	}
	sort.Strings(r)
	return "published{" + strings.Join(r, ",") + "}"
}

func (d *monDriver) close() {
	d.do(func() {
		if d.mon != nil {
			d.mon.Stop()
			synctest.Wait()
		}
	})
	close(d.cmd)
	<-d.done
}

func newMonSys(run *evid.Run, hosts []string, fails, passes int) *sys {
	chk := &scripted{}
	s := &sys{
		name:   fmt.Sprintf("M%dF%dP%d", len(hosts), fails, passes),
		hosts:  hosts,
		fails:  fails,
		passes: passes,
		chk:    chk,
		m:      map[string]*hostModel{},
		run:    run,
		mon:    newMonDriver(),
		where:  "Monitor.Resolve: ",
	}
	for _, h := range hosts {
		s.m[h] = &hostModel{}
	}
	return s
}

// initOps: the list the Monitor is constructed on, any subset of the hosts.
func (s *sys) initOps() []string {
	n := len(s.hosts)
	var masks []int
	for m := 0; m < 1<<n; m++ {
		masks = append(masks, m)
	}
	sort.SliceStable(masks, func(i, j int) bool { return popcount(masks[i]) > popcount(masks[j]) }) // full list first
	var ops []string
	for _, m := range masks {
		var listed []string
		for i, h := range s.hosts {
			if m&(1<<i) != 0 {
				listed = append(listed, h)
			}
		}
		ops = append(ops, "init:"+strings.Join(listed, " "))
	}
	return ops
}
