//go:build go1.25

// C20: the announce queue holds each torrent once and serves them in order.
// E3 (queue level): explicit-state BFS over all Add/Next/Ready/Eject histories
// on the REAL announcequeue.QueueImpl, compared step by step with a reference
// model (FIFO list of waiting torrents + set of torrents with an announce in
// flight). Scheduler level (E1q, harness verif/schedh shared with C17): over all
// explored orders of scheduler events the real event handlers never call Add for
// a torrent that is still in the queue (the queue documents that as undefined).
package main

import (
	"encoding/json"
	"fmt"
	"os"
	"sort"
	"strings"
	"testing"

	"github.com/uber/kraken/core"
	"github.com/uber/kraken/lib/torrent/scheduler/announcequeue"

	"verif/bfs"
	"verif/e1q"
	"verif/evid"
	_ "verif/quiet"
	"verif/rep"
	"verif/schedh"
	"verif/vrt"
)

func hashOf(i int) core.InfoHash {
	var h core.InfoHash
	for k := range h {
		h[k] = byte(0xa0 + i)
	}
	return h
}

func nameOf(h core.InfoHash) string {
	if h == (core.InfoHash{}) {
		return "<zero>"
	}
	i := int(h[0]) - 0xa0
	if i >= 0 && i < 26 && h == hashOf(i) {
		return string(rune('a' + i))
	}
	return "?" + h.Hex()[:6]
}

// sys = real queue + reference model.
type sys struct {
	n int
	q *announcequeue.QueueImpl

	// model
	ready   []int        // waiting torrents, front first
	pending map[int]bool // announce in flight
	ejected map[int]bool // was in the queue once and has been removed since (classification only)

	cls string // class of the last transition (vacuity accounting)
}

func newSys(n int) *sys {
	return &sys{n: n, q: announcequeue.New(), pending: map[int]bool{}, ejected: map[int]bool{}}
}

func (s *sys) Close() {}

func (s *sys) inReady(x int) bool {
	for _, y := range s.ready {
		if y == x {
			return true
		}
	}
	return false
}

func (s *sys) Ops() []string {
	var ops []string
	for x := 0; x < s.n; x++ {
		// Add is documented as undefined when the torrent is already in the
		// queue: offered only when the model says it is not.
		if !s.inReady(x) && !s.pending[x] {
			ops = append(ops, fmt.Sprintf("add:%c", 'a'+x))
		}
	}
	ops = append(ops, "next")
	for x := 0; x < s.n; x++ {
		ops = append(ops, fmt.Sprintf("ready:%c", 'a'+x))
	}
	for x := 0; x < s.n; x++ {
		ops = append(ops, fmt.Sprintf("eject:%c", 'a'+x))
	}
	return ops
}

func (s *sys) Apply(op string) (err error) {
	defer func() {
		if r := recover(); r != nil {
			err = bfs.Failf("panic in announce queue ("+strings.SplitN(op, ":", 2)[0]+")", "%v", r)
		}
	}()
	kind, arg := op, ""
	if i := strings.IndexByte(op, ':'); i >= 0 {
		kind, arg = op[:i], op[i+1:]
	}
	x := -1
	if arg != "" {
		x = int(arg[0] - 'a')
		if x < 0 || x >= s.n {
			return fmt.Errorf("bad op %q", op)
		}
	}
	switch kind {
	case "add":
		if s.inReady(x) || s.pending[x] {
			return fmt.Errorf("op %q breaks the Add precondition (harness bug)", op)
		}
		s.q.Add(hashOf(x))
		s.ready = append(s.ready, x)
		delete(s.ejected, x)
		s.cls = "add"
	case "next":
		got, ok := s.q.Next()
		if len(s.ready) == 0 {
			s.cls = "next-empty"
			if ok {
				return s.wrongNext(got, "none is waiting")
			}
			break
		}
		want := s.ready[0]
		s.cls = "next"
		if !ok {
			return bfs.Failf("Next returns nothing although a torrent is waiting", "want %c, model ready=%s", 'a'+want, s.modelString())
		}
		if got != hashOf(want) {
			return s.wrongNext(got, fmt.Sprintf("%c is first", 'a'+want))
		}
		s.ready = s.ready[1:]
		s.pending[want] = true
	case "ready":
		if s.pending[x] {
			delete(s.pending, x)
			s.ready = append(s.ready, x)
			s.cls = "ready-pending"
		} else if s.inReady(x) {
			s.cls = "ready-noop-waiting"
		} else {
			s.cls = "ready-noop-absent"
		}
		s.q.Ready(hashOf(x))
	case "eject":
		switch {
		case s.pending[x]:
			s.cls = "eject-inflight"
		case s.inReady(x):
			s.cls = "eject-waiting"
		default:
			s.cls = "eject-absent"
		}
		if s.pending[x] || s.inReady(x) {
			s.ejected[x] = true
		}
		delete(s.pending, x)
		var nr []int
		for _, y := range s.ready {
			if y != x {
				nr = append(nr, y)
			}
		}
		s.ready = nr
		s.q.Eject(hashOf(x))
	default:
		return fmt.Errorf("bad op %q", op)
	}
	return s.invariants(kind)
}

func (s *sys) wrongNext(got core.InfoHash, why string) error {
	g := nameOf(got)
	for x := 0; x < s.n; x++ {
		if got != hashOf(x) {
			continue
		}
		switch {
		case s.pending[x]:
			return bfs.Failf("Next hands out a torrent whose announce is still in flight", "got %s while %s; model %s", g, why, s.modelString())
		case s.inReady(x):
			return bfs.Failf("Next is not first-come first-served", "got %s while %s; model %s", g, why, s.modelString())
		default:
			return bfs.Failf("Next hands out a torrent that is not in the queue", "got %s while %s; model %s", g, why, s.modelString())
		}
	}
	return bfs.Failf("Next hands out a torrent that is not in the queue", "got %s while %s; model %s", g, why, s.modelString())
}

// invariants compares the real queue's content with the model after op kind.
func (s *sys) invariants(kind string) error {
	ready, pend := s.q.VerifSnapshot()
	after := " (after " + kind + ")"
	cnt := map[core.InfoHash]int{}
	for _, h := range ready {
		cnt[h]++
		if cnt[h] == 2 {
			return bfs.Failf("torrent is twice in the waiting queue"+after, "%s; real %s", nameOf(h), s.realString())
		}
	}
	inPend := map[core.InfoHash]bool{}
	for _, h := range pend {
		inPend[h] = true
		if cnt[h] > 0 {
			return bfs.Failf("torrent is both waiting and in flight"+after, "%s; real %s", nameOf(h), s.realString())
		}
	}
	// per torrent placement
	for x := 0; x < s.n; x++ {
		h := hashOf(x)
		mr, mp := s.inReady(x), s.pending[x]
		rr, rp := cnt[h] > 0, inPend[h]
		if mr == rr && mp == rp {
			continue
		}
		d := fmt.Sprintf("torrent %c: model %s, real %s", 'a'+x, s.modelString(), s.realString())
		switch {
		case !mr && !mp:
			if s.ejected[x] {
				return bfs.Failf("removed torrent is still in the queue"+after, "%s", d)
			}
			return bfs.Failf("torrent that was never added is in the queue"+after, "%s", d)
		case !rr && !rp:
			return bfs.Failf("torrent in the queue is neither waiting nor in flight"+after, "%s", d)
		case mp && rr:
			return bfs.Failf("torrent became ready while its announce is in flight"+after, "%s", d)
		default:
			return bfs.Failf("waiting torrent is marked in flight"+after, "%s", d)
		}
	}
	if len(ready) != len(s.ready) || len(pend) != len(s.pending) {
		return bfs.Failf("queue holds an unknown torrent"+after, "model %s, real %s", s.modelString(), s.realString())
	}
	for i, x := range s.ready {
		if ready[i] != hashOf(x) {
			return bfs.Failf("waiting order is not first-come first-served"+after, "model %s, real %s", s.modelString(), s.realString())
		}
	}
	return nil
}

func (s *sys) modelString() string {
	var b strings.Builder
	b.WriteString("ready=[")
	for _, x := range s.ready {
		b.WriteByte(byte('a' + x))
	}
	b.WriteString("] inflight={")
	for x := 0; x < s.n; x++ {
		if s.pending[x] {
			b.WriteByte(byte('a' + x))
		}
	}
	b.WriteString("}")
	return b.String()
}

func (s *sys) realString() string {
	ready, pend := s.q.VerifSnapshot()
	var r, p []string
	for _, h := range ready {
		r = append(r, nameOf(h))
	}
	for _, h := range pend {
		p = append(p, nameOf(h))
	}
	sort.Strings(p)
	return "ready=[" + strings.Join(r, "") + "] inflight={" + strings.Join(p, "") + "}"
}

// Key: model state + the complete state of the real queue (its only two
// fields, through the snapshot export).
func (s *sys) Key() string {
	return s.modelString() + "|" + s.realString()
}

// recorder wraps a sys to record, per (state, op), the transition class —
// measured vacuity counters that are not inflated by BFS replays.
type recorder struct {
	*sys
	sink *classSink
}

func (r recorder) Apply(op string) error {
	pre := r.sys.Key()
	err := r.sys.Apply(op)
	if err == nil {
		r.sink.put(pre+"#"+op, r.sys.cls)
	}
	return err
}

func searchConfig(n, depth int, sink *classSink) bfs.Config {
	return bfs.Config{MaxDepth: depth, New: func() (bfs.System, error) {
		s := newSys(n)
		if sink == nil {
			return s, nil
		}
		return recorder{s, sink}, nil
	}}
}

func searchName(n, depth int) string { return fmt.Sprintf("queue torrents=%d depth<=%d", n, depth) }

func main() {
	e1q.Main(func(t *testing.T) {
		var hs []*vrt.Harness
		for _, sc := range schedh.Scenarios(true) {
			hs = append(hs, only(schedh.Harness(sc)))
		}
		vrt.WorkerMain(hs)
		realMain()
	})
}

// only keeps the C20 clause (announce-queue Add precondition) of the shared
// scheduler harness's verdict.
func only(h *vrt.Harness) *vrt.Harness {
	h.Name = "scheduler: " + h.Name
	inner := h.RunOnce
	h.RunOnce = func(prefix []int) (*vrt.Exec, string, string) {
		x, obs, vio := inner(prefix)
		return x, obs, schedh.Filter(vio, "C20")
	}
	return h
}

func schedulerPart(run *evid.Run) {
	maxDur := 40
	if run.Thorough() {
		maxDur = 240
	}
	for _, sc := range schedh.Scenarios(run.Thorough()) {
		h := only(schedh.Harness(sc))
		res := rep.VRT(run, h, sc.Bound, evid.Workers(), maxDur, func(v vrt.Violation) string {
			return strings.SplitN(v.Msg, ";", 2)[0]
		})
		run.AddInt("scheduler_level_executions", int64(res.Executions))
	}
}

func realMain() {
	run := evid.New("C20", "model_checking")
	run.Rule = "every history of Add(x) [only when the model says x is not in the queue: double Add is documented as undefined], Next, Ready(x), Eject(x) over n torrents, BFS to the fixpoint of the state graph (state = model FIFO list + in-flight set + full snapshot of the real queue); every transition executed on the real QueueImpl and compared with the model: Next result, no torrent twice / in both sets, Ready of a non-in-flight torrent changes nothing, Eject removes it everywhere, waiting order = arrival order. distinct = distinct reachable states per n."
	run.Assume("queue level: Ready(h) is the queue's only notion of 'the in-flight announce finished'; scheduler level: that the event handlers never call Add for a torrent still in the queue is monitored over all explored event orders of the shared scheduler harness (verif/schedh)")
	run.Assume("small-scope: n torrents (see searches); the state graph is finite for fixed n and searched to its fixpoint, so histories of any length over these torrents are covered")
	run.Assume("QueueImpl has no state besides readyQueue and pending (both exposed read-only through an overlay-added snapshot method)")

	if p := run.ReplayPath(); p != "" {
		replay(run, p)
		return
	}

	ns := []int{3, 4, 5}
	if run.Thorough() {
		ns = []int{3, 4, 5, 6, 7}
	}
	total := newClassSink()
	for _, n := range ns {
		depth := 3*n + 3
		sink := newClassSink()
		name := searchName(n, depth)
		res := rep.BFS(run, name, searchConfig(n, depth, sink))
		if !res.Fixpoint && len(res.Fails) == 0 {
			run.NotExhaustive(name + ": depth bound reached before the fixpoint")
		}
		for i := 0; i < res.States; i++ {
			run.Distinct(fmt.Sprintf("n=%d#%d", n, i))
		}
		for c, k := range sink.counts() {
			total.add(c, k)
		}
	}
	schedulerPart(run)
	cc := total.totals()
	run.Set("transition_classes", cc)
	// vacuity: the interesting transitions must have occurred
	for _, c := range []string{"next", "next-empty", "ready-pending", "ready-noop-waiting", "ready-noop-absent", "eject-inflight", "eject-waiting", "eject-absent", "add"} {
		if cc[c] == 0 && run.NViolations() == 0 {
			run.Fatal(fmt.Errorf("vacuous: no transition of class %q was explored", c))
		}
	}
	run.Finish()
}

func replay(run *evid.Run, path string) {
	b, err := os.ReadFile(path)
	if err != nil {
		run.Fatal(err)
	}
	var rp struct {
		Fingerprint string `json:"fingerprint"`
		Case        struct {
			Search  string   `json:"search"`
			History []string `json:"history"`
		} `json:"case"`
	}
	if err := json.Unmarshal(b, &rp); err != nil {
		run.Fatal(err)
	}
	var n, depth int
	if _, err := fmt.Sscanf(rp.Case.Search, "queue torrents=%d depth<=%d", &n, &depth); err != nil {
		run.Fatal(fmt.Errorf("replay: cannot parse search name %q", rp.Case.Search))
	}
	err = bfs.Replay(searchConfig(n, depth, nil), rp.Case.History)
	run.Eval(len(rp.Case.History))
	run.Distinct("replay")
	run.Distinct("replay:" + rp.Fingerprint)
	if f, ok := err.(*bfs.Fail); ok {
		run.Violation(f.Fingerprint, map[string]interface{}{"search": rp.Case.Search, "history": rp.Case.History, "msg": f.Msg})
	} else if err != nil {
		run.Fatal(err)
	} else {
		fmt.Printf("replay of %v: no violation\n", rp.Case.History)
	}
	run.Finish()
}
