package main

import (
	"hash/fnv"
	"sync"
)

// classSink records one class label per distinct (state, op) transition, so
// the per-class counts are those of the state graph, not of BFS replays.
type classSink struct {
	shards [64]struct {
		mu sync.Mutex
		m  map[uint64]string
	}
	extra map[string]int
}

func newClassSink() *classSink {
	s := &classSink{extra: map[string]int{}}
	for i := range s.shards {
		s.shards[i].m = map[uint64]string{}
	}
	return s
}

func (s *classSink) put(key, class string) {
	h := fnv.New64a()
	h.Write([]byte(key))
	k := h.Sum64()
	sh := &s.shards[k%64]
	sh.mu.Lock()
	sh.m[k] = class
	sh.mu.Unlock()
}

func (s *classSink) counts() map[string]int {
	out := map[string]int{}
	for i := range s.shards {
		for _, c := range s.shards[i].m {
			out[c]++
		}
	}
	return out
}

func (s *classSink) add(class string, n int) { s.extra[class] += n }

func (s *classSink) totals() map[string]int {
	out := s.counts()
	for c, n := range s.extra {
		out[c] += n
	}
	return out
}
